import XsgModel.Model.Chars
import XsgModel.Model.Convert
