import XsgModel.Driver.Proto
import XsgModel.Model.Checks
/-!
# Driver: history cases (`H` lines) and pairs of histories (`PAIR` lines)
-/
namespace Xsg.Driver
open Xsg Xsg.Proto

inductive Verdict where
  | ok
  | corr (what : String)
  | prop (what : String)
  | gen (what : String)

def Verdict.render : Verdict → String
  | .ok => "OK"
  | .corr w => "CORR " ++ w
  | .prop w => "PROP " ++ w
  | .gen w => "GEN " ++ w

/-- first non-OK verdict of a list of lazily evaluated checks; PROP beats CORR beats GEN is *not* applied
here: checks are listed in the order GEN, PROP, CORR -/
def firstBad : List (Unit → Verdict) → Verdict
  | [] => .ok
  | c :: cs => match c () with
    | .ok => firstBad cs
    | v => v

structure DocCase where
  doc : Option Doc
  /-- a generated input with several top-level elements -/
  frag : Option Items := none
  evs : List Ev
  res : Except Name Elem
  /-- for an error: variant, position and inner error as the error value carries them -/
  carried : Name := []

structure HCase where
  docs : List DocCase
  renders : List (Options × Name)

def fuelMax : Nat := 100000

def pDoc : P DocCase := fun ts => do
  let ((dom, frag), ts) ← pDocOrFrag fuelMax ts
  let (evs, ts) ← pEvents ts
  let ((res, carried), ts) ← pResult fuelMax ts
  pure ({ doc := dom, frag := frag, evs := evs, res := res, carried := carried }, ts)

def pRender : P (Options × Name) := fun ts => do
  let (o, ts) ← pOptions ts
  let (_, ts) ← expect "TX" ts
  let (t, ts) ← pName ts
  pure ((o, t), ts)

def pHBody : P HCase := fun ts => do
  let (k, ts) ← pCount 'D' ts
  let (docs, ts) ← pRep pDoc k ts
  let (m, ts) ← pCount 'R' ts
  let (rs, ts) ← pRep pRender m ts
  pure (⟨docs, rs⟩, ts)

/-- model and implementation, step by step. The state after a failed step is the state before it. -/
structure StepObs where
  modelRes : Except PErr Elem
  implRes : Except Name Elem
  modelTree : Option Elem   -- state after the step
  implTree : Option Elem

def runHistory (docs : List DocCase) : List StepObs :=
  go docs none none
where
  go : List DocCase → Option Elem → Option Elem → List StepObs
    | [], _, _ => []
    | d :: ds, mt, it =>
      let mres := match mt with
        | some t => extendStruct t d.evs
        | none => intoStruct d.evs
      let mt' := match mres with | .ok t => some t | .error _ => mt
      let it' := match d.res with | .ok t => some t | .error _ => it
      -- the model continues from the implementation's tree, so that one divergence is reported once
      let mt'' := match d.res, mres with
        | .ok t, .ok _ => some t
        | _, _ => mt'
      ⟨mres, d.res, mt', it'⟩ :: go ds mt'' it'

def runHistoryFrom (docs : List DocCase) (init : Option Elem) : List StepObs :=
  runHistory.go docs init init

def sameKind (a : Except PErr Elem) (b : Except Name Elem) : Bool :=
  match a, b with
  | .ok _, .ok _ => true
  | .error _, .error _ => true
  | _, _ => false

def schemaEq (a b : Schema) : Bool := a.canon.beq b.canon

/-- tree-level correspondence of one step. `level`: 0 = Ok/Err kind only, 1 = unordered schema, 2 = full tree and error text -/
def stepCorr (level : Nat) (i : Nat) (s : StepObs) : Verdict :=
  match s.modelRes, s.implRes with
  | .ok m, .ok t =>
    if level ≥ 2 then
      if m.beq t then .ok else .corr s!"tree step={i} model={showElem m} impl={showElem t}"
    else if level ≥ 1 then
      if schemaEq m.abs t.abs then .ok else .corr s!"schema step={i} model={showSchema m.abs.canon} impl={showSchema t.abs.canon}"
    else .ok
  | .error e, .error msg =>
    if level ≥ 2 then
      if e.display == msg then .ok else .corr s!"error-text step={i} model={showName e.display} impl={showName msg}"
    else .ok
  | .ok _, .error msg => .corr s!"kind step={i} model=Ok impl=Err({showName msg})"
  | .error e, .ok _ => .corr s!"kind step={i} model=Err({showName e.display}) impl=Ok"

def historyCorr (level : Nat) (obs : List StepObs) : Verdict :=
  firstBad ((obs.zipIdx).map fun (s, i) => fun _ => stepCorr level i s)

def finalImplTree (obs : List StepObs) : Option Elem := (obs.getLast?).bind (·.implTree)

def DocCase.dom (d : DocCase) : Option Node := d.doc.map (·.root)

def domsOf (docs : List DocCase) : Option (List Node) := docs.mapM (·.dom)

/-- the recorded events are what `Node.events` says a reader reports for the generated document -/
def domEventsOk (docs : List DocCase) : Verdict :=
  firstBad ((docs.zipIdx).map fun (d, i) => fun _ =>
    match d.doc, d.frag with
    | some n, _ =>
      if normEvents n.events == normEvents d.evs then .ok
      else .corr s!"dom-events doc={i}"
    | none, some is =>
      if normEvents (fragEvents is) == normEvents d.evs then .ok
      else .corr s!"dom-events fragment={i}"
    | none, none => .ok)

/-- the top-level items of a generated input -/
def DocCase.topItems (d : DocCase) : Option Items :=
  match d.doc, d.frag with
  | some doc, _ => some doc.items
  | none, some is => some is
  | none, none => none

def sameRootName (doms : List Node) : Bool :=
  match doms with
  | [] => false
  | d :: ds => ds.all (fun x => x.name == d.name)

def wfDocs (doms : List Node) : Bool :=
  sameRootName doms && doms.all (fun d => d.wellFormed && d.attrsDistinct)

def Elem.namesOK : Elem → Bool
  | .mk n _ _ _ as cs _ => nameOK n && as.all (fun a => nameOK a.2) && goKids cs
where
  goKids : List (Nec × Elem) → Bool
    | [] => true
    | (_, e) :: rest => Elem.namesOK e && goKids rest

/-- all names inside the supported alphabet (needed for any statement about rendered text) -/
def Elem.inAlphabet : Elem → Bool
  | .mk n _ _ _ as cs _ => n.all inSigma && as.all (fun a => a.2.all inSigma) && goKids cs
where
  goKids : List (Nec × Elem) → Bool
    | [] => true
    | (_, e) :: rest => Elem.inAlphabet e && goKids rest

/-! ### reading rendered text whatever its layout

`readProgram` reads exactly the layout `printAST` prints (that is what `readProgram_printAST` is about). The
properties say nothing about white space, so before a property is evaluated on a rendered text that `readProgram`
cannot read, the text is brought into that layout: lines trimmed, blank lines dropped, a field broken over several
lines joined, four spaces of indentation inside a struct, one blank line after it. Only white space between tokens
is touched. -/
def isSp (c : Char) : Bool := c == ' ' || c == '\t' || c == '\r'

def trimSp (l : List Char) : List Char := ((l.dropWhile isSp).reverse.dropWhile isSp).reverse

def splitLines (t : List Char) : List (List Char) :=
  t.foldr (fun c acc => if c == '\n' then [] :: acc else match acc with
    | [] => [[c]]
    | l :: r => (c :: l) :: r) [[]]

/-- join the pieces of a field written over several lines; `pending` is the field so far -/
def joinFields : List (List Char) → Option (List Char) → List (List Char)
  | [], none => []
  | [], some p => [p]
  | l :: rest, none =>
    if l.take 4 == "pub ".toList && l.getLast? != some ',' && l.getLast? != some '{' then joinFields rest (some l)
    else l :: joinFields rest none
  | l :: rest, some p =>
    let p' := if p.getLast? == some ':' then p ++ [' '] ++ l else p ++ l
    if l.getLast? == some ',' then p' :: joinFields rest none else joinFields rest (some p')

def reindent : List (List Char) → Bool → List Char
  | [], _ => []
  | l :: r, inBody =>
    if l == ['}'] then ['}', '\n', '\n'] ++ reindent r false
    else if inBody then "    ".toList ++ l ++ ['\n'] ++ reindent r true
    else l ++ ['\n'] ++ reindent r (l.getLast? == some '{')

def normLayout (t : Name) : Name :=
  reindent (joinFields (((splitLines t).map trimSp).filter (fun l => !l.isEmpty)) none) false

/-- `readProgram`, and if that fails `readProgram` of the text in `printAST`'s layout -/
def readProgramN (t : Name) : Option (List PStruct) :=
  match readProgram t with
  | some p => some p
  | none => readProgram (normLayout t)

/-- renderer correspondence: the model renders the implementation's own final tree -/
def renderCorr (tree : Option Elem) (rs : List (Options × Name)) : Verdict :=
  match tree with
  | none => .ok
  | some t =>
    -- the model's character classes (case mapping, identifier classes) are Rust's only on the supported alphabet
    if !Elem.inAlphabet t then .ok else
    firstBad ((rs.zipIdx).map fun ((o, txt), i) => fun _ =>
      let ast := renderAST o t
      let m := printAST ast
      if m != txt then .corr s!"render entry={i} model={repr (showName m)} impl={repr (showName txt)}"
      -- the reader used on the implementation's text gives back the model's AST when applied to the model's text
      else if Elem.inAlphabet t && readProgram m != some (ast.map StructDef.plain) then .corr s!"reader: readProgram (printAST ast) is not ast, entry={i}"
      else .ok)

def readAll (rs : List (Options × Name)) : Option (List (Options × List PStruct)) :=
  rs.mapM fun (o, t) => (readProgramN t).map fun p => (o, p)

end Xsg.Driver
