import XsgModel.Model.RustSyntax
import XsgModel.Model.Dom
/-!
# Line protocol: tokens → model values, model values → tokens
-/
namespace Xsg.Proto
open Xsg

abbrev P (α : Type) := List String → Option (α × List String)

def decodeName (tok : String) : Option Name :=
  if tok == "-" then some []
  else (tok.splitOn ".").mapM fun s => s.toNat?.map Char.ofNat

def encodeName (n : Name) : String :=
  if n.isEmpty then "-" else ".".intercalate (n.map fun c => toString c.toNat)

def showName (n : Name) : String := String.ofList n

def tok : P String
  | [] => none
  | t :: ts => some (t, ts)

def pName : P Name := fun ts => match ts with
  | [] => none
  | t :: ts => (decodeName t).map (·, ts)

def pNat : P Nat := fun ts => match ts with
  | [] => none
  | t :: ts => t.toNat?.map (·, ts)

def pBool : P Bool := fun ts => match ts with
  | "0" :: ts => some (false, ts)
  | "1" :: ts => some (true, ts)
  | _ => none

def pNec : P Nec := fun ts => match ts with
  | "M" :: ts => some (.man, ts)
  | "O" :: ts => some (.opt, ts)
  | _ => none

def pOptNat : P (Option Nat) := fun ts => match ts with
  | "-" :: ts => some (none, ts)
  | t :: ts => t.toNat?.map (fun n => (some n, ts))
  | [] => none

/-- `k` repetitions -/
def pRep {α} (p : P α) : Nat → P (List α)
  | 0, ts => some ([], ts)
  | k + 1, ts => match p ts with
    | some (a, ts) => match pRep p k ts with
      | some (as, ts) => some (a :: as, ts)
      | none => none
    | none => none

/-- a count token with a one-letter prefix, e.g. `A3` -/
def pCount (pre : Char) : P Nat := fun ts => match ts with
  | [] => none
  | t :: ts => match t.toList with
    | c :: rest => if c = pre then (String.ofList rest).toNat?.map (·, ts) else none
    | [] => none

/-- `E name text standalone count pos A<k> (nec name)* C<k> (nec tree)*`; `fuel` bounds the depth -/
def pElem : Nat → P Elem
  | 0, _ => none
  | fuel + 1, ts =>
    match ts with
    | "E" :: ts => do
      let (name, ts) ← pName ts
      let (text, ts) ← pBool ts
      let (sa, ts) ← pBool ts
      let (count, ts) ← pNat ts
      let (pos, ts) ← pOptNat ts
      let (na, ts) ← pCount 'A' ts
      let (attrs, ts) ← pRep (fun ts => do let (n, ts) ← pNec ts; let (a, ts) ← pName ts; pure ((n, a), ts)) na ts
      let (nc, ts) ← pCount 'C' ts
      let (kids, ts) ← pRep (fun ts => do let (n, ts) ← pNec ts; let (e, ts) ← pElem fuel ts; pure ((n, e), ts)) nc ts
      pure (Elem.mk name text sa count attrs kids pos, ts)
    | _ => none

def pU8 : P U8 := fun ts => match ts with
  | [] => none
  | t :: ts => match t.toList with
    | '+' :: rest => (decodeName (String.ofList rest)).map (fun n => (.ok n, ts))
    | '!' :: rest => (decodeName (String.ofList rest)).map (fun n => (.bad n, ts))
    | _ => none

def pAttrItem : P AttrItem := fun ts => match ts with
  | [] => none
  | t :: ts => match t.toList with
    | 'k' :: '+' :: rest => (decodeName (String.ofList rest)).map (fun n => (.key (.ok n), ts))
    | 'k' :: '!' :: rest => (decodeName (String.ofList rest)).map (fun n => (.key (.bad n), ts))
    | 'b' :: rest => (decodeName (String.ofList rest)).map (fun n => (.bad n, ts))
    | _ => none

def pEv : P Ev := fun ts => match ts with
  | "S" :: ts => do
    let (n, ts) ← pU8 ts
    let (k, ts) ← pNat ts
    let (as, ts) ← pRep pAttrItem k ts
    pure (.start n as, ts)
  | "Z" :: ts => do
    let (n, ts) ← pU8 ts
    let (k, ts) ← pNat ts
    let (as, ts) ← pRep pAttrItem k ts
    pure (.empty n as, ts)
  | "/" :: ts => some (.endTag, ts)
  | "T" :: ts => do let (u, ts) ← pU8 ts; pure (.text u, ts)
  | "D" :: ts => do let (u, ts) ← pU8 ts; pure (.cdata u, ts)
  | "I" :: ts => some (.ignored, ts)
  | "F" :: ts => some (.eof, ts)
  | "X" :: ts => do
    let (p, ts) ← pNat ts
    let (m, ts) ← pName ts
    pure (.err p m, ts)
  | _ => none

/-- `EV <k> ev*` -/
def pEvents : P (List Ev) := fun ts => match ts with
  | "EV" :: ts => do let (k, ts) ← pNat ts; pRep pEv k ts
  | _ => none

/-- items in reverse order of appearance are folded into `Items` -/
def mkItems : List (Option (Sum Node Bool)) → Items
  | [] => .nil
  | some (.inl n) :: r => .elem n (mkItems r)
  | some (.inr c) :: r => .text c (mkItems r)
  | none :: r => .other (mkItems r)

/-- `N name sc A<k> name* I<k> item*`, item = `n <node>` | `t` | `c` | `o` -/
def pNode : Nat → P Node
  | 0, _ => none
  | fuel + 1, ts =>
    match ts with
    | "N" :: ts => do
      let (name, ts) ← pName ts
      let (sc, ts) ← pBool ts
      let (na, ts) ← pCount 'A' ts
      let (attrs, ts) ← pRep pName na ts
      let (ni, ts) ← pCount 'I' ts
      let (items, ts) ← pRep (fun ts => match ts with
        | "n" :: ts => do let (n, ts) ← pNode fuel ts; pure (some (.inl n), ts)
        | "t" :: ts => some (some (.inr false), ts)
        | "c" :: ts => some (some (.inr true), ts)
        | "o" :: ts => some (none, ts)
        | _ => none) ni ts
      pure (Node.mk name attrs sc (mkItems items), ts)
    | _ => none

/-- misc items around the root: `I<k> (t|o)*` -/
def pMisc : P Items := fun ts => do
  let (ni, ts) ← pCount 'I' ts
  let (items, ts) ← pRep (fun ts => match ts with
    | "t" :: ts => some (some (Sum.inr false : Sum Node Bool), ts)
    | "o" :: ts => some (none, ts)
    | _ => none) ni ts
  pure (mkItems items, ts)

/-- `-` or `DOC <misc> <node> <misc>` -/
def pOptDoc (fuel : Nat) : P (Option Doc) := fun ts => match ts with
  | "-" :: ts => some (none, ts)
  | "DOC" :: ts => do
    let (pre, ts) ← pMisc ts
    let (root, ts) ← pNode fuel ts
    let (post, ts) ← pMisc ts
    pure (some ⟨pre, root, post⟩, ts)
  | _ => none

/-- `FRG I<k> item*` with items as inside a node: an input with several top-level elements -/
def pFrag (fuel : Nat) : P Items := fun ts => do
  let (ni, ts) ← pCount 'I' ts
  let (items, ts) ← pRep (fun ts => match ts with
    | "n" :: ts => do let (n, ts) ← pNode fuel ts; pure (some (.inl n), ts)
    | "t" :: ts => some (some (.inr false), ts)
    | "c" :: ts => some (some (.inr true), ts)
    | "o" :: ts => some (none, ts)
    | _ => none) ni ts
  pure (mkItems items, ts)

/-- `-`, `DOC …` or `FRG …` -/
def pDocOrFrag (fuel : Nat) : P (Option Doc × Option Items) := fun ts => match ts with
  | "FRG" :: ts => (pFrag fuel ts).map fun (is, ts) => ((none, some is), ts)
  | _ => (pOptDoc fuel ts).map fun (d, ts) => ((d, none), ts)

/-- implementation result: `OK <tree>` or `ER <display> <carried>` (`carried`: what the error value carries, read off
the public enum by the harness) -/
def pResult (fuel : Nat) : P (Except Name Elem × Name) := fun ts => match ts with
  | "OK" :: ts => (pElem fuel ts).map fun (e, ts) => ((.ok e, []), ts)
  | "ER" :: ts => do
    let (m, ts) ← pName ts
    let (c, ts) ← pName ts
    pure ((.error m, c), ts)
  | _ => none

/-- `OP textIdent attrPrefix derive sort` -/
def pOptions : P Options := fun ts => match ts with
  | "OP" :: ts => do
    let (ti, ts) ← pName ts
    let (ap, ts) ← pName ts
    let (d, ts) ← pName ts
    let (s, ts) ← (match ts with
      | "U" :: ts => some (SortBy.unsorted, ts)
      | "N" :: ts => some (SortBy.xmlName, ts)
      | _ => none)
    pure (⟨ti, ap, d, s⟩, ts)
  | _ => none

def expect (s : String) : P Unit := fun ts => match ts with
  | t :: ts => if t == s then some ((), ts) else none
  | [] => none

/-! ## printing (for diagnostics in CORR verdicts; never parsed back) -/

partial def showElem : Elem → String
  | .mk n t s c as cs p =>
    "(" ++ showName n ++ (if t then " text" else "") ++ (if s then "" else " multi") ++ " #" ++ toString c
      ++ " @" ++ (match p with | some p => toString p | none => "-")
      ++ " [" ++ " ".intercalate (as.map fun a => (if a.1 = .man then "" else "?") ++ showName a.2) ++ "]"
      ++ " {" ++ " ".intercalate (cs.map fun c => (if c.1 = .man then "" else "?") ++ showElem c.2) ++ "})"

partial def showSchema : Schema → String
  | .mk t as ks =>
    "<" ++ (if t then "text " else "") ++ "[" ++ " ".intercalate (as.map fun a => (if a.1 = .man then "" else "?") ++ showName a.2) ++ "]"
      ++ " {" ++ " ".intercalate (ks.map fun (k, n, m, s) => (if n = .man then "" else "?") ++ showName k ++ (if m then "*" else "") ++ showSchema s) ++ "}>"

end Xsg.Proto
