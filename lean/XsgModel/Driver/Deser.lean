import XsgModel.Driver.History
import XsgModel.Model.Deser
/-!
# `E` lines: the deserializer models against the compiled programs

`E <id> <prop> <sxr> PROG <rendered text> K<k> ( <vnode> V<v> ( <ok> <dump> )^v )^k`

For every document the harness reports what the really compiled program did with it (per variant: plain,
`deny_unknown_fields`): `1 <canonical dump of the value>` or `0 <error text>`.  The driver runs `deDoc` on the
program read back from the rendered text and compares.  Documents outside the model are skipped.
-/
namespace Xsg.Driver
open Xsg Xsg.Proto

def mkVItems : List (Sum (Sum VNode (Bool × Str)) Bool) → VItems
  | [] => .nil
  | .inl (.inl n) :: r => .elem n (mkVItems r)
  | .inl (.inr (c, s)) :: r => .text c s (mkVItems r)
  | .inr pi :: r => .other pi (mkVItems r)

/-- `VN name sc A<k> (name value)* I<k> item*`, item = `n <vnode>` | `t <chars>` | `c <chars>` | `o` (comment) | `p` (PI) -/
def pVNode : Nat → P VNode
  | 0, _ => none
  | fuel + 1, ts =>
    match ts with
    | "VN" :: ts => do
      let (name, ts) ← pName ts
      let (sc, ts) ← pBool ts
      let (na, ts) ← pCount 'A' ts
      let (attrs, ts) ← pRep (fun ts => do let (k, ts) ← pName ts; let (v, ts) ← pName ts; pure ((k, v), ts)) na ts
      let (ni, ts) ← pCount 'I' ts
      let (items, ts) ← pRep (fun ts => match ts with
        | "n" :: ts => do let (n, ts) ← pVNode fuel ts; pure (.inl (.inl n), ts)
        | "t" :: ts => do let (s, ts) ← pName ts; pure (.inl (.inr (false, s)), ts)
        | "c" :: ts => do let (s, ts) ← pName ts; pure (.inl (.inr (true, s)), ts)
        | "o" :: ts => some (.inr false, ts)
        | "p" :: ts => some (.inr true, ts)
        | _ => none) ni ts
      pure (VNode.mk name attrs sc (mkVItems items), ts)
    | _ => none

mutual
/-- canonical dump, the same format the compiled program prints -/
partial def dumpVal : Val → String
  | .str s => "s" ++ encodeName s
  | .none => "n"
  | .some v => "o(" ++ dumpVal v ++ ")"
  | .seq vs => "[" ++ ",".intercalate (vs.map dumpVal) ++ "]"
  | .struct n fs => "{" ++ encodeName n ++ "|" ++ ";".intercalate (fs.map fun (k, v) => encodeName k ++ "=" ++ dumpVal v) ++ "}"
end

def showErr : DeErr → String
  | .missing => "missing field" | .duplicate => "duplicate field" | .unknown => "unknown field"
  | .unresolved => "unresolved type" | .shape => "wrong shape"

structure EInfo where
  compared : Nat := 0   -- (document, variant) pairs on which model and program were compared
  skipped : Nat := 0    -- documents outside the model
  rejected : Nat := 0   -- compared pairs that the model rejects

def handleE (ts : List String) : Option (Verdict × EInfo) := do
  let (sxr, ts) ← pBool ts
  let (_, ts) ← expect "PROG" ts
  let (txt, ts) ← pName ts
  let (k, ts) ← pCount 'K' ts
  let (docs, ts) ← pRep (fun ts => do
    let (n, ts) ← pVNode fuelMax ts
    let (v, ts) ← pCount 'V' ts
    let (rs, ts) ← pRep (fun ts => do let (ok, ts) ← pBool ts; let (d, ts) ← tok ts; pure ((ok, d), ts)) v ts
    pure ((n, rs), ts)) k ts
  if !ts.isEmpty then none else
  let cfg := if sxr then DeCfg.serdeXmlRs else DeCfg.quickXml
  match readProgramN txt with
  | none => some (.corr "rendered text is not a sequence of struct items", {})
  | some prog =>
    let inside := docs.filter fun (n, _) => n.inModel cfg
    let info : EInfo :=
      { compared := (inside.map fun (_, rs) => rs.length).sum
        skipped := docs.length - inside.length
        rejected := (inside.map fun (n, rs) => ((rs.zipIdx).filter fun (_, j) =>
          match deDoc cfg prog (j == 1) n with | .ok _ => false | .error _ => true).length).sum }
    some (firstBad ((docs.zipIdx).map fun ((n, rs), i) => fun _ =>
      if !n.inModel cfg then .ok else
      firstBad ((rs.zipIdx).map fun ((ok, d), j) => fun _ =>
        let deny := j == 1
        match deDoc cfg prog deny n with
        | .ok v =>
          if !ok then .corr s!"document {i} variant {j}: model deserializes ({dumpVal v}), the compiled program fails"
          else if dumpVal v == d then .ok
          else .corr s!"document {i} variant {j}: model value {dumpVal v} ≠ program value {d}"
        | .error e =>
          if ok then .corr s!"document {i} variant {j}: model fails ({showErr e}), the compiled program deserializes {d}"
          else .ok)), info)

end Xsg.Driver
