import XsgModel.Model.Absorb
import XsgModel.Driver.Props
import XsgModel.Model.Ops
import XsgModel.Model.Cli
import XsgModel.Model.De
/-!
# Driver: list cases (C15), operation sequences (C16), pairs of histories (C06, C11), character and
`convert_string` tables
-/
namespace Xsg.Driver
open Xsg Xsg.Proto

/-! ### C15 -/
def pTagged : P (Nec × Name) := fun ts => do
  let (n, ts) ← pNec ts
  let (a, ts) ← pName ts
  pure ((n, a), ts)

def pTaggedList (pre : String) : P (List (Nec × Name)) := fun ts => do
  let (_, ts) ← expect pre ts
  let (k, ts) ← pNat ts
  pRep pTagged k ts

def showTagged (l : List (Nec × Name)) : String :=
  "[" ++ " ".intercalate (l.map fun a => (if a.1 = .man then "M:" else "O:") ++ showName a.2) ++ "]"

def namesOf (l : List (Nec × Name)) : List Name := l.map (·.2)

def checkC15 (xs ys out : List (Nec × Name)) : Verdict :=
  if !decide ((namesOf xs).Nodup) || !decide ((namesOf ys).Nodup) then .gen "duplicate-items" else
  let expectedNames := namesOf xs ++ (namesOf ys).filter (fun a => !(namesOf xs).contains a)
  firstBad [
    fun _ => if namesOf out == expectedNames then .ok
      else .prop s!"order/union: merge {showTagged xs} {showTagged ys} = {showTagged out}",
    fun _ => if out.all (fun p => (p.1 = .man) == (xs.contains (.man, p.2) && ys.contains (.man, p.2))) then .ok
      else .prop s!"necessity: merge {showTagged xs} {showTagged ys} = {showTagged out}",
    fun _ => if mergeNec xs ys == out then .ok
      else .corr s!"merge model={showTagged (mergeNec xs ys)} impl={showTagged out}" ]

def handleL (ts : List String) : Option Verdict := do
  let (xs, ts) ← pTaggedList "XS" ts
  let (ys, ts) ← pTaggedList "YS" ts
  let (out, ts) ← pTaggedList "OUT" ts
  if ts.isEmpty then some (checkC15 xs ys out) else none

/-! ### C16 -/
def pPath : P (List Name) := fun ts => do
  let (k, ts) ← pCount 'P' ts
  pRep pName k ts

def pOp : P Op := fun ts => match ts with
  | "add" :: ts => do
    let (p, ts) ← pPath ts
    let (n, ts) ← pName ts
    let (k, ts) ← pCount 'A' ts
    let (as, ts) ← pRep pName k ts
    pure (.add p n as, ts)
  | "opt" :: ts => do let (p, ts) ← pPath ts; let (n, ts) ← pName ts; pure (.setOptional p n, ts)
  | "rm" :: ts => do let (p, ts) ← pPath ts; let (n, ts) ← pName ts; pure (.remove p n, ts)
  | "mattr" :: ts => do
    let (p, ts) ← pPath ts
    let (k, ts) ← pCount 'A' ts
    let (as, ts) ← pRep pTagged k ts
    pure (.mergeAttr p as, ts)
  | "multi" :: ts => do let (p, ts) ← pPath ts; pure (.setMultiple p, ts)
  | "text" :: ts => do let (p, ts) ← pPath ts; pure (.setText p, ts)
  | "get" :: ts => do let (p, ts) ← pPath ts; let (n, ts) ← pName ts; pure (.get p n, ts)
  | "move" :: ts => do let (p, ts) ← pPath ts; let (n, ts) ← pName ts; let (q, ts) ← pPath ts; pure (.move p n q, ts)
  | _ => none

def pOpResult : P OpResult := fun ts => match ts with
  | "none" :: ts => some (none, ts)
  | "some" :: ts => do let (r, ts) ← pTagged ts; pure (some r, ts)
  | _ => none

structure OpStep where
  op : Op
  res : OpResult
  tree : Elem

def pOpStep : P OpStep := fun ts => do
  let (op, ts) ← pOp ts
  let (r, ts) ← pOpResult ts
  let (t, ts) ← pElem fuelMax ts
  pure (⟨op, r, t⟩, ts)

def showOp : Op → String
  | .add p n as => s!"add({"/".intercalate (p.map showName)},{showName n},{as.map showName})"
  | .setOptional p n => s!"set_child_optional({"/".intercalate (p.map showName)},{showName n})"
  | .remove p n => s!"remove_child({"/".intercalate (p.map showName)},{showName n})"
  | .mergeAttr p l => s!"merge_attr({"/".intercalate (p.map showName)},{showTagged l})"
  | .setMultiple p => s!"set_multiple({"/".intercalate (p.map showName)})"
  | .setText p => s!"set_text({"/".intercalate (p.map showName)})"
  | .get p n => s!"get_child({"/".intercalate (p.map showName)},{showName n})"
  | .move p n q => s!"move({"/".intercalate (p.map showName)},{showName n} -> {"/".intercalate (q.map showName)})"

/-- the property clauses of C16 about one step, evaluated on the implementation's trees before/after -/
def opStepProp (before : Elem) (s : OpStep) : Verdict :=
  let after := s.tree
  if !Elem.Inv after then .prop s!"child names not unique after {showOp s.op}: {showElem after}" else
  match s.op with
  | .add p n _ =>
    match elemAt p before with
    | some e =>
      if (getChild e.children n).isSome && !(after.beq before) then .prop s!"adding the present name {showName n} changed the tree: {showElem before} -> {showElem after}"
      else if (getChild e.children n).isNone && ((elemAt p after).bind fun e' => getChild e'.children n).isNone then .prop s!"added child {showName n} is not found afterwards"
      else .ok
    | none => .ok
  | .setOptional p n =>
    match elemAt p before, elemAt p after with
    | some e, some e' =>
      match getChild e.children n, getChild e'.children n with
      | some (_, c), some (nec', c') =>
        if nec' ≠ .opt then .prop s!"{showName n} is not optional after set_child_optional"
        else if !(c.beq c') then .prop s!"set_child_optional changed the subtree of {showName n}: {showElem c} -> {showElem c'}"
        else .ok
      | none, some _ => .prop "set_child_optional created a child"
      | some _, none => .prop "set_child_optional lost the child"
      | none, none => .ok
    | _, _ => .ok
  | .remove p n =>
    match elemAt p before, elemAt p after with
    | some e, some e' =>
      (match getChild e.children n, s.res with
       | some (nec, c), some (nec', n') =>
         if nec ≠ nec' || c.name ≠ n' || n' ≠ n then .prop s!"remove_child({showName n}) returned {showName n'}"
         else if (getChild e'.children n).isSome then .prop s!"{showName n} still present after remove_child"
         else if e'.children.length + 1 ≠ e.children.length then .prop "remove_child removed more than one child"
         else .ok
       | none, none => if after.beq before then .ok else .prop "remove_child of an absent name changed the tree"
       | some _, none => .prop s!"remove_child({showName n}) returned None for a present child"
       | none, some _ => .prop s!"remove_child({showName n}) returned a child for an absent name")
    | _, _ => .ok
  | .get p n =>
    match elemAt p before with
    | some e =>
      (match getChild e.children n, s.res with
       | some (nec, _), some (nec', n') => if nec = nec' && n' = n then .ok else .prop s!"get_child({showName n}) returned {showName n'}"
       | none, none => .ok
       | some _, none => .prop s!"get_child({showName n}) returned None for a present child"
       | none, some _ => .prop s!"get_child({showName n}) returned a child for an absent name")
    | none => .ok
  | _ => .ok

def checkC16 (root : Elem) (steps : List OpStep) (renders : List (Options × Name)) : Verdict :=
  let rec go (before model : Elem) (i : Nat) : List OpStep → Verdict
    | [] => .ok
    | s :: rest =>
      match opStepProp before s with
      | .ok =>
        let (m', r') := applyOp before s.op
        let _ := model
        if !(m'.beq s.tree) then .corr s!"step={i} {showOp s.op}: model={showElem m'} impl={showElem s.tree}"
        else if r' != s.res then .corr s!"step={i} {showOp s.op}: result differs"
        else go s.tree m' (i + 1) rest
      | v => v
  firstBad [
    fun _ => go root root 0 steps,
    fun _ =>
      let final := (steps.getLast?.map (·.tree)).getD root
      if !Elem.namesOK final then .ok else
      firstBad (renders.map fun (o, txt) => fun _ =>
        match readProgramN txt with
        | none => .corr "the model's reader cannot read the rendered text as a sequence of struct items"
        | some prog =>
          if !decide (WellFormed prog) then .prop s!"rendering of a hand-built tree is not well-formed: {showElem final}"
          else if isQuickUnsorted o && plainNames final.abs.bind && final.abs.noPrefixClash then
            (match schemaOfProgram prog with
             | some ps => if schemaEq ps final.abs.bind then .ok else .prop s!"fields do not reflect the tree: rendered={showSchema ps.canon} tree={showSchema final.abs.bind.canon}"
             | none => .prop "field types do not resolve")
          else .ok),
    fun _ => renderCorr ((steps.getLast?.map (·.tree)).orElse fun _ => some root) renders ]

def handleO (ts : List String) : Option Verdict := do
  let (root, ts) ← pElem fuelMax ts
  let (k, ts) ← pCount 'S' ts
  let (steps, ts) ← pRep pOpStep k ts
  let (m, ts) ← pCount 'R' ts
  let (rs, ts) ← pRep pRender m ts
  if ts.isEmpty then some (checkC16 root steps rs) else none

/-! ### pairs of histories: C06, C11 -/
def implFinal (c : HCase) : Option Elem := finalImplTree (runHistory c.docs)

/-- monotonicity of one extension step on the implementation's trees (C06) -/
def monotone : Schema → Schema → Bool
  | .mk t1 a1 k1, .mk t2 a2 k2 =>
    (!t1 || t2) &&
    a1.all (fun a => a2.any fun b => b.2 = a.2 && (a.1 = .man || b.1 = .opt)) &&
    monoKids k1 k2
where
  monoKids : List (Name × Nec × Bool × Schema) → List (Name × Nec × Bool × Schema) → Bool
    | [], _ => true
    | (k, n, m, s) :: rest, k2 =>
      (match k2.find? (fun x => x.1 = k) with
       | some (_, n', m', s') => (n = .man || n' = .opt) && (!m || m') && monotone s s'
       | none => false) && monoKids rest k2

/-- single steps from the implementation's own tree, whatever it is (a root marked as repeated, a root without a
position, a sub-structure of a parsed tree): an element-less input is accepted and changes nothing (`C06_empty`), and
a well-formed document with the tree's root name is accepted. `init` is the tree before the first step, if any. -/
def stepClauses (init : Option Elem) (docs : List DocCase) (obs : List StepObs) : Verdict :=
  let before : List (Option Elem) := init :: obs.map (·.implTree)
  firstBad (((before.zip (docs.zip obs)).zipIdx).map fun ((prev, d, cur), i) => fun _ =>
    match prev with
    | none => .ok
    | some p =>
      if firstFault 0 d.evs == none && !hasElement 0 d.evs then
        match cur.implRes with
        | .ok t =>
          if t.beq (if p.position.isNone then p.setPosition (some 0) else p) then .ok
          else .prop s!"step={i} an element-less input changed the tree: {showElem p} -> {showElem t}"
        | .error m => .prop s!"step={i} an element-less input is rejected: {showName m}"
      else match d.dom with
        | some n =>
          if n.wellFormed && n.attrsDistinct && n.name == p.name then
            match cur.implRes with
            | .ok _ => .ok
            | .error m => .prop s!"step={i} a well-formed document with the root name of the structure is rejected: {showName m}"
          else .ok
        | none => .ok)

def checkC06Single (c : HCase) : Verdict :=
  let obs := runHistory c.docs
  firstBad [
    -- union: exactness after every step (needs the documents)
    fun _ => match domsOf c.docs with
      | some doms =>
        if !wfDocs doms then .ok else
        firstBad (((obs.zip (prefixes doms)).zipIdx).map fun ((s, ds), i) => fun _ =>
          match s.implRes with
          | .ok t => if schemaEq t.abs (specOfDocs ds) then .ok
              else .prop s!"step={i} not the schema of the union: {showSchema t.abs.canon} vs {showSchema (specOfDocs ds).canon}"
          | .error m => .prop s!"step={i} error on a well-formed document: {showName m}")
      | none => .ok,
    -- the same for inputs that repeat their root element (`C06_fragments_spec`): all top-level elements count
    fun _ => if !(c.docs.any fun d => d.frag.isSome) then .ok else
      match c.docs.mapM (·.topItems) with
      | some tops =>
        match tops.head?.bind (fun is => is.childNames.head?) with
        | none => .ok
        | some k =>
          if !(tops.all fun is => is.ok && is.childNames == [k]) then .ok else
          firstBad (((obs.zip (prefixes tops)).zipIdx).map fun ((s, ts), i) => fun _ =>
            let occs := ts.flatMap (·.named k)
            match s.implRes with
            | .ok t => if schemaEq t.abs (specOfDocs occs) then .ok
                else .prop s!"step={i} not the schema of all top-level elements: {showSchema t.abs.canon} vs {showSchema (specOfDocs occs).canon}"
            | .error m => .prop s!"step={i} error on well-formed elements: {showName m}")
      | none => .ok,
    fun _ => domEventsOk c.docs,
    -- monotone: no step drops a field, makes an Option required or a Vec single
    fun _ => firstBad ((obs.zip (obs.drop 1)).map fun (a, b) => fun _ =>
      match a.implTree, b.implTree with
      | some x, some y => if monotone x.abs y.abs then .ok else .prop s!"an extension lost information: {showSchema x.abs} -> {showSchema y.abs}"
      | _, _ => .ok),
    fun _ => stepClauses none c.docs obs,
    fun _ => historyCorr 1 obs ]

/-! ### C06 on a sub-structure of a parsed structure -/
/-- `SUB <id> C06 <base history> P<n> name* <sub tree> <extension history>`: the element at the path inside the
structure parsed from the base history is extended with the extension documents (`C06_substructure`) -/
def checkSub (base : HCase) (path : List Name) (sub : Elem) (ext : HCase) : Verdict :=
  let bobs := runHistory base.docs
  let obs := runHistoryFrom ext.docs (some sub)
  firstBad [
    fun _ => checkC06Single base,
    -- the harness walked `get_child` along the path: same element as the model's `elemAt`
    fun _ => match finalImplTree bobs with
      | none => .gen "no-base-tree"
      | some t => match elemAt path t with
        | some s => if s.beq sub then .ok else .corr s!"elemAt: model={showElem s} impl={showElem sub}"
        | none => .corr "elemAt: the model finds no element at the path",
    -- union of all occurrences at the path and the new documents, after every step
    fun _ => match domsOf base.docs, domsOf ext.docs with
      | some bd, some ed =>
        if !(wfDocs bd && ed.all (fun d => d.wellFormed && d.attrsDistinct && d.name == sub.name)) then .ok else
        firstBad (((obs.zip (prefixes ed)).zipIdx).map fun ((s, ds), i) => fun _ =>
          match s.implRes with
          | .ok t => if schemaEq t.abs (specOfDocs (occsAt path bd ++ ds)) then .ok
              else .prop s!"sub-structure step={i} not the schema of the union: {showSchema t.abs.canon} vs {showSchema (specOfDocs (occsAt path bd ++ ds)).canon}"
          | .error m => .prop s!"sub-structure step={i} error on a well-formed document: {showName m}")
      | _, _ => .ok,
    fun _ => firstBad ((( (some sub :: obs.map (·.implTree)).zip obs).map fun (a, b) => fun _ =>
      match a, b.implTree with
      | some x, some y => if monotone x.abs y.abs then .ok else .prop s!"an extension of the sub-structure lost information: {showSchema x.abs} -> {showSchema y.abs}"
      | _, _ => .ok)),
    fun _ => stepClauses (some sub) ext.docs obs,
    fun _ => historyCorr 1 obs ]

def handleSub (ts : List String) : Option Verdict := do
  let (base, ts) ← pHBody ts
  let (n, ts) ← pCount 'P' ts
  let (path, ts) ← pRep pName n ts
  let (sub, ts) ← pElem fuelMax ts
  let (ext, ts) ← pHBody ts
  if ts.isEmpty then some (checkSub base path sub ext) else none

def checkPair (prop rel : String) (a b : HCase) : Verdict :=
  match prop with
  | "C06" =>
    firstBad [
      fun _ => checkC06Single a,
      fun _ => checkC06Single b,
      fun _ => match implFinal a, implFinal b with
        | some x, some y =>
          if rel == "faulty" && !(b.docs.any fun d => match d.res with | .error _ => true | .ok _ => false) then
            .gen "inserted-document-not-rejected"
          else if rel == "empties" then
            if x.beq y then .ok else .prop s!"element-less documents changed the tree: {showElem x} vs {showElem y}"
          else if schemaEq x.abs y.abs then .ok
          else .prop s!"{rel}: schemas differ: {showSchema x.abs.canon} vs {showSchema y.abs.canon}"
        | none, none => .ok
        | _, _ => .prop s!"{rel}: one history gives a tree, the other does not" ]
  | "C11" =>
    let oa := runHistory a.docs
    let ob := runHistory b.docs
    firstBad [
      fun _ => if (a.docs.zip b.docs).all (fun (x, y) => normEvents x.evs == normEvents y.evs) && a.docs.length == b.docs.length then .ok
        else .gen "rewrite-changed-structure",
      fun _ => if a.renders.length == b.renders.length && (a.renders.zip b.renders).all (fun (x, y) => x.2 == y.2) then .ok
        else .prop s!"rewrite {rel} changed the rendered output",
      fun _ => match finalImplTree oa, finalImplTree ob with
        | some x, some y => if x.beq y then .ok else .prop s!"rewrite {rel} changed the tree: {showElem x} vs {showElem y}"
        | none, none => .ok
        | _, _ => .prop s!"rewrite {rel}: one input is accepted, the other rejected",
      fun _ => historyCorr 2 oa,
      fun _ => historyCorr 2 ob,
      fun _ => match finalImplTree oa with
        | some t => if Elem.inAlphabet t then renderCorr (some t) a.renders else .ok
        | none => .ok ]
  | _ => .gen "unknown-property"

def handlePair (prop : String) (ts : List String) : Option Verdict :=
  match ts with
  | rel :: ts => do
    let (a, ts) ← pHBody ts
    let (b, ts) ← pHBody ts
    if ts.isEmpty then some (checkPair prop rel a b) else none
  | [] => none

/-! ### character tables and convert_string -/
/-- `U <id> code alnum upper lower(name) upper(name)`: the four `char` functions on one scalar value of `Σ` -/
def handleU (ts : List String) : Option Verdict := do
  let (code, ts) ← pNat ts
  let (alnum, ts) ← pBool ts
  let (upper, ts) ← pBool ts
  let (lo, ts) ← pName ts
  let (up, ts) ← pName ts
  let c := Char.ofNat code
  if !ts.isEmpty then none else
  some (if !inSigma c then .gen "outside-alphabet"
  else if isAlnum c != alnum then .corr s!"is_alphanumeric U+{code}"
  else if isUpper c != upper then .corr s!"is_uppercase U+{code}"
  else if toLower c != lo then .corr s!"to_lowercase U+{code}"
  else if toUpper c != up then .corr s!"to_uppercase U+{code}"
  else .ok)

/-- `V <id> name prefix pascal snake validkey removens keyword` -/
def handleV (ts : List String) : Option Verdict := do
  let (n, ts) ← pName ts
  let (pre, ts) ← pName ts
  let (pa, ts) ← pName ts
  let (sn, ts) ← pName ts
  let (vk, ts) ← pName ts
  let (rn, ts) ← pName ts
  let (kw, ts) ← pBool ts
  if !ts.isEmpty then none else
  some (if !(n.all inSigma && pre.all inSigma) then .gen "outside-alphabet"
  else if pascal n != pa then .corr s!"to_pascal_case {showName n}: model={showName (pascal n)} impl={showName pa}"
  else if snake n != sn then .corr s!"to_snake_case {showName n}: model={showName (snake n)} impl={showName sn}"
  else if validKey pre n != vk then .corr s!"to_valid_key {showName n} {showName pre}: model={showName (validKey pre n)} impl={showName vk}"
  else if removeNamespace n != rn then .corr s!"remove_namespace {showName n}"
  else if isKeyword n != kw then .corr s!"is_keyword {showName n}"
  else .ok)

/-! ### presets of `options.rs`: `P <id> C10 <which> <options as returned by the library>` -/
def handleP (ts : List String) : Option Verdict :=
  match ts with
  | which :: ts => do
    let (o, ts) ← pOptions ts
    if !ts.isEmpty then none else
    let m : Option Options := match which with
      | "quick_xml_de" => some Options.quickXmlDe
      | "serde_xml_rs" => some Options.serdeXmlRs
      | "quick_xml_de.derive" => some (Options.quickXmlDe.withDerive (cl!"Debug, X"))
      | "serde_xml_rs.derive_empty" => some (Options.serdeXmlRs.withDerive [])
      | _ => none
    match m with
    | none => some (.gen "unknown-preset")
    | some m =>
      some (if m.textIdent == o.textIdent && m.attrPrefix == o.attrPrefix && m.derive == o.derive && m.sort == o.sort then .ok
        else .corr s!"preset {which}: model=({showName m.textIdent},{showName m.attrPrefix},{showName m.derive}) impl=({showName o.textIdent},{showName o.attrPrefix},{showName o.derive})")
  | [] => none

/-! ### C12: `X <id> C12 <input> <args> <out> OBS <exit> <stdout> <stderrNonEmpty> <fileAfter>` -/
def pOptName : P (Option Name) := fun ts => match ts with
  | "~" :: ts => some (none, ts)
  | _ => (pName ts).map fun (n, ts) => (some n, ts)

def pInput : P InputStatus := fun ts => match ts with
  | "missing" :: ts => some (.missing, ts)
  | "unreadable" :: ts => some (.unreadable, ts)
  | "notutf8" :: ts => some (.notUtf8, ts)
  | "content" :: ts => (pEvents ts).map fun (e, ts) => (.content e, ts)
  | _ => none

def pCliArgs : P CliArgs := fun ts => do
  let (p, ts) ← (match ts with
    | "Q" :: ts => some (ParserArg.quickXmlDe, ts)
    | "S" :: ts => some (ParserArg.serdeXmlRs, ts)
    | _ => none)
  let (d, ts) ← pOptName ts
  let (s, ts) ← (match ts with
    | "U" :: ts => some (SortBy.unsorted, ts)
    | "N" :: ts => some (SortBy.xmlName, ts)
    | _ => none)
  pure (⟨p, d, s⟩, ts)

def pOutTarget : P OutTarget := fun ts => match ts with
  | "stdout" :: ts => some (.stdout, ts)
  | "file" :: ts => do
    let (c, ts) ← pBool ts
    let (b, ts) ← pOptName ts
    pure (.file c b, ts)
  | _ => none

def handleX (ts : List String) : Option Verdict := do
  let (input, ts) ← pInput ts
  let (args, ts) ← pCliArgs ts
  let (out, ts) ← pOutTarget ts
  let (_, ts) ← expect "OBS" ts
  let (exit, ts) ← pNat ts
  let (stdout, ts) ← pName ts
  let (errNonEmpty, ts) ← pBool ts
  let (fileAfter, ts) ← pOptName ts
  let (_, ts) ← expect "LIB" ts
  let (lib, ts) ← pOptName ts
  if !ts.isEmpty then none else
  let obs : CliOutcome := ⟨exit, stdout, errNonEmpty, fileAfter⟩
  let m := runCli args input out
  -- the property, stated on the observation: success prints header + rendering, failure is clean
  let inputFault := match input with
    | .content evs => (match intoStruct evs with | .ok _ => false | .error _ => true)
    | _ => true
  let hdr := cliHeader
  some (firstBad [
    fun _ =>
      if inputFault then
        if obs.exit != 1 then .prop s!"input at fault but exit status {obs.exit}"
        else if !obs.stdout.isEmpty then .prop "input at fault but something was printed on stdout"
        else if !obs.stderrNonEmpty then .prop "input at fault but no diagnostic on stderr"
        else if obs.fileAfter != outBefore out then .prop "input at fault but the output file was created or modified"
        else .ok
      else match out with
        | .file false _ =>
          if obs.exit != 1 then .prop s!"output cannot be created but exit status {obs.exit}"
          else if !obs.stdout.isEmpty then .prop "output cannot be created but something was printed on stdout"
          else if !obs.stderrNonEmpty then .prop "output cannot be created but no diagnostic on stderr"
          else .ok
        | .file true _ =>
          if obs.exit != 0 then .prop s!"valid input but exit status {obs.exit}"
          else if !obs.stdout.isEmpty then .prop "output file named but stdout not empty"
          else (match obs.fileAfter with
            | some f => (match stripPrefix? hdr f, lib with
                | some body, some l => if body == l then .ok else .prop "output file is not header + the library's rendering for these options"
                | some _, none => .ok
                | none, _ => .prop "output file does not start with the header line and an empty line")
            | none => .prop "output file missing")
        | .stdout =>
          if obs.exit != 0 then .prop s!"valid input but exit status {obs.exit}"
          else (match stripPrefix? hdr obs.stdout, lib with
            | some body, some l => if body == l ++ ['\n'] then .ok else .prop "stdout is not header + the library's rendering for these options + newline"
            | some body, none => if body.getLast? == some '\n' then .ok else .prop "stdout does not end with a newline"
            | none, _ => .prop "stdout does not start with the header line and an empty line"),
    fun _ =>
      -- the model's character classes are those of Rust only on the supported alphabet (Model/Chars.lean)
      let inAlphabet := match input with
        | .content evs => (match intoStruct evs with | .ok t => Xsg.Driver.Elem.inAlphabet t | .error _ => true)
        | _ => true
      if !inAlphabet then .gen "names-outside-alphabet"
      else if m == obs then .ok
      else .corr s!"cli model=(exit {m.exit}, stdout {repr (showName m.stdout)}, stderr {m.stderrNonEmpty}, file {repr (m.fileAfter.map showName)}) impl=(exit {obs.exit}, stdout {repr (showName obs.stdout)}, stderr {obs.stderrNonEmpty}, file {repr (obs.fileAfter.map showName)})" ])

/-! ### C02 / C13: `D <id> <prop> PROG <quick-xml rendering> K<k> <doc>* RES <compiled> (<ok> <captured>)*` -/
def handleD (prop : String) (ts : List String) : Option Verdict := do
  let (_, ts) ← expect "PROG" ts
  let (txt, ts) ← pName ts
  let (k, ts) ← pCount 'K' ts
  let (docs, ts) ← pRep (pOptDoc fuelMax) k ts
  let (_, ts) ← expect "RES" ts
  let (compiled, ts) ← pBool ts
  let (results, ts) ← pRep (fun ts => do let (a, ts) ← pBool ts; let (b, ts) ← pBool ts; pure ((a, b), ts)) k ts
  if !ts.isEmpty then none else
  let doms := docs.filterMap (·.map (·.root))
  if doms.length != k then some (.gen "no-dom") else
  let spec := specOfDocs doms
  some (
    if !wfDocs doms then .gen "not-wellformed"
    else if !doms.all (fun d => d.allNames dataName) then .gen "names-outside-domain"
    else if !spec.noPrefixClash then .gen "names-clash-after-prefix-removal"
    else if !plainNames spec.bind then .gen "reserved-binding-names"
    else if !doms.all Node.dataOriented then .gen "mixed-content"
    else if prop == "C13" && !doms.all Node.sxrScope then .gen "outside-serde-xml-rs-scope"
    else match readProgramN txt with
    | none => .corr "the model's reader cannot read the rendered text as a sequence of struct items"
    | some prog =>
      let mCompiles := decide (Compiles prog)
      firstBad [
        fun _ => if compiled then .ok else .prop "the rendered source does not compile",
        fun _ => firstBad ((results.zipIdx).map fun ((ok, cap), i) => fun _ =>
          if !ok then .prop s!"from_str fails on source document {i}"
          else if !cap then .prop s!"document {i}: an attribute value or text content is missing from the deserialized value"
          else .ok),
        fun _ => if mCompiles == compiled then .ok else .corr s!"compile: model={mCompiles} rustc={compiled}",
        fun _ => match schemaOfProgram prog with
          | none => .corr "model cannot resolve the field types"
          | some ps => firstBad (((doms.zip results).zipIdx).map fun ((d, (ok, _)), i) => fun _ =>
              if admits ps d == ok then .ok else .corr s!"acceptance of document {i}: model={admits ps d} deserializer={ok}") ])

end Xsg.Driver
