import XsgModel.Driver.History
/-!
# Driver: the property predicates evaluated on the implementation's observations (history cases)
-/
namespace Xsg.Driver
open Xsg Xsg.Proto

def isQuickUnsorted (o : Options) : Bool := o.attrPrefix == cl!"@" && o.textIdent == cl!"$text" && o.sort == .unsorted
def isQuickSorted (o : Options) : Bool := o.attrPrefix == cl!"@" && o.textIdent == cl!"$text" && o.sort == .xmlName

/-- bound names must not look like attribute or text bindings for `schemaOfProgram` to be meaningful -/
def plainNames : Schema → Bool
  | .mk _ as ks => as.all (fun a => !a.2.isEmpty) && goKids ks
where
  goKids : List (Name × Nec × Bool × Schema) → Bool
    | [] => true
    | (k, _, _, s) :: rest => (match k with | '@' :: _ => false | [] => false | _ => k ≠ cl!"$text") && plainNames s && goKids rest

/-- GEN conditions shared by the document-level properties -/
def docScope (c : HCase) : Option String :=
  match domsOf c.docs with
  | none => some "no-dom"
  | some doms =>
    if !wfDocs doms then some "not-wellformed"
    else if c.docs.any (fun d => match d.res with | .error _ => true | .ok _ => false) then some "impl-error-on-wellformed-doc"
    else none

def prefixes {α} (l : List α) : List (List α) := (List.range l.length).map fun i => l.take (i + 1)

/-! ### C03 -/
def checkC03 (c : HCase) (obs : List StepObs) : Verdict :=
  match domsOf c.docs with
  | none => .gen "no-dom"
  | some doms =>
    if !wfDocs doms then .gen "not-wellformed" else
    firstBad [
      fun _ => domEventsOk c.docs,
      -- exactness after every step, on the implementation's tree
      fun _ => firstBad (((obs.zip (prefixes doms)).zipIdx).map fun ((s, ds), i) => fun _ =>
        match s.implRes with
        | .error m => .prop s!"step={i} error on a well-formed document: {showName m}"
        | .ok t =>
          let spec := specOfDocs ds
          if schemaEq t.abs spec then .ok
          else .prop s!"step={i} inferred={showSchema t.abs.canon} determined-by-documents={showSchema spec.canon}"),
      -- one struct per non-String position, String typing, nothing else: read the text back
      fun _ => match finalImplTree obs, c.renders.find? (fun r => isQuickUnsorted r.1) with
        | some t, some (_, txt) =>
          let sch := t.abs.bind
          if !(plainNames sch && t.abs.noPrefixClash) then .ok else
          match readProgramN txt with
          | none => .corr "the model's reader cannot read the rendered text as a sequence of struct items"
          | some prog =>
            match schemaOfProgram prog with
            | none => .prop "field types of the rendered structs do not resolve"
            | some ps =>
              if !(ps.beq sch) then .prop s!"rendered={showSchema ps} tree={showSchema sch}"
              else if prog.length != sch.structCount then .prop s!"structs={prog.length} non-String-positions={sch.structCount}"
              else .ok
        | _, _ => .ok,
      fun _ => historyCorr 1 obs,
      fun _ => renderCorr (finalImplTree obs) c.renders ]

/-! ### C01 -/
def checkC01 (c : HCase) (obs : List StepObs) : Verdict :=
  match domsOf c.docs with
  | none => .gen "no-dom"
  | some doms =>
    if !wfDocs doms then .gen "not-wellformed"
    else if !(specOfDocs doms).noPrefixClash then .gen "names-differ-only-by-prefix"
    else if !plainNames (specOfDocs doms).bind then .gen "reserved-binding-names"
    else firstBad [
      fun _ => domEventsOk c.docs,
      fun _ => match c.renders.find? (fun r => isQuickUnsorted r.1) with
        | none => .gen "no-quick-xml-render"
        | some (_, txt) =>
          if c.docs.any (fun d => match d.res with | .error _ => true | .ok _ => false) then
            .prop "error on a well-formed document"
          else match readProgramN txt with
          | none => .corr "the model's reader cannot read the rendered text as a sequence of struct items"
          | some prog =>
            match schemaOfProgram prog with
            | none => .prop "field types of the rendered structs do not resolve"
            | some ps =>
              firstBad ((doms.zipIdx).map fun (d, i) => fun _ =>
                if admits ps d then .ok else .prop s!"document {i} is not admitted by {showSchema ps}"),
      fun _ => historyCorr 1 obs,
      fun _ => renderCorr (finalImplTree obs) c.renders ]

/-! ### C04 -/
def checkC04 (c : HCase) (obs : List StepObs) : Verdict :=
  match finalImplTree obs with
  | none => .gen "no-tree"
  | some t =>
    if !Elem.namesOK t then .gen "names-outside-C04-domain" else
    firstBad [
      fun _ => firstBad ((c.renders.zipIdx).map fun ((_, txt), i) => fun _ =>
        match readProgramN txt with
        | none => .corr s!"entry={i}: the model's reader cannot read the rendered text as a sequence of struct items"
        | some prog => if decide (WellFormed prog) then .ok else .prop s!"entry={i} not well-formed: {wfReason prog}"),
      fun _ => renderCorr (some t) c.renders,
      fun _ => historyCorr 2 obs ]
where
  wfReason (p : List PStruct) : String :=
    if !decide ((p.map (·.name)).Nodup) then "duplicate struct name"
    else if !p.all (fun s => legalTypeIdent s.name) then
      "illegal struct name " ++ String.intercalate "," ((p.filter fun s => !legalTypeIdent s.name).map fun s => showName s.name)
    else if !p.all (fun s => decide ((s.fields.map (·.ident)).Nodup)) then "duplicate field identifier"
    else if !p.all (fun s => s.fields.all fun f => legalIdent f.ident) then
      "illegal field identifier " ++ String.intercalate "," ((p.flatMap fun s => s.fields.filter fun f => !legalIdent f.ident).map fun f => showName f.ident)
    else if !p.all (fun s => s.fields.all fun f => f.base == stringTy || (p.map (·.name)).contains f.base) then "unresolved field type"
    else "struct not used by exactly one field"

/-! ### C05 -/
def checkC05 (c : HCase) (obs : List StepObs) : Verdict :=
  match finalImplTree obs with
  | none => .gen "no-tree"
  | some t =>
    if !Elem.inAlphabet t then .gen "names-outside-alphabet" else
    firstBad [
      -- all renderings made with equal options are byte-identical
      fun _ => firstBad (c.renders.map fun (o, txt) => fun _ =>
        match c.renders.find? (fun r => r.1.textIdent == o.textIdent && r.1.attrPrefix == o.attrPrefix && r.1.derive == o.derive && r.1.sort == o.sort) with
        | some (_, first) => if first == txt then .ok else .prop s!"two runs differ: {repr (showName first)} vs {repr (showName txt)}"
        | none => .ok),
      fun _ => renderCorr (some t) c.renders,
      fun _ => historyCorr 2 obs ]

/-! ### C07: only the correspondence (the search for panics is in the harness) -/
def checkC07 (c : HCase) (obs : List StepObs) : Verdict :=
  firstBad [
    fun _ => historyCorr 2 obs,
    fun _ => match finalImplTree obs with
      | some t => if Elem.inAlphabet t then renderCorr (some t) c.renders else .ok
      | none => .ok ]

/-! ### C08 -/
def checkC08 (c : HCase) (obs : List StepObs) : Verdict :=
  firstBad [
    fun _ => firstBad (((c.docs.zip obs).zipIdx).map fun ((d, s), i) => fun _ =>
      let expected := if i = 0 then expectedInit d.evs else
        (match obs[i - 1]? with
         | some p => if p.implTree.isSome then firstFault 0 d.evs else expectedInit d.evs
         | none => firstFault 0 d.evs)
      match expected, s.implRes with
      | none, .ok _ => .ok
      | some e, .error m =>
        -- the property is about what the error carries (variant, reader's error, byte position); the wording of
        -- `Display` is the implementation's own and only compared with the model's
        if e.carried != d.carried then .prop s!"step={i} the error carries {repr (showName d.carried)} but the first fault is {repr (showName e.carried)}"
        else if e.display == m then .ok else .corr s!"error-text step={i} model={repr (showName e.display)} impl={repr (showName m)}"
      | none, .error m => .prop s!"step={i} error {repr (showName m)} on an input without fault"
      | some e, .ok _ => .prop s!"step={i} Ok although the input has the fault {repr (showName e.display)}"),
    fun _ => historyCorr 2 obs ]

/-! ### C09 -/
def sortSchema (s : Schema) : Schema := s.canon

/-- multiset view of a program: structs with their fields, order forgotten -/
def progBag (p : List PStruct) : List (Name × List Name) :=
  sortBy (·.1) (p.map fun s => (s.name, sortBy id (s.fields.map fun f => f.ident ++ cl!": " ++ (if f.opt then cl!"?" else []) ++ (if f.vec then cl!"*" else []) ++ f.base ++ cl!" as " ++ f.bound)))

def checkC09 (c : HCase) (obs : List StepObs) : Verdict :=
  match domsOf c.docs with
  | none => .gen "no-dom"
  | some doms =>
    if !wfDocs doms then .gen "not-wellformed"
    else if !(specOfDocs doms).noPrefixClash then .gen "names-differ-only-by-prefix"
    else if !plainNames (specOfDocs doms).bind then .gen "reserved-binding-names"
    else if c.docs.any (fun d => match d.res with | .error _ => true | .ok _ => false) then .gen "impl-error"
    else
    let spec := specOfDocs doms
    let unsorted := c.renders.find? (fun r => isQuickUnsorted r.1)
    let sorted := c.renders.find? (fun r => isQuickSorted r.1)
    firstBad [
      fun _ => domEventsOk c.docs,
      fun _ => match unsorted with
        | none => .gen "no-unsorted-render"
        | some (_, txt) => match readProgramN txt with
          | none => .corr "the model's reader cannot read the unsorted text"
          | some prog => match schemaOfProgram prog with
            | none => .prop "unsorted: types do not resolve"
            | some ps =>
              if !(ps.beq spec.bind) then .prop s!"unsorted order: rendered={showSchema ps} first-appearance={showSchema spec.bind}"
              else if preorderNames prog (prog.length + 1) ((prog.head?.map (·.name)).getD []) != prog.map (·.name) then .prop "unsorted: struct definitions are not in pre-order"
              else .ok,
      fun _ => match sorted with
        | none => .ok
        | some (_, txt) => match readProgramN txt with
          | none => .corr "the model's reader cannot read the sorted text"
          | some prog => match schemaOfProgram prog with
            | none => .prop "sorted: types do not resolve"
            | some ps =>
              if !(ps.beq (sortSchema spec).bind) then .prop s!"sorted order: rendered={showSchema ps} by-name={showSchema (sortSchema spec).bind}"
              else if preorderNames prog (prog.length + 1) ((prog.head?.map (·.name)).getD []) != prog.map (·.name) then .prop "sorted: struct definitions are not in pre-order"
              else .ok,
      fun _ => match unsorted, sorted with
        | some (_, t1), some (_, t2) => match readProgramN t1, readProgramN t2 with
          | some p1, some p2 => if progBag p1 == progBag p2 then .ok else .prop "sorting changed more than the order"
          | _, _ => .ok
        | _, _ => .ok,
      fun _ => renderCorr (finalImplTree obs) c.renders,
      fun _ => historyCorr 2 obs ]

/-! ### C10 -/
def expectedBindings (o : Options) (e : Elem) : List (Option Name) :=
  -- `some b`: an attribute or child bound to `b`; `none`: the text field
  (sortedAttrs o e).map (fun a => some (o.attrPrefix ++ attrLocal a.2))
    ++ (if e.text then [none] else [])
    ++ (sortedChildren o e).map (fun c => some (removeNamespace c.2.name))

def skeleton (p : List PStruct) : List (Name × List (Name × Bool × Bool × Name)) :=
  p.map fun s => (s.name, s.fields.map fun f => (f.ident, f.opt, f.vec, f.base))

def checkC10 (c : HCase) (obs : List StepObs) : Verdict :=
  match finalImplTree obs with
  | none => .gen "no-tree"
  | some t =>
    if !Elem.inAlphabet t then .gen "names-outside-alphabet" else
    match readAll c.renders with
    | none => .corr "the model's reader cannot read some rendering as a sequence of struct items"
    | some progs =>
      firstBad [
        fun _ => firstBad ((progs.zipIdx).map fun ((o, prog), i) => fun _ =>
          let entries := walk o.sort [] [] t
          if !prog.all (fun s => s.derive == (if o.derive.isEmpty then none else some o.derive)) then
            .prop s!"entry={i} derive attribute is not the option's string"
          else if prog.length != entries.length then .prop s!"entry={i} {prog.length} structs for {entries.length} struct positions"
          else firstBad ((prog.zip entries).map fun (s, en) => fun _ =>
            let exp := expectedBindings o en.elem
            if s.fields.length != exp.length then .prop s!"entry={i} struct {showName s.name}: {s.fields.length} fields for {exp.length} attributes/text/children"
            else firstBad ((s.fields.zip exp).map fun (f, b) => fun _ =>
              match b with
              | none => if f.rename == some o.textIdent then .ok else .prop s!"entry={i} text field of {showName s.name} not bound to the text identifier"
              | some b =>
                if f.rename == (if f.ident != b then some b else none) then .ok
                else .prop s!"entry={i} field {showName f.ident} of {showName s.name}: rename {repr (f.rename.map showName)} but bound name is {showName b}"))),
        fun _ => firstBad (progs.map fun (o, prog) => fun _ =>
          match progs.find? (fun r => r.1.sort == o.sort) with
          | some (_, first) => if skeleton first == skeleton prog then .ok else .prop "options other than sort changed structs, fields, identifiers, types or order"
          | none => .ok),
        fun _ => renderCorr (some t) c.renders ]

/-! ### C14 -/
/-- `name` = the last `j+1` trace items joined, plus a suffix, for some `j`. The property leaves the form of the suffix
open ("optionally followed by a disambiguating suffix"), so any string counts here; that it disambiguates something
is `suffixNeeded`. -/
def nameShapeOk (trace : List Name) (name : Name) : Bool :=
  (List.range trace.length).any fun j =>
    (stripPrefix? ((trace.drop (trace.length - (j + 1))).flatten) name).isSome

/-- some way of reading `name` as "last `j+1` trace items + suffix" uses only as many ancestors as are needed:
`j = 0`, or the positions of this PascalCase name are not yet separated by `j` items (own name + `j-1` ancestors) -/
def qualificationNeeded (all : List (Name × List Name)) (trace : List Name) (own : Name) (name : Name) : Bool :=
  let group := traceGroup all own
  let minLen := (group.map List.length).min?.getD 0
  (List.range trace.length).any fun j =>
    (stripPrefix? ((trace.drop (trace.length - (j + 1))).flatten) name).isSome &&
    (j == 0 || j > minLen || !decide ((group.map (traceBuffer j)).Nodup))

/-- some way of reading `name` as "last `j+1` trace items + suffix" has no suffix, or its unsuffixed part is a
reserved name or the name of another struct of the output: the suffix disambiguates something -/
def suffixNeeded (others : List Name) (trace : List Name) (name : Name) : Bool :=
  (List.range trace.length).any fun j =>
    let base := (trace.drop (trace.length - (j + 1))).flatten
    match stripPrefix? base name with
    | some rest => rest.isEmpty || reservedStructNames.contains base || others.contains base
    | none => false

def checkC14 (c : HCase) (obs : List StepObs) : Verdict :=
  match finalImplTree obs, c.renders.find? (fun r => r.1.sort == .unsorted) with
  | some t, some (_, txt) =>
    if !Elem.inAlphabet t then .gen "names-outside-alphabet" else
    match readProgramN txt with
    | none => .corr "the model's reader cannot read the rendered text as a sequence of struct items"
    | some prog =>
      let entries := walk .unsorted [] [] t
      let all := fillNames [] t
      if prog.length != entries.length then .prop s!"{prog.length} structs for {entries.length} struct positions" else
      firstBad [
        fun _ => firstBad (((prog.zip entries).zipIdx).map fun ((s, en), i) => fun _ =>
          let own := pascal en.elem.name
          if !nameShapeOk en.trace s.name then .prop s!"struct {showName s.name} is not ancestors + own name + suffix for path {String.intercalate "/" (en.path.map showName)}"
          else if i = 0 && !(stripPrefix? own s.name).isSome then
            .prop s!"first struct {showName s.name} is not the root element's name"
          else if (all.filter (fun p => p.1 = own)).length = 1 && !(stripPrefix? own s.name).isSome then
            .prop s!"struct {showName s.name}: the name {showName own} occurs once in the tree but is qualified"
          else if !qualificationNeeded all en.trace own s.name then
            .prop s!"struct {showName s.name} is qualified by more ancestors than are needed to separate the positions of {showName own}"
          else if !suffixNeeded (((prog.zipIdx).filter fun (_, k) => k != i).map fun (s', _) => s'.name) en.trace s.name then
            .prop s!"struct {showName s.name} carries a suffix although its unsuffixed name is neither reserved nor the name of another struct"
          else .ok),
        fun _ => renderCorr (some t) c.renders ]
  | _, _ => .gen "no-tree-or-render"

def checkH (prop : String) (c : HCase) : Verdict :=
  let obs := runHistory c.docs
  match prop with
  | "C01" => checkC01 c obs
  | "C03" => checkC03 c obs
  | "C04" => checkC04 c obs
  | "C05" => checkC05 c obs
  | "C07" => checkC07 c obs
  | "C08" => checkC08 c obs
  | "C09" => checkC09 c obs
  | "C10" => checkC10 c obs
  | "C14" => checkC14 c obs
  | _ => .gen "unknown-property"

end Xsg.Driver
