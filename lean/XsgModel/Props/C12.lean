import XsgModel.Model.Cli
/-!
# C12 — the command-line program is the library plus a header, and fails cleanly

Statements about `runCli` (the model of `main.rs` 18-58), for every argument record, every input status
and every output target.
-/
namespace Xsg

/-- `--parser`, `--derive`, `--sort` map to the options `args.rs` says, defaults included -/
theorem C12_options (a : CliArgs) :
    (optionsOf a).derive = a.derive.getD (cl!"Serialize, Deserialize") ∧
    (optionsOf a).sort = a.sort ∧
    (optionsOf a).textIdent = cl!"$text" ∧
    (optionsOf a).attrPrefix = (match a.parser with | .quickXmlDe => cl!"@" | .serdeXmlRs => []) := by
  cases a with
  | mk p d s => cases p <;> exact ⟨rfl, rfl, rfl, rfl⟩

theorem C12_default_options : optionsOf {} = Options.quickXmlDe := rfl

/-- valid input, output to stdout: exit 0, exactly header + the library's rendering + one newline, nothing on stderr, no file -/
theorem C12_ok_stdout (a : CliArgs) (evs : List Ev) (t : Elem) (h : intoStruct evs = .ok t) :
    runCli a (.content evs) .stdout =
      ⟨0, cl!"use serde::{Deserialize, Serialize};\n\n" ++ toSerdeStruct (optionsOf a) t ++ ['\n'], false, none⟩ := by
  simp [runCli, h, cliHeader]

/-- valid input, creatable output file: exit 0, the file holds exactly header + rendering, stdout stays empty -/
theorem C12_ok_file (a : CliArgs) (evs : List Ev) (t : Elem) (before : Option Name) (h : intoStruct evs = .ok t) :
    runCli a (.content evs) (.file true before) =
      ⟨0, [], false, some (cl!"use serde::{Deserialize, Serialize};\n\n" ++ toSerdeStruct (optionsOf a) t)⟩ := by
  simp [runCli, h, cliHeader]

/-- the input is at fault (missing, unreadable, not UTF-8, rejected by the parser): exit 1, diagnostic on stderr,
nothing on stdout, the named output file neither created nor modified -/
theorem C12_input_fault (a : CliArgs) (input : InputStatus) (out : OutTarget)
    (h : match input with
         | .content evs => ∃ e, intoStruct evs = .error e
         | _ => True) :
    runCli a input out = ⟨1, [], true, outBefore out⟩ := by
  cases input with
  | missing => rfl
  | unreadable => rfl
  | notUtf8 => rfl
  | content evs =>
    obtain ⟨e, he⟩ := h
    simp [runCli, he]

/-- the output cannot be created: exit 1, diagnostic, nothing on stdout (whatever the input) -/
theorem C12_output_fault (a : CliArgs) (input : InputStatus) (before : Option Name) :
    let r := runCli a input (.file false before)
    r.exit = 1 ∧ r.stdout = [] ∧ r.stderrNonEmpty = true ∧ r.fileAfter = before := by
  cases input with
  | missing => exact ⟨rfl, rfl, rfl, rfl⟩
  | unreadable => exact ⟨rfl, rfl, rfl, rfl⟩
  | notUtf8 => exact ⟨rfl, rfl, rfl, rfl⟩
  | content evs =>
    simp only [runCli]
    cases intoStruct evs <;> exact ⟨rfl, rfl, rfl, rfl⟩

/-- the exit status is 0 or 1, and it is 0 exactly when the input parses and the output can be written -/
theorem C12_exit (a : CliArgs) (input : InputStatus) (out : OutTarget) :
    (runCli a input out).exit = 0 ↔
      (∃ evs t, input = .content evs ∧ intoStruct evs = .ok t) ∧ (out = .stdout ∨ ∃ b, out = .file true b) := by
  cases input with
  | missing => simp [runCli]
  | unreadable => simp [runCli]
  | notUtf8 => simp [runCli]
  | content evs =>
    simp only [runCli]
    cases h : intoStruct evs with
    | error e => simp [h]
    | ok t =>
      cases out with
      | stdout => simp [h]
      | file c b => cases c <;> simp [h]

/-- non-vacuity: `<a/>` parses -/
example : ∃ t, intoStruct [.empty (.ok (cl!"a")) [], .eof] = .ok t := ⟨_, rfl⟩

end Xsg
