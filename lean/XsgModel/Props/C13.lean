import XsgModel.Props.C02
import XsgModel.Props.C10
import XsgModel.Proofs.DeserSxr
import XsgModel.Proofs.DeserScope
/-!
# C13 — serde-xml-rs preset: generated code compiles and deserializes its sources  (PARTIAL, known finding K1)

As C02 for the serde-xml-rs preset (no attribute prefix).  The full statement of the property is false for
the pinned dependency: serde-xml-rs 0.6.0 hands character data to the field named `$value`, the preset binds
the text field to `$text` (`C13_text_binding_mismatch`), so the text of an element that is rendered as a
struct is dropped although `from_str` succeeds (known finding K1; `<r><e k="1">hi</e></r>`).  The preset
cannot be changed without editing the pinned test `to_serde_struct_with_text_for_serde_xml_rs`.
`C13_partial` is the part that holds: everything of C02, for the serde-xml-rs rendering.
-/
namespace Xsg

/-- the name serde-xml-rs 0.6.0 uses for character data (an assumption about the third-party crate, validated
by the compile-and-run correspondence: a struct with a `$value` field receives the text, one with `$text` does not) -/
def sxrTextKey : Name := cl!"$value"

theorem C13_text_binding_mismatch (im : IdentMap) : (textField Options.serdeXmlRs im).rename ≠ some sxrTextKey := by
  simp [textField, Options.serdeXmlRs, sxrTextKey]

theorem C13_partial (H : List Doc) (h : historyOk H) :
    ∃ t, parseHistory (H.map Doc.events) = .ok t ∧
      CompilesStructurally (renderAST Options.serdeXmlRs t) ∧
      (∀ d ∈ H, Admits t d.root) := by
  obtain ⟨t, ht, hadm⟩ := C01_sound H h
  have hinv := C11_parsed_inv _ t ht
  exact ⟨t, ht, ⟨C04_structs_unique _ t hinv, (struct_names_spec _ _ t hinv).2, C04_types_resolve _ t⟩, hadm⟩

/-- the two presets render the same structs, fields, identifiers and types (C10), so everything structural
carries over; attributes are bound to their bare local name -/
theorem C13_same_skeleton (t : Elem) :
    (renderAST Options.serdeXmlRs t).map (fun s => (s.name, s.fields.map fun f => (f.ident, f.opt, f.vec, f.base)))
      = (renderAST Options.quickXmlDe t).map (fun s => (s.name, s.fields.map fun f => (f.ident, f.opt, f.vec, f.base))) := by
  simp only [renderAST, renderWith, List.map_map]
  apply List.map_congr_left
  intro en _
  simp only [Function.comp]
  have := C10_only_renames Options.serdeXmlRs Options.quickXmlDe rfl (hintOf (fillNames [] t)) (structNames (hintOf (fillNames [] t)) t) en
  rw [this]
  rfl

theorem C13_attr_binding (im : IdentMap) (a : Nec × Name) :
    ((attrField Options.serdeXmlRs im a).rename.getD (attrField Options.serdeXmlRs im a).ident) = attrLocal a.2 := by
  have := (C01_attr_field Options.serdeXmlRs im a).2.2.2
  simpa [Options.serdeXmlRs] using this

/-! ### with the model of `serde_xml_rs` (`Model/Deser.lean`) -/

/-- **C13, deserialization** (relative to the deserializer model, which the compile-and-run correspondence ties
to the real crate): for every history of well-formed documents with their values, inside the property's scope
(`sxrOK`: no `:` in names, attribute names of a position distinct from its child names; `adjacentOK`: repeated
children adjacent; `inModel`: no mixed content), `from_str` into the first rendered struct succeeds on every
source document, and the non-empty strings of the value are exactly what the structs have a place for
(`VNode.kept false`): every attribute value and the character data of every `String`-typed element.  The
character data of an element rendered as a struct is *not* among them: known finding K1. -/
theorem C13_deserializes (H : List VDoc) (h : historyOk (H.map VDoc.erase)) :
    ∃ t, parseHistory ((H.map VDoc.erase).map Doc.events) = .ok t ∧
      (t.sxrOK = true → ∀ d ∈ H, d.root.adjacentOK = true → d.root.inModel DeCfg.serdeXmlRs = true →
        ∃ v, deDoc DeCfg.serdeXmlRs ((renderAST Options.serdeXmlRs t).map StructDef.plain) false d.root = .ok v ∧
          (ne v.strings).Perm (ne (d.root.kept false DeCfg.serdeXmlRs t))) := by
  obtain ⟨t, ht, hadm⟩ := C01_sound _ h
  refine ⟨t, ht, ?_⟩
  intro hk d hd hadj hmodel
  have hinv := C11_parsed_inv _ t ht
  have hdm : d.erase ∈ H.map VDoc.erase := List.mem_map_of_mem hd
  have hok : d.root.erase.ok = true := by
    have := h.2.1 d.erase hdm
    simp only [Doc.ok, VDoc.erase, Bool.and_eq_true] at this
    exact this.1.2
  obtain ⟨r, hr⟩ : ∃ r, walk oS.sort [] [] t = ⟨[t.name], [pascal t.name], t⟩ :: r := by
    have := walk_head oS.sort t
    cases hw : walk oS.sort [] [] t with
    | nil => rw [hw] at this; cases this
    | cons b r => rw [hw] at this; simp only [List.head?_cons, Option.some.injEq] at this; exact ⟨r, by rw [this]⟩
  have hen : (⟨[t.name], [pascal t.name], t⟩ : Entry) ∈ walk oS.sort [] [] t := by rw [hr]; simp
  obtain ⟨v, hv, hp⟩ := deNode_sxr t hinv d.root ⟨[t.name], [pascal t.name], t⟩ hen hk hadj hinv (hadm d.erase hdm) hok hmodel
  refine ⟨v, ?_, hp⟩
  have hp' : (renderAST oS t).map StructDef.plain
      = (structOf oS (hintOf (fillNames [] t)) (structNames (hintOf (fillNames [] t)) t) ⟨[t.name], [pascal t.name], t⟩).plain
        :: (r.map (structOf oS (hintOf (fillNames [] t)) (structNames (hintOf (fillNames [] t)) t))).map StructDef.plain := by
    simp only [renderAST, renderWith, hr, List.map_cons]
  show deDoc cS ((renderAST oS t).map StructDef.plain) false d.root = .ok v
  rw [hp'] at hv ⊢
  exact hv

/-- **C13 with the scope stated on the documents**: `sxrOK` of the executable schema of the history. -/
theorem C13_holds (H : List VDoc) (h : historyOk (H.map VDoc.erase))
    (hk : (specOfDocs ((H.map VDoc.erase).map (·.root))).sxrOK = true) :
    ∃ t, parseHistory ((H.map VDoc.erase).map Doc.events) = .ok t ∧
      ∀ d ∈ H, d.root.adjacentOK = true → d.root.inModel DeCfg.serdeXmlRs = true →
        ∃ v, deDoc DeCfg.serdeXmlRs ((renderAST Options.serdeXmlRs t).map StructDef.plain) false d.root = .ok v ∧
          (ne v.strings).Perm (ne (d.root.kept false DeCfg.serdeXmlRs t)) := by
  obtain ⟨t, ht, hmain⟩ := C13_deserializes H h
  obtain ⟨t', ht', habs⟩ := C03_spec_exact _ h
  have : t' = t := by rw [ht] at ht'; exact (Except.ok.inj ht').symm
  subst this
  refine ⟨t', ht, hmain ?_⟩
  rw [← abs_sxrOK, habs]
  exact hk

namespace C13Example
/-- `<r><e k="1">hi</e><f>t</f></r>` -/
def d1 : VDoc := ⟨.nil, .mk (cl!"r") [] false
  (.elem (.mk (cl!"e") [(cl!"k", cl!"1")] false (.text false (cl!"hi") .nil))
  (.elem (.mk (cl!"f") [] false (.text false (cl!"t") .nil)) .nil)), .nil⟩
def H : List VDoc := [d1]

theorem ok : historyOk (H.map VDoc.erase) := by
  refine ⟨by simp [H], ?_, ?_⟩
  · intro d hd
    simp only [H, List.map_cons, List.map_nil, List.mem_cons, List.mem_nil_iff, or_false] at hd
    subst hd; decide
  · intro d hd d' hd'
    simp only [H, List.map_cons, List.map_nil, List.mem_cons, List.mem_nil_iff, or_false] at hd hd'
    subst hd; subst hd'; rfl

/-- the tree the library builds for this history (evaluated in the kernel) -/
def t : Elem := match parseHistory ((H.map VDoc.erase).map Doc.events) with | .ok t => t | .error _ => default

theorem parsed : parseHistory ((H.map VDoc.erase).map Doc.events) = .ok t := by
  obtain ⟨t', ht', _⟩ := C01_sound _ ok
  unfold t
  rw [ht']

/-- non-vacuity of `C13_deserializes`, and K1 as a statement about the model: the document is in scope, it
deserializes, the attribute value and the text of the `String`-typed `f` are kept — and `hi`, the character
data of `e` (rendered as a struct because it has an attribute), is not. -/
theorem K1_witness :
    t.sxrOK = true ∧ d1.root.adjacentOK = true ∧ d1.root.inModel DeCfg.serdeXmlRs = true ∧
    d1.root.kept false DeCfg.serdeXmlRs t = [cl!"1", cl!"t"] ∧ d1.root.values DeCfg.serdeXmlRs = [cl!"1", cl!"hi", cl!"t"] := by
  decide +kernel
theorem scope : (specOfDocs ((H.map VDoc.erase).map (·.root))).sxrOK = true := by decide +kernel

/-- non-vacuity of `C13_holds` -/
example : ∃ t, parseHistory ((H.map VDoc.erase).map Doc.events) = .ok t ∧
    ∀ d ∈ H, d.root.adjacentOK = true → d.root.inModel DeCfg.serdeXmlRs = true →
      ∃ v, deDoc DeCfg.serdeXmlRs ((renderAST Options.serdeXmlRs t).map StructDef.plain) false d.root = .ok v ∧
        (ne v.strings).Perm (ne (d.root.kept false DeCfg.serdeXmlRs t)) := C13_holds H ok scope
end C13Example

end Xsg
