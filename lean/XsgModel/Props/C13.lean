import XsgModel.Props.C02
import XsgModel.Props.C10
/-!
# C13 — serde-xml-rs preset: generated code compiles and deserializes its sources  (PARTIAL, known finding K1)

As C02 for the serde-xml-rs preset (no attribute prefix).  The full statement of the property is false for
the pinned dependency: serde-xml-rs 0.6.0 hands character data to the field named `$value`, the preset binds
the text field to `$text` (`C13_text_binding_mismatch`), so the text of an element that is rendered as a
struct is dropped although `from_str` succeeds (known finding K1; `<r><e k="1">hi</e></r>`).  The preset
cannot be changed without editing the pinned test `to_serde_struct_with_text_for_serde_xml_rs`.
`C13_partial` is the part that holds: everything of C02, for the serde-xml-rs rendering.
-/
namespace Xsg

/-- the name serde-xml-rs 0.6.0 uses for character data (an assumption about the third-party crate, validated
by the compile-and-run correspondence: a struct with a `$value` field receives the text, one with `$text` does not) -/
def sxrTextKey : Name := cl!"$value"

theorem C13_text_binding_mismatch (im : IdentMap) : (textField Options.serdeXmlRs im).rename ≠ some sxrTextKey := by
  simp [textField, Options.serdeXmlRs, sxrTextKey]

theorem C13_partial (H : List Doc) (h : historyOk H) :
    ∃ t, parseHistory (H.map Doc.events) = .ok t ∧
      CompilesStructurally (renderAST Options.serdeXmlRs t) ∧
      (∀ d ∈ H, Admits t d.root) := by
  obtain ⟨t, ht, hadm⟩ := C01_sound H h
  have hinv := C11_parsed_inv _ t ht
  exact ⟨t, ht, ⟨C04_structs_unique _ t hinv, (struct_names_spec _ _ t hinv).2, C04_types_resolve _ t⟩, hadm⟩

/-- the two presets render the same structs, fields, identifiers and types (C10), so everything structural
carries over; attributes are bound to their bare local name -/
theorem C13_same_skeleton (t : Elem) :
    (renderAST Options.serdeXmlRs t).map (fun s => (s.name, s.fields.map fun f => (f.ident, f.opt, f.vec, f.base)))
      = (renderAST Options.quickXmlDe t).map (fun s => (s.name, s.fields.map fun f => (f.ident, f.opt, f.vec, f.base))) := by
  simp only [renderAST, renderWith, List.map_map]
  apply List.map_congr_left
  intro en _
  simp only [Function.comp]
  have := C10_only_renames Options.serdeXmlRs Options.quickXmlDe rfl (hintOf (fillNames [] t)) (structNames (hintOf (fillNames [] t)) t) en
  rw [this]
  rfl

theorem C13_attr_binding (im : IdentMap) (a : Nec × Name) :
    ((attrField Options.serdeXmlRs im a).rename.getD (attrField Options.serdeXmlRs im a).ident) = attrLocal a.2 := by
  have := (C01_attr_field Options.serdeXmlRs im a).2.2.2
  simpa [Options.serdeXmlRs] using this

end Xsg
