import XsgModel.Proofs.Unique
import XsgModel.Proofs.SubStruct
import XsgModel.Proofs.Fragment
import XsgModel.Proofs.SpecOf
/-!
# C06 — extending with further documents behaves like inferring from their union

Corollaries of `C03_exact` (the tree `Matches` the list of all roots supplied so far) and of
`matches_unique` / `matches_grows` (`Matches` only looks at *membership* in the list of occurrences).
`SchemaEq` is equality of schemas up to field order: text flag, attribute names and necessity, child names,
necessity, multiplicity, nesting.
-/
namespace Xsg

theorem parse_exact (H : List Doc) (h : historyOk H) :
    ∃ t, parseHistory (H.map Doc.events) = .ok t ∧ Matches t (H.map (·.root)) := by
  cases H with
  | nil => exact absurd rfl h.1
  | cons d ds =>
    obtain ⟨-, hok, hnames⟩ := h
    obtain ⟨R, hR, hm, hn⟩ := intoStruct_doc d (hok d (by simp))
    simp only [parseHistory, List.map_cons, hR]
    obtain ⟨R', hR', hm', -⟩ := extend_fold ds R [d.root] (by simp) hm
      (fun d' hd' => ⟨hok d' (by simp [hd']), by rw [hn]; exact hnames d' (by simp [hd']) d (by simp)⟩)
    exact ⟨R', hR', by simpa using hm'⟩

/-- extending a parsed structure with further documents yields the schema of the union of all occurrences -/
theorem C06_union (H₁ H₂ : List Doc) (h : historyOk (H₁ ++ H₂)) (h₁ : H₁ ≠ []) :
    ∃ t₁ t, parseHistory (H₁.map Doc.events) = .ok t₁ ∧
      (H₂.map Doc.events).foldl extendStep (Except.ok t₁) = .ok t ∧
      Matches t ((H₁ ++ H₂).map (·.root)) := by
  have hH₁ : historyOk H₁ := ⟨h₁, fun d hd => h.2.1 d (by simp [hd]), fun d hd d' hd' => h.2.2 d (by simp [hd]) d' (by simp [hd'])⟩
  obtain ⟨t₁, ht₁, hm₁⟩ := parse_exact H₁ hH₁
  cases H₁ with
  | nil => exact absurd rfl h₁
  | cons d ds =>
    obtain ⟨R, hR, hm, hn⟩ := intoStruct_doc d (h.2.1 d (by simp))
    -- the name of t₁ is the common root name
    have hname : ∀ d' ∈ H₂, d'.ok = true ∧ d'.root.name = t₁.name := by
      intro d' hd'
      refine ⟨h.2.1 d' (by simp [hd']), ?_⟩
      simp only [parseHistory, List.map_cons, hR] at ht₁
      obtain ⟨R', hR', -, hn'⟩ := extend_fold ds R [d.root] (by simp) hm
        (fun x hx => ⟨h.2.1 x (by simp [hx]), by rw [hn]; exact h.2.2 x (by simp [hx]) d (by simp)⟩)
      rw [hR'] at ht₁
      cases ht₁
      rw [hn', hn]
      exact h.2.2 d' (by simp [hd']) d (by simp)
    obtain ⟨t, ht, hmt, -⟩ := extend_fold H₂ t₁ ((d :: ds).map (·.root)) (by simp) hm₁ hname
    exact ⟨t₁, t, ht₁, ht, by simpa using hmt⟩

/-- the schema does not depend on the order in which the documents are supplied, nor on supplying a document
several times: two histories with the same set of documents give the same schema up to field order -/
theorem C06_order (H H' : List Doc) (h : historyOk H) (h' : historyOk H') (hset : ∀ d, d ∈ H ↔ d ∈ H') :
    ∃ t t', parseHistory (H.map Doc.events) = .ok t ∧ parseHistory (H'.map Doc.events) = .ok t' ∧ SchemaEq t t' := by
  obtain ⟨t, ht, hm⟩ := parse_exact H h
  obtain ⟨t', ht', hm'⟩ := parse_exact H' h'
  refine ⟨t, t', ht, ht', matches_unique hm hm' ?_⟩
  intro o
  simp only [List.mem_map]
  constructor
  · rintro ⟨d, hd, rfl⟩; exact ⟨d, (hset d).mp hd, rfl⟩
  · rintro ⟨d, hd, rfl⟩; exact ⟨d, (hset d).mpr hd, rfl⟩

/-- in particular for permutations … -/
theorem C06_perm (H H' : List Doc) (h : historyOk H) (hp : H.Perm H') :
    ∃ t t', parseHistory (H.map Doc.events) = .ok t ∧ parseHistory (H'.map Doc.events) = .ok t' ∧ SchemaEq t t' := by
  have h' : historyOk H' := by
    refine ⟨?_, fun d hd => h.2.1 d (hp.mem_iff.mpr hd), fun d hd d' hd' => h.2.2 d (hp.mem_iff.mpr hd) d' (hp.mem_iff.mpr hd')⟩
    intro e; subst e; exact h.1 (List.Perm.eq_nil hp)
  exact C06_order H H' h h' (fun d => hp.mem_iff)

/-- … and for supplying a document a second time -/
theorem C06_idempotent (H : List Doc) (d : Doc) (h : historyOk H) (hd : d ∈ H) :
    ∃ t t', parseHistory (H.map Doc.events) = .ok t ∧ parseHistory ((H ++ [d]).map Doc.events) = .ok t' ∧ SchemaEq t t' := by
  have h' : historyOk (H ++ [d]) := by
    refine ⟨by simp, ?_, ?_⟩
    · intro x hx; simp only [List.mem_append, List.mem_singleton] at hx
      rcases hx with hx | rfl; exact h.2.1 x hx; exact h.2.1 x hd
    · intro x hx y hy
      simp only [List.mem_append, List.mem_singleton] at hx hy
      have mx : x ∈ H := by rcases hx with hx | rfl; exact hx; exact hd
      have my : y ∈ H := by rcases hy with hy | rfl; exact hy; exact hd
      exact h.2.2 x mx y my
  refine C06_order H (H ++ [d]) h h' ?_
  intro x; simp only [List.mem_append, List.mem_singleton]
  constructor
  · exact Or.inl
  · rintro (hx | rfl); exact hx; exact hd

/-- extension never drops a field, never turns an Option field into a required one or a Vec field into a single one -/
theorem C06_monotone (H₁ H₂ : List Doc) (h : historyOk (H₁ ++ H₂)) (h₁ : H₁ ≠ []) :
    ∃ t₁ t, parseHistory (H₁.map Doc.events) = .ok t₁ ∧ parseHistory ((H₁ ++ H₂).map Doc.events) = .ok t ∧ Grows t₁ t := by
  have hH₁ : historyOk H₁ := ⟨h₁, fun d hd => h.2.1 d (by simp [hd]), fun d hd d' hd' => h.2.2 d (by simp [hd]) d' (by simp [hd'])⟩
  obtain ⟨t₁, ht₁, hm₁⟩ := parse_exact H₁ hH₁
  obtain ⟨t, ht, hm⟩ := parse_exact (H₁ ++ H₂) h
  refine ⟨t₁, t, ht₁, ht, matches_grows hm₁ hm ?_⟩
  intro o ho
  simp only [List.map_append, List.mem_append]
  exact Or.inl ho

/-! ## element-less inputs -/

theorem run_elementless (evs : List Ev) (f : Frame) (h1 : firstFault 0 evs = none) (h2 : hasElement 0 evs = false) :
    ∃ w, finish (runEvents (.run [f]) evs) = .ok w ∧ w.children = f.elem.children := by
  induction evs generalizing f with
  | nil => exact ⟨f.elem, rfl, rfl⟩
  | cons ev evs ih =>
    rw [runEvents_cons]
    cases ev with
    | start nm as =>
      cases nm with
      | bad m => simp [firstFault] at h1
      | ok n =>
        simp only [firstFault, hasElement] at h1 h2
        cases hk : attrKeys as with
        | error e => rw [hk] at h1; cases h1
        | ok ks => rw [hk] at h2; simp [Except.toBool] at h2
    | empty nm as =>
      cases nm with
      | bad m => simp [firstFault] at h1
      | ok n =>
        simp only [firstFault, hasElement] at h1 h2
        cases hk : attrKeys as with
        | error e => rw [hk] at h1; cases h1
        | ok ks => rw [hk] at h2; simp [Except.toBool] at h2
    | endTag => exact ⟨f.elem, by simp [step, runEvents_done, finish], rfl⟩
    | text u =>
      cases u with
      | bad m => simp [firstFault] at h1
      | ok s =>
        obtain ⟨w, hw, hc⟩ := ih { f with elem := f.elem.setText true } (by simpa [firstFault] using h1) (by simpa [hasElement] using h2)
        exact ⟨w, by simpa [step] using hw, by simpa using hc⟩
    | cdata u =>
      cases u with
      | bad m => simp [firstFault] at h1
      | ok s =>
        obtain ⟨w, hw, hc⟩ := ih { f with elem := f.elem.setText true } (by simpa [firstFault] using h1) (by simpa [hasElement] using h2)
        exact ⟨w, by simpa [step] using hw, by simpa using hc⟩
    | ignored =>
      obtain ⟨w, hw, hc⟩ := ih f (by simpa [firstFault] using h1) (by simpa [hasElement] using h2)
      exact ⟨w, by simpa [step] using hw, hc⟩
    | eof => exact ⟨f.elem, by simp [step, runEvents_done, finish, unwind], rfl⟩
    | err p m => simp [firstFault] at h1

/-- an empty or element-less input (nothing, comments only, white space or text only, prolog only) returns the
tree *identical* (a tree that came out of the parser has a position; for a hand-built one it is filled in) -/
theorem C06_empty (t : Elem) (evs : List Ev) (h1 : firstFault 0 evs = none) (h2 : hasElement 0 evs = false) :
    extendStruct t evs = .ok (if t.position.isNone then t.setPosition (some 0) else t) := by
  unfold extendStruct buildFrom
  obtain ⟨w, hw, hc⟩ := run_elementless evs ⟨wrapper0.setChildren (addUniqueChild wrapper0.children t), [], none⟩ h1 h2
  rw [hw]
  have hw0 : addUniqueChild wrapper0.children t = [(.man, withPosition [] t)] := by
    have : getChild wrapper0.children t.name = none := rfl
    rw [addUniqueChild_of_absent this]; rfl
  rw [hw0] at hc
  simp only [children_setChildren] at hc
  simp only [extractRoot, hc, getChild_cons, name_withPosition, if_true]
  rfl

theorem C06_empty_parsed (t : Elem) (evs : List Ev) (p : Nat) (hp : t.position = some p)
    (h1 : firstFault 0 evs = none) (h2 : hasElement 0 evs = false) : extendStruct t evs = .ok t := by
  rw [C06_empty t evs h1 h2]; simp [hp]

/-- **C06 for sub-structures**: the element found at a path of child names inside a parsed structure (for
example a repeated element taken out of a larger tree: its `standalone` flag is off, its counter is not 1)
can be extended with documents of its own name, and the result is the schema of the union of *all its
occurrences* in the parsed documents and the new documents. -/
theorem C06_substructure (H : List Doc) (h : historyOk H) (p : List Name) (ds : List Doc) :
    ∃ t, parseHistory (H.map Doc.events) = .ok t ∧
      ∀ s, elemAt p t = some s → (∀ d ∈ ds, d.ok = true ∧ d.root.name = s.name) →
        ∃ r, (ds.map Doc.events).foldl extendStep (Except.ok s) = .ok r ∧
          Matches r (occsAt p (H.map (·.root)) ++ ds.map (·.root)) ∧ r.name = s.name := by
  obtain ⟨t, ht, hm⟩ := parse_exact H h
  refine ⟨t, ht, ?_⟩
  intro s hs hds
  have hne : H.map (·.root) ≠ [] := by
    intro e; exact h.1 (List.map_eq_nil_iff.mp e)
  obtain ⟨hms, hocc⟩ := hm.at_path hne p s hs
  exact extend_fold ds s _ hocc hms hds

/-- the same, in the form the driver checks: the schema is what the executable specification computes -/
theorem C06_substructure_spec (H : List Doc) (h : historyOk H) (p : List Name) (ds : List Doc) :
    ∃ t, parseHistory (H.map Doc.events) = .ok t ∧
      ∀ s, elemAt p t = some s → (∀ d ∈ ds, d.ok = true ∧ d.root.name = s.name) →
        ∃ r, (ds.map Doc.events).foldl extendStep (Except.ok s) = .ok r ∧
          r.abs = specOfDocs (occsAt p (H.map (·.root)) ++ ds.map (·.root)) := by
  obtain ⟨t, ht, hm⟩ := parse_exact H h
  refine ⟨t, ht, ?_⟩
  intro s hs hds
  have hne : H.map (·.root) ≠ [] := by
    intro e; exact h.1 (List.map_eq_nil_iff.mp e)
  obtain ⟨hms, hocc⟩ := hm.at_path hne p s hs
  obtain ⟨r, hr, hmr, -⟩ := extend_fold ds s _ hocc hms hds
  exact ⟨r, hr, matches_abs_eq_specOfDocs hmr (by simp [hocc])⟩

/-- **C06 for inputs that repeat their root element** (the reader does not insist on a single root): two
histories of such inputs with the same top-level elements give the same schema, however the elements are
grouped into inputs. -/
theorem C06_regroup (F F' : List Items) (k : Name) (h : fragmentsOk F k) (h' : fragmentsOk F' k)
    (hset : ∀ o, o ∈ F.flatMap (·.named k) ↔ o ∈ F'.flatMap (·.named k)) :
    ∃ t t', parseHistory (F.map fragEvents) = .ok t ∧ parseHistory (F'.map fragEvents) = .ok t' ∧ SchemaEq t t' := by
  obtain ⟨t, ht, hm, -⟩ := parse_fragments F k h
  obtain ⟨t', ht', hm', -⟩ := parse_fragments F' k h'
  exact ⟨t, t', ht, ht', matches_unique hm hm' hset⟩

/-- the schema after a history of such inputs is what the executable specification computes for all their
top-level elements -/
theorem C06_fragments_spec (F : List Items) (k : Name) (h : fragmentsOk F k) :
    ∃ t, parseHistory (F.map fragEvents) = .ok t ∧ t.abs = specOfDocs (F.flatMap (·.named k)) := by
  obtain ⟨t, ht, hm, -⟩ := parse_fragments F k h
  refine ⟨t, ht, matches_abs_eq_specOfDocs hm ?_⟩
  cases F with
  | nil => exact absurd rfl h.1
  | cons is F => simp [(h.2 is (by simp)).2.1]

/-- in particular: documents supplied one by one, or concatenated into fewer inputs -/
theorem C06_concat (H : List Doc) (h : historyOk H) (F : List Items) (k : Name) (hF : fragmentsOk F k)
    (hset : ∀ o, o ∈ H.map (·.root) ↔ o ∈ F.flatMap (·.named k)) :
    ∃ t t', parseHistory (H.map Doc.events) = .ok t ∧ parseHistory (F.map fragEvents) = .ok t' ∧ SchemaEq t t' := by
  obtain ⟨t, ht, hm⟩ := parse_exact H h
  obtain ⟨t', ht', hm', -⟩ := parse_fragments F k hF
  exact ⟨t, t', ht, ht', matches_unique hm hm' hset⟩

/-- a document is such an input -/
theorem C06_doc_is_fragment (d : Doc) (h : d.ok = true) :
    d.events = fragEvents d.items ∧ d.items.ok = true ∧ d.items.rootsNamed d.root.name ∧
      d.items.named d.root.name = [d.root] :=
  ⟨d.events_eq, d.items_ok h, d.items_rootsNamed h, by simp [d.items_named h]⟩

/-- a failed extension reports an error rather than a (partial) tree -/
theorem C06_error_no_partial (t : Elem) (evs : List Ev) (e : PErr) (h : extendStruct t evs = .error e) :
    ∀ t', extendStruct t evs ≠ .ok t' := by
  intro t' h'; rw [h] at h'; cases h'

/-- non-vacuity: comment-only, white-space-only and empty inputs are element-less -/
example : firstFault 0 [.ignored, .text (.ok []), .eof] = none ∧ hasElement 0 [.ignored, .text (.ok []), .eof] = false := by decide
example : firstFault 0 [.eof] = none ∧ hasElement 0 [.eof] = false := by decide

/-- non-vacuity of `C06_substructure`: in `<a><b/><b x=""/></a>` the element at path `b` exists and is marked as repeated -/
example :
    let d : Doc := ⟨.nil, .mk (cl!"a") [] false (.elem (.mk (cl!"b") [] true .nil) (.elem (.mk (cl!"b") [cl!"x"] true .nil) .nil)), .nil⟩
    (match parseHistory [d.events] with
     | .ok t => (elemAt [(cl!"b")] t).map (fun s => (s.standalone, s.count))
     | .error _ => none) = some (false, 2) := by decide

/-- non-vacuity of `C06_regroup`: `<a><x/></a><a><y/></a>` as one input is a history in the sense of `fragmentsOk` -/
example :
    let a1 : Node := .mk (cl!"a") [] false (.elem (.mk (cl!"x") [] true .nil) .nil)
    let a2 : Node := .mk (cl!"a") [] false (.elem (.mk (cl!"y") [] true .nil) .nil)
    fragmentsOk [Items.elem a1 (.other (.elem a2 .nil))] (cl!"a") := by
  intro a1 a2
  refine ⟨by simp, ?_⟩
  intro is his
  simp only [List.mem_singleton] at his
  subst his
  refine ⟨by decide, by decide, ?_⟩
  intro d hd
  have : ¬ (cl!"a") = d := fun e => hd e.symm
  simp [Items.named, Node.name, a1, a2, this]

end Xsg
