import XsgModel.Props.C01
import XsgModel.Props.C04
import XsgModel.Props.C11
import XsgModel.Model.De
import XsgModel.Proofs.DeserQuick
import XsgModel.Proofs.DeserScope
/-!
# C02 — generated code compiles and quick_xml::de deserializes the source documents  (PARTIAL)

A Lean theorem cannot be about `rustc`, `serde_derive` or `quick_xml::de` themselves.  What is proved is
about the model's program: for every history of well-formed documents with a common root, the program
rendered with the quick-xml preset has pairwise distinct struct names, none of which is `Self`, `String`,
`Option`, `Vec`, `Serialize` or `Deserialize` (the names the surrounding code needs), pairwise distinct
field identifiers in every struct, field types that resolve inside the program — and its schema admits every
source document (`Admits`: each attribute / child has a field, required fields are present, single fields
occur at most once, text only where a text field exists), which is what a serde deserializer of a struct of
this shape needs in order to succeed, also with `deny_unknown_fields`.  That "admitted ⇒ `from_str` is `Ok` and
captures every value", and that the structural predicate means "compiles", is established only by really
compiling and running every generated program of the correspondence run (plain and `deny_unknown_fields`).
-/
namespace Xsg

/-- the structural part of "compiles": what name resolution and `serde_derive` need -/
structure CompilesStructurally (p : List StructDef) : Prop where
  structs_unique : (p.map (·.name)).Nodup
  structs_free : ∀ s ∈ p, s.name ∉ reservedStructNames
  types_resolve : ∀ s ∈ p, ∀ f ∈ s.fields, f.base = stringTy ∨ ∃ s' ∈ p, s'.name = f.base

theorem C02_partial (H : List Doc) (h : historyOk H) :
    ∃ t, parseHistory (H.map Doc.events) = .ok t ∧
      CompilesStructurally (renderAST Options.quickXmlDe t) ∧
      (∀ s ∈ renderAST Options.quickXmlDe t, s.derive = some (cl!"Serialize, Deserialize")) ∧
      (∀ d ∈ H, Admits t d.root) := by
  obtain ⟨t, ht, hadm⟩ := C01_sound H h
  have hinv := C11_parsed_inv _ t ht
  refine ⟨t, ht, ⟨C04_structs_unique _ t hinv, (struct_names_spec _ _ t hinv).2, C04_types_resolve _ t⟩, ?_, hadm⟩
  intro s hs
  simp only [renderAST, renderWith, List.mem_map] at hs
  obtain ⟨en, _, rfl⟩ := hs
  rfl

/-- field identifiers are unique in every struct of a parsed tree -/
theorem C02_fields_unique (H : List Doc) (h : historyOk H) :
    ∃ t, parseHistory (H.map Doc.events) = .ok t ∧ (names t.attrs).Nodup ∧ (childNames t.children).Nodup ∧
      ∀ names' en, en.elem = t → ((structOf Options.quickXmlDe (hintOf (fillNames [] t)) names' en).fields.map (·.ident)).Nodup := by
  obtain ⟨t, ht, hm⟩ := parse_exact H h
  have h1 : (names t.attrs).Nodup := by rw [hm.attrs]; exact nodup_dedupNames _
  refine ⟨t, ht, h1, hm.nodup, ?_⟩
  intro names' en he
  apply C04_fields_unique
  · rw [he]; exact h1
  · rw [he]; exact hm.nodup

/-- the bindings of the quick-xml preset: attributes under `@` + local name, text under `$text`, children under their local name -/
theorem C02_bindings (im : IdentMap) (a : Nec × Name) (hints) (names') (path trace : List Name) (c : Nec × Elem) :
    ((attrField Options.quickXmlDe im a).rename.getD (attrField Options.quickXmlDe im a).ident) = cl!"@" ++ attrLocal a.2 ∧
    (textField Options.quickXmlDe im).rename = some (cl!"$text") ∧
    ((childField hints names' im path trace c).rename.getD (childField hints names' im path trace c).ident) = removeNamespace c.2.name :=
  ⟨(C01_attr_field _ im a).2.2.2, rfl, (C01_child_field hints names' im path trace c).2.2.1⟩

/-! ### with the model of `quick_xml::de` (`Model/Deser.lean`) -/

theorem head_of_head? {α : Type} {l : List α} {a : α} (h : l.head? = some a) : ∃ r, l = a :: r := by
  cases l with
  | nil => cases h
  | cons b r => simp only [List.head?_cons, Option.some.injEq] at h; exact ⟨r, by rw [h]⟩

/-- **C02, deserialization** (relative to the deserializer model, which the compile-and-run correspondence
ties to the real crate): for every history of well-formed documents *with their values*, if no two attribute
names and no two child names of one position clash after prefix removal (`keysOK`), then `from_str` into the
first rendered struct — plain and with `deny_unknown_fields` on every struct — succeeds on every source
document that is inside the model (no mixed content, no `xsi:nil`), and the non-empty strings of the value are
exactly (as a multiset) the attribute values and character data of the document: nothing is dropped, nothing is
invented.  (An element without content read as `String` contributes `""`, hence "non-empty".) -/
theorem C02_deserializes (H : List VDoc) (h : historyOk (H.map VDoc.erase)) :
    ∃ t, parseHistory ((H.map VDoc.erase).map Doc.events) = .ok t ∧
      (t.keysOK = true → ∀ deny : Bool, ∀ d ∈ H, d.root.inModel DeCfg.quickXml = true →
        ∃ v, deDoc DeCfg.quickXml ((renderAST Options.quickXmlDe t).map StructDef.plain) deny d.root = .ok v ∧
          (ne v.strings).Perm (ne (d.root.values DeCfg.quickXml))) := by
  obtain ⟨t, ht, hadm⟩ := C01_sound _ h
  refine ⟨t, ht, ?_⟩
  intro hkeys deny d hd hmodel
  have hinv := C11_parsed_inv _ t ht
  have hdm : d.erase ∈ H.map VDoc.erase := List.mem_map_of_mem hd
  have hok : d.root.erase.ok = true := by
    have := h.2.1 d.erase hdm
    simp only [Doc.ok, VDoc.erase, Bool.and_eq_true] at this
    exact this.1.2
  obtain ⟨r, hr⟩ := head_of_head? (walk_head oQ.sort t)
  have hen : (⟨[t.name], [pascal t.name], t⟩ : Entry) ∈ walk oQ.sort [] [] t := by rw [hr]; simp
  obtain ⟨v, hv, hp⟩ := deNode_ok t hinv deny d.root ⟨[t.name], [pascal t.name], t⟩ hen hkeys hinv (hadm d.erase hdm) hok hmodel
  refine ⟨v, ?_, hp⟩
  have hp : (renderAST oQ t).map StructDef.plain
      = (structOf oQ (hintOf (fillNames [] t)) (structNames (hintOf (fillNames [] t)) t) ⟨[t.name], [pascal t.name], t⟩).plain
        :: (r.map (structOf oQ (hintOf (fillNames [] t)) (structNames (hintOf (fillNames [] t)) t))).map StructDef.plain := by
    simp only [renderAST, renderWith, hr, List.map_cons]
  show deDoc cQ ((renderAST oQ t).map StructDef.plain) deny d.root = .ok v
  rw [hp] at hv ⊢
  exact hv

/-- **C02 with the side condition stated on the documents**: `specOfDocs` is the executable schema of the
history (C03); `keysOK` of it says that at every position the attribute names, and the child names, stay
distinct when namespace prefixes are removed. -/
theorem C02_holds (H : List VDoc) (h : historyOk (H.map VDoc.erase))
    (hk : (specOfDocs ((H.map VDoc.erase).map (·.root))).keysOK = true) :
    ∃ t, parseHistory ((H.map VDoc.erase).map Doc.events) = .ok t ∧
      ∀ deny : Bool, ∀ d ∈ H, d.root.inModel DeCfg.quickXml = true →
        ∃ v, deDoc DeCfg.quickXml ((renderAST Options.quickXmlDe t).map StructDef.plain) deny d.root = .ok v ∧
          (ne v.strings).Perm (ne (d.root.values DeCfg.quickXml)) := by
  obtain ⟨t, ht, hmain⟩ := C02_deserializes H h
  obtain ⟨t', ht', habs⟩ := C03_spec_exact _ h
  have : t' = t := by rw [ht] at ht'; exact (Except.ok.inj ht').symm
  subst this
  refine ⟨t', ht, hmain ?_⟩
  rw [← abs_keysOK, habs]
  exact hk

namespace C02Example
/-- `<r a="1"><e k="v"> hi </e><e k="w"/><g/></r>` -/
def d1 : VDoc := ⟨.nil, .mk (cl!"r") [(cl!"a", cl!"1")] false
  (.elem (.mk (cl!"e") [(cl!"k", cl!"v")] false (.text false (cl!" hi ") .nil))
  (.elem (.mk (cl!"e") [(cl!"k", cl!"w")] true .nil)
  (.elem (.mk (cl!"g") [] true .nil) .nil))), .nil⟩
/-- `<r><f>t</f><!-- c --></r>` -/
def d2 : VDoc := ⟨.nil, .mk (cl!"r") [] false
  (.elem (.mk (cl!"f") [] false (.text false (cl!"t") .nil)) (.other false .nil)), .nil⟩
def H : List VDoc := [d1, d2]

theorem ok : historyOk (H.map VDoc.erase) := by
  refine ⟨by simp [H], ?_, ?_⟩
  · intro d hd
    simp only [H, List.map_cons, List.map_nil, List.mem_cons, List.mem_nil_iff, or_false] at hd
    rcases hd with rfl | rfl <;> decide
  · intro d hd d' hd'
    simp only [H, List.map_cons, List.map_nil, List.mem_cons, List.mem_nil_iff, or_false] at hd hd'
    rcases hd with rfl | rfl <;> rcases hd' with rfl | rfl <;> rfl

theorem keys : (specOfDocs ((H.map VDoc.erase).map (·.root))).keysOK = true := by decide +kernel
theorem inside : ∀ d ∈ H, d.root.inModel DeCfg.quickXml = true := by decide +kernel

/-- non-vacuity: the hypotheses of `C02_holds` are satisfiable, by a history with attributes, text, a repeated
child, an optional child and an empty element -/
example : ∃ t, parseHistory ((H.map VDoc.erase).map Doc.events) = .ok t ∧
    ∀ deny : Bool, ∀ d ∈ H, d.root.inModel DeCfg.quickXml = true →
      ∃ v, deDoc DeCfg.quickXml ((renderAST Options.quickXmlDe t).map StructDef.plain) deny d.root = .ok v ∧
        (ne v.strings).Perm (ne (d.root.values DeCfg.quickXml)) := C02_holds H ok keys

/-- the tree the library builds for the example history (evaluated in the kernel) -/
def t : Elem := match parseHistory ((H.map VDoc.erase).map Doc.events) with | .ok t => t | .error _ => default

/-- a concrete run of the model on the example: the strings of the value `from_str` gives for
`<r a="1"><e k="v"> hi </e><e k="w"/><g/></r>`, with `deny_unknown_fields`: the attribute values and the trimmed
text, in field order (`g` never has content: it is a struct without fields) -/
theorem run_d1 :
    (match deDoc DeCfg.quickXml ((renderAST Options.quickXmlDe t).map StructDef.plain) true d1.root with
     | .ok v => v.strings
     | .error _ => []) = [cl!"1", cl!"v", cl!"hi", cl!"w"] := by decide +kernel

/-- `<r><a:x k="1"/><b:x k="2"/></r>`: two children whose names clash after prefix removal -/
def dClash : VDoc := ⟨.nil, .mk (cl!"r") [] false
  (.elem (.mk (cl!"a:x") [(cl!"k", cl!"1")] true .nil)
  (.elem (.mk (cl!"b:x") [(cl!"k", cl!"2")] true .nil) .nil)), .nil⟩
def tClash : Elem := match parseHistory ([dClash.erase].map Doc.events) with | .ok t => t | .error _ => default
def isOk : Except DeErr Val → Bool | .ok _ => true | .error _ => false

/-- the side condition is needed: without it the model (like the real deserializer: `duplicate field`) rejects the
source document -/
theorem clash_negative : tClash.keysOK = false ∧ dClash.root.inModel DeCfg.quickXml = true ∧
    isOk (deDoc DeCfg.quickXml ((renderAST Options.quickXmlDe tClash).map StructDef.plain) false dClash.root) = false := by
  decide +kernel
end C02Example

/-- the program the theorem speaks about is the one read back from the rendered text (C04) -/
theorem C02_program_is_the_text (t : Elem)
    (hen : ∀ en ∈ walk Options.quickXmlDe.sort [] [] t, nameOK en.elem.name = true ∧ (∀ a ∈ en.elem.attrs, nameOK a.2 = true) ∧
      (∀ c ∈ en.elem.children, nameOK c.2.name = true) ∧ (names en.elem.attrs).Nodup ∧ (childNames en.elem.children).Nodup) :
    readProgram (toSerdeStruct Options.quickXmlDe t) = some ((renderAST Options.quickXmlDe t).map StructDef.plain) :=
  C04_text_reads_back _ t (by unfold NoNL; decide) hen

end Xsg
