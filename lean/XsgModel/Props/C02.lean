import XsgModel.Props.C01
import XsgModel.Props.C04
import XsgModel.Props.C11
import XsgModel.Model.De
/-!
# C02 — generated code compiles and quick_xml::de deserializes the source documents  (PARTIAL)

A Lean theorem cannot be about `rustc`, `serde_derive` or `quick_xml::de` themselves.  What is proved is
about the model's program: for every history of well-formed documents with a common root, the program
rendered with the quick-xml preset has pairwise distinct struct names, none of which is `Self`, `String`,
`Option`, `Vec`, `Serialize` or `Deserialize` (the names the surrounding code needs), pairwise distinct
field identifiers in every struct, field types that resolve inside the program — and its schema admits every
source document (`Admits`: each attribute / child has a field, required fields are present, single fields
occur at most once, text only where a text field exists), which is what a serde deserializer of a struct of
this shape needs in order to succeed, also with `deny_unknown_fields`.  That "admitted ⇒ `from_str` is `Ok` and
captures every value", and that the structural predicate means "compiles", is established only by really
compiling and running every generated program of the correspondence run (plain and `deny_unknown_fields`).
-/
namespace Xsg

/-- the structural part of "compiles": what name resolution and `serde_derive` need -/
structure CompilesStructurally (p : List StructDef) : Prop where
  structs_unique : (p.map (·.name)).Nodup
  structs_free : ∀ s ∈ p, s.name ∉ reservedStructNames
  types_resolve : ∀ s ∈ p, ∀ f ∈ s.fields, f.base = stringTy ∨ ∃ s' ∈ p, s'.name = f.base

theorem C02_partial (H : List Doc) (h : historyOk H) :
    ∃ t, parseHistory (H.map Doc.events) = .ok t ∧
      CompilesStructurally (renderAST Options.quickXmlDe t) ∧
      (∀ s ∈ renderAST Options.quickXmlDe t, s.derive = some (cl!"Serialize, Deserialize")) ∧
      (∀ d ∈ H, Admits t d.root) := by
  obtain ⟨t, ht, hadm⟩ := C01_sound H h
  have hinv := C11_parsed_inv _ t ht
  refine ⟨t, ht, ⟨C04_structs_unique _ t hinv, (struct_names_spec _ _ t hinv).2, C04_types_resolve _ t⟩, ?_, hadm⟩
  intro s hs
  simp only [renderAST, renderWith, List.mem_map] at hs
  obtain ⟨en, _, rfl⟩ := hs
  rfl

/-- field identifiers are unique in every struct of a parsed tree -/
theorem C02_fields_unique (H : List Doc) (h : historyOk H) :
    ∃ t, parseHistory (H.map Doc.events) = .ok t ∧ (names t.attrs).Nodup ∧ (childNames t.children).Nodup ∧
      ∀ names' en, en.elem = t → ((structOf Options.quickXmlDe (hintOf (fillNames [] t)) names' en).fields.map (·.ident)).Nodup := by
  obtain ⟨t, ht, hm⟩ := parse_exact H h
  have h1 : (names t.attrs).Nodup := by rw [hm.attrs]; exact nodup_dedupNames _
  refine ⟨t, ht, h1, hm.nodup, ?_⟩
  intro names' en he
  apply C04_fields_unique
  · rw [he]; exact h1
  · rw [he]; exact hm.nodup

/-- the bindings of the quick-xml preset: attributes under `@` + local name, text under `$text`, children under their local name -/
theorem C02_bindings (im : IdentMap) (a : Nec × Name) (hints) (names') (path trace : List Name) (c : Nec × Elem) :
    ((attrField Options.quickXmlDe im a).rename.getD (attrField Options.quickXmlDe im a).ident) = cl!"@" ++ attrLocal a.2 ∧
    (textField Options.quickXmlDe im).rename = some (cl!"$text") ∧
    ((childField hints names' im path trace c).rename.getD (childField hints names' im path trace c).ident) = removeNamespace c.2.name :=
  ⟨(C01_attr_field _ im a).2.2.2, rfl, (C01_child_field hints names' im path trace c).2.2.1⟩

end Xsg
