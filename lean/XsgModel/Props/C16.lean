import XsgModel.Proofs.Ops
import XsgModel.Props.C04
import XsgModel.Proofs.OpsNames
/-!
# C16 — hand-built element trees keep unique children

For every sequence of the public construction operations (create, add child, mark child optional, remove
child, merge attribute list, mark as multiple, set text), applied anywhere in the tree: child names under
one parent stay unique; lookup and removal address the child with the given name; adding a present name
changes nothing; marking optional preserves the child's subtree.
The rendering clause: `C16_render` — every tree built by the operations renders to a program with pairwise
distinct, non-reserved struct names whose field types resolve, and each struct has exactly the tree's
attributes / text / children as fields (`C01_fields`, `C01_attr_field`, `C01_child_field` hold for every tree).
-/
namespace Xsg

/-- one operation preserves the invariant -/
theorem C16_inv (t : Elem) (op : Op) (h : t.Inv = true) : (applyOp t op).1.Inv = true := by
  cases op with
  | add path name attrs => exact Inv_modifyAt path _ (by intro e; simp) (Inv_add name attrs) t h
  | setOptional path name => exact Inv_modifyAt path _ (by intro e; simp) (Inv_setOptional name) t h
  | remove path name => exact Inv_modifyAt path _ (by intro e; simp) (Inv_remove name) t h
  | mergeAttr path l => exact Inv_modifyAt path _ (by intro e; simp) (fun e he => Inv_of_children_eq (by simp) he) t h
  | setMultiple path => exact Inv_modifyAt path _ (by intro e; simp) (fun e he => Inv_of_children_eq (by simp) he) t h
  | setText path => exact Inv_modifyAt path _ (by intro e; simp) (fun e he => Inv_of_children_eq (by simp) he) t h
  | get path name => exact h
  | move src name dst =>
    simp only [applyOp]
    split
    · exact h
    · rename_i c hc
      obtain ⟨e, he, hg⟩ : ∃ e, elemAt src t = some e ∧ getChild e.children name = some c := by
        cases hs : elemAt src t with
        | none => rw [hs] at hc; cases hc
        | some e => rw [hs] at hc; exact ⟨e, rfl, hc⟩
      have hcinv : c.2.Inv = true := ((Inv_iff e).mp (Inv_elemAt src t e h he)).2 c (getChild_some_mem hg)
      exact Inv_modifyAt dst _ (by intro e; simp) (fun e he => Inv_addChild c.2 e hcinv he) _
        (Inv_modifyAt src _ (by intro e; simp) (Inv_remove name) t h)

/-- every tree reachable from `Element::new` by any finite sequence of operations has unique child names everywhere -/
theorem C16_inv_seq (name : Name) (attrs : List Name) (ops : List Op) :
    (ops.foldl (fun t op => (applyOp t op).1) (Elem.new name attrs)).Inv = true := by
  suffices ∀ t : Elem, t.Inv = true → (ops.foldl (fun t op => (applyOp t op).1) t).Inv = true from this _ (Inv_new _ _)
  induction ops with
  | nil => intro t h; exact h
  | cons op ops ih => intro t h; exact ih _ (C16_inv t op h)

/-- lookup and removal address the child with the given name: the child found has that name; after removal
that name is gone, every other name is looked up as before, and exactly one child was removed -/
theorem C16_lookup (cs : List (Nec × Elem)) (h : (childNames cs).Nodup) (n : Name) :
    (∀ c, getChild cs n = some c → c.2.name = n) ∧
    getChild (eraseChild cs n) n = none ∧
    (∀ m, m ≠ n → getChild (eraseChild cs n) m = getChild cs m) ∧
    (∀ c, getChild cs n = some c → (eraseChild cs n).length + 1 = cs.length) ∧
    (getChild cs n = none → eraseChild cs n = cs) :=
  ⟨fun _ hc => getChild_some_name hc, getChild_eraseChild_self h, fun _ hm => getChild_eraseChild_ne hm,
   fun _ hc => length_eraseChild hc, eraseChild_of_absent⟩

/-- the result of `remove_child` / `get_child` reported by `applyOp` is the child with the requested name -/
theorem C16_result_name (t : Elem) (path : List Name) (n : Name) (r : Nec × Name)
    (h : (applyOp t (.remove path n)).2 = some r ∨ (applyOp t (.get path n)).2 = some r) : r.2 = n := by
  have key : ∀ x : OpResult, (x = (elemAt path t).bind fun e => (getChild e.children n).map fun c => (c.1, c.2.name)) → x = some r → r.2 = n := by
    intro x hx hr
    rw [hx] at hr
    cases he : elemAt path t with
    | none => rw [he] at hr; simp at hr
    | some e =>
      rw [he] at hr
      simp only [Option.bind_some, Option.map_eq_some_iff] at hr
      obtain ⟨c, hc, rfl⟩ := hr
      exact getChild_some_name hc
  rcases h with h | h
  · exact key _ rfl h
  · exact key _ rfl h

/-- adding a name that is already present changes nothing -/
theorem C16_add_present (cs : List (Nec × Elem)) (c : Elem) (h : (getChild cs c.name).isSome) :
    addUniqueChild cs c = cs := addUniqueChild_of_present h

/-- adding an absent name appends exactly that child, tagged mandatory -/
theorem C16_add_absent (cs : List (Nec × Elem)) (c : Elem) (h : getChild cs c.name = none) :
    addUniqueChild cs c = cs ++ [(.man, withPosition cs c)] := addUniqueChild_of_absent h

/-- marking optional changes only the tag: the child's subtree is preserved, every other child is untouched,
and the set of names is the same -/
theorem C16_optional_subtree (cs : List (Nec × Elem)) (h : (childNames cs).Nodup) (n : Name) :
    (∀ nec c, getChild cs n = some (nec, c) → getChild (setChildOptional cs n) n = some (.opt, c)) ∧
    (∀ m, m ≠ n → getChild (setChildOptional cs n) m = getChild cs m) ∧
    (∀ m, m ∈ childNames (setChildOptional cs n) ↔ m ∈ childNames cs) := by
  refine ⟨?_, ?_, childNames_setChildOptional_perm h⟩
  · intro nec c hc
    rw [getChild_setChildOptional _ _ _ h]; simp [hc, demote]
  · intro m hm
    rw [getChild_setChildOptional _ _ _ h]; simp [hm]

/-- rendering any tree built by the operations yields well-formed output: struct names defined once and not
reserved, every field type `String` or a struct of the same output (C04's theorems apply because of `C16_inv_seq`) -/
theorem C16_render (name : Name) (attrs : List Name) (ops : List Op) (o : Options) :
    let t := ops.foldl (fun t op => (applyOp t op).1) (Elem.new name attrs)
    ((renderAST o t).map (·.name)).Nodup ∧
    (∀ s ∈ renderAST o t, s.name ∉ reservedStructNames) ∧
    (∀ s ∈ renderAST o t, ∀ f ∈ s.fields, f.base = stringTy ∨ ∃ s' ∈ renderAST o t, s'.name = f.base) := by
  intro t
  have hinv : t.Inv = true := C16_inv_seq name attrs ops
  exact ⟨C04_structs_unique o t hinv, (struct_names_spec _ o t hinv).2, C04_types_resolve o t⟩

/-- names stay legal and attribute names distinct along any sequence of operations that are handed legal names and
duplicate-free attribute lists -/
theorem C16_names_seq (p : Name → Bool) (name : Name) (attrs : List Name) (ops : List Op)
    (hn : p name = true) (ha : ∀ a ∈ attrs, p a = true) (hnd : attrs.Nodup) (hops : ∀ op ∈ ops, op.ok p) :
    TreeOK p (ops.foldl (fun t op => (applyOp t op).1) (Elem.new name attrs)) := by
  suffices ∀ t : Elem, t.Inv = true → TreeOK p t → (∀ op ∈ ops, op.ok p) →
      TreeOK p (ops.foldl (fun t op => (applyOp t op).1) t) from this _ (Inv_new _ _) (TreeOK_new p name attrs hn ha hnd) hops
  induction ops with
  | nil => intro t _ h _; exact h
  | cons op ops ih =>
    intro t hinv h hall
    exact ih (fun op' hop' => hops op' (by simp [hop'])) _ (C16_inv t op hinv)
      (TreeOK_op p t op (hall op (by simp)) hinv h) (fun op' hop' => hall op' (by simp [hop']))

/-- **the rendering clause of C16 in full**: a tree built from `Element::new` by any sequence of the public
operations that are given names of C04's domain and duplicate-free attribute lists renders to a `WellFormed`
program (as in C04: unique legal struct names, unique legal field identifiers, resolving types, every non-root
struct used exactly once) -/
theorem C16_wellformed (name : Name) (attrs : List Name) (ops : List Op) (o : Options)
    (hn : nameOK name = true) (ha : ∀ a ∈ attrs, nameOK a = true) (hnd : attrs.Nodup) (hops : ∀ op ∈ ops, op.ok nameOK) :
    WellFormed ((renderAST o (ops.foldl (fun t op => (applyOp t op).1) (Elem.new name attrs))).map StructDef.plain) :=
  C04_wellformed o _ (C16_inv_seq name attrs ops) (C16_names_seq nameOK name attrs ops hn ha hnd hops)

/-- the fields of every rendered struct reflect exactly the element's attributes, text flag and children
(one field each, in the order of the option), whatever tree it is -/
theorem C16_fields (o : Options) (H : Name → Option Nat) (names' : List (List Name × Name)) (en : Entry) :
    (structOf o H names' en).fields.length = en.elem.attrs.length + (if en.elem.text then 1 else 0) + en.elem.children.length := by
  simp only [structOf, List.length_append, List.length_map]
  have h1 : (sortedAttrs o en.elem).length = en.elem.attrs.length := by
    unfold sortedAttrs; cases o.sort
    · rfl
    · exact (perm_sortOn _ _).length_eq
  have h2 : (sortedChildren o en.elem).length = en.elem.children.length := (perm_sortOn _ _).length_eq
  rw [h1, h2]; split <;> simp

/-- the pinned tree (before fix F3) broke the invariant: add(x); set_child_optional(x); add(x) -/
theorem C16_prefix_negative :
    ([Op.add [] (cl!"x") [], Op.setOptional [] (cl!"x"), Op.add [] (cl!"x") []].foldl
      (fun t op => (applyOpPinned t op).1) (Elem.new (cl!"r") [])).Inv = false := by decide

/-- non-vacuity: the same sequence on the repaired model keeps a single child `x`, tagged optional -/
example : (([Op.add [] (cl!"x") [], Op.setOptional [] (cl!"x"), Op.add [] (cl!"x") []].foldl
      (fun t op => (applyOp t op).1) (Elem.new (cl!"r") [])).children.map fun c => (c.1, c.2.name)) = [(.opt, cl!"x")] := by decide

end Xsg
