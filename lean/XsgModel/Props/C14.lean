import XsgModel.Proofs.Hints
/-!
# C14 — struct names are readable: own name, qualified by ancestors only when needed

For every element tree (parsed or hand-built) and every option record: every struct name consists of the
PascalCase names of its nearest ancestors in nesting order, then the PascalCase form of its own element's
name, then possibly a decimal suffix (fix F4); the first struct is the root's; an element whose PascalCase
name occurs at a single position of the whole tree gets that name without ancestor qualification; the suffix
is empty unless the unsuffixed name is reserved or taken by an earlier struct.
-/
namespace Xsg

theorem mem_renderWith {H : Name → Option Nat} {o : Options} {t : Elem} {s : StructDef} (h : s ∈ renderWith H o t) :
    ∃ en ∈ walk o.sort [] [] t, s = structOf o H (structNames H t) en := by
  simp only [renderWith, List.mem_map] at h
  obtain ⟨en, hen, rfl⟩ := h
  exact ⟨en, hen, rfl⟩

/-- shape, for any hint lookup: a suffix of the PascalCase path, joined, plus digits -/
theorem C14_shape_any (H : Name → Option Nat) (o : Options) (t : Elem) :
    ∀ s ∈ renderWith H o t, ∃ j digits, s.name = ((s.path.map pascal).drop j).flatten ++ digits ∧ digits.all isDigit = true := by
  intro s hs
  obtain ⟨en, hen, rfl⟩ := mem_renderWith hs
  exact structNameOf_shape H t o.sort en hen

/-- shape of the names `to_serde_struct` produces: at least the element's own name is part of it
(`j < path length`), preceded only by its nearest ancestors, followed only by digits -/
theorem C14_shape (o : Options) (t : Elem) :
    ∀ s ∈ renderAST o t, ∃ j digits, j < s.path.length ∧
      s.name = ((s.path.map pascal).drop j).flatten ++ digits ∧ digits.all isDigit = true := by
  intro s hs
  obtain ⟨en, hen, rfl⟩ := mem_renderWith hs
  have htr := walk_trace o.sort t [] [] rfl en hen
  have hlast := (walk_in_fill o.sort t [] [] [] en hen).2
  have hpne : en.path ≠ [] := by intro e; rw [e] at hlast; cases hlast
  simp only [structOf]
  unfold structNameOf
  cases hl : pathLookup (structNames (hintOf (fillNames [] t)) t) en.path with
  | none =>
    obtain ⟨n, hn, hpos⟩ := hint_of_entry o.sort t en hen
    obtain ⟨j, hj, he⟩ := expandName_own _ en.trace en.elem n hn hpos (by rw [htr]; simpa using hpne)
    refine ⟨j, [], by rw [htr] at hj; simpa using hj, ?_, rfl⟩
    simp only [List.append_nil]; rw [he, htr]
  | some nm =>
    have hmem := pathLookup_mem hl
    obtain ⟨en', hen', hp, hshape⟩ := assignNames_shape _ _ _ _ hmem
    have htr' := walk_trace .unsorted t [] [] rfl en' hen'
    simp only at hp hshape
    obtain ⟨n, hn, hpos⟩ := hint_of_entry .unsorted t en' hen'
    obtain ⟨j, hj, he⟩ := expandName_own _ en'.trace en'.elem n hn hpos (by rw [htr', ← hp]; simpa using hpne)
    rw [htr', ← hp] at hj he
    rw [htr', ← hp] at hshape
    rcases hshape with h | ⟨i, _, h⟩
    · exact ⟨j, [], by simpa using hj, by rw [h, he]; simp, rfl⟩
    · exact ⟨j, dec i, by simpa using hj, by rw [h, he], dec_all_digits i⟩

/-- the first struct is the root element's, named by the root's own PascalCase name (plus digits if that
name is reserved, e.g. `Self1`) -/
theorem C14_first (o : Options) (t : Elem) :
    ∃ s rest, renderAST o t = s :: rest ∧ s.path = [t.name] ∧ ∃ digits, s.name = pascal t.name ++ digits ∧ digits.all isDigit = true := by
  have hw := walk_eq o.sort [] [] t
  have hr : renderAST o t = (walk o.sort [] [] t).map (structOf o (hintOf (fillNames [] t)) (structNames (hintOf (fillNames [] t)) t)) := rfl
  rw [hw] at hr
  simp only [List.map_cons] at hr
  refine ⟨_, _, hr, rfl, ?_⟩
  have hmem : structOf o (hintOf (fillNames [] t)) (structNames (hintOf (fillNames [] t)) t) ⟨[] ++ [t.name], [] ++ [pascal t.name], t⟩ ∈ renderAST o t := by
    rw [hr]; simp
  obtain ⟨j, digits, hj, hname, hd⟩ := C14_shape o t _ hmem
  have hj0 : j = 0 := by simp only [structOf, List.nil_append, List.length_singleton] at hj; omega
  subst hj0
  exact ⟨digits, by simpa [structOf] using hname, hd⟩

/-- an element whose PascalCase name occurs at a single position of the whole tree is not qualified by ancestors -/
theorem C14_unique_unqualified (o : Options) (t : Elem) (en : Entry) (hen : en ∈ walk o.sort [] [] t)
    (huniq : ∃ tr, traceGroup (fillNames [] t) (pascal en.elem.name) = [tr])
    (hsame : ∀ en' ∈ walk .unsorted [] [] t, en'.path = en.path → en'.elem.name = en.elem.name) :
    ∃ digits, (structOf o (hintOf (fillNames [] t)) (structNames (hintOf (fillNames [] t)) t) en).name = pascal en.elem.name ++ digits ∧
      digits.all isDigit = true := by
  obtain ⟨tr, huniq⟩ := huniq
  have hhint := hintOf_single _ _ _ huniq
  have htr := walk_trace o.sort t [] [] rfl en hen
  have hlast := (walk_in_fill o.sort t [] [] [] en hen).2
  have key : ∀ (trace : List Name) (e : Elem), trace = en.path.map pascal → e.name = en.elem.name →
      expandName (hintOf (fillNames [] t)) trace e = pascal en.elem.name := by
    intro trace e ht he
    unfold expandName
    rw [he, hhint]
    simp only
    have hlen : trace.length = en.path.length := by rw [ht]; simp
    have : trace.drop (trace.length - 1) = [pascal en.elem.name] := by
      rw [ht]
      obtain ⟨pre, hp⟩ := List.getLast?_eq_some_iff.mp hlast
      rw [hp]
      simp
    rw [this]; simp
  simp only [structOf]
  unfold structNameOf
  cases hl : pathLookup (structNames (hintOf (fillNames [] t)) t) en.path with
  | none => exact ⟨[], by simp [key en.trace en.elem htr rfl], rfl⟩
  | some nm =>
    have hmem := pathLookup_mem hl
    obtain ⟨en', hen', hp, hshape⟩ := assignNames_shape _ _ _ _ hmem
    have htr' := walk_trace .unsorted t [] [] rfl en' hen'
    simp only at hp hshape
    have hk := key en'.trace en'.elem (by rw [htr', hp]) (hsame en' hen' hp.symm)
    rw [hk] at hshape
    rcases hshape with h | ⟨i, _, h⟩
    · exact ⟨[], by simp [h], rfl⟩
    · exact ⟨dec i, h, dec_all_digits i⟩

/-- the digit suffix is empty unless the unsuffixed name is reserved or already taken by an earlier struct:
the first struct of the naming pass keeps its plain name whenever that name is not reserved -/
theorem C14_suffix_only_on_clash (H : Name → Option Nat) (en : Entry) (rest : List Entry)
    (h : expandName H en.trace en.elem ∉ reservedStructNames) :
    (assignNames H (en :: rest) reservedStructNames).head? = some (en.path, expandName H en.trace en.elem) :=
  assignNames_head_plain H en rest _ h

/-- over the whole naming table of a tree: a numbered name occurs only where the plain name is reserved or is the
name given to another struct -/
theorem C14_suffix_needed (H : Name → Option Nat) (t : Elem) :
    ∀ p ∈ structNames H t, ∃ en ∈ walk .unsorted [] [] t, p.1 = en.path ∧
      (p.2 = expandName H en.trace en.elem ∨
        ((∃ i, 1 ≤ i ∧ p.2 = expandName H en.trace en.elem ++ dec i) ∧
          (expandName H en.trace en.elem ∈ reservedStructNames ∨ expandName H en.trace en.elem ∈ (structNames H t).map (·.2)))) :=
  assignNames_suffix_needed H _ _

/-- and in general a struct gets its plain name whenever that name is neither reserved nor among the names
handed out before it -/
theorem C14_plain_if_free (H : Name → Option Nat) (en : Entry) (rest : List Entry) (used : List Name)
    (h : expandName H en.trace en.elem ∉ used) :
    (assignNames H (en :: rest) used).head? = some (en.path, expandName H en.trace en.elem) :=
  assignNames_head_plain H en rest used h

/-- ancestors qualify a name only when needed: if the hint of a PascalCase name is `n` (own name + `n - 1`
ancestors), then no smaller number `i` of trace items (up to the length of the shortest trace) separates all
positions of that name -/
theorem C14_minimal (all : List (Name × List Name)) (k : Name) (n : Nat) (h : hintOf all k = some n) :
    ∀ i, 1 ≤ i → i < n → i ≤ ((traceGroup all k).map List.length).min?.getD 0 →
      ¬ ((traceGroup all k).map (traceBuffer i)).Nodup := by
  intro i hi1 hin himin
  unfold hintOf at h
  split at h
  · cases h
  · simp only [Option.some.injEq] at h; omega
  · simp only [Option.some.injEq] at h
    unfold minimalDifferentLengths at h
    simp only at h
    have hrange : i - 1 ∈ List.range (((traceGroup all k).map List.length).min?.getD 0) := List.mem_range.mpr (by omega)
    have hi : i - 1 + 1 = i := by omega
    split at h
    · rename_i i0 hfind
      have hlt : i - 1 < i0 := by omega
      have hbefore := List.find?_eq_some_iff_append.mp hfind
      obtain ⟨-, as, bs, hsplit, hall⟩ := hbefore
      have hlen : as.length = i0 := by
        have : (List.range (((traceGroup all k).map List.length).min?.getD 0))[as.length]? = some i0 := by rw [hsplit]; simp
        rw [List.getElem?_range] at this
        · simpa using this
        · have := congrArg List.length hsplit; simp at this; omega
      have hmem : i - 1 ∈ as := by
        have : (List.range (((traceGroup all k).map List.length).min?.getD 0))[i - 1]? = some (i - 1) := by
          rw [List.getElem?_range]; exact List.mem_range.mp hrange
        rw [hsplit, List.getElem?_append_left (by omega)] at this
        exact List.mem_of_getElem? this
      have := hall (i - 1) hmem
      rw [hi] at this
      simpa using this
    · rename_i hnone
      rw [List.find?_eq_none] at hnone
      have := hnone (i - 1) hrange
      rw [hi] at this
      simpa using this

/-- non-vacuity / witnesses of D4 after the fix: `<self a="1"/>` is named `Self1`, `Foo`/`foo` siblings get `RPFoo`, `RPFoo1` -/
example : (renderAST Options.quickXmlDe (Elem.new (cl!"self") [cl!"a"])).map (·.name) = [cl!"Self1"] := by decide +kernel

end Xsg
