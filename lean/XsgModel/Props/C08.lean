import XsgModel.Proofs.Faults
import XsgModel.Proofs.Carried
/-!
# C08 — errors are reported faithfully and only when the input is at fault

`firstFault` is the independent pass: a flat scan of the reader's events with a depth counter that never
builds a tree.  The theorems say that `into_struct` / `extend_struct` (as modelled by the stack machine)
fail exactly with that fault, carry the reader's error and position, fail with "no root" exactly when no
element occurs, and succeed otherwise — for every event stream.
-/
namespace Xsg

/-- `into_struct`: the result is an error iff there is a first fault (and then it is that fault), or there is
no fault and no element (and then it is the no-root error) -/
theorem C08_init (evs : List Ev) :
    errOf (intoStruct evs) = expectedInit evs := by
  unfold intoStruct buildFrom expectedInit
  have h := run_spec evs { elem := wrapper0, known := [] } []
  simp only [List.length_nil] at h
  cases hf : firstFault 0 evs with
  | some e =>
    rw [hf] at h
    have h1 := h.1
    cases hfin : finish (runEvents (St.run [{ elem := wrapper0, known := [] }]) evs) with
    | ok w => rw [hfin] at h1; simp [errOf] at h1
    | error e' => rw [hfin] at h1; simp only [errOf, Option.some.injEq] at h1; subst h1; rfl
  | none =>
    obtain ⟨w, hw, _, h2⟩ := h.2 hf
    rw [hw]
    have hns : ¬ Started { elem := wrapper0, known := [] } [] := by
      rintro (h | h); exact h rfl; exact h rfl
    have := h2 hns
    simp only [extractRoot_eq]
    by_cases hc : w.children = []
    · have : hasElement 0 evs = false := by
        cases hh : hasElement 0 evs with
        | false => rfl
        | true => exact absurd hc (this.mpr hh)
      simp [hc, errOf, this]
    · have he := this.mp hc
      simp only [hc, if_false, he, if_true]
      cases hcs : w.children with
      | nil => exact absurd hcs hc
      | cons d ds => rfl

/-- `extend_struct`: the result is an error iff there is a first fault, and then it is that fault
(an element-less input is *not* an error) -/
theorem C08_extend (root : Elem) (evs : List Ev) :
    errOf (extendStruct root evs) = firstFault 0 evs := by
  unfold extendStruct buildFrom
  have h := run_spec evs { elem := wrapper0.setChildren (addUniqueChild wrapper0.children root), known := [] } []
  simp only [List.length_nil] at h
  cases hf : firstFault 0 evs with
  | some e =>
    rw [hf] at h
    have h1 := h.1
    cases hfin : finish (runEvents (St.run [{ elem := wrapper0.setChildren (addUniqueChild wrapper0.children root), known := [] }]) evs) with
    | ok w => rw [hfin] at h1; simp [errOf] at h1
    | error e' => rw [hfin] at h1; simp only [errOf, Option.some.injEq] at h1; subst h1; rfl
  | none =>
    obtain ⟨w, hw, h1, _⟩ := h.2 hf
    rw [hw]
    have hs : Started { elem := wrapper0.setChildren (addUniqueChild wrapper0.children root), known := [] } [] :=
      Or.inr (by simpa [wrapper0, Elem.new, Elem.setChildren, Elem.children] using addUniqueChild_ne_nil [] root)
    have hc := h1 hs
    simp only [extractRoot_eq, hc, if_false]
    cases hcs : w.children with
    | nil => exact absurd hcs hc
    | cons d ds => rfl

/-- a reader fault is reported with the reader's byte position and error text -/
theorem C08_payload (evs : List Ev) (e : PErr) (h : errOf (intoStruct evs) = some e) :
    e = .noRoot ∨ (∃ m, e = .utf8 m) ∨ (∃ m, e = .attr m) ∨
      (∃ p m, e = .quickXml p m ∧ Ev.err p m ∈ evs ∧ e.display = cl!"Error at position " ++ dec p ++ cl!" : " ++ m) := by
  rw [C08_init] at h
  unfold expectedInit at h
  cases hf : firstFault 0 evs with
  | none => rw [hf] at h; simp only at h; split at h <;> simp_all
  | some e' =>
    rw [hf] at h; simp only [Option.some.injEq] at h; subst h
    have key : ∀ (evs : List Ev) (d : Nat) (e : PErr), firstFault d evs = some e →
        e = .noRoot ∨ (∃ m, e = .utf8 m) ∨ (∃ m, e = .attr m) ∨ (∃ p m, e = .quickXml p m ∧ Ev.err p m ∈ evs) := by
      intro evs
      induction evs with
      | nil => intro d e h; simp [firstFault] at h
      | cons ev rest ih =>
        intro d e h
        have lift : ∀ d', firstFault d' rest = some e →
            e = .noRoot ∨ (∃ m, e = .utf8 m) ∨ (∃ m, e = .attr m) ∨ (∃ p m, e = .quickXml p m ∧ Ev.err p m ∈ ev :: rest) := by
          intro d' h'
          rcases ih d' e h' with h | h | h | ⟨p, m, h1, h2⟩
          · exact Or.inl h
          · exact Or.inr (Or.inl h)
          · exact Or.inr (Or.inr (Or.inl h))
          · exact Or.inr (Or.inr (Or.inr ⟨p, m, h1, List.mem_cons_of_mem _ h2⟩))
        have attrCase : ∀ as e, attrKeys as = .error e → (∃ m, e = .utf8 m) ∨ (∃ m, e = .attr m) := by
          intro as
          induction as with
          | nil => intro e h; simp [attrKeys] at h
          | cons a as iha =>
            intro e h
            cases a with
            | bad m => simp only [attrKeys, Except.error.injEq] at h; exact Or.inr ⟨m, h.symm⟩
            | key k =>
              cases k with
              | bad m => simp only [attrKeys, Except.error.injEq] at h; exact Or.inl ⟨m, h.symm⟩
              | ok k =>
                simp only [attrKeys] at h
                cases hk : attrKeys as with
                | ok ks => rw [hk] at h; simp at h
                | error e' => rw [hk] at h; simp only [Except.error.injEq] at h; subst h; exact iha _ hk
        cases ev with
        | start nm as =>
          cases nm with
          | bad m => simp only [firstFault, Option.some.injEq] at h; exact Or.inr (Or.inl ⟨m, h.symm⟩)
          | ok n =>
            simp only [firstFault] at h
            cases hk : attrKeys as with
            | error e' =>
              rw [hk] at h; simp only [Option.some.injEq] at h; subst h
              rcases attrCase as _ hk with h | h
              · exact Or.inr (Or.inl h)
              · exact Or.inr (Or.inr (Or.inl h))
            | ok ks => rw [hk] at h; exact lift _ h
        | empty nm as =>
          cases nm with
          | bad m => simp only [firstFault, Option.some.injEq] at h; exact Or.inr (Or.inl ⟨m, h.symm⟩)
          | ok n =>
            simp only [firstFault] at h
            cases hk : attrKeys as with
            | error e' =>
              rw [hk] at h; simp only [Option.some.injEq] at h; subst h
              rcases attrCase as _ hk with h | h
              · exact Or.inr (Or.inl h)
              · exact Or.inr (Or.inr (Or.inl h))
            | ok ks => rw [hk] at h; exact lift _ h
        | endTag =>
          simp only [firstFault] at h
          split at h
          · cases h
          · exact lift _ h
        | text u =>
          cases u with
          | bad m => simp only [firstFault, Option.some.injEq] at h; exact Or.inr (Or.inl ⟨m, h.symm⟩)
          | ok s => exact lift _ (by simpa [firstFault] using h)
        | cdata u =>
          cases u with
          | bad m => simp only [firstFault, Option.some.injEq] at h; exact Or.inr (Or.inl ⟨m, h.symm⟩)
          | ok s => exact lift _ (by simpa [firstFault] using h)
        | ignored => exact lift _ (by simpa [firstFault] using h)
        | eof => simp [firstFault] at h
        | err p m =>
          simp only [firstFault, Option.some.injEq] at h
          exact Or.inr (Or.inr (Or.inr ⟨p, m, h.symm, List.mem_cons_self⟩))
    rcases key evs 0 e' hf with h | h | h | ⟨p, m, h1, h2⟩
    · exact Or.inl h
    · exact Or.inr (Or.inl h)
    · exact Or.inr (Or.inr (Or.inl h))
    · exact Or.inr (Or.inr (Or.inr ⟨p, m, h1, h2, by subst h1; rfl⟩))

/-- comments, processing instructions, the XML declaration and the DOCTYPE never change the verdict:
inserting an ignored event anywhere changes neither the fault nor the no-root decision -/
theorem C08_ignored (pre post : List Ev) (d : Nat) :
    firstFault d (pre ++ .ignored :: post) = firstFault d (pre ++ post) ∧
    hasElement d (pre ++ .ignored :: post) = hasElement d (pre ++ post) := by
  induction pre generalizing d with
  | nil => simp [firstFault, hasElement]
  | cons ev pre ih =>
    simp only [List.cons_append]
    cases ev with
    | start nm as =>
      cases nm with
      | bad m => simp [firstFault, hasElement]
      | ok n => simp only [firstFault, hasElement]; cases attrKeys as <;> simp [ih]
    | empty nm as =>
      cases nm with
      | bad m => simp [firstFault, hasElement]
      | ok n => simp only [firstFault, hasElement]; cases attrKeys as <;> simp [ih]
    | endTag => simp only [firstFault, hasElement]; split <;> simp [ih]
    | text u => cases u <;> simp [firstFault, hasElement, ih]
    | cdata u => cases u <;> simp [firstFault, hasElement, ih]
    | ignored => simp [firstFault, hasElement, ih]
    | eof => simp [firstFault, hasElement]
    | err p m => simp [firstFault, hasElement]

/-- on every input without fault that contains an element, `into_struct` returns `Ok` -/
theorem C08_ok (evs : List Ev) (h1 : firstFault 0 evs = none) (h2 : hasElement 0 evs = true) :
    ∃ t, intoStruct evs = .ok t := by
  have := C08_init evs
  simp only [expectedInit, h1, h2, if_true] at this
  cases h : intoStruct evs with
  | ok t => exact ⟨t, rfl⟩
  | error e => rw [h] at this; simp [errOf] at this

/-- non-vacuity: a stream with an attribute fault, and a fault-free stream with an element and surrounding misc -/
example : firstFault 0 [.ignored, .start (.ok (cl!"a")) [.bad (cl!"dup")], .eof] = some (.attr (cl!"dup")) := by decide
example : firstFault 0 [.ignored, .start (.ok (cl!"a")) [], .text (.ok []), .endTag, .ignored, .eof] = none ∧
    hasElement 0 [.ignored, .start (.ok (cl!"a")) [], .text (.ok []), .endTag, .ignored, .eof] = true := by decide

/-- the text the correspondence check compares for "the error carries the reader's error and byte position"
(`ER <display> <carried>`, read off the public enum by the harness) determines the error value: variant, position
and inner error -/
theorem C08_carried_determines (e e' : PErr) : e.carried = e'.carried ↔ e = e' :=
  ⟨PErr.carried_injective e e', fun h => by rw [h]⟩

end Xsg
