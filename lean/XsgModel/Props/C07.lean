import XsgModel.Props.C04
import XsgModel.Props.C08
/-!
# C07 — no panic, abort or hang on arbitrary input bytes  (PARTIAL)

What a Lean model can carry: every function of the model is total (Lean only accepts terminating
definitions; the event loop is a fold over the event list), and for each operation that can panic or loop in
Rust the guard is stated and proved.  What it cannot exhibit: panics inside `quick_xml`, allocation failure,
exhaustion of the native stack by the recursion per nesting level — those are searched for by the
correspondence run (byte mutation × reader configurations × buffer capacities under `catch_unwind`).
-/
namespace Xsg

/-- parsing, extending and rendering are total: every event stream, tree and option record has a result,
which is a tree or one of the four error variants -/
theorem C07_total (evs : List Ev) (t : Elem) (o : Options) :
    ((∃ x, intoStruct evs = .ok x) ∨ ∃ e, intoStruct evs = .error e) ∧
    ((∃ x, extendStruct t evs = .ok x) ∨ ∃ e, extendStruct t evs = .error e) ∧
    ∃ s, toSerdeStruct o t = s := by
  refine ⟨?_, ?_, ⟨_, rfl⟩⟩
  · cases h : intoStruct evs with
    | ok x => exact Or.inl ⟨x, rfl⟩
    | error e => exact Or.inr ⟨e, rfl⟩
  · cases h : extendStruct t evs with
    | ok x => exact Or.inl ⟨x, rfl⟩
    | error e => exact Or.inr ⟨e, rfl⟩

/-- `Vec::remove(index)` is only called with an index returned by `position`: removal drops exactly one child
when the name is present and nothing otherwise -/
theorem C07_remove_in_bounds (cs : List (Nec × Elem)) (n : Name) :
    (∀ c, getChild cs n = some c → (eraseChild cs n).length + 1 = cs.length) ∧ (getChild cs n = none → eraseChild cs n = cs) :=
  ⟨fun _ h => length_eraseChild h, eraseChild_of_absent⟩

/-- `trace[start..]` with `start = len.saturating_sub(n)` is always in bounds -/
theorem C07_trace_slice (trace : List Name) (n : Nat) : trace.length - n ≤ trace.length := Nat.sub_le _ _

/-- the counter of an element changes only in `parse_tag`, by exactly one per `Start`/`Empty` event of that
element (so it can only overflow `u32` after 2^32 such events) -/
theorem C07_count_step (X : Elem) (known : List Name) (k : Name) (as : List Name) :
    (∀ nec C, getChild X.children k = some (nec, C) → (openChild X known k as).count = C.count + 1) ∧
    (getChild X.children k = none → (openChild X known k as).count = 1) :=
  ⟨fun _ _ h => (openChild_some h).2.2.1, fun h => (openChild_none h).2.2.1⟩

def stackHeight : St → Nat
  | .run stack => stack.length
  | _ => 0

def startCount : List Ev → Nat
  | [] => 0
  | .start _ _ :: r => startCount r + 1
  | _ :: r => startCount r

/-- the number of nested activations (native recursion depth of `build_struct`) never exceeds the number of
`Start` events read so far plus the initial one -/
theorem C07_depth_bound (evs : List Ev) (s : St) : stackHeight (runEvents s evs) ≤ stackHeight s + startCount evs := by
  induction evs generalizing s with
  | nil => simp [runEvents, startCount]
  | cons ev evs ih =>
    rw [runEvents_cons]
    have hstep : stackHeight (step s ev) + startCount evs ≤ stackHeight s + startCount (ev :: evs) := by
      cases s with
      | done w => cases ev <;> simp [step, stackHeight, startCount]
      | fail e => cases ev <;> simp [step, stackHeight, startCount]
      | run stack =>
        cases stack with
        | nil => cases ev <;> simp [step, stackHeight, startCount]
        | cons top rest =>
          cases ev with
          | start nm as =>
            cases nm with
            | bad m => simp [step, stackHeight, startCount]; omega
            | ok n =>
              simp only [step]
              cases attrKeys as <;> simp [stackHeight, startCount] <;> omega
          | empty nm as =>
            cases nm with
            | bad m => simp [step, stackHeight, startCount]
            | ok n =>
              simp only [step]
              cases attrKeys as <;> simp [stackHeight, startCount]
          | endTag => cases rest <;> simp [step, stackHeight, startCount]
          | text u => cases u <;> simp [step, stackHeight, startCount]
          | cdata u => cases u <;> simp [step, stackHeight, startCount]
          | ignored => simp [step, stackHeight, startCount]
          | eof => simp [step, stackHeight, startCount]
          | err p m => simp [step, stackHeight, startCount]
    exact Nat.le_trans (ih _) hstep

/-- the `while` loops of `create_unused_name` and `compute_struct_names` terminate (see `C04_while_terminates`) -/
theorem C07_while_terminates (used : List Name) (base : Name) (h : used.contains base = true) :
    ∃ i, i < used.length + 1 ∧ firstFree used base (fun i => base ++ dec i) = base ++ dec (i + 1) :=
  let ⟨⟨i, h1, h2, _⟩, _⟩ := C04_while_terminates used base h
  ⟨i, h1, h2⟩

/-- the two `error!` branches of `minimal_different_lengths` are unreachable: every index below the minimal
length exists in every trace -/
theorem C07_unreachable_logs (vecs : List (List Name)) (i : Nat)
    (hi : i < ((vecs.map List.length).min?.getD 0)) : ∀ v ∈ vecs, i < v.length := by
  intro v hv
  cases hm : (vecs.map List.length).min? with
  | none => rw [hm] at hi; simp at hi
  | some m =>
    rw [hm] at hi
    simp only [Option.getD_some] at hi
    rw [List.min?_eq_some_iff] at hm
    have := hm.2 _ (List.mem_map_of_mem hv)
    omega

/-- every failure of the reader, of an attribute or of UTF-8 decoding is a value (`Err`), never a panic:
the only results of a step on a running machine are a running machine, a finished one, or a failure carrying
a `ParserError` (same statement as `C08_init`, repeated here for the error paths) -/
theorem C07_errors_are_values (evs : List Ev) : errOf (intoStruct evs) = expectedInit evs := C08_init evs

end Xsg
