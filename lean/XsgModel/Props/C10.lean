import XsgModel.Model.Render
import XsgModel.Model.RustSyntax
/-!
# C10 — options change exactly what they name and nothing else

All statements are for every element tree, every hint lookup and every option record.
-/
namespace Xsg

/-- the part of a field that must not depend on derive / prefix / text identifier / preset -/
def Field.skeleton (f : Field) : FKind × Name × Name × Bool × Bool × Name := (f.kind, f.xml, f.ident, f.opt, f.vec, f.base)

def StructDef.skeleton (s : StructDef) : Name × List Name × List (FKind × Name × Name × Bool × Bool × Name) :=
  (s.name, s.path, s.fields.map Field.skeleton)

/-- the derive string is reproduced verbatim on every struct, and no derive attribute exists when it is empty -/
theorem C10_derive (o : Options) (hints : Name → Option Nat) (t : Elem) :
    ∀ s ∈ renderWith hints o t, s.derive = if o.derive = [] then none else some o.derive := by
  intro s hs
  simp only [renderWith, List.mem_map] at hs
  obtain ⟨en, _, rfl⟩ := hs
  simp only [structOf]
  cases h : o.derive <;> simp

/-- the `#[derive(..)]` line is printed iff the attribute is present, with the string unchanged -/
theorem C10_print (s : StructDef) :
    printStruct s = (match s.derive with
      | some d => cl!"#[derive(" ++ d ++ cl!")]\n"
      | none => []) ++ cl!"pub struct " ++ s.name ++ cl!" {\n" ++ (s.fields.map printField).flatten ++ cl!"}\n\n" := rfl

theorem attrField_skeleton (o o' : Options) (im : IdentMap) (a : Nec × Name) :
    (attrField o im a).skeleton = (attrField o' im a).skeleton := rfl

theorem textField_skeleton (o o' : Options) (im : IdentMap) :
    (textField o im).skeleton = (textField o' im).skeleton := rfl

theorem sortedAttrs_congr (o o' : Options) (h : o.sort = o'.sort) (e : Elem) : sortedAttrs o e = sortedAttrs o' e := by
  simp [sortedAttrs, h]

theorem sortedChildren_congr (o o' : Options) (h : o.sort = o'.sort) (e : Elem) : sortedChildren o e = sortedChildren o' e := by
  simp [sortedChildren, h]

theorem structOf_skeleton (o o' : Options) (h : o.sort = o'.sort) (hints) (names) (en : Entry) :
    (structOf o hints names en).skeleton = (structOf o' hints names en).skeleton := by
  simp only [StructDef.skeleton, structOf, List.map_append, List.map_map, Prod.mk.injEq, true_and]
  rw [sortedAttrs_congr o o' h, sortedChildren_congr o o' h]
  congr 1
  congr 1
  split <;> rfl

/-- neither derive, attribute prefix, text identifier nor the choice of preset alters the set of structs,
their names, fields, identifiers, types or their order: two option records with the same `sort` give
the same skeleton -/
theorem C10_skeleton (o o' : Options) (h : o.sort = o'.sort) (hints : Name → Option Nat) (t : Elem) :
    (renderWith hints o t).map StructDef.skeleton = (renderWith hints o' t).map StructDef.skeleton := by
  simp only [renderWith, List.map_map, h]
  apply List.map_congr_left
  intro en _
  exact structOf_skeleton o o' h hints _ en

/-- the two presets differ only in the attribute prefix -/
theorem C10_presets : Options.serdeXmlRs = { Options.quickXmlDe with attrPrefix := [] } := rfl

/-- an attribute is bound to prefix + local name (full name for `xmlns:*`); a rename is emitted exactly when
that differs from the identifier -/
theorem C10_attr_rename (o : Options) (im : IdentMap) (a : Nec × Name) :
    let f := attrField o im a
    let bound := o.attrPrefix ++ (if startsWithXmlns a.2 then a.2 else removeNamespace a.2)
    f.rename = if f.ident ≠ bound then some bound else none := by
  intro f bound; rfl

/-- a child is bound to its local name; a rename is emitted exactly when that differs from the identifier -/
theorem C10_child_rename (hints names) (im : IdentMap) (path trace : List Name) (c : Nec × Elem) :
    let f := childField hints names im path trace c
    f.rename = if f.ident ≠ removeNamespace c.2.name then some (removeNamespace c.2.name) else none := by
  intro f; rfl

/-- the text field is always bound to the text identifier -/
theorem C10_text_rename (o : Options) (im : IdentMap) : (textField o im).rename = some o.textIdent := rfl

/-- the attribute prefix and the text identifier occur nowhere but in those renames: identifiers and types of
every field are those of any other option record (instance of `C10_skeleton` for single fields) -/
theorem C10_only_renames (o o' : Options) (h : o.sort = o'.sort) (hints names) (en : Entry) :
    (structOf o hints names en).fields.map (fun f => (f.ident, f.opt, f.vec, f.base))
      = (structOf o' hints names en).fields.map (fun f => (f.ident, f.opt, f.vec, f.base)) := by
  have := structOf_skeleton o o' h hints names en
  simp only [StructDef.skeleton, Prod.mk.injEq] at this
  have h3 := congrArg (List.map (fun (x : FKind × Name × Name × Bool × Bool × Name) => (x.2.2.1, x.2.2.2.1, x.2.2.2.2.1, x.2.2.2.2.2))) this.2.2
  simpa [List.map_map, Function.comp_def, Field.skeleton] using h3

/-- `Options::derive` replaces the derive string and nothing else -/
theorem C10_withDerive (o : Options) (d : Name) :
    (o.withDerive d).derive = d ∧ (o.withDerive d).sort = o.sort ∧ (o.withDerive d).attrPrefix = o.attrPrefix ∧ (o.withDerive d).textIdent = o.textIdent :=
  ⟨rfl, rfl, rfl, rfl⟩

/-- non-vacuity: an element with an attribute whose identifier equals its bound name under one prefix and not under another -/
example : (attrField { Options.quickXmlDe with attrPrefix := [] } (identMap (Elem.new (cl!"r") [cl!"a"])) (.man, cl!"a")).rename = none ∧
    (attrField Options.quickXmlDe (identMap (Elem.new (cl!"r") [cl!"a"])) (.man, cl!"a")).rename = some (cl!"@a") := by
  decide

end Xsg
