import XsgModel.Proofs.Necessity
/-!
# C15 — public list merge: union, conjunction of necessity, stable order

For any two duplicate-free lists of optional/mandatory items, `merge_necessity` returns each distinct
item exactly once, an item is mandatory iff it is mandatory in both lists, the first list's items keep
their order and come first, the items found only in the second list follow in their original order.
All statements are for every payload type with decidable equality and for lists of any length.
-/
namespace Xsg

variable {α : Type} [DecidableEq α]

/-- order: first list, then the second-only items in their original relative order -/
theorem C15_names (xs ys : List (Nec × α)) (hys : (names ys).Nodup) :
    names (mergeNec xs ys) = names xs ++ (names ys).filter (fun a => a ∉ names xs) :=
  mergeNec_names xs ys hys

/-- each distinct item of either list, exactly once -/
theorem C15_exactly_once (xs ys : List (Nec × α)) (hxs : (names xs).Nodup) (hys : (names ys).Nodup) :
    (names (mergeNec xs ys)).Nodup ∧ ∀ a, a ∈ names (mergeNec xs ys) ↔ a ∈ names xs ∨ a ∈ names ys := by
  rw [C15_names xs ys hys]
  refine ⟨?_, ?_⟩
  · rw [List.nodup_append]
    refine ⟨hxs, hys.filter _, ?_⟩
    intro a ha b hb e
    subst e
    simp only [List.mem_filter, decide_eq_true_eq] at hb
    exact hb.2 ha
  · intro a
    simp only [List.mem_append, List.mem_filter, decide_eq_true_eq]
    constructor
    · rintro (h | h); exact Or.inl h; exact Or.inr h.1
    · rintro (h | h)
      · exact Or.inl h
      · by_cases hx : a ∈ names xs
        · exact Or.inl hx
        · exact Or.inr ⟨h, hx⟩

/-- mandatory iff mandatory in both lists -/
theorem C15_mandatory_iff (xs ys : List (Nec × α)) (hys : (names ys).Nodup) (a : α) :
    (Nec.man, a) ∈ mergeNec xs ys ↔ (Nec.man, a) ∈ xs ∧ (Nec.man, a) ∈ ys := by
  unfold mergeNec
  obtain ⟨tail, h1, h2⟩ := foldl_second_prefix (mergeFirst xs ys) ys
  rw [h1, List.mem_append, mem_mergeFirst_man hys]
  constructor
  · rintro (h | h)
    · exact h
    · have := (h2 _ h).1; cases this
  · exact Or.inl

/-- every item of the result is tagged; an item that is not mandatory is optional — so together with
`C15_mandatory_iff` the tag of every item is determined -/
theorem C15_tag_total (xs ys : List (Nec × α)) (a : α) (h : a ∈ names (mergeNec xs ys)) :
    (Nec.man, a) ∈ mergeNec xs ys ∨ (Nec.opt, a) ∈ mergeNec xs ys := by
  simp only [names, List.mem_map] at h
  obtain ⟨⟨n, b⟩, hm, rfl⟩ := h
  cases n
  · exact Or.inr hm
  · exact Or.inl hm

/-- non-vacuity: the doc-test example of `merge_necessity` satisfies the hypotheses and gives the documented result -/
example : (names [(Nec.man, 1), (Nec.man, 3), (Nec.opt, 4)]).Nodup ∧
    mergeNec [(Nec.man, 1), (Nec.man, 2), (Nec.man, 4)] [(Nec.man, 1), (Nec.man, 3), (Nec.opt, 4)]
      = [(Nec.man, 1), (Nec.opt, 2), (Nec.opt, 4), (Nec.opt, 3)] := by decide

/-- the pinned tree (before fix F1) violated the order clause: two second-only items come out reversed -/
theorem C15_prefix_negative :
    names (mergeNecPinned [(Nec.man, 0)] [(Nec.man, 0), (Nec.man, 1), (Nec.man, 2)])
      ≠ names [(Nec.man, 0)] ++ (names [(Nec.man, 0), (Nec.man, 1), (Nec.man, 2)]).filter (fun a => a ∉ names [(Nec.man, 0)]) := by
  decide

end Xsg
