import XsgModel.Proofs.StructNames
import XsgModel.Proofs.Hints
import XsgModel.Model.RustSyntax
/-!
# C04 — rendered source is well-formed Rust with unique, legal names

For every element tree with unique child names (every parsed tree: `C11_parsed_inv`; every hand-built tree:
`C16_inv_seq`) and unique attribute names, and for every option record:
* `C04_structs_unique`, `C04_structs_not_reserved`: every struct name is defined exactly once and is none of
  `Self`, `String`, `Option`, `Vec`, `Serialize`, `Deserialize` (fix F4);
* `C04_fields_unique`: the field identifiers of one struct are pairwise distinct;
* `C04_types_resolve`: every field type is `String` or the name of a struct of the same output;
* `C04_while_terminates`: the two suffix loops terminate (pigeonhole).
`C04_prefix_negative`: the pinned naming function produced `Self`, `String` and duplicates.
Character-level legality of the identifiers on the supported alphabet is checked on the implementation's
output by the decidable predicate `WellFormed` (same definition, `Model/RustSyntax.lean`) — see DESIGN.md.
-/
namespace Xsg

theorem C04_structs_unique (o : Options) (t : Elem) (ht : t.Inv = true) : ((renderAST o t).map (·.name)).Nodup :=
  (struct_names_spec _ o t ht).1

theorem C04_structs_not_reserved (o : Options) (t : Elem) (ht : t.Inv = true) :
    ∀ s ∈ renderAST o t, s.name ≠ cl!"Self" ∧ s.name ≠ cl!"String" ∧ s.name ≠ cl!"Option" ∧ s.name ≠ cl!"Vec" ∧
      s.name ≠ cl!"Serialize" ∧ s.name ≠ cl!"Deserialize" := by
  intro s hs
  have := (struct_names_spec _ o t ht).2 s hs
  simp only [reservedStructNames, List.mem_cons, List.mem_nil_iff, or_false, not_or] at this
  exact this

/-- identifiers of one struct are pairwise distinct -/
theorem C04_fields_unique (o : Options) (H : Name → Option Nat) (names' : List (List Name × Name)) (en : Entry)
    (ha : (names en.elem.attrs).Nodup) (hc : (childNames en.elem.children).Nodup) :
    ((structOf o H names' en).fields.map (·.ident)).Nodup := by
  obtain ⟨cc, ca, hlc, hla, hch, hat, hnd⟩ := identMap_spec en.elem
  -- identifiers of the attribute fields / child fields, in stored order, are the created ones
  have hA : en.elem.attrs.map (fun a => (attrField o (identMap en.elem) a).ident) = ca := by
    have ha' : (en.elem.attrs.map (fun a : Nec × Name => a.2)).Nodup := ha
    have := lookup_all (en.elem.attrs.map (fun a : Nec × Name => a.2)) ca (by simpa using hla) ha'
    simp only [List.map_map] at this
    rw [← this]
    apply List.map_congr_left
    intro a _
    simp [attrField, hat, Function.comp]
  have hC : en.elem.children.map (fun c => (childField H names' (identMap en.elem) en.path en.trace c).ident) = cc := by
    have hc' : (en.elem.children.map (fun c : Nec × Elem => c.2.name)).Nodup := hc
    have := lookup_all (en.elem.children.map (fun c : Nec × Elem => c.2.name)) cc (by simpa using hlc) hc'
    simp only [List.map_map] at this
    rw [← this]
    apply List.map_congr_left
    intro c _
    simp [childField, hch, Function.comp]
  have pA : ((sortedAttrs o en.elem).map (fun a => (attrField o (identMap en.elem) a).ident)).Perm ca := by
    rw [← hA]; exact (C09_perm_attrs o en.elem).map _
  have pC : ((sortedChildren o en.elem).map (fun c => (childField H names' (identMap en.elem) en.path en.trace c).ident)).Perm cc := by
    rw [← hC]; exact (perm_sortOn _ _).map _
  simp only [structOf, List.map_append, List.map_map, Function.comp_def]
  -- cc ++ ca ++ [text] is duplicate-free; the field list is a sub-permutation of it
  have hnd' : (ca ++ (if en.elem.text then [(identMap en.elem).text] else []) ++ cc).Nodup := by
    have h1 : (ca ++ [(identMap en.elem).text] ++ cc).Nodup := by
      have : (cc ++ ca ++ [(identMap en.elem).text]).Perm (ca ++ [(identMap en.elem).text] ++ cc) := by
        rw [List.append_assoc]
        exact List.perm_append_comm
      exact (this.nodup_iff).mp hnd
    split
    · exact h1
    · simp only [List.append_nil]
      exact (List.Sublist.nodup (by
        have : (ca ++ cc).Sublist (ca ++ ([(identMap en.elem).text] ++ cc)) :=
          List.Sublist.append (List.Sublist.refl _) (List.sublist_append_right _ _)
        simpa [List.append_assoc] using this) h1)
  refine ((List.Perm.append (List.Perm.append pA ?_) pC).nodup_iff).mpr hnd'
  split <;> simp [textField]
where
  C09_perm_attrs (o : Options) (e : Elem) : (sortedAttrs o e).Perm e.attrs := by
    unfold sortedAttrs
    cases o.sort
    · exact List.Perm.refl _
    · exact perm_sortOn _ _

/-- the entry of a struct-typed child of an entry of the walk is itself an entry of the walk -/
theorem child_entry_mem (s : SortBy) (en : Entry) (c : Nec × Elem) (hcm : c ∈ en.elem.children) (hto : c.2.textOnly = false)
    (e : Elem) : ∀ (path trace : List Name), en ∈ walk s path trace e →
      (⟨en.path ++ [c.2.name], en.trace ++ [pascal c.2.name], c.2⟩ : Entry) ∈ walk s path trace e := by
  intro path trace h
  rw [mem_walk] at h ⊢
  rcases h with h | ⟨d, hd, htd, hend⟩
  · right
    rw [h] at hcm
    simp only at hcm
    refine ⟨c, hcm, hto, ?_⟩
    rw [h, mem_walk]; left; rfl
  · have := sizeOf_child_lt hd
    exact Or.inr ⟨d, hd, htd, child_entry_mem s en c hcm hto d.2 _ _ hend⟩
termination_by sizeOf e

/-- every field type is `String` or a struct defined in the same output -/
theorem C04_types_resolve (o : Options) (t : Elem) :
    ∀ s ∈ renderAST o t, ∀ f ∈ s.fields, f.base = stringTy ∨ ∃ s' ∈ renderAST o t, s'.name = f.base := by
  intro s hs f hf
  simp only [renderAST, renderWith, List.mem_map] at hs
  obtain ⟨en, hen, rfl⟩ := hs
  simp only [structOf, List.mem_append, List.mem_map] at hf
  rcases hf with (⟨a, _, rfl⟩ | hf) | ⟨c, hc, rfl⟩
  · exact Or.inl rfl
  · split at hf
    · simp only [List.mem_singleton] at hf; subst hf; exact Or.inl rfl
    · cases hf
  · simp only [childField]
    by_cases hto : c.2.textOnly = true
    · simp [hto]
    · right
      simp only [hto, if_false]
      have hcm : c ∈ en.elem.children := mem_sortOn.mp hc
      -- the child's own entry is in the walk
      have hsub : (⟨en.path ++ [c.2.name], en.trace ++ [pascal c.2.name], c.2⟩ : Entry) ∈ walk o.sort [] [] t := by
        exact child_entry_mem o.sort en c hcm (by simpa using hto) t [] [] hen
      refine ⟨structOf o _ _ _, List.mem_map_of_mem hsub, rfl⟩

/-- the suffix loops of `create_unused_name` and of `compute_struct_names` terminate after at most
`used.length` increments and return a name that is not in use -/
theorem C04_while_terminates (used : List Name) (base : Name) (h : used.contains base = true) :
    (∃ i, i < used.length + 1 ∧ firstFree used base (fun i => base ++ dec i) = base ++ dec (i + 1) ∧ base ++ dec (i + 1) ∉ used) ∧
    (∃ i, i < used.length + 1 ∧ firstFree used base (fun i => base ++ ['_'] ++ dec i) = base ++ ['_'] ++ dec (i + 1) ∧
      base ++ ['_'] ++ dec (i + 1) ∉ used) := by
  obtain ⟨i, h1, h2, h3, -⟩ := firstFree_terminates used base (fun i => base ++ dec i) (append_dec_injective base) h
  obtain ⟨j, g1, g2, g3, -⟩ := firstFree_terminates used base (fun i => base ++ ['_'] ++ dec i) (underscore_dec_injective base) h
  exact ⟨⟨i, h1, h2, h3⟩, ⟨j, g1, g2, g3⟩⟩

/-- the pinned tree (before fix F4): names were the bare expansion — `Self` for `<self a="1"/>`, `String` for
`<string …/>`, and siblings `Foo` / `foo` shared one struct name -/
theorem C04_prefix_negative :
    expandName (hintOf (fillNames [] (Elem.new (cl!"self") [cl!"a"]))) [pascal (cl!"self")] (Elem.new (cl!"self") [cl!"a"]) = cl!"Self" ∧
    pascal (cl!"string") = cl!"String" ∧ pascal (cl!"Foo") = pascal (cl!"foo") := by decide

/-- non-vacuity: the D4 witnesses after the fix -/
example : ((renderAST Options.quickXmlDe
    (.mk (cl!"r") false true 1 [] [(.man, Elem.new (cl!"Foo") [cl!"a"]), (.man, Elem.new (cl!"foo") [cl!"a"])] none)).map (·.name))
    = [cl!"R", cl!"RFoo", cl!"RFoo1"] := by decide +kernel

end Xsg
