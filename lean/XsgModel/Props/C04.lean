import XsgModel.Proofs.StructNames
import XsgModel.Proofs.PascalLegal
import XsgModel.Proofs.TextLevel
import XsgModel.Props.C14
import XsgModel.Proofs.Hints
import XsgModel.Model.RustSyntax
import XsgModel.Proofs.UsedOnce
import XsgModel.Proofs.TreeNames
import XsgModel.Props.C11
/-!
# C04 — rendered source is well-formed Rust with unique, legal names

For every element tree with unique child names (every parsed tree: `C11_parsed_inv`; every hand-built tree:
`C16_inv_seq`) and unique attribute names, and for every option record:
* `C04_structs_unique`, `C04_structs_not_reserved`: every struct name is defined exactly once and is none of
  `Self`, `String`, `Option`, `Vec`, `Serialize`, `Deserialize` (fix F4);
* `C04_fields_unique`: the field identifiers of one struct are pairwise distinct;
* `C04_types_resolve`: every field type is `String` or the name of a struct of the same output;
* `C04_while_terminates`: the two suffix loops terminate (pigeonhole).
`C04_prefix_negative`: the pinned naming function produced `Self`, `String` and duplicates.
* `C04_fields_legal`, `C04_structs_legal`: every field identifier is a legal non-keyword identifier and every
  struct name a legal type identifier that does not shadow `String`, `Option`, `Vec` — for names whose first
  alphanumeric character is a letter (`LetterFirst`, implied by C04's side condition `nameOK`), with the
  character classes of the model (`Model/Chars.lean`, equal to Rust's on the supported alphabet Σ, which the
  correspondence run checks exhaustively).
-/
namespace Xsg

theorem C04_structs_unique (o : Options) (t : Elem) (ht : t.Inv = true) : ((renderAST o t).map (·.name)).Nodup :=
  (struct_names_spec _ o t ht).1

theorem C04_structs_not_reserved (o : Options) (t : Elem) (ht : t.Inv = true) :
    ∀ s ∈ renderAST o t, s.name ≠ cl!"Self" ∧ s.name ≠ cl!"String" ∧ s.name ≠ cl!"Option" ∧ s.name ≠ cl!"Vec" ∧
      s.name ≠ cl!"Serialize" ∧ s.name ≠ cl!"Deserialize" := by
  intro s hs
  have := (struct_names_spec _ o t ht).2 s hs
  simp only [reservedStructNames, List.mem_cons, List.mem_nil_iff, or_false, not_or] at this
  exact this

/-- identifiers of one struct are pairwise distinct -/
theorem C04_fields_unique (o : Options) (H : Name → Option Nat) (names' : List (List Name × Name)) (en : Entry)
    (ha : (names en.elem.attrs).Nodup) (hc : (childNames en.elem.children).Nodup) :
    ((structOf o H names' en).fields.map (·.ident)).Nodup := by
  obtain ⟨cc, ca, hlc, hla, hch, hat, hnd⟩ := identMap_spec en.elem
  -- identifiers of the attribute fields / child fields, in stored order, are the created ones
  have hA : en.elem.attrs.map (fun a => (attrField o (identMap en.elem) a).ident) = ca := by
    have ha' : (en.elem.attrs.map (fun a : Nec × Name => a.2)).Nodup := ha
    have := lookup_all (en.elem.attrs.map (fun a : Nec × Name => a.2)) ca (by simpa using hla) ha'
    simp only [List.map_map] at this
    rw [← this]
    apply List.map_congr_left
    intro a _
    simp [attrField, hat, Function.comp]
  have hC : en.elem.children.map (fun c => (childField H names' (identMap en.elem) en.path en.trace c).ident) = cc := by
    have hc' : (en.elem.children.map (fun c : Nec × Elem => c.2.name)).Nodup := hc
    have := lookup_all (en.elem.children.map (fun c : Nec × Elem => c.2.name)) cc (by simpa using hlc) hc'
    simp only [List.map_map] at this
    rw [← this]
    apply List.map_congr_left
    intro c _
    simp [childField, hch, Function.comp]
  have pA : ((sortedAttrs o en.elem).map (fun a => (attrField o (identMap en.elem) a).ident)).Perm ca := by
    rw [← hA]; exact (C09_perm_attrs o en.elem).map _
  have pC : ((sortedChildren o en.elem).map (fun c => (childField H names' (identMap en.elem) en.path en.trace c).ident)).Perm cc := by
    rw [← hC]; exact (perm_sortOn _ _).map _
  simp only [structOf, List.map_append, List.map_map, Function.comp_def]
  -- cc ++ ca ++ [text] is duplicate-free; the field list is a sub-permutation of it
  have hnd' : (ca ++ (if en.elem.text then [(identMap en.elem).text] else []) ++ cc).Nodup := by
    have h1 : (ca ++ [(identMap en.elem).text] ++ cc).Nodup := by
      have : (cc ++ ca ++ [(identMap en.elem).text]).Perm (ca ++ [(identMap en.elem).text] ++ cc) := by
        rw [List.append_assoc]
        exact List.perm_append_comm
      exact (this.nodup_iff).mp hnd
    split
    · exact h1
    · simp only [List.append_nil]
      exact (List.Sublist.nodup (by
        have : (ca ++ cc).Sublist (ca ++ ([(identMap en.elem).text] ++ cc)) :=
          List.Sublist.append (List.Sublist.refl _) (List.sublist_append_right _ _)
        simpa [List.append_assoc] using this) h1)
  refine ((List.Perm.append (List.Perm.append pA ?_) pC).nodup_iff).mpr hnd'
  split <;> simp [textField]
where
  C09_perm_attrs (o : Options) (e : Elem) : (sortedAttrs o e).Perm e.attrs := by
    unfold sortedAttrs
    cases o.sort
    · exact List.Perm.refl _
    · exact perm_sortOn _ _

/-- every field type is `String` or a struct defined in the same output -/
theorem C04_types_resolve (o : Options) (t : Elem) :
    ∀ s ∈ renderAST o t, ∀ f ∈ s.fields, f.base = stringTy ∨ ∃ s' ∈ renderAST o t, s'.name = f.base := by
  intro s hs f hf
  simp only [renderAST, renderWith, List.mem_map] at hs
  obtain ⟨en, hen, rfl⟩ := hs
  simp only [structOf, List.mem_append, List.mem_map] at hf
  rcases hf with (⟨a, _, rfl⟩ | hf) | ⟨c, hc, rfl⟩
  · exact Or.inl rfl
  · split at hf
    · simp only [List.mem_singleton] at hf; subst hf; exact Or.inl rfl
    · cases hf
  · simp only [childField]
    by_cases hto : c.2.textOnly = true
    · simp [hto]
    · right
      simp only [hto, if_false]
      have hcm : c ∈ en.elem.children := mem_sortOn.mp hc
      -- the child's own entry is in the walk
      have hsub : (⟨en.path ++ [c.2.name], en.trace ++ [pascal c.2.name], c.2⟩ : Entry) ∈ walk o.sort [] [] t := by
        exact child_entry_mem o.sort en c hcm (by simpa using hto) t [] [] hen
      refine ⟨structOf o _ _ _, List.mem_map_of_mem hsub, rfl⟩

/-- every field name is a legal non-keyword identifier -/
theorem C04_fields_legal (o : Options) (H : Name → Option Nat) (names' : List (List Name × Name)) (en : Entry)
    (hn : LetterFirst en.elem.name) (ha : ∀ a ∈ en.elem.attrs, LetterFirst a.2) (hc : ∀ c ∈ en.elem.children, LetterFirst c.2.name)
    (hnda : (names en.elem.attrs).Nodup) (hndc : (childNames en.elem.children).Nodup) :
    ∀ f ∈ (structOf o H names' en).fields, legalIdent f.ident = true :=
  fields_legal o H names' en hn ha hc hnda hndc

/-- C04's side condition implies `LetterFirst` -/
theorem C04_nameOK_letterFirst (n : Name) (h : nameOK n = true) : LetterFirst n := nameOK_letterFirst h

/-- struct names consist of alphanumeric characters only -/
theorem C04_struct_name_alnum (o : Options) (t : Elem) : ∀ s ∈ renderAST o t, s.name.all isAlnum = true := by
  intro s hs
  obtain ⟨j, digits, hj, hname, hdig⟩ := C14_shape o t s hs
  rw [hname, List.all_append, Bool.and_eq_true]
  refine ⟨?_, ?_⟩
  · rw [List.all_eq_true]
    intro c hc
    rw [List.mem_flatten] at hc
    obtain ⟨l, hl, hcl⟩ := hc
    have hl' := List.mem_of_mem_drop hl
    rw [List.mem_map] at hl'
    obtain ⟨p, _, rfl⟩ := hl'
    exact (List.all_eq_true.mp (pascal_all_alnum p)) c hcl
  · rw [List.all_eq_true] at hdig ⊢
    intro c hc
    have := hdig c hc
    simp [isAlnum, this]

/-- every struct name is a legal type identifier: not a keyword, and not `String`, `Option` or `Vec` -/
theorem C04_structs_legal (o : Options) (t : Elem) (ht : t.Inv = true)
    (hnames : ∀ en ∈ walk o.sort [] [] t, ∀ p ∈ en.path, LetterFirst p) :
    ∀ s ∈ renderAST o t, legalTypeIdent s.name = true := by
  intro s hs
  obtain ⟨j, digits, hj, hname, hdig⟩ := C14_shape o t s hs
  have hres := C04_structs_not_reserved o t ht s hs
  obtain ⟨en, hen, hse⟩ := mem_renderWith hs
  have hpath : s.path = en.path := by rw [hse]; rfl
  -- the name starts with the PascalCase form of the `j`-th path element
  have hdrop : (s.path.map pascal).drop j = pascal (s.path[j]'hj) :: (s.path.map pascal).drop (j + 1) := by
    rw [List.drop_eq_getElem_cons (by simpa using hj)]; simp
  have hlf : LetterFirst (s.path[j]'hj) := hnames en hen _ (by rw [← hpath]; exact List.getElem_mem _)
  have hcap : CapStart s.name := by
    rw [hname, hdrop, List.flatten_cons, List.append_assoc]
    exact CapStart_append (pascal_capStart hlf) _
  have hall : s.name.all isAlnum = true := by
    rw [hname, List.all_append, Bool.and_eq_true]
    refine ⟨?_, ?_⟩
    · rw [List.all_eq_true]
      intro c hc
      rw [List.mem_flatten] at hc
      obtain ⟨l, hl, hcl⟩ := hc
      have hl' := List.mem_of_mem_drop hl
      rw [List.mem_map] at hl'
      obtain ⟨p, _, rfl⟩ := hl'
      exact (List.all_eq_true.mp (pascal_all_alnum p)) c hcl
    · rw [List.all_eq_true] at hdig ⊢
      intro c hc
      have := hdig c hc
      simp [isAlnum, this]
  simp only [legalTypeIdent, Bool.and_eq_true, Bool.not_eq_eq_eq_not, Bool.not_true]
  refine ⟨legal_of_capStart hcap hall hres.1, ?_⟩
  simp only [shadowedTypes, List.contains_cons, List.contains_nil, Bool.or_false, Bool.or_eq_false_iff, beq_eq_false_iff_ne]
  exact ⟨hres.2.1, hres.2.2.1, hres.2.2.2.1⟩

theorem attrField_rename_eq (o : Options) (im : IdentMap) (a : Nec × Name) (r : Name)
    (h : (attrField o im a).rename = some r) :
    r = o.attrPrefix ++ (if startsWithXmlns a.2 then a.2 else removeNamespace a.2) := by
  have h' : (if (identLookup im.attr a.2).getD a.2 ≠ o.attrPrefix ++ (if startsWithXmlns a.2 then a.2 else removeNamespace a.2)
      then some (o.attrPrefix ++ (if startsWithXmlns a.2 then a.2 else removeNamespace a.2)) else none) = some r := h
  by_cases hc : (identLookup im.attr a.2).getD a.2 ≠ o.attrPrefix ++ (if startsWithXmlns a.2 then a.2 else removeNamespace a.2)
  · rw [if_pos hc] at h'; exact (Option.some.inj h').symm
  · rw [if_neg hc] at h'; cases h'

theorem childField_rename_eq (hints : Name → Option Nat) (names' : List (List Name × Name)) (im : IdentMap)
    (path trace : List Name) (c : Nec × Elem) (r : Name)
    (h : (childField hints names' im path trace c).rename = some r) : r = removeNamespace c.2.name := by
  have h' : (if (identLookup im.child c.2.name).getD c.2.name ≠ removeNamespace c.2.name
      then some (removeNamespace c.2.name) else none) = some r := h
  by_cases hc : (identLookup im.child c.2.name).getD c.2.name ≠ removeNamespace c.2.name
  · rw [if_pos hc] at h'; exact (Option.some.inj h').symm
  · rw [if_neg hc] at h'; cases h'

/-- the rendered *text* is a sequence of struct items in the renderer's format: reading it back with the reader
the correspondence check uses on the implementation's output gives exactly the rendered structs (so the
statements above, which are about the AST, are statements about the text) -/
theorem C04_text_reads_back (o : Options) (t : Elem)
    (ho : NoNL o.derive ∧ NoNL o.attrPrefix ∧ NoNL o.textIdent)
    (hen : ∀ en ∈ walk o.sort [] [] t, nameOK en.elem.name = true ∧ (∀ a ∈ en.elem.attrs, nameOK a.2 = true) ∧
      (∀ c ∈ en.elem.children, nameOK c.2.name = true) ∧ (names en.elem.attrs).Nodup ∧ (childNames en.elem.children).Nodup) :
    readProgram (toSerdeStruct o t) = some ((renderAST o t).map StructDef.plain) := by
  apply readProgram_printAST
  intro s hs
  obtain ⟨en, henw, hse⟩ := mem_renderWith hs
  obtain ⟨h1, h2, h3, h4, h5⟩ := hen en henw
  have hlegal := C04_fields_legal o (hintOf (fillNames [] t)) (structNames (hintOf (fillNames [] t)) t) en (nameOK_letterFirst h1) (fun a ha => nameOK_letterFirst (h2 a ha))
    (fun c hc => nameOK_letterFirst (h3 c hc)) h4 h5
  have nonl_of_alnum : ∀ n : Name, n.all isAlnum = true → NoNL n ∧ PlainBase n := by
    intro n hn
    have hh := List.all_eq_true.mp hn
    refine ⟨fun hm => (alnum_not_special (hh _ hm)).2.1 rfl, fun hm => (alnum_not_special (hh _ hm)).2.2.1 rfl,
      fun hm => (alnum_not_special (hh _ hm)).2.2.2 rfl⟩
  have hstring : NoNL stringTy ∧ PlainBase stringTy := nonl_of_alnum _ (by decide)
  refine ⟨?_, (nonl_of_alnum _ (C04_struct_name_alnum o t s hs)).1, ?_⟩
  · intro d hd
    rw [hse] at hd
    simp only [structOf] at hd
    split at hd
    · cases hd
    · simp only [Option.some.injEq] at hd; subst hd; exact ho.1
  · intro f hf
    have hbase : NoNL f.base ∧ PlainBase f.base := by
      rcases C04_types_resolve o t s hs f hf with hb | ⟨s', hs', hb⟩
      · rw [hb]; exact hstring
      · rw [← hb]; exact nonl_of_alnum _ (C04_struct_name_alnum o t s' hs')
    have hident := legalIdent_chars (hlegal f (by rw [← hse]; exact hf))
    refine ⟨?_, fun hm => (hident _ hm).1 rfl, fun hm => (hident _ hm).2 rfl, hbase.2, hbase.1⟩
    -- renames are built from the option strings and (parts of) XML names
    intro r hr
    rw [hse] at hf
    simp only [structOf, List.mem_append, List.mem_map] at hf
    rcases hf with (⟨a, hsa, rfl⟩ | hf) | ⟨c, hsc, rfl⟩
    · have hr' := attrField_rename_eq o _ a r hr
      subst hr'
      have ham : a ∈ en.elem.attrs := by
        unfold sortedAttrs at hsa
        cases hso : o.sort <;> rw [hso] at hsa
        · exact hsa
        · exact mem_sortOn.mp hsa
      have := attrLocal_nonl' (nameOK_nonl (h2 a ham))
      intro hm
      simp only [List.mem_append] at hm
      rcases hm with hm | hm
      · exact ho.2.1 hm
      · exact this hm
    · split at hf
      · simp only [List.mem_singleton] at hf; subst hf
        have : (textField o (identMap en.elem)).rename = some o.textIdent := rfl
        rw [this] at hr
        rw [← Option.some.inj hr]; exact ho.2.2
      · cases hf
    · have hr' := childField_rename_eq _ _ _ _ _ c r hr
      subst hr'
      have hcm : c ∈ en.elem.children := mem_sortOn.mp hsc
      intro hm
      exact nameOK_nonl (h3 c hcm) (removeNamespace_sub _ _ hm)

/-- the suffix loops of `create_unused_name` and of `compute_struct_names` terminate after at most
`used.length` increments and return a name that is not in use -/
theorem C04_while_terminates (used : List Name) (base : Name) (h : used.contains base = true) :
    (∃ i, i < used.length + 1 ∧ firstFree used base (fun i => base ++ dec i) = base ++ dec (i + 1) ∧ base ++ dec (i + 1) ∉ used) ∧
    (∃ i, i < used.length + 1 ∧ firstFree used base (fun i => base ++ ['_'] ++ dec i) = base ++ ['_'] ++ dec (i + 1) ∧
      base ++ ['_'] ++ dec (i + 1) ∉ used) := by
  obtain ⟨i, h1, h2, h3, -⟩ := firstFree_terminates used base (fun i => base ++ dec i) (append_dec_injective base) h
  obtain ⟨j, g1, g2, g3, -⟩ := firstFree_terminates used base (fun i => base ++ ['_'] ++ dec i) (underscore_dec_injective base) h
  exact ⟨⟨i, h1, h2, h3⟩, ⟨j, g1, g2, g3⟩⟩

/-- the pinned tree (before fix F4): names were the bare expansion — `Self` for `<self a="1"/>`, `String` for
`<string …/>`, and siblings `Foo` / `foo` shared one struct name -/
theorem C04_prefix_negative :
    expandName (hintOf (fillNames [] (Elem.new (cl!"self") [cl!"a"]))) [pascal (cl!"self")] (Elem.new (cl!"self") [cl!"a"]) = cl!"Self" ∧
    pascal (cl!"string") = cl!"String" ∧ pascal (cl!"Foo") = pascal (cl!"foo") := by decide

/-- non-vacuity: the D4 witnesses after the fix -/
example : ((renderAST Options.quickXmlDe
    (.mk (cl!"r") false true 1 [] [(.man, Elem.new (cl!"Foo") [cl!"a"]), (.man, Elem.new (cl!"foo") [cl!"a"])] none)).map (·.name))
    = [cl!"R", cl!"RFoo", cl!"RFoo1"] := by decide +kernel

/-- each non-root struct is the type of exactly one field of the output -/
theorem C04_used_once (o : Options) (t : Elem) (ht : t.Inv = true) :
    ∀ s ∈ ((renderAST o t).map StructDef.plain).tail, usesOf ((renderAST o t).map StructDef.plain) s.name = 1 :=
  used_once o t ht

/-- per-entry side conditions from one condition on the tree -/
theorem entry_conditions (o : Options) (t : Elem) (ht : t.Inv = true) (hok : TreeOK nameOK t) :
    ∀ en ∈ walk o.sort [] [] t, nameOK en.elem.name = true ∧ (∀ a ∈ en.elem.attrs, nameOK a.2 = true) ∧
      (∀ c ∈ en.elem.children, nameOK c.2.name = true) ∧ (names en.elem.attrs).Nodup ∧ (childNames en.elem.children).Nodup ∧
      ∀ x ∈ en.path, nameOK x = true := by
  intro en hen
  obtain ⟨htree, hpath⟩ := treeOK_walk nameOK o.sort t hok [] [] en (by simp) hen
  refine ⟨htree.name, ?_, ?_, htree.nodup, Inv_nodup (walk_inv o.sort t ht [] [] en hen), hpath⟩
  · intro a ha; exact htree.attrs a.2 (by simp only [names, List.mem_map]; exact ⟨a, ha, rfl⟩)
  · intro c hc; exact (htree.kids c hc).name

/-- **C04 in one statement, for trees**: if every name of the tree is in C04's domain (`nameOK`), attribute
names are distinct per element and child names are distinct per parent, the rendered program is `WellFormed`:
unique legal struct names that do not shadow `String`/`Option`/`Vec`, unique legal field identifiers, field types
that resolve, every non-root struct used exactly once. -/
theorem C04_wellformed (o : Options) (t : Elem) (ht : t.Inv = true) (hok : TreeOK nameOK t) :
    WellFormed ((renderAST o t).map StructDef.plain) := by
  have hent := entry_conditions o t ht hok
  refine ⟨?_, ?_, ?_, ?_, C04_used_once o t ht⟩
  · have := C04_structs_unique o t ht
    simpa [List.map_map, Function.comp_def, StructDef.plain] using this
  · intro s hs
    rw [List.mem_map] at hs
    obtain ⟨s', hs', rfl⟩ := hs
    exact C04_structs_legal o t ht (fun en hen x hx => nameOK_letterFirst ((hent en hen).2.2.2.2.2 x hx)) s' hs'
  · intro s hs
    rw [List.mem_map] at hs
    obtain ⟨s', hs', rfl⟩ := hs
    obtain ⟨en, hen, rfl⟩ := mem_renderWith hs'
    obtain ⟨h1, h2, h3, h4, h5, _⟩ := hent en hen
    constructor
    · have := C04_fields_unique o (hintOf (fillNames [] t)) (structNames (hintOf (fillNames [] t)) t) en h4 h5
      simpa [StructDef.plain, List.map_map, Function.comp_def, Field.plain] using this
    · intro f hf
      simp only [StructDef.plain, List.mem_map] at hf
      obtain ⟨f', hf', rfl⟩ := hf
      exact C04_fields_legal o _ _ en (nameOK_letterFirst h1) (fun a ha => nameOK_letterFirst (h2 a ha))
        (fun c hc => nameOK_letterFirst (h3 c hc)) h4 h5 f' hf'
  · intro s hs f hf
    rw [List.mem_map] at hs
    obtain ⟨s', hs', rfl⟩ := hs
    simp only [StructDef.plain, List.mem_map] at hf
    obtain ⟨f', hf', rfl⟩ := hf
    rcases C04_types_resolve o t s' hs' f' hf' with h | ⟨s'', hs'', hn⟩
    · exact Or.inl h
    · right
      simp only [List.map_map, List.mem_map, Function.comp]
      exact ⟨s'', hs'', hn⟩

/-- **C04 for histories**: for every history of well-formed documents with a common root whose names are all in
C04's domain, the text rendered from the parsed tree reads back as a `WellFormed` program. -/
theorem C04_history (o : Options) (ho : NoNL o.derive ∧ NoNL o.attrPrefix ∧ NoNL o.textIdent)
    (H : List Doc) (h : historyOk H) (hn : ∀ d ∈ H, d.root.allNames nameOK = true) :
    ∃ t p, parseHistory (H.map Doc.events) = .ok t ∧ readProgram (toSerdeStruct o t) = some p ∧ WellFormed p := by
  obtain ⟨t, ht, _, htree⟩ := parse_treeOK nameOK H h hn
  have hinv := C11_parsed_inv _ t ht
  refine ⟨t, (renderAST o t).map StructDef.plain, ht, ?_, C04_wellformed o t hinv htree⟩
  apply C04_text_reads_back o t ho
  intro en hen
  obtain ⟨h1, h2, h3, h4, h5, _⟩ := entry_conditions o t hinv htree en hen
  exact ⟨h1, h2, h3, h4, h5⟩

end Xsg
