import XsgModel.Proofs.History
import XsgModel.Proofs.SpecOf
import XsgModel.Proofs.StructCount
/-!
# C03 — Optional / Vec / text inference is exact, not merely safe

`C03_exact`: for every history of well-formed documents with a common root name — any number of documents,
any tree shape and depth, any placement of text / CDATA / comments / PIs, `<x/>` or `<x></x>` — parsing
the first document with `into_struct` and extending with the others succeeds, and the resulting element
tree `Matches` the list of root elements: the relational specification whose clauses are exactly the
property's iff-statements (see `Proofs/Matches.lean`).  The clauses are re-exported one by one below.

Proof: the stack machine on a document's events equals the tree-level semantics `absorbNode`
(`Proofs/Refine.lean`, induction on the document tree), `absorbNode` rebuilds the entry of one child name
according to `Post` (`Proofs/AbsorbSpec.lean`, mutual structural induction), and demotion by counter
snapshot realises "present in every occurrence" (`Proofs/Central.lean`: `classify`, `merge_matches`).
-/
namespace Xsg

/-- the central theorem -/
theorem C03_exact (d : Doc) (ds : List Doc) (h : historyOk (d :: ds)) :
    ∃ t, parseHistory ((d :: ds).map Doc.events) = .ok t ∧ Matches t ((d :: ds).map (·.root)) := by
  obtain ⟨-, hok, hnames⟩ := h
  obtain ⟨R, hR, hm, hn⟩ := intoStruct_doc d (hok d (by simp))
  simp only [parseHistory, List.map_cons, hR]
  obtain ⟨R', hR', hm', -⟩ := extend_fold ds R [d.root] (by simp) hm
    (fun d' hd' => ⟨hok d' (by simp [hd']), by rw [hn]; exact hnames d' (by simp [hd']) d (by simp)⟩)
  exact ⟨R', hR', by simpa using hm'⟩

/-- the same statement through the *executable* specification: the schema of the parsed tree (counters
forgotten, children in `position` order) is literally `specOfDocs` of the document roots — the function the
correspondence check evaluates on the DOM of the generated documents ("presence in all occurrences / more than
once in some occurrence / any text", computed without counters, snapshots or `known` lists), field order included -/
theorem C03_spec_exact (H : List Doc) (h : historyOk H) :
    ∃ t, parseHistory (H.map Doc.events) = .ok t ∧ t.abs = specOfDocs (H.map (·.root)) :=
  parse_abs_eq_spec H h

/-- `Matches` and `specOf` agree at every position and every depth -/
theorem C03_matches_spec {t : Elem} {occs : List Node} (h : Matches t occs) (hne : occs ≠ []) (fuel : Nat)
    (hd : ∀ o ∈ occs, o.depth ≤ fuel) : t.abs = specOf fuel occs := abs_eq_specOf h fuel hne hd

/-- every position of the tree is exact for the occurrences of that position (nesting) -/
theorem C03_nested {t : Elem} {occs : List Node} (h : Matches t occs) (k : Name) (nec : Nec) (c : Elem)
    (hc : getChild t.children k = some (nec, c)) : Matches c (occs.flatMap (Node.named k)) := h.hsub k nec c hc

/-- a child field is non-Option iff the child is present in every occurrence of its parent -/
theorem C03_option_iff {t : Elem} {occs : List Node} (h : Matches t occs) (k : Name) (nec : Nec) (c : Elem)
    (hc : getChild t.children k = some (nec, c)) : nec = .man ↔ ∀ o ∈ occs, o.named k ≠ [] := h.hman k nec c hc

/-- an attribute field is non-Option iff the attribute is present in every occurrence -/
theorem C03_attr_option_iff {t : Elem} {occs : List Node} (h : Matches t occs) (a : Name) :
    (Nec.man, a) ∈ t.attrs ↔ ∀ o ∈ occs, a ∈ o.attrs := h.attr_man a

/-- a child field is a Vec iff some parent occurrence contains that child more than once -/
theorem C03_vec_iff {t : Elem} {occs : List Node} (h : Matches t occs) (k : Name) (nec : Nec) (c : Elem)
    (hc : getChild t.children k = some (nec, c)) : c.standalone = false ↔ ∃ o ∈ occs, 2 ≤ (o.named k).length :=
  h.hmulti k nec c hc

/-- the text flag is set iff some occurrence contains a text or CDATA node -/
theorem C03_text_iff {t : Elem} {occs : List Node} (h : Matches t occs) : t.text = true ↔ ∃ o ∈ occs, o.hasText = true := by
  rw [h.text]; simp

/-- exactly one field per distinct attribute name and per distinct child name seen at that position, and nothing else -/
theorem C03_one_field_per_name {t : Elem} {occs : List Node} (h : Matches t occs) :
    (names t.attrs).Nodup ∧ (∀ a, a ∈ names t.attrs ↔ ∃ o ∈ occs, a ∈ o.attrs) ∧
    (childNames t.children).Nodup ∧ (∀ k, k ∈ childNames t.children ↔ ∃ o ∈ occs, o.named k ≠ []) := by
  refine ⟨by rw [h.attrs]; exact nodup_dedupNames _, ?_, h.nodup, ?_⟩
  · intro a; rw [h.attrs, mem_dedupNames]; simp [List.mem_flatMap]
  · intro k
    have := h.hnone k
    rw [getChild_none_iff] at this
    constructor
    · intro hk
      apply Classical.byContradiction
      intro hne
      apply (this.mpr ?_) hk
      intro o ho
      apply Classical.byContradiction
      intro hn
      exact hne ⟨o, ho, hn⟩
    · rintro ⟨o, ho, hn⟩
      apply Classical.byContradiction
      intro hk
      exact hn (this.mp hk o ho)

/-- a childless, attribute-less position is typed `String` iff it has text: `textOnly` is the renderer's test -/
theorem C03_string_iff {t : Elem} {occs : List Node} (h : Matches t occs) :
    t.textOnly = true ↔ (∃ o ∈ occs, o.hasText = true) ∧ (∀ o ∈ occs, o.attrs = []) ∧ ∀ o ∈ occs, ∀ k, o.named k = [] := by
  obtain ⟨hn1, ha, hn2, hk⟩ := C03_one_field_per_name h
  simp only [Elem.textOnly, Bool.and_eq_true, List.isEmpty_iff]
  rw [C03_text_iff h]
  constructor
  · rintro ⟨⟨ht, hat⟩, hch⟩
    refine ⟨ht, ?_, ?_⟩
    · intro o ho
      cases hoa : o.attrs with
      | nil => rfl
      | cons a as =>
        have : a ∈ names t.attrs := (ha a).mpr ⟨o, ho, by simp [hoa]⟩
        rw [hat] at this; cases this
    · intro o ho k
      cases hon : o.named k with
      | nil => rfl
      | cons x xs =>
        have : k ∈ childNames t.children := (hk k).mpr ⟨o, ho, by simp [hon]⟩
        rw [hch] at this; cases this
  · rintro ⟨ht, hat, hch⟩
    refine ⟨⟨ht, ?_⟩, ?_⟩
    · cases hta : t.attrs with
      | nil => rfl
      | cons a as =>
        have : a.2 ∈ names t.attrs := by simp [names, hta]
        obtain ⟨o, ho, hm⟩ := (ha a.2).mp this
        rw [hat o ho] at hm; cases hm
    · cases htc : t.children with
      | nil => rfl
      | cons c cs =>
        have : c.2.name ∈ childNames t.children := by simp [childNames, htc]
        obtain ⟨o, ho, hm⟩ := (hk c.2.name).mp this
        exact absurd (hch o ho c.2.name) hm

/-- the order of attributes is the order of first appearance over the occurrences (used by C09) -/
theorem C03_attr_order {t : Elem} {occs : List Node} (h : Matches t occs) :
    names t.attrs = dedupNames (occs.flatMap Node.attrs) := h.attrs

/-- non-vacuity: a three-document history (optional child re-seen in the third document under a parent that
was self-closing in the second) satisfies the hypotheses -/
def exampleHistory : List Doc :=
  let el (n : Name) (as : List Name) (sc : Bool) (items : Items) : Node := .mk n as sc items
  [ ⟨.nil, el (cl!"r") [] false (.elem (el (cl!"p") [cl!"x"] false (.elem (el (cl!"a") [] true .nil) (.elem (el (cl!"b") [] true .nil) .nil))) .nil), .nil⟩,
    ⟨.other .nil, el (cl!"r") [] false (.elem (el (cl!"p") [] true .nil) .nil), .text false .nil⟩,
    ⟨.nil, el (cl!"r") [] false (.elem (el (cl!"p") [cl!"y"] false (.elem (el (cl!"a") [] true .nil) (.elem (el (cl!"a") [] true .nil) (.text true .nil)))) .nil), .nil⟩ ]

example : historyOk exampleHistory := by
  refine ⟨by simp [exampleHistory], ?_, ?_⟩
  · intro d hd; simp only [exampleHistory, List.mem_cons, List.mem_nil_iff, or_false] at hd
    rcases hd with rfl | rfl | rfl <;> decide
  · intro d hd d' hd'; simp only [exampleHistory, List.mem_cons, List.mem_nil_iff, or_false] at hd hd'
    rcases hd with rfl | rfl | rfl <;> rcases hd' with rfl | rfl | rfl <;> rfl

/-- "one struct per non-`String` position, and nothing else": the number of rendered structs is the number of
non-`String` positions of the schema, which for a parsed history is the schema `specOfDocs` of the documents -/
theorem C03_struct_count (o : Options) (t : Elem) : (renderAST o t).length = t.abs.structCount := by
  simp only [renderAST, renderWith, List.length_map]
  exact walk_length o.sort t [] []

theorem C03_struct_count_history (o : Options) (H : List Doc) (h : historyOk H) :
    ∃ t, parseHistory (H.map Doc.events) = .ok t ∧ (renderAST o t).length = (specOfDocs (H.map (·.root))).structCount := by
  obtain ⟨t, ht, habs⟩ := C03_spec_exact H h
  exact ⟨t, ht, by rw [C03_struct_count, habs]⟩

end Xsg
