import XsgModel.Props.C06
import XsgModel.Props.C03
import XsgModel.Model.Render
import XsgModel.Model.Checks
import XsgModel.Proofs.AdmitsSpec
/-!
# C01 — generated structs admit every document they were inferred from

`Admits e o`: the element tree `e` (and hence the struct rendered for it, see `C01_fields`) describes the
document element `o`: every attribute and every child of `o` has a field, every non-Option field is
present, every non-Vec child occurs at most once, character data appears only where there is a text field,
and recursively for each child.  `C01_sound`: after parsing the first document and extending with the
others, the tree admits each of the documents.
-/
namespace Xsg

inductive Admits : Elem → Node → Prop
  | intro (e : Elem) (o : Node)
      (hattr_field : ∀ a ∈ o.attrs, a ∈ names e.attrs)
      (hattr_req : ∀ a, (Nec.man, a) ∈ e.attrs → a ∈ o.attrs)
      (htext : o.hasText = true → e.text = true)
      (hkid_field : ∀ k, o.named k ≠ [] → getChild e.children k ≠ none)
      (hkid_req : ∀ k c, getChild e.children k = some (Nec.man, c) → o.named k ≠ [])
      (hkid_single : ∀ k nec c, getChild e.children k = some (nec, c) → c.standalone = true → (o.named k).length ≤ 1)
      (hsub : ∀ k nec c, getChild e.children k = some (nec, c) → ∀ n ∈ o.named k, Admits c n)
      : Admits e o

theorem matches_admits {e : Elem} {occs : List Node} (h : Matches e occs) : ∀ o ∈ occs, Admits e o := by
  induction h with
  | intro e occs htext hattrs hattr_man hnd hnone hman hmulti hlen hpos hsub ih =>
    intro o ho
    refine Admits.intro _ _ ?_ ?_ ?_ ?_ ?_ ?_ ?_
    · intro a ha
      rw [hattrs, mem_dedupNames, List.mem_flatMap]; exact ⟨o, ho, ha⟩
    · intro a ha; exact (hattr_man a).mp ha o ho
    · intro ht; rw [htext, List.any_eq_true]; exact ⟨o, ho, ht⟩
    · intro k hk hn; exact hk ((hnone k).mp hn o ho)
    · intro k c hc; exact (hman k _ c hc).mp rfl o ho
    · intro k nec c hc hs
      have := hmulti k nec c hc
      apply Nat.le_of_lt_succ
      apply Nat.lt_of_not_le
      intro h2
      have : c.standalone = false := this.mpr ⟨o, ho, h2⟩
      rw [this] at hs; cases hs
    · intro k nec c hc n hn
      exact ih k nec c hc n (List.mem_flatMap.mpr ⟨o, ho, hn⟩)

/-- the soundness theorem: for every history of well-formed documents with a common root name, the tree
obtained by `into_struct` + `extend_struct` admits each of the documents -/
theorem C01_sound (H : List Doc) (h : historyOk H) :
    ∃ t, parseHistory (H.map Doc.events) = .ok t ∧ ∀ d ∈ H, Admits t d.root := by
  obtain ⟨t, ht, hm⟩ := parse_exact H h
  exact ⟨t, ht, fun d hd => matches_admits hm d.root (List.mem_map_of_mem hd)⟩

/-- the same for inputs that repeat their root element: the tree admits every top-level element of every input -/
theorem C01_sound_fragments (F : List Items) (k : Name) (h : fragmentsOk F k) :
    ∃ t, parseHistory (F.map fragEvents) = .ok t ∧ ∀ is ∈ F, ∀ o ∈ is.named k, Admits t o := by
  obtain ⟨t, ht, hm, -⟩ := parse_fragments F k h
  exact ⟨t, ht, fun is his o ho => matches_admits hm o (List.mem_flatMap.mpr ⟨is, his, ho⟩)⟩

/-- and for a sub-structure of a parsed structure extended with further documents: it admits every occurrence
of that element in the parsed documents and every new document -/
theorem C01_sound_substructure (H : List Doc) (h : historyOk H) (p : List Name) (ds : List Doc) :
    ∃ t, parseHistory (H.map Doc.events) = .ok t ∧
      ∀ s, elemAt p t = some s → (∀ d ∈ ds, d.ok = true ∧ d.root.name = s.name) →
        ∃ r, (ds.map Doc.events).foldl extendStep (Except.ok s) = .ok r ∧
          (∀ o ∈ occsAt p (H.map (·.root)), Admits r o) ∧ ∀ d ∈ ds, Admits r d.root := by
  obtain ⟨t, ht, hsub⟩ := C06_substructure H h p ds
  refine ⟨t, ht, ?_⟩
  intro s hs hds
  obtain ⟨r, hr, hm, -⟩ := hsub s hs hds
  exact ⟨r, hr, fun o ho => matches_admits hm o (List.mem_append_left _ ho),
    fun d hd => matches_admits hm d.root (List.mem_append_right _ (List.mem_map_of_mem hd))⟩

/-- under the property's side condition (no two attribute names of one position differ only by namespace
prefix) the serde names attributes are bound to are pairwise distinct, so "has a field" means "has a field
bound to its XML name" -/
theorem C01_attr_bindings_distinct {t : Elem} {occs : List Node} (h : Matches t occs)
    (hc : ((dedupNames (occs.flatMap Node.attrs)).map attrLocal).Nodup) : ((names t.attrs).map attrLocal).Nodup := by
  rw [h.attrs]; exact hc

/-- the same for children: distinct child names of one position have distinct local names -/
theorem C01_child_bindings_distinct {t : Elem} {occs : List Node} (h : Matches t occs)
    (hc : ∀ o ∈ occs, ∀ o' ∈ occs, ∀ k k', o.named k ≠ [] → o'.named k' ≠ [] → removeNamespace k = removeNamespace k' → k = k') :
    ∀ k k', getChild t.children k ≠ none → getChild t.children k' ≠ none → removeNamespace k = removeNamespace k' → k = k' := by
  intro k k' hk hk' e
  have ex : ∀ x, getChild t.children x ≠ none → ∃ o ∈ occs, o.named x ≠ [] := by
    intro x hx
    apply Classical.byContradiction
    intro hne
    apply hx
    rw [h.hnone]
    intro o ho
    apply Classical.byContradiction
    intro hn
    exact hne ⟨o, ho, hn⟩
  obtain ⟨o, ho, hn⟩ := ex k hk
  obtain ⟨o', ho', hn'⟩ := ex k' hk'
  exact hc o ho o' ho' k k' hn hn' e

/-- the struct rendered for an element has exactly one field per attribute, one text field iff the text flag
is set, and one field per child — with `Option` iff the tag is optional, `Vec` iff the child is not
standalone, bound to prefix + local name / the local name / the text identifier -/
theorem C01_fields (o : Options) (hints : Name → Option Nat) (names' : List (List Name × Name)) (en : Entry) :
    (structOf o hints names' en).fields =
      (sortedAttrs o en.elem).map (attrField o (identMap en.elem))
      ++ (if en.elem.text then [textField o (identMap en.elem)] else [])
      ++ (sortedChildren o en.elem).map (childField hints names' (identMap en.elem) en.path en.trace) := rfl

theorem getD_rename (x y : Name) : (if x ≠ y then some y else none).getD x = y := by
  by_cases h : x = y <;> simp [h]

theorem C01_attr_field (o : Options) (im : IdentMap) (a : Nec × Name) :
    (attrField o im a).opt = decide (a.1 = .opt) ∧ (attrField o im a).vec = false ∧ (attrField o im a).base = stringTy ∧
    ((attrField o im a).rename.getD (attrField o im a).ident) = o.attrPrefix ++ attrLocal a.2 := by
  refine ⟨rfl, rfl, rfl, ?_⟩
  simp only [attrField, attrLocal]
  exact getD_rename _ _

theorem C01_child_field (hints : Name → Option Nat) (names' : List (List Name × Name)) (im : IdentMap)
    (path trace : List Name) (c : Nec × Elem) :
    let f := childField hints names' im path trace c
    f.opt = decide (c.1 = .opt) ∧ f.vec = !c.2.standalone ∧ (f.rename.getD f.ident) = removeNamespace c.2.name ∧
    (f.base = stringTy ↔ c.2.textOnly = true ∨ structNameOf hints names' (path ++ [c.2.name]) (trace ++ [pascal c.2.name]) c.2 = stringTy) := by
  refine ⟨rfl, rfl, ?_, ?_⟩
  · simp only [childField]; exact getD_rename _ _
  · simp only [childField]
    by_cases h : c.2.textOnly = true <;> simp [h]

/-- non-vacuity: the three-document example history of C03 satisfies the hypothesis -/
example : ∃ t, parseHistory (exampleHistory.map Doc.events) = .ok t ∧ ∀ d ∈ exampleHistory, Admits t d.root := by
  apply C01_sound
  refine ⟨by simp [exampleHistory], ?_, ?_⟩
  · intro d hd; simp only [exampleHistory, List.mem_cons, List.mem_nil_iff, or_false] at hd
    rcases hd with rfl | rfl | rfl <;> decide
  · intro d hd d' hd'; simp only [exampleHistory, List.mem_cons, List.mem_nil_iff, or_false] at hd hd'
    rcases hd with rfl | rfl | rfl <;> rcases hd' with rfl | rfl | rfl <;> rfl

/-- the Boolean function the check evaluates on the schema read back from the implementation's text decides
exactly the declarative relation `SAdmits` (every attribute and child has a field bound to its local name, every
non-Option field occurs, every non-Vec child at most once, character data only beside a text field, recursively):
for every schema and every document element -/
theorem C01_admits_decides (s : Schema) (o : Node) : admits s o = true ↔ SAdmits s o := admits_iff s o

end Xsg
