import XsgModel.Proofs.Sort
import XsgModel.Proofs.FirstAppearance
import XsgModel.Props.C03
/-!
# C09 — field order follows the document, or the XML name when sorting is requested

Renderer level (all trees, all options): every struct lists attribute fields, then the text field, then
child fields; unsorted, attributes keep the stored order and children are ordered by `position`; sorted,
both groups are ordered by XML name (code-point order); switching the option permutes the fields of each
group and changes nothing else; struct names do not depend on the option.
Parser level: the stored attribute order is the order of first appearance over all occurrences
(`C09_attr_first_appearance`, from the central theorem); a new child gets the next free position and a re-seen
child keeps its position (`C09_position_*`).
-/
namespace Xsg

/-- attributes, then text, then children -/
theorem C09_groups (o : Options) (H : Name → Option Nat) (names' : List (List Name × Name)) (en : Entry) :
    ∃ as ts cs, (structOf o H names' en).fields = as ++ ts ++ cs ∧
      (∀ f ∈ as, f.kind = .attr) ∧ (∀ f ∈ ts, f.kind = .text) ∧ (∀ f ∈ cs, f.kind = .child) ∧
      as.map (·.xml) = (sortedAttrs o en.elem).map (·.2) ∧
      ts.length = (if en.elem.text then 1 else 0) ∧
      cs.map (·.xml) = (sortedChildren o en.elem).map (·.2.name) := by
  refine ⟨_, _, _, rfl, ?_, ?_, ?_, ?_, ?_, ?_⟩
  · intro f hf; simp only [List.mem_map] at hf; obtain ⟨a, _, rfl⟩ := hf; rfl
  · intro f hf; split at hf
    · simp only [List.mem_singleton] at hf; subst hf; rfl
    · cases hf
  · intro f hf; simp only [List.mem_map] at hf; obtain ⟨a, _, rfl⟩ := hf; rfl
  · simp [List.map_map, Function.comp_def, attrField]
  · split <;> rfl
  · simp [List.map_map, Function.comp_def, childField]

/-- unsorted: attributes in stored order (= first appearance, see below) -/
theorem C09_unsorted_attrs (o : Options) (e : Elem) (h : o.sort = .unsorted) : sortedAttrs o e = e.attrs := by
  simp [sortedAttrs, h]

/-- unsorted: children by position (`None` first, then increasing) -/
theorem C09_unsorted_children (o : Options) (e : Elem) (h : o.sort = .unsorted) :
    (sortedChildren o e).Pairwise (fun a b => (SortKey.pos a.2.position).le (SortKey.pos b.2.position) = true) := by
  have := sorted_sortOn (fun c : Nec × Elem => sortKeyOf o.sort c.2) e.children
  simpa [sortedChildren, h, sortKeyOf] using this

/-- sorted: attributes by XML name -/
theorem C09_sorted_attrs (o : Options) (e : Elem) (h : o.sort = .xmlName) :
    (sortedAttrs o e).Pairwise (fun a b => nameLe a.2 b.2 = true) := by
  have := sorted_sortOn (fun a : Nec × Name => SortKey.name a.2) e.attrs
  simpa [sortedAttrs, h, SortKey.le] using this

/-- sorted: children by XML name -/
theorem C09_sorted_children (o : Options) (e : Elem) (h : o.sort = .xmlName) :
    (sortedChildren o e).Pairwise (fun a b => nameLe a.2.name b.2.name = true) := by
  have := sorted_sortOn (fun c : Nec × Elem => sortKeyOf o.sort c.2) e.children
  simpa [sortedChildren, h, sortKeyOf, SortKey.le] using this

/-- both orders list exactly the stored attributes / children (nothing dropped, nothing added) -/
theorem C09_perm (o : Options) (e : Elem) : (sortedAttrs o e).Perm e.attrs ∧ (sortedChildren o e).Perm e.children := by
  refine ⟨?_, perm_sortOn _ _⟩
  unfold sortedAttrs
  cases o.sort
  · exact List.Perm.refl _
  · exact perm_sortOn _ _

/-- switching the option changes nothing but these orders: for the same element the fields under the two
options are permutations of each other (same identifiers, renames and types), and name, derive and path of
the struct are equal -/
theorem C09_only_order (o : Options) (s₁ s₂ : SortBy) (H : Name → Option Nat) (names' : List (List Name × Name)) (en : Entry) :
    let a := structOf { o with sort := s₁ } H names' en
    let b := structOf { o with sort := s₂ } H names' en
    a.name = b.name ∧ a.derive = b.derive ∧ a.path = b.path ∧ a.fields.Perm b.fields := by
  refine ⟨rfl, rfl, rfl, ?_⟩
  simp only [structOf]
  have h1 := (C09_perm { o with sort := s₁ } en.elem)
  have h2 := (C09_perm { o with sort := s₂ } en.elem)
  have ha : (sortedAttrs { o with sort := s₁ } en.elem).Perm (sortedAttrs { o with sort := s₂ } en.elem) := h1.1.trans h2.1.symm
  have hc : (sortedChildren { o with sort := s₁ } en.elem).Perm (sortedChildren { o with sort := s₂ } en.elem) := h1.2.trans h2.2.symm
  exact ((ha.map _).append (List.Perm.refl _)).append (hc.map _)

/-- struct names are assigned before and independently of `Options::sort` -/
theorem C09_names_independent (H : Name → Option Nat) (root : Elem) (o₁ o₂ : Options) :
    (fun (_ : Options) => structNames H root) o₁ = (fun (_ : Options) => structNames H root) o₂ := rfl

/-- struct definitions follow a pre-order walk: the struct of an element, then the structs of its (sorted,
struct-typed) children, each with its whole subtree -/
theorem C09_preorder (s : SortBy) (path trace : List Name) (e : Elem) :
    walk s path trace e = ⟨path ++ [e.name], trace ++ [pascal e.name], e⟩ ::
      ((sortKeyed (walk.walkKids s (path ++ [e.name]) (trace ++ [pascal e.name]) e.children)).flatMap (·.2)) ∧
    (sortKeyed (walk.walkKids s (path ++ [e.name]) (trace ++ [pascal e.name]) e.children)).Pairwise (fun a b => a.1.le b.1 = true) := by
  refine ⟨?_, sorted_sortKeyed _⟩
  cases e; rfl

/-- parser level: the stored attribute order of every position is the order of first appearance over all its
occurrences in the supplied documents (first document first) -/
theorem C09_attr_first_appearance (d : Doc) (ds : List Doc) (h : historyOk (d :: ds)) :
    ∃ t, parseHistory ((d :: ds).map Doc.events) = .ok t ∧
      names t.attrs = dedupNames (((d :: ds).map (·.root)).flatMap Node.attrs) ∧
      ∀ k nec c, getChild t.children k = some (nec, c) →
        names c.attrs = dedupNames ((((d :: ds).map (·.root)).flatMap (Node.named k)).flatMap Node.attrs) := by
  obtain ⟨t, ht, hm⟩ := C03_exact d ds h
  exact ⟨t, ht, hm.attrs, fun k nec c hc => (hm.hsub k nec c hc).attrs⟩

/-- parser level, children: at every position of the tree the child named by the `i`-th entry of the
first-appearance order of its occurrences (`orderOf`: stream order over all documents, first document first)
is stored with `position = i` -/
theorem C09_child_positions {t : Elem} {occs : List Node} (h : Matches t occs) :
    ∀ i k, (orderOf occs)[i]? = some k → ∃ nec c, getChild t.children k = some (nec, c) ∧ c.position = some i := h.hpos

/-- hence, with the default unsorted option, the child fields of every struct are in order of first appearance -/
theorem C09_children_first_appearance {t : Elem} {occs : List Node} (h : Matches t occs) (o : Options) (ho : o.sort = .unsorted) :
    (sortedChildren o t).map (·.2.name) = orderOf occs :=
  sorted_children_names t (orderOf occs) h.nodup h.posInv o ho

/-- the whole statement for histories: after `into_struct` + `extend_struct`s the root (and by `C03_nested` every
nested position) lists attributes and children in order of first appearance in the supplied documents -/
theorem C09_first_appearance (d : Doc) (ds : List Doc) (h : historyOk (d :: ds)) (o : Options) (ho : o.sort = .unsorted) :
    ∃ t, parseHistory ((d :: ds).map Doc.events) = .ok t ∧
      (sortedAttrs o t).map (·.2) = dedupNames (((d :: ds).map (·.root)).flatMap Node.attrs) ∧
      (sortedChildren o t).map (·.2.name) = orderOf ((d :: ds).map (·.root)) ∧
      ∀ k nec c, getChild t.children k = some (nec, c) →
        (sortedAttrs o c).map (·.2) = dedupNames ((((d :: ds).map (·.root)).flatMap (Node.named k)).flatMap Node.attrs) ∧
        (sortedChildren o c).map (·.2.name) = orderOf (((d :: ds).map (·.root)).flatMap (Node.named k)) := by
  obtain ⟨t, ht, hm⟩ := C03_exact d ds h
  refine ⟨t, ht, ?_, C09_children_first_appearance hm o ho, ?_⟩
  · rw [C09_unsorted_attrs o t ho]; exact hm.attrs
  · intro k nec c hc
    have hsub := hm.hsub k nec c hc
    exact ⟨by rw [C09_unsorted_attrs o c ho]; exact hsub.attrs, C09_children_first_appearance hsub o ho⟩

/-- parser level: a child that is new under its parent gets the next free position (= number of children
seen so far); a child that is already stored keeps its position -/
theorem C09_position_new (cs : List (Nec × Elem)) (c : Elem) (h : getChild cs c.name = none) (hp : c.position = none) :
    ∃ c', getChild (addUniqueChild cs c) c.name = some (.man, c') ∧ c'.position = some cs.length := by
  refine ⟨_, getChild_addUniqueChild_self h, ?_⟩
  unfold withPosition; simp [hp]; cases c; rfl

theorem C09_position_kept (cs : List (Nec × Elem)) (c : Elem) (p : Nat) (h : getChild cs c.name = none) (hp : c.position = some p) :
    ∃ c', getChild (addUniqueChild cs c) c.name = some (.man, c') ∧ c'.position = some p := by
  refine ⟨_, getChild_addUniqueChild_self h, ?_⟩
  unfold withPosition; simp [hp]

/-- the pinned tree (before fix F1): two attributes first seen in a later occurrence were stored in reverse order -/
theorem C09_prefix_negative :
    names (mergeNecPinned [(Nec.man, cl!"x")] [(Nec.man, cl!"x"), (Nec.man, cl!"y"), (Nec.man, cl!"z")]) = [cl!"x", cl!"z", cl!"y"] := by
  decide

/-- non-vacuity: sorting really changes the order on some tree -/
example : (sortedAttrs { Options.quickXmlDe with sort := .xmlName } (Elem.new (cl!"r") [cl!"b", cl!"a"])).map (·.2) = [cl!"a", cl!"b"] ∧
    (sortedAttrs Options.quickXmlDe (Elem.new (cl!"r") [cl!"b", cl!"a"])).map (·.2) = [cl!"b", cl!"a"] := by decide

end Xsg
