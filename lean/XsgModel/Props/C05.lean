import XsgModel.Model.Render
import XsgModel.Model.Parser
/-!
# C05 — rendering is deterministic

The model is a function, so determinism is only meaningful if the model exposes the nondeterminism the
code has.  After fix F2 the only place the Rust code *iterates* a `HashMap` is `names.iter()` in
`compute_name_hints` (element.rs); `hintTable all order` is the table built when the iteration visits
the keys in the (arbitrary) order `order`.  The theorem shows the rendering does not depend on `order`.
(The correspondence check keeps an inventory of the HashMap/HashSet iteration sites of the source, so a
new site shows up as a broken correspondence.)
-/
namespace Xsg

theorem tableLookup_cons (p : Name × Nat) (tbl : List (Name × Nat)) (k : Name) :
    tableLookup (p :: tbl) k = (tableLookup tbl k).or (if p.1 = k then some p.2 else none) := by
  unfold tableLookup
  simp only [List.reverse_cons, List.find?_append, List.find?_cons, List.find?_nil]
  cases h : List.find? (fun p => decide (p.1 = k)) tbl.reverse with
  | some v => simp
  | none => by_cases e : p.1 = k <;> simp [e]

theorem hintTable_find (all : List (Name × List Name)) (order : List Name) (k : Name) :
    tableLookup (hintTable all order) k = if k ∈ order then hintOf all k else none := by
  induction order with
  | nil => simp [hintTable, tableLookup]
  | cons x order ih =>
    have hcons : hintTable all (x :: order) = (match hintOf all x with | some n => [(x, n)] | none => []) ++ hintTable all order := by
      simp only [hintTable, List.filterMap_cons]
      cases hintOf all x <;> simp
    rw [hcons]
    cases hx : hintOf all x with
    | none =>
      simp only [List.nil_append]
      rw [show hintTable all order = hintTable all order from rfl, ih]
      by_cases e : k = x
      · subst e; simp [hx]
      · simp [e]
    | some n =>
      simp only [List.cons_append, List.nil_append]
      rw [tableLookup_cons, ih]
      by_cases e : k = x
      · subst e
        by_cases hm : k ∈ order
        · simp [hm, hx]
        · simp [hm, hx]
      · have : x ≠ k := fun h => e h.symm
        simp [e, this]

/-- the hint lookup does not depend on the iteration order of the `HashMap`, as long as every key is visited -/
theorem C05_hints (all : List (Name × List Name)) (order : List Name)
    (hcov : ∀ k, (hintOf all k).isSome → k ∈ order) :
    tableLookup (hintTable all order) = hintOf all := by
  funext k
  rw [hintTable_find]
  split
  · rfl
  · rename_i h
    cases hk : hintOf all k with
    | none => rfl
    | some n => exact absurd (hcov k (by simp [hk])) h

/-- byte-identical output for any two iteration orders -/
theorem C05_perm_independent (o : Options) (t : Elem) (order₁ order₂ : List Name)
    (h₁ : ∀ k, (hintOf (fillNames [] t) k).isSome → k ∈ order₁)
    (h₂ : ∀ k, (hintOf (fillNames [] t) k).isSome → k ∈ order₂) :
    printAST (renderWith (tableLookup (hintTable (fillNames [] t) order₁)) o t)
      = printAST (renderWith (tableLookup (hintTable (fillNames [] t) order₂)) o t) := by
  rw [C05_hints _ _ h₁, C05_hints _ _ h₂]

/-- and that output is `to_serde_struct` of the model -/
theorem C05_render_eq (o : Options) (t : Elem) (order : List Name)
    (h : ∀ k, (hintOf (fillNames [] t) k).isSome → k ∈ order) :
    printAST (renderWith (tableLookup (hintTable (fillNames [] t) order)) o t) = toSerdeStruct o t := by
  rw [C05_hints _ _ h]; rfl

/-- any permutation of the keys is such an order -/
theorem C05_perm (all : List (Name × List Name)) (order₁ order₂ : List Name) (hp : order₁.Perm order₂)
    (h₁ : ∀ k, (hintOf all k).isSome → k ∈ order₁) : ∀ k, (hintOf all k).isSome → k ∈ order₂ :=
  fun k hk => hp.mem_iff.mp (h₁ k hk)

/-- parsing is a function of the event streams alone: the model of `into_struct` / `extend_struct` has no
other input (no hash order, no address, no clock) — stated as congruence for completeness -/
theorem C05_parse_function (h₁ h₂ : List (List Ev)) (e : h₁ = h₂) : parseHistory h₁ = parseHistory h₂ := by rw [e]

/-! ## the pinned tree (before fix F2) -/

/-- `tag_optional_children` before fix F2: the first loop walks the snapshot `HashMap` in the order `order` -/
def toOptionalPinned (order : List Name) (S : Snapshot) (C : Elem) : List Name :=
  (order.filter fun k => match getChild C.children k with
    | some c => slookup S k = some c.2.count
    | none => false)
  ++ (C.children.filterMap fun d => if d.1 = .man ∧ (slookup S d.2.name).isNone then some d.2.name else none)

def tagOptPinned (order : List Name) (S : Snapshot) (C : Elem) : Elem :=
  C.setChildren ((toOptionalPinned order S C).reverse.foldl setChildOptional C.children)

/-- the element `p` of `<r><p><Foo/><foo/></p><p></p></r>` when the second `</p>` is reached -/
def d2State : Elem :=
  .mk (cl!"p") false true 2 []
    [(.man, .mk (cl!"Foo") false true 1 [] [] (some 0)), (.man, .mk (cl!"foo") false true 1 [] [] (some 1))] (some 0)

def d2Snapshot : Snapshot := [(cl!"Foo", 1), (cl!"foo", 1)]

/-- two iteration orders of the two-entry snapshot gave two different renderings (which of `Foo`/`foo`
gets the field `foo_1`) -/
theorem C05_prefix_negative :
    toSerdeStruct Options.quickXmlDe (tagOptPinned [cl!"Foo", cl!"foo"] d2Snapshot d2State)
      ≠ toSerdeStruct Options.quickXmlDe (tagOptPinned [cl!"foo", cl!"Foo"] d2Snapshot d2State) := by
  decide

/-- non-vacuity: the repaired `tagOpt` has no order parameter and yields one of the two -/
example : toSerdeStruct Options.quickXmlDe (tagOpt d2Snapshot d2State)
    = toSerdeStruct Options.quickXmlDe (tagOptPinned [cl!"Foo", cl!"foo"] d2Snapshot d2State) := by decide +kernel

end Xsg
