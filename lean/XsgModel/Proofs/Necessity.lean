import XsgModel.Model.Necessity
/-! helper lemmas about `mergeNec` -/
namespace Xsg

set_option linter.unusedSectionVars false

variable {α : Type} [DecidableEq α]

def names (l : List (Nec × α)) : List α := l.map (·.2)

@[simp] theorem names_nil : names ([] : List (Nec × α)) = [] := rfl
@[simp] theorem names_cons (x : Nec × α) (l) : names (x :: l) = x.2 :: names l := rfl
@[simp] theorem names_append (l₁ l₂ : List (Nec × α)) : names (l₁ ++ l₂) = names l₁ ++ names l₂ := by simp [names]

theorem names_mergeFirst (xs ys : List (Nec × α)) : names (mergeFirst xs ys) = names xs := by
  simp only [names, mergeFirst, List.map_map]
  apply List.map_congr_left
  intro x _
  simp only [Function.comp]
  split <;> (try split) <;> rfl

theorem mergeSecondStep_eq (res : List (Nec × α)) (y : Nec × α) :
    mergeSecondStep res y = if y.2 ∈ names res then res else res ++ [(.opt, y.2)] := by
  unfold mergeSecondStep
  by_cases h : y.2 ∈ names res
  · have : res.any (fun r => decide (y.2 = r.2)) = true := by
      simp only [names, List.mem_map] at h
      obtain ⟨r, hr, e⟩ := h
      exact List.any_eq_true.mpr ⟨r, hr, by simp [e]⟩
    simp [this, h]
  · have : res.any (fun r => decide (y.2 = r.2)) = false := by
      rw [List.any_eq_false]
      intro r hr
      simp only [decide_eq_true_eq]
      intro e
      exact h (by simp only [names, List.mem_map]; exact ⟨r, hr, e.symm⟩)
    simp [this, h]

theorem names_foldl_second (res ys : List (Nec × α)) (hys : (names ys).Nodup) :
    names (ys.foldl mergeSecondStep res) = names res ++ (names ys).filter (fun a => a ∉ names res) := by
  induction ys generalizing res with
  | nil => simp
  | cons y ys ih =>
    simp only [names_cons, List.nodup_cons] at hys
    simp only [List.foldl_cons, names_cons]
    rw [ih _ hys.2, mergeSecondStep_eq]
    split
    · rename_i h; simp [h]
    · rename_i h
      simp only [names_append, names_cons, names_nil, List.append_assoc, List.singleton_append]
      rw [List.filter_cons_of_pos (by simpa using h)]
      congr 2
      apply List.filter_congr
      intro a ha
      have : a ≠ y.2 := fun e => hys.1 (e ▸ ha)
      simp [this]

/-- items of the second pass are appended as optional, earlier items are untouched -/
theorem foldl_second_prefix (res ys : List (Nec × α)) :
    ∃ tail, ys.foldl mergeSecondStep res = res ++ tail ∧ ∀ p ∈ tail, p.1 = .opt ∧ p.2 ∈ names ys ∧ p.2 ∉ names res := by
  induction ys generalizing res with
  | nil => exact ⟨[], by simp⟩
  | cons y ys ih =>
    simp only [List.foldl_cons]
    rw [mergeSecondStep_eq]
    split
    · obtain ⟨tail, h1, h2⟩ := ih res
      exact ⟨tail, h1, fun p hp => ⟨(h2 p hp).1, by simp [(h2 p hp).2.1], (h2 p hp).2.2⟩⟩
    · rename_i hy
      obtain ⟨tail, h1, h2⟩ := ih (res ++ [(.opt, y.2)])
      refine ⟨(.opt, y.2) :: tail, by simp [h1], ?_⟩
      intro p hp
      simp only [List.mem_cons] at hp
      rcases hp with rfl | hp
      · exact ⟨rfl, by simp, hy⟩
      · have := h2 p hp
        refine ⟨this.1, by simp [this.2.1], ?_⟩
        intro hm; apply this.2.2; simp [hm]

theorem find?_name_of_nodup {ys : List (Nec × α)} (hys : (names ys).Nodup) {y : Nec × α} (hy : y ∈ ys) :
    ys.find? (fun z => z.2 = y.2) = some y := by
  induction ys with
  | nil => cases hy
  | cons z zs ih =>
    simp only [names_cons, List.nodup_cons] at hys
    simp only [List.mem_cons] at hy
    rcases hy with rfl | hy
    · simp
    · have : z.2 ≠ y.2 := by
        intro e; apply hys.1; rw [e]; exact List.mem_map_of_mem (f := (·.2)) hy
      simp [this, ih hys.2 hy]

theorem mem_mergeFirst_man {xs ys : List (Nec × α)} (hys : (names ys).Nodup) (a : α) :
    (Nec.man, a) ∈ mergeFirst xs ys ↔ (Nec.man, a) ∈ xs ∧ (Nec.man, a) ∈ ys := by
  simp only [mergeFirst, List.mem_map]
  constructor
  · rintro ⟨⟨xn, xa⟩, hx, h⟩
    simp only at h
    split at h
    · rename_i y hy
      obtain ⟨yn, ya⟩ := y
      split at h
      · rename_i hc
        simp only at hc
        obtain ⟨hc1, hc2⟩ := hc
        subst hc1; subst hc2
        have hy2 := List.find?_some hy
        have hym := List.mem_of_find?_eq_some hy
        simp only [decide_eq_true_eq] at hy2
        subst hy2
        simp only [Prod.mk.injEq, true_and] at h
        subst h
        exact ⟨hx, hym⟩
      · simp at h
    · simp at h
  · rintro ⟨hx, hy⟩
    refine ⟨(Nec.man, a), hx, ?_⟩
    have := find?_name_of_nodup hys hy
    simp only at this
    simp [this]

theorem mergeNec_names (xs ys : List (Nec × α)) (hys : (names ys).Nodup) :
    names (mergeNec xs ys) = names xs ++ (names ys).filter (fun a => a ∉ names xs) := by
  unfold mergeNec
  rw [names_foldl_second _ _ hys, names_mergeFirst]

theorem mergeNec_man_iff (xs ys : List (Nec × α)) (hys : (names ys).Nodup) (a : α) :
    (Nec.man, a) ∈ mergeNec xs ys ↔ (Nec.man, a) ∈ xs ∧ (Nec.man, a) ∈ ys := by
  unfold mergeNec
  obtain ⟨tail, h1, h2⟩ := foldl_second_prefix (mergeFirst xs ys) ys
  rw [h1, List.mem_append, mem_mergeFirst_man hys]
  constructor
  · rintro (h | h)
    · exact h
    · have := (h2 _ h).1; cases this
  · exact Or.inl

end Xsg
