import XsgModel.Proofs.History
import XsgModel.Model.Ops
/-!
# Sub-structures of a parsed structure

The element found at a path of child names inside a structure that `Matches` a list of occurrences itself
`Matches` the occurrences found at that path. So a sub-structure taken out of a parsed structure can be
extended like a parsed structure (`extend_fold`), which is what C06 says about `extend_struct`.
-/
namespace Xsg

theorem Matches.child_occs_ne {e occs k c} (h : Matches e occs) (hc : getChild e.children k = some c) :
    occs.flatMap (Node.named k) ≠ [] := by
  intro hnil
  have : getChild e.children k = none := (h.hnone k).mpr (by
    intro o ho
    rw [List.flatMap_eq_nil_iff] at hnil
    exact hnil o ho)
  rw [this] at hc; cases hc

theorem Matches.at_path {t occs} (h : Matches t occs) (hocc : occs ≠ []) :
    ∀ (p : List Name) (s : Elem), elemAt p t = some s → Matches s (occsAt p occs) ∧ occsAt p occs ≠ [] := by
  intro p
  induction p generalizing t occs with
  | nil => intro s hs; simp only [elemAt, Option.some.injEq] at hs; subst hs; exact ⟨h, hocc⟩
  | cons k p ih =>
    intro s hs
    simp only [elemAt] at hs
    cases hc : getChild t.children k with
    | none => rw [hc] at hs; cases hs
    | some c =>
      rw [hc] at hs
      obtain ⟨nec, c⟩ := c
      exact ih (h.hsub k nec c hc) (h.child_occs_ne hc) s hs

end Xsg
