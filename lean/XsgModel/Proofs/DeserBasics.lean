import XsgModel.Model.Deser
import XsgModel.Proofs.Paths
/-!
# List-level facts about documents with values and about the deserializer model
-/
namespace Xsg

/-! ### erasure -/

theorem VItems.erase_named (k : Name) : ∀ items : VItems,
    items.erase.named k = (items.elems.filter (fun c => c.name = k)).map VNode.erase
  | .nil => by simp [VItems.erase, Items.named, VItems.elems]
  | .elem n r => by
    have ih := VItems.erase_named k r
    have hn : n.erase.name = n.name := by cases n; simp [VNode.erase, Node.name, VNode.name]
    simp only [VItems.erase, Items.named, VItems.elems, hn, List.filter_cons]
    by_cases h : n.name = k <;> simp [h, ih]
  | .text cd s r => by
    have ih := VItems.erase_named k r
    simp only [VItems.erase, VItems.elems]
    split <;> simp [Items.named, ih]
  | .other _ r => by
    have ih := VItems.erase_named k r
    simp [VItems.erase, Items.named, VItems.elems, ih]

theorem VNode.erase_named (k : Name) (n : VNode) :
    n.erase.named k = (n.items.elems.filter (fun c => c.name = k)).map VNode.erase := by
  cases n with
  | mk nm as sc items => simp [VNode.erase, Node.named, Node.items, VNode.items, VItems.erase_named]

theorem VNode.erase_attrs (n : VNode) : n.erase.attrs = n.attrs.map (·.1) := by
  cases n; simp [VNode.erase, Node.attrs, VNode.attrs]

theorem VNode.erase_name (n : VNode) : n.erase.name = n.name := by
  cases n; simp [VNode.erase, Node.name, VNode.name]

/-- a piece that the reader reports: CDATA, or text that is not white space only -/
def reported (p : Bool × Str) : Bool := p.1 || !allWs p.2

theorem VItems.erase_hasText : ∀ items : VItems, items.erase.hasText = items.pieces.any reported
  | .nil => by simp [VItems.erase, Items.hasText, VItems.pieces]
  | .elem n r => by simp [VItems.erase, Items.hasText, VItems.pieces, VItems.erase_hasText r]
  | .text cd s r => by
    have ih := VItems.erase_hasText r
    simp only [VItems.erase, VItems.pieces, List.any_cons, reported]
    split
    · rename_i h
      simp only [Bool.and_eq_true, Bool.not_eq_true'] at h
      simp [h.1, h.2, ih]
    · rename_i h
      simp only [Items.hasText]
      cases cd <;> simp_all
  | .other _ r => by simp [VItems.erase, Items.hasText, VItems.pieces, VItems.erase_hasText r]

/-! ### text runs -/

theorem dropLeadingWs_sub (ps : List (Bool × Str)) : ∀ p ∈ dropLeadingWs ps, p ∈ ps := by
  induction ps with
  | nil => simp [dropLeadingWs]
  | cons a r ih =>
    obtain ⟨cd, s⟩ := a
    intro p hp
    unfold dropLeadingWs at hp
    split at hp
    · exact List.mem_cons_of_mem _ (ih p hp)
    · exact hp

theorem dropLeadingWs_head (ps : List (Bool × Str)) : ∀ p r, dropLeadingWs ps = p :: r → reported p = true := by
  induction ps with
  | nil => simp [dropLeadingWs]
  | cons a rest ih =>
    obtain ⟨cd, s⟩ := a
    intro p r h
    unfold dropLeadingWs at h
    split at h
    · exact ih p r h
    · rename_i hc
      simp only [List.cons.injEq] at h
      rw [← h.1]
      simp only [reported]
      cases cd <;> simp_all

/-- quick-xml reports character data for a run only if the run has a reported piece -/
theorem runText_some_reported (ps : List (Bool × Str)) (s : Str) (h : runText ps = some s) : ps.any reported = true := by
  unfold runText at h
  split at h
  · cases h
  · rename_i cd s' r hd
    rw [List.any_eq_true]
    exact ⟨(cd, s'), dropLeadingWs_sub ps _ (by rw [hd]; simp), dropLeadingWs_head ps _ _ hd⟩

theorem runs_pieces_sub (b : Bool) : ∀ items : VItems, ∀ run ∈ items.runs b, ∀ p ∈ run, p ∈ items.pieces
  | .nil => by simp [VItems.runs]
  | .elem n r => by
    intro run hrun p hp
    simp only [VItems.runs, List.mem_cons] at hrun
    rcases hrun with rfl | h
    · cases hp
    · simpa [VItems.pieces] using runs_pieces_sub b r run h p hp
  | .text cd s r => by
    intro run hrun p hp
    simp only [VItems.runs] at hrun
    split at hrun
    · simp only [List.mem_singleton] at hrun
      subst hrun
      simp only [List.mem_singleton] at hp
      subst hp
      simp [VItems.pieces]
    · rename_i run0 rest heq
      simp only [List.mem_cons] at hrun
      rcases hrun with rfl | h
      · simp only [List.mem_cons] at hp
        rcases hp with rfl | hp
        · simp [VItems.pieces]
        · simp only [VItems.pieces, List.mem_cons]
          right
          exact runs_pieces_sub b r run0 (by rw [heq]; simp) p hp
      · simp only [VItems.pieces, List.mem_cons]
        right
        exact runs_pieces_sub b r run (by rw [heq]; simp [h]) p hp
  | .other pi r => by
    intro run hrun p hp
    simp only [VItems.runs] at hrun
    split at hrun
    · simp only [List.mem_cons] at hrun
      rcases hrun with rfl | h
      · cases hp
      · simpa [VItems.pieces] using runs_pieces_sub b r run h p hp
    · simpa [VItems.pieces] using runs_pieces_sub b r run hrun p hp

/-- if quick-xml reports character data for an element, the reader reports a text or CDATA event for it -/
theorem texts_quick_hasText (items : VItems) (h : DeCfg.quickXml.texts items ≠ []) : items.erase.hasText = true := by
  rw [VItems.erase_hasText]
  obtain ⟨s, hs⟩ := List.exists_mem_of_ne_nil _ h
  simp only [DeCfg.texts, List.mem_filterMap] at hs
  obtain ⟨run, hrun, hs⟩ := hs
  have := runText_some_reported run s hs
  rw [List.any_eq_true] at this ⊢
  obtain ⟨p, hp, hr⟩ := this
  exact ⟨p, runs_pieces_sub _ items run hrun p hp, hr⟩

/-! ### children as a list -/

/-- the result for one child element (the body of `deItems`) -/
def kidRes (cfg : DeCfg) (p : List PStruct) (deny : Bool) (fs : List PField) (c : VNode) : KidRes :=
  match findField fs (cfg.elemKey c.name) with
  | none => ⟨cfg.elemKey c.name, c.name, .error .unknown⟩
  | some f => ⟨cfg.elemKey c.name, c.name, if f.base = stringTy then deStringElem cfg c else deNode cfg p deny f.base c⟩

theorem deItems_eq_map (cfg : DeCfg) (p : List PStruct) (deny : Bool) (fs : List PField) :
    ∀ items : VItems, deItems cfg p deny fs items = items.elems.map (kidRes cfg p deny fs)
  | .nil => by simp [deItems, VItems.elems]
  | .elem c r => by
    have ih := deItems_eq_map cfg p deny fs r
    simp only [deItems, VItems.elems, List.map_cons, ih, kidRes]
    congr 1
  | .text _ _ r => by simp [deItems, VItems.elems, deItems_eq_map cfg p deny fs r]
  | .other _ r => by simp [deItems, VItems.elems, deItems_eq_map cfg p deny fs r]

theorem kidRes_key (cfg p deny fs) (c : VNode) : (kidRes cfg p deny fs c).key = cfg.elemKey c.name := by
  unfold kidRes; split <;> rfl

theorem kidRes_qname (cfg p deny fs) (c : VNode) : (kidRes cfg p deny fs c).qname = c.name := by
  unfold kidRes; split <;> rfl

theorem sizeOf_elems_lt : ∀ (items : VItems) (c : VNode), c ∈ items.elems → sizeOf c < sizeOf items
  | .nil, c, h => by simp [VItems.elems] at h
  | .elem n r, c, h => by
    simp only [VItems.elems, List.mem_cons] at h
    rcases h with rfl | h
    · simp; omega
    · have := sizeOf_elems_lt r c h
      simp; omega
  | .text _ _ r, c, h => by
    have := sizeOf_elems_lt r c (by simpa [VItems.elems] using h)
    simp; omega
  | .other _ r, c, h => by
    have := sizeOf_elems_lt r c (by simpa [VItems.elems] using h)
    simp; omega

/-! ### generic list facts -/

theorem find?_of_nodup_map {α β : Type} [DecidableEq β] (f : α → β) :
    ∀ (l : List α), (l.map f).Nodup → ∀ x ∈ l, l.find? (fun y => f y = f x) = some x
  | [], _, x, hx => by cases hx
  | a :: l, hnd, x, hx => by
    simp only [List.map_cons, List.nodup_cons] at hnd
    simp only [List.mem_cons] at hx
    rcases hx with rfl | hx
    · simp
    · have hne : f a ≠ f x := by
        intro e
        exact hnd.1 (by rw [e]; exact List.mem_map_of_mem hx)
      simp only [List.find?_cons, hne, decide_false]
      exact find?_of_nodup_map f l hnd.2 x hx

end Xsg
