import XsgModel.Proofs.Sort
import XsgModel.Proofs.FirstFree
/-! struct names: the walk, `assignNames`, and the shape of the names -/
namespace Xsg

/-! ### the walk -/
theorem walk_eq (s : SortBy) (path trace : List Name) (e : Elem) :
    walk s path trace e = ⟨path ++ [e.name], trace ++ [pascal e.name], e⟩ ::
      ((sortKeyed (walk.walkKids s (path ++ [e.name]) (trace ++ [pascal e.name]) e.children)).flatMap (·.2)) := by
  cases e; rfl

mutual
theorem walk_trace (s : SortBy) (e : Elem) (path trace : List Name) (h : trace = path.map pascal) :
    ∀ en ∈ walk s path trace e, en.trace = en.path.map pascal := by
  cases e with
  | mk n t st c as cs p =>
    intro en hen
    simp only [walk, List.mem_cons, List.mem_flatMap] at hen
    rcases hen with rfl | ⟨p, hp, hen⟩
    · simp [h]
    · rw [mem_sortKeyed] at hp
      exact walkKids_trace s cs (path ++ [n]) (trace ++ [pascal n]) (by simp [h]) p hp en hen
theorem walkKids_trace (s : SortBy) (cs : List (Nec × Elem)) (path trace : List Name) (h : trace = path.map pascal) :
    ∀ p ∈ walk.walkKids s path trace cs, ∀ en ∈ p.2, en.trace = en.path.map pascal := by
  cases cs with
  | nil => intro p hp; cases hp
  | cons c cs =>
    obtain ⟨nec, e⟩ := c
    intro p hp
    simp only [walk.walkKids, List.mem_append] at hp
    rcases hp with hp | hp
    · split at hp
      · cases hp
      · simp only [List.mem_singleton] at hp
        subst hp
        exact walk_trace s e path trace h
    · exact walkKids_trace s cs path trace h p hp
end

/-- the first struct is the root's -/
theorem walk_head (s : SortBy) (e : Elem) :
    (walk s [] [] e).head? = some ⟨[e.name], [pascal e.name], e⟩ := by
  rw [walk_eq]; rfl

/-! ### `assignNames` -/
theorem assignNames_paths (H : Name → Option Nat) (entries : List Entry) (used : List Name) :
    (assignNames H entries used).map (·.1) = entries.map (·.path) := by
  induction entries generalizing used with
  | nil => rfl
  | cons en rest ih => simp [assignNames, ih]

/-- names handed out are pairwise distinct and differ from every name reserved before -/
theorem assignNames_fresh (H : Name → Option Nat) (entries : List Entry) (used : List Name) :
    ((assignNames H entries used).map (·.2)).Nodup ∧ ∀ n ∈ (assignNames H entries used).map (·.2), n ∉ used := by
  induction entries generalizing used with
  | nil => simp [assignNames]
  | cons en rest ih =>
    simp only [assignNames, List.map_cons, List.nodup_cons, List.mem_cons]
    have hfree := firstFree_not_mem used (expandName H en.trace en.elem) (fun i => expandName H en.trace en.elem ++ dec i)
      (append_dec_injective _)
    obtain ⟨ih1, ih2⟩ := ih (used ++ [firstFree used (expandName H en.trace en.elem) fun i => expandName H en.trace en.elem ++ dec i])
    refine ⟨⟨?_, ih1⟩, ?_⟩
    · intro hm
      exact ih2 _ hm (by simp)
    · rintro n (rfl | hn)
      · exact hfree
      · intro hu; exact ih2 n hn (by simp [hu])

/-- every name handed out is the expanded name of its entry, possibly followed by a decimal number -/
theorem assignNames_shape (H : Name → Option Nat) (entries : List Entry) (used : List Name) :
    ∀ p ∈ assignNames H entries used, ∃ en ∈ entries, p.1 = en.path ∧
      (p.2 = expandName H en.trace en.elem ∨ ∃ i, 1 ≤ i ∧ p.2 = expandName H en.trace en.elem ++ dec i) := by
  induction entries generalizing used with
  | nil => intro p hp; cases hp
  | cons en rest ih =>
    intro p hp
    simp only [assignNames, List.mem_cons] at hp
    rcases hp with rfl | hp
    · refine ⟨en, by simp, rfl, ?_⟩
      rcases firstFree_cases used (expandName H en.trace en.elem) (fun i => expandName H en.trace en.elem ++ dec i) with h | ⟨i, hi, h⟩
      · exact Or.inl h
      · exact Or.inr ⟨i, hi, h⟩
    · obtain ⟨en', hen', h1, h2⟩ := ih _ p hp
      exact ⟨en', by simp [hen'], h1, h2⟩

theorem firstFree_ne_base {used : List Name} {base : Name} {cand : Nat → Name} (h : firstFree used base cand ≠ base) :
    base ∈ used := by
  unfold firstFree at h
  split at h
  · exact absurd rfl h
  · rename_i hc
    simpa using hc

/-- a numbered name is handed out only if the plain name was reserved / used before the pass or is handed out to
another entry of the pass -/
theorem assignNames_suffix_needed (H : Name → Option Nat) (entries : List Entry) (used : List Name) :
    ∀ p ∈ assignNames H entries used, ∃ en ∈ entries, p.1 = en.path ∧
      (p.2 = expandName H en.trace en.elem ∨
        ((∃ i, 1 ≤ i ∧ p.2 = expandName H en.trace en.elem ++ dec i) ∧
          (expandName H en.trace en.elem ∈ used ∨ expandName H en.trace en.elem ∈ (assignNames H entries used).map (·.2)))) := by
  induction entries generalizing used with
  | nil => intro p hp; cases hp
  | cons en rest ih =>
    intro p hp
    simp only [assignNames, List.mem_cons] at hp
    rcases hp with rfl | hp
    · refine ⟨en, by simp, rfl, ?_⟩
      rcases firstFree_cases used (expandName H en.trace en.elem) (fun i => expandName H en.trace en.elem ++ dec i) with h | ⟨i, hi, h⟩
      · exact Or.inl h
      · by_cases hb : firstFree used (expandName H en.trace en.elem) (fun i => expandName H en.trace en.elem ++ dec i) = expandName H en.trace en.elem
        · exact Or.inl hb
        · exact Or.inr ⟨⟨i, hi, h⟩, Or.inl (firstFree_ne_base hb)⟩
    · obtain ⟨en', hen', h1, h2⟩ := ih _ p hp
      refine ⟨en', by simp [hen'], h1, ?_⟩
      rcases h2 with h2 | ⟨h2, h3⟩
      · exact Or.inl h2
      · refine Or.inr ⟨h2, ?_⟩
        rcases h3 with h3 | h3
        · simp only [List.mem_append, List.mem_singleton] at h3
          rcases h3 with h3 | h3
          · exact Or.inl h3
          · right
            simp only [assignNames, List.map_cons, List.mem_cons]
            exact Or.inl h3
        · right
          simp only [assignNames, List.map_cons, List.mem_cons]
          exact Or.inr h3

/-- the numeric suffix appears only on a clash: if the plain name is neither reserved nor taken, it is used unchanged -/
theorem assignNames_head_plain (H : Name → Option Nat) (en : Entry) (rest : List Entry) (used : List Name)
    (h : expandName H en.trace en.elem ∉ used) :
    (assignNames H (en :: rest) used).head? = some (en.path, expandName H en.trace en.elem) := by
  simp [assignNames, firstFree, h]

theorem pathLookup_mem {tbl : List (List Name × Name)} {path : List Name} {n : Name} (h : pathLookup tbl path = some n) :
    (path, n) ∈ tbl := by
  unfold pathLookup at h
  simp only [Option.map_eq_some_iff] at h
  obtain ⟨p, hp, rfl⟩ := h
  have h1 := List.mem_of_find?_eq_some hp
  have h2 := List.find?_some hp
  simp only [decide_eq_true_eq] at h2
  rw [List.mem_reverse] at h1
  rw [← h2]; exact h1

/-- `expand_name` is a suffix of the trace, joined -/
theorem expandName_shape (H : Name → Option Nat) (trace : List Name) (e : Elem) :
    ∃ j, expandName H trace e = (trace.drop j).flatten := by
  unfold expandName
  split
  · exact ⟨_, rfl⟩
  · exact ⟨trace.length, by simp⟩

/-- shape of every struct name the renderer uses -/
theorem structNameOf_shape (H : Name → Option Nat) (root : Elem) (s : SortBy) (en : Entry) (hen : en ∈ walk s [] [] root) :
    ∃ j digits, structNameOf H (structNames H root) en.path en.trace en.elem = ((en.path.map pascal).drop j).flatten ++ digits ∧
      digits.all isDigit = true := by
  have htr := walk_trace s root [] [] rfl en hen
  unfold structNameOf
  cases hl : pathLookup (structNames H root) en.path with
  | none =>
    obtain ⟨j, hj⟩ := expandName_shape H en.trace en.elem
    rw [htr] at hj
    refine ⟨j, [], ?_, rfl⟩
    simp only [List.append_nil]
    rw [htr]; exact hj
  | some nm =>
    have hmem := pathLookup_mem hl
    obtain ⟨en', hen', hp, hshape⟩ := assignNames_shape H _ _ _ hmem
    have htr' := walk_trace .unsorted root [] [] rfl en' hen'
    simp only at hp hshape
    obtain ⟨j, hj⟩ := expandName_shape H en'.trace en'.elem
    rw [htr', ← hp] at hj
    rw [htr', ← hp] at hshape
    rcases hshape with h | ⟨i, _, h⟩
    · exact ⟨j, [], by rw [h, hj]; simp, rfl⟩
    · exact ⟨j, dec i, by rw [h, hj], dec_all_digits i⟩

end Xsg
