import XsgModel.Proofs.Matches
/-! first-appearance order of child names and the `position` field -/
namespace Xsg

theorem mem_mark {known : List Name} {n d : Name} : d ∈ mark known n ↔ d ∈ known ∨ d = n := by
  unfold mark
  by_cases h : known.contains n = true
  · rw [if_pos h]
    constructor
    · exact Or.inl
    · rintro (h' | rfl); exact h'; exact List.contains_iff_mem.mp h
  · rw [if_neg h]; simp

theorem contains_eq_decide (known : List Name) (k : Name) : known.contains k = decide (k ∈ known) := by
  by_cases h : k ∈ known
  · simp [h]
  · simp [h]

theorem nodup_mark {ord : List Name} (h : ord.Nodup) (n : Name) : (mark ord n).Nodup := by
  unfold mark
  by_cases hc : ord.contains n = true
  · rw [if_pos hc]; exact h
  · rw [if_neg hc]
    rw [List.nodup_append]
    refine ⟨h, by simp, ?_⟩
    intro a ha b hb e
    simp at hb; subst hb; subst e
    exact hc (List.contains_iff_mem.mpr ha)

theorem mark_of_mem {ord : List Name} {n : Name} (h : n ∈ ord) : mark ord n = ord := by
  unfold mark; rw [if_pos (List.contains_iff_mem.mpr h)]

theorem mark_of_not_mem {ord : List Name} {n : Name} (h : n ∉ ord) : mark ord n = ord ++ [n] := by
  unfold mark; rw [if_neg (fun hc => h (List.contains_iff_mem.mp hc))]

theorem mem_marks (is : Items) (ord : List Name) (k : Name) : k ∈ marks ord is ↔ k ∈ ord ∨ is.named k ≠ [] := by
  cases is with
  | nil => simp [marks, Items.named]
  | other r => simpa [marks, Items.named] using mem_marks r ord k
  | text c r => simpa [marks, Items.named] using mem_marks r ord k
  | elem n r =>
    simp only [marks, Items.named]
    rw [mem_marks r, mem_mark]
    by_cases e : n.name = k
    · subst e; simp
    · have : k ≠ n.name := fun h => e h.symm
      simp [e, this]

theorem nodup_marks (is : Items) (ord : List Name) (h : ord.Nodup) : (marks ord is).Nodup := by
  cases is with
  | nil => exact h
  | other r => exact nodup_marks r ord h
  | text c r => exact nodup_marks r ord h
  | elem n r => exact nodup_marks r _ (nodup_mark h _)

theorem orderOf_append (occs : List Node) (c : Node) : orderOf (occs ++ [c]) = marks (orderOf occs) c.items := by
  simp [orderOf, List.foldl_append]

theorem foldl_marks_spec (occs : List Node) (ord0 : List Name) (h0 : ord0.Nodup) :
    (occs.foldl (fun ord o => marks ord o.items) ord0).Nodup ∧
    ∀ k, k ∈ occs.foldl (fun ord o => marks ord o.items) ord0 ↔ k ∈ ord0 ∨ ∃ o ∈ occs, o.named k ≠ [] := by
  induction occs generalizing ord0 with
  | nil => simp [h0]
  | cons c occs ih =>
    simp only [List.foldl_cons]
    obtain ⟨h1, h2⟩ := ih (marks ord0 c.items) (nodup_marks _ _ h0)
    refine ⟨h1, ?_⟩
    intro k
    rw [h2, mem_marks]
    simp only [List.mem_cons]
    constructor
    · rintro ((h | h) | ⟨o, ho, h⟩)
      · exact Or.inl h
      · exact Or.inr ⟨c, Or.inl rfl, h⟩
      · exact Or.inr ⟨o, Or.inr ho, h⟩
    · rintro (h | ⟨o, rfl | ho, h⟩)
      · exact Or.inl (Or.inl h)
      · exact Or.inl (Or.inr h)
      · exact Or.inr ⟨o, ho, h⟩

theorem orderOf_spec (occs : List Node) : (orderOf occs).Nodup ∧ ∀ k, k ∈ orderOf occs ↔ ∃ o ∈ occs, o.named k ≠ [] := by
  have := foldl_marks_spec occs [] List.nodup_nil
  exact ⟨this.1, fun k => by rw [show orderOf occs = occs.foldl (fun ord o => marks ord o.items) [] from rfl, this.2]; simp⟩

/-- the stored children realise the order `ord`: same names, and the child named `ord[i]` has position `i` -/
structure PosInv (cs : List (Nec × Elem)) (ord : List Name) : Prop where
  nodup : ord.Nodup
  len : cs.length = ord.length
  mem : ∀ k, k ∈ ord ↔ getChild cs k ≠ none
  pos : ∀ i k, ord[i]? = some k → ∃ nec c, getChild cs k = some (nec, c) ∧ c.position = some i

theorem PosInv.nil : PosInv [] [] := ⟨List.nodup_nil, rfl, by simp [getChild], by simp⟩

theorem length_setChildOptional {cs : List (Nec × Elem)} (h : (childNames cs).Nodup) (n : Name) :
    (setChildOptional cs n).length = cs.length := by
  cases hc : getChild cs n with
  | none => rw [setChildOptional_of_absent hc]
  | some c =>
    rw [setChildOptional_of_present h hc, List.length_append, List.length_singleton]
    exact length_eraseChild hc

theorem length_fold_setChildOptional (ns : List Name) {cs : List (Nec × Elem)} (h : (childNames cs).Nodup) :
    (ns.foldl setChildOptional cs).length = cs.length := by
  induction ns generalizing cs with
  | nil => rfl
  | cons n ns ih =>
    simp only [List.foldl_cons]
    rw [ih (nodup_setChildOptional h), length_setChildOptional h]

theorem demote_ne_none (x : Option (Nec × Elem)) : demote x ≠ none ↔ x ≠ none := by cases x <;> simp [demote]

/-- demotion changes tags only: the order invariant survives `tag_optional_children` -/
theorem PosInv_tagOpt (S : Snapshot) (C : Elem) (ord : List Name) (hnd : (childNames C.children).Nodup)
    (h : PosInv C.children ord) : PosInv (tagOpt S C).children ord := by
  refine ⟨h.nodup, ?_, ?_, ?_⟩
  · rw [tagOpt_children, length_fold_setChildOptional _ hnd]; exact h.len
  · intro k
    rw [h.mem k, getChild_tagOpt S C k hnd]
    split
    · exact (demote_ne_none _).symm
    · exact Iff.rfl
  · intro i k hik
    obtain ⟨nec, c, hc, hp⟩ := h.pos i k hik
    rw [getChild_tagOpt S C k hnd, hc]
    split
    · exact ⟨.opt, c, rfl, hp⟩
    · exact ⟨nec, c, rfl, hp⟩

theorem PosInv_congr {cs cs' : List (Nec × Elem)} {ord : List Name} (h : cs' = cs) (hp : PosInv cs ord) : PosInv cs' ord := by
  rw [h]; exact hp

/-- what `Matches` says about positions, packaged -/
theorem Matches.posInv {e : Elem} {occs : List Node} (h : Matches e occs) : PosInv e.children (orderOf occs) := by
  refine ⟨(orderOf_spec occs).1, h.hlen, ?_, h.hpos⟩
  intro k
  rw [(orderOf_spec occs).2 k]
  constructor
  · rintro ⟨o, ho, hn⟩ hnone
    exact hn ((h.hnone k).mp hnone o ho)
  · intro hne
    apply Classical.byContradiction
    intro hex
    apply hne
    rw [h.hnone]
    intro o ho
    apply Classical.byContradiction
    intro hn
    exact hex ⟨o, ho, hn⟩

end Xsg
