import XsgModel.Proofs.Naming
/-! `compute_name_hints`: every hint is at least 1, and the hint of a name that occurs once is 1 -/
namespace Xsg

mutual
theorem fillNames_ne_nil (e : Elem) (trace : List Name) : ∀ p ∈ fillNames trace e, p.2 ≠ [] := by
  cases e with
  | mk n t st c as cs p =>
    intro q hq
    simp only [fillNames, List.mem_cons] at hq
    rcases hq with rfl | hq
    · simp
    · exact fillKids_ne_nil cs _ q hq
theorem fillKids_ne_nil (cs : List (Nec × Elem)) (trace : List Name) : ∀ p ∈ fillNames.fillKids trace cs, p.2 ≠ [] := by
  cases cs with
  | nil => intro p hp; cases hp
  | cons c cs =>
    obtain ⟨nec, e⟩ := c
    intro p hp
    simp only [fillNames.fillKids, List.mem_append] at hp
    rcases hp with hp | hp
    · exact fillNames_ne_nil e trace p hp
    · exact fillKids_ne_nil cs trace p hp
end

theorem minimalDifferentLengths_pos (g : List (List Name)) (hne : g ≠ []) (h : ∀ t ∈ g, t ≠ []) :
    1 ≤ minimalDifferentLengths g := by
  unfold minimalDifferentLengths
  simp only
  split
  · omega
  · cases hm : (g.map List.length).max? with
    | none =>
      have := List.isSome_max?_of_ne_nil (l := g.map List.length) (by simpa using hne)
      rw [hm] at this; cases this
    | some m =>
      simp only [Option.getD_some]
      rw [List.max?_eq_some_iff] at hm
      obtain ⟨t, ht⟩ := List.exists_mem_of_ne_nil g hne
      have h1 : t.length ≤ m := hm.2 _ (List.mem_map_of_mem ht)
      have h2 : 0 < t.length := List.length_pos_iff.mpr (h t ht)
      omega

theorem hintOf_pos (all : List (Name × List Name)) (hall : ∀ p ∈ all, p.2 ≠ []) (k : Name) (n : Nat)
    (h : hintOf all k = some n) : 1 ≤ n := by
  unfold hintOf at h
  split at h
  · cases h
  · simp only [Option.some.injEq] at h; omega
  · rename_i g hg1 hg2
    simp only [Option.some.injEq] at h
    subst h
    apply minimalDifferentLengths_pos
    · intro e; exact hg1 e
    · intro t ht
      simp only [traceGroup, List.mem_map, List.mem_filter] at ht
      obtain ⟨p, ⟨hp, _⟩, rfl⟩ := ht
      exact hall p hp

theorem hintOf_single (all : List (Name × List Name)) (k : Name) (tr : List Name) (h : traceGroup all k = [tr]) :
    hintOf all k = some 1 := by
  unfold hintOf; rw [h]

/-- `expand_name` with a positive hint keeps at least the last trace item (the element's own name) -/
theorem expandName_own (H : Name → Option Nat) (trace : List Name) (e : Elem) (n : Nat) (hn : H (pascal e.name) = some n)
    (hpos : 1 ≤ n) (htr : trace ≠ []) : ∃ j, j < trace.length ∧ expandName H trace e = (trace.drop j).flatten := by
  unfold expandName
  rw [hn]
  refine ⟨trace.length - n, ?_, rfl⟩
  have := List.length_pos_iff.mpr htr
  omega

end Xsg

namespace Xsg

mutual
theorem walk_in_fill (s : SortBy) (e : Elem) (path trace tr0 : List Name) :
    ∀ en ∈ walk s path trace e, (∃ tr, (pascal en.elem.name, tr) ∈ fillNames tr0 e) ∧ en.path.getLast? = some en.elem.name := by
  cases e with
  | mk n t st c as cs p =>
    intro en hen
    simp only [walk, List.mem_cons, List.mem_flatMap] at hen
    rcases hen with rfl | ⟨q, hq, hen⟩
    · exact ⟨⟨pascal n :: tr0, by simp [fillNames, Elem.name]⟩, by simp [Elem.name]⟩
    · rw [mem_sortKeyed] at hq
      obtain ⟨⟨tr, htr⟩, hl⟩ := walkKids_in_fill s cs (path ++ [n]) (trace ++ [pascal n]) (pascal n :: tr0) q hq en hen
      exact ⟨⟨tr, by simp [fillNames, htr]⟩, hl⟩
theorem walkKids_in_fill (s : SortBy) (cs : List (Nec × Elem)) (path trace tr0 : List Name) :
    ∀ q ∈ walk.walkKids s path trace cs, ∀ en ∈ q.2,
      (∃ tr, (pascal en.elem.name, tr) ∈ fillNames.fillKids tr0 cs) ∧ en.path.getLast? = some en.elem.name := by
  cases cs with
  | nil => intro q hq; cases hq
  | cons c cs =>
    obtain ⟨nec, e⟩ := c
    intro q hq en hen
    simp only [walk.walkKids, List.mem_append] at hq
    rcases hq with hq | hq
    · split at hq
      · cases hq
      · simp only [List.mem_singleton] at hq
        subst hq
        obtain ⟨⟨tr, htr⟩, hl⟩ := walk_in_fill s e path trace tr0 en hen
        exact ⟨⟨tr, by simp [fillNames.fillKids, htr]⟩, hl⟩
    · obtain ⟨⟨tr, htr⟩, hl⟩ := walkKids_in_fill s cs path trace tr0 q hq en hen
      exact ⟨⟨tr, by simp [fillNames.fillKids, htr]⟩, hl⟩
end

/-- every element met by the renderer has a hint, and it is at least 1 -/
theorem hint_of_entry (s : SortBy) (root : Elem) (en : Entry) (hen : en ∈ walk s [] [] root) :
    ∃ n, hintOf (fillNames [] root) (pascal en.elem.name) = some n ∧ 1 ≤ n := by
  obtain ⟨⟨tr, htr⟩, -⟩ := walk_in_fill s root [] [] [] en hen
  have hne : traceGroup (fillNames [] root) (pascal en.elem.name) ≠ [] := by
    intro e
    have : tr ∈ traceGroup (fillNames [] root) (pascal en.elem.name) := by
      simp only [traceGroup, List.mem_map, List.mem_filter, decide_eq_true_eq]
      exact ⟨_, ⟨htr, rfl⟩, rfl⟩
    rw [e] at this; cases this
  cases h : hintOf (fillNames [] root) (pascal en.elem.name) with
  | none =>
    unfold hintOf at h
    split at h
    · rename_i hg; exact absurd hg hne
    · cases h
    · cases h
  | some n => exact ⟨n, rfl, hintOf_pos _ (fillNames_ne_nil root []) _ _ h⟩

end Xsg
