import XsgModel.Proofs.AbsorbSpec
import XsgModel.Proofs.Faults
/-! the machine keeps child names unique at every depth (`Elem.Inv`), for every event stream -/
namespace Xsg

theorem Inv_children {e : Elem} (h : e.Inv = true) {c} (hc : c ∈ e.children) : c.2.Inv = true := ((Inv_iff e).mp h).2 c hc
theorem Inv_nodup {e : Elem} (h : e.Inv = true) : (childNames e.children).Nodup := ((Inv_iff e).mp h).1

theorem Inv_congr {e e' : Elem} (hc : e'.children = e.children) : e'.Inv = e.Inv := by
  cases e; cases e'; simp only [Elem.children] at hc; subst hc; rfl

theorem Inv_addChild (c e : Elem) (hc : c.Inv = true) (h : e.Inv = true) :
    (e.setChildren (addUniqueChild e.children c)).Inv = true := by
  rw [Inv_iff] at h ⊢
  simp only [children_setChildren]
  refine ⟨nodup_addUniqueChild h.1, ?_⟩
  intro d hd
  cases hg : getChild e.children c.name with
  | some x => rw [addUniqueChild_of_present (by rw [hg]; rfl)] at hd; exact h.2 d hd
  | none =>
    rw [addUniqueChild_of_absent hg] at hd
    simp only [List.mem_append, List.mem_singleton] at hd
    rcases hd with hd | rfl
    · exact h.2 d hd
    · simp [Inv_withPosition, hc]

theorem mem_setChildOptional {cs : List (Nec × Elem)} {n : Name} {d} (h : d ∈ setChildOptional cs n) :
    ∃ d' ∈ cs, d.2 = d'.2 := by
  unfold setChildOptional at h
  cases hg : getChild cs n with
  | none => rw [hg] at h; exact ⟨d, h, rfl⟩
  | some c =>
    rw [hg] at h
    simp only at h
    unfold addUnique at h
    split at h
    · exact ⟨d, mem_eraseChild h, rfl⟩
    · simp only [List.mem_append, List.mem_singleton] at h
      rcases h with h | rfl
      · exact ⟨d, mem_eraseChild h, rfl⟩
      · exact ⟨c, getChild_some_mem hg, rfl⟩

theorem mem_fold_setChildOptional (ns : List Name) {cs : List (Nec × Elem)} {d} (h : d ∈ ns.foldl setChildOptional cs) :
    ∃ d' ∈ cs, d.2 = d'.2 := by
  induction ns generalizing cs with
  | nil => exact ⟨d, h, rfl⟩
  | cons n ns ih =>
    obtain ⟨d1, hd1, e1⟩ := ih h
    obtain ⟨d2, hd2, e2⟩ := mem_setChildOptional hd1
    exact ⟨d2, hd2, e1.trans e2⟩

theorem Inv_tagOpt (S : Snapshot) (c : Elem) (h : c.Inv = true) : (tagOpt S c).Inv = true := by
  rw [Inv_iff]
  refine ⟨nodup_tagOpt S c (Inv_nodup h), ?_⟩
  intro d hd
  rw [tagOpt_children] at hd
  obtain ⟨d', hd', e⟩ := mem_fold_setChildOptional _ hd
  rw [e]; exact Inv_children h hd'

theorem mem_replaceFirst {cs : List (Nec × Elem)} {n : Name} {c' : Elem} {d} (h : d ∈ replaceFirst cs n c') :
    d ∈ cs ∨ d.2 = c' := by
  induction cs with
  | nil => cases h
  | cons x xs ih =>
    unfold replaceFirst at h; split at h
    · simp only [List.mem_cons] at h
      rcases h with rfl | h
      · exact Or.inr rfl
      · exact Or.inl (by simp [h])
    · simp only [List.mem_cons] at h
      rcases h with rfl | h
      · exact Or.inl (by simp)
      · rcases ih h with h | h
        · exact Or.inl (by simp [h])
        · exact Or.inr h

theorem Inv_closeTag (parent : Frame) (child : Elem) (snap : Option Snapshot)
    (hp : parent.elem.Inv = true) (hc : child.Inv = true) : (closeTag parent child snap).elem.Inv = true := by
  have h1 := Inv_addChild child parent.elem hc hp
  cases snap with
  | none => simpa [closeTag] using h1
  | some S =>
    simp only [closeTag]
    rw [Inv_iff] at h1 ⊢
    simp only [children_setChildren] at h1 ⊢
    refine ⟨by rw [childNames_tagOptIn]; exact h1.1, ?_⟩
    intro d hd
    unfold tagOptIn at hd
    cases hg : getChild (addUniqueChild parent.elem.children child) child.name with
    | none => rw [hg] at hd; exact h1.2 d hd
    | some x =>
      obtain ⟨nec, c⟩ := x
      rw [hg] at hd
      rcases mem_replaceFirst hd with h | h
      · exact h1.2 d h
      · rw [h]; exact Inv_tagOpt S c (h1.2 _ (getChild_some_mem hg))

theorem Inv_openTag (f : Frame) (k : Name) (as : List Name) (h : f.elem.Inv = true) :
    (openTag f k as).1.elem.Inv = true ∧ (openTag f k as).2.Inv = true := by
  refine ⟨by rw [openTag_fst]; exact Inv_remove k f.elem h, ?_⟩
  rw [openTag_snd]
  cases hg : getChild f.elem.children k with
  | none =>
    have := (openChild_none (known := f.known) (as := as) hg).2.1
    rw [Inv_iff, this]; simp [childNames]
  | some p =>
    obtain ⟨nec, C⟩ := p
    have := (openChild_some (known := f.known) (as := as) hg).2.1
    rw [Inv_congr this]
    exact Inv_children h (getChild_some_mem hg)

/-- every activation's element satisfies the invariant -/
def StInv : St → Prop
  | .run stack => stack ≠ [] ∧ ∀ f ∈ stack, f.elem.Inv = true
  | .done w => w.Inv = true
  | .fail _ => True

theorem Inv_unwind (top : Frame) (rest : List Frame) (ht : top.elem.Inv = true) (hr : ∀ f ∈ rest, f.elem.Inv = true) :
    (unwind top rest).Inv = true := by
  induction rest generalizing top with
  | nil => exact ht
  | cons p rest ih =>
    simp only [unwind]
    exact ih _ (Inv_closeTag p top.elem top.snap (hr p (by simp)) ht) (fun f hf => hr f (by simp [hf]))

theorem Inv_setText (e : Elem) (b : Bool) : (e.setText b).Inv = e.Inv := Inv_congr (by simp)

theorem StInv_step (s : St) (ev : Ev) (h : StInv s) : StInv (step s ev) := by
  cases s with
  | done w => exact h
  | fail e => exact h
  | run stack =>
    obtain ⟨hne, hall⟩ := h
    cases stack with
    | nil => exact absurd rfl hne
    | cons top rest =>
      have htop := hall top (by simp)
      have hrest : ∀ f ∈ rest, f.elem.Inv = true := fun f hf => hall f (by simp [hf])
      cases ev with
      | start nm as =>
        cases nm with
        | bad m => trivial
        | ok n =>
          simp only [step]
          cases hk : attrKeys as with
          | error e => trivial
          | ok ks =>
            obtain ⟨h1, h2⟩ := Inv_openTag top n ks htop
            refine ⟨by simp, ?_⟩
            intro f hf
            simp only [List.mem_cons] at hf
            rcases hf with rfl | rfl | hf
            · exact h2
            · exact h1
            · exact hrest f hf
      | empty nm as =>
        cases nm with
        | bad m => trivial
        | ok n =>
          simp only [step]
          cases hk : attrKeys as with
          | error e => trivial
          | ok ks =>
            obtain ⟨h1, h2⟩ := Inv_openTag top n ks htop
            refine ⟨by simp, ?_⟩
            intro f hf
            simp only [List.mem_cons] at hf
            rcases hf with rfl | hf
            · exact Inv_closeTag _ _ _ h1 h2
            · exact hrest f hf
      | endTag =>
        cases rest with
        | nil => exact htop
        | cons p rest' =>
          refine ⟨by simp, ?_⟩
          intro f hf
          simp only [List.mem_cons] at hf
          rcases hf with rfl | hf
          · exact Inv_closeTag _ _ _ (hrest p (by simp)) htop
          · exact hrest f (by simp [hf])
      | text u =>
        cases u with
        | bad m => trivial
        | ok x =>
          refine ⟨by simp, ?_⟩
          intro f hf
          simp only [List.mem_cons] at hf
          rcases hf with rfl | hf
          · simpa [Inv_setText] using htop
          · exact hrest f hf
      | cdata u =>
        cases u with
        | bad m => trivial
        | ok x =>
          refine ⟨by simp, ?_⟩
          intro f hf
          simp only [List.mem_cons] at hf
          rcases hf with rfl | hf
          · simpa [Inv_setText] using htop
          · exact hrest f hf
      | ignored => exact ⟨by simp, hall⟩
      | eof => exact Inv_unwind top rest htop hrest
      | err p m => trivial

theorem StInv_run (evs : List Ev) (s : St) (h : StInv s) : StInv (runEvents s evs) := by
  induction evs generalizing s with
  | nil => exact h
  | cons e es ih => exact ih _ (StInv_step s e h)

theorem Inv_finish {s : St} (h : StInv s) {w : Elem} (hw : finish s = .ok w) : w.Inv = true := by
  cases s with
  | run stack =>
    cases stack with
    | nil => simp [finish] at hw
    | cons top rest =>
      simp only [finish, Except.ok.injEq] at hw
      subst hw
      exact Inv_unwind top rest (h.2 top (by simp)) (fun f hf => h.2 f (by simp [hf]))
  | done w' => simp only [finish, Except.ok.injEq] at hw; subst hw; exact h
  | fail e => simp [finish] at hw

theorem Inv_buildFrom (w : Elem) (hw : w.Inv = true) (evs : List Ev) (t : Elem) (h : buildFrom w evs = .ok t) : t.Inv = true := by
  unfold buildFrom at h
  cases hf : finish (runEvents (.run [⟨w, [], none⟩]) evs) with
  | error e => rw [hf] at h; cases h
  | ok w' =>
    rw [hf] at h
    have h0 : StInv (.run [⟨w, [], none⟩]) := ⟨by simp, by intro f hf; simp at hf; subst hf; exact hw⟩
    have hw' : w'.Inv = true := Inv_finish (StInv_run evs _ h0) hf
    simp only at h
    rw [extractRoot_eq] at h
    cases hc : w'.children with
    | nil => rw [hc] at h; simp at h
    | cons d ds =>
      rw [hc] at h
      simp only [List.cons_ne_nil, if_false, Except.ok.injEq] at h
      subst h
      exact Inv_children hw' (by rw [hc]; simp)

/-- whatever the input, a tree returned by `into_struct` has unique child names at every depth -/
theorem Inv_intoStruct (evs : List Ev) (t : Elem) (h : intoStruct evs = .ok t) : t.Inv = true :=
  Inv_buildFrom wrapper0 (Inv_new _ _) evs t h

/-- and `extend_struct` preserves this -/
theorem Inv_extendStruct (t : Elem) (ht : t.Inv = true) (evs : List Ev) (t' : Elem) (h : extendStruct t evs = .ok t') : t'.Inv = true :=
  Inv_buildFrom _ (Inv_addChild t wrapper0 ht (Inv_new _ _)) evs t' h

end Xsg
