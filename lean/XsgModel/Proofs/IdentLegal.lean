import XsgModel.Proofs.CharLemmas
import XsgModel.Proofs.IdentMap
import XsgModel.Proofs.Necessity
import XsgModel.Model.RustSyntax
/-! the field identifiers produced by `identifier::Map::new` are legal, non-keyword Rust identifiers (on Σ) -/
namespace Xsg

def GoodStart : Name → Prop
  | [] => False
  | c :: cs => xidStart c = true ∨ (c = '_' ∧ cs ≠ [])

theorem legalIdent_iff (n : Name) :
    legalIdent n = true ↔ GoodStart n ∧ n.tail.all xidContinue = true ∧ isKeyword n = false := by
  cases n with
  | nil => simp [legalIdent, GoodStart]
  | cons c cs =>
    simp only [legalIdent, GoodStart, List.tail_cons, Bool.and_eq_true, Bool.or_eq_true, decide_eq_true_eq,
      Bool.not_eq_eq_eq_not, Bool.not_true, List.isEmpty_iff]
    constructor
    · rintro ⟨⟨h1, h2⟩, h3⟩
      refine ⟨?_, h2, h3⟩
      rcases h1 with h1 | ⟨h1, h1'⟩
      · exact Or.inl h1
      · exact Or.inr ⟨h1, by simpa using h1'⟩
    · rintro ⟨h1, h2, h3⟩
      refine ⟨⟨?_, h2⟩, h3⟩
      rcases h1 with h1 | ⟨h1, h1'⟩
      · exact Or.inl h1
      · exact Or.inr ⟨h1, by simpa using h1'⟩

theorem GoodStart_append {v : Name} (h : GoodStart v) (w : Name) : GoodStart (v ++ w) := by
  cases v with
  | nil => exact absurd h (by simp [GoodStart])
  | cons c cs =>
    simp only [GoodStart, List.cons_append] at h ⊢
    rcases h with h | ⟨h, h'⟩
    · exact Or.inl h
    · exact Or.inr ⟨h, by simp [h']⟩

theorem keyword_no_underscore : ∀ k ∈ keywords, '_' ∉ k := by decide

theorem not_keyword_of_underscore {n : Name} (h : '_' ∈ n) : isKeyword n = false := by
  cases hk : isKeyword n with
  | false => rfl
  | true =>
    have : n ∈ keywords := by simpa [isKeyword] using hk
    exact absurd h (keyword_no_underscore n this)

theorem xidContinue_of_alnum {c : Char} (h : isAlnum c = true) : xidContinue c = true := by simp [xidContinue, h]
theorem xidContinue_underscore : xidContinue '_' = true := by decide

/-! ### `to_snake_case` -/
def snakeRun (s : SnakeState) (l : Name) : SnakeState := l.foldl snakeStep s

theorem snake_eq (n : Name) : snake n = (snakeRun ⟨[], false, false⟩ n).out := rfl

theorem snakeStep_out (s : SnakeState) (c : Char) :
    ∃ t, (snakeStep s c).out = s.out ++ t ∧ t.all xidContinue = true ∧ (isAlnum c = true → t ≠ []) := by
  unfold snakeStep
  by_cases hu : isUpper c = true
  · obtain ⟨d, hd, hlow, _⟩ := toLower_upper hu
    simp only [hu, if_true, hd]
    split
    · exact ⟨['_', d], by simp, by simp [xidContinue_underscore, xidContinue_of_alnum (isLower_alnum hlow)], fun _ => by simp⟩
    · exact ⟨[d], rfl, by simp [xidContinue_of_alnum (isLower_alnum hlow)], fun _ => by simp⟩
  · simp only [hu, Bool.false_eq_true, if_false]
    by_cases ha : isAlnum c = true
    · simp only [ha, Bool.not_true, Bool.false_eq_true, if_false]
      exact ⟨[c], rfl, by simp [xidContinue_of_alnum ha], fun _ => by simp⟩
    · have ha' : isAlnum c = false := by cases hx : isAlnum c <;> simp_all
      simp only [ha', Bool.not_false, if_true]
      split
      · exact ⟨['_'], rfl, by simp [xidContinue_underscore], fun h => by simp at h⟩
      · exact ⟨[], by simp, by simp, fun h => by simp at h⟩

theorem snakeRun_out (l : Name) (s : SnakeState) :
    ∃ t, (snakeRun s l).out = s.out ++ t ∧ t.all xidContinue = true ∧ ((∃ c ∈ l, isAlnum c = true) → t ≠ []) := by
  induction l generalizing s with
  | nil => exact ⟨[], by simp [snakeRun], rfl, by simp⟩
  | cons c cs ih =>
    obtain ⟨t1, h1, h2, h3⟩ := snakeStep_out s c
    obtain ⟨t2, g1, g2, g3⟩ := ih (snakeStep s c)
    refine ⟨t1 ++ t2, ?_, by simp [h2, g2], ?_⟩
    · show (snakeRun (snakeStep s c) cs).out = _
      rw [g1, h1, List.append_assoc]
    · rintro ⟨x, hx, hxa⟩
      simp only [List.mem_cons] at hx
      rcases hx with rfl | hx
      · have := h3 hxa; intro e; exact this (List.append_eq_nil_iff.mp e).1
      · have := g3 ⟨x, hx, hxa⟩; intro e; exact this (List.append_eq_nil_iff.mp e).2

theorem snake_all (n : Name) : (snake n).all xidContinue = true := by
  obtain ⟨t, h1, h2, _⟩ := snakeRun_out n ⟨[], false, false⟩
  rw [snake_eq, h1]; simpa using h2

/-- `to_valid_key` first maps ':' to '_'; `to_snake_case` cannot tell them apart -/
theorem snakeStep_colon (s : SnakeState) : snakeStep s ':' = snakeStep s '_' := by
  unfold snakeStep
  have h1 : isUpper ':' = false := by decide
  have h2 : isUpper '_' = false := by decide
  have h3 : isAlnum ':' = false := by decide
  have h4 : isAlnum '_' = false := by decide
  simp [h1, h2, h3, h4]

theorem snake_map_colon (n : Name) : snake (n.map fun c => if c = ':' then '_' else c) = snake n := by
  simp only [snake, List.foldl_map]
  congr 1
  suffices ∀ (l : Name) (s : SnakeState),
      l.foldl (fun s c => snakeStep s (if c = ':' then '_' else c)) s = l.foldl snakeStep s from this n _
  intro l
  induction l with
  | nil => intro s; rfl
  | cons c cs ih =>
    intro s
    simp only [List.foldl_cons]
    by_cases hc : c = ':'
    · subst hc; simp only [if_true]; rw [← snakeStep_colon]; exact ih _
    · simp only [hc, if_false]; exact ih _

/-- the side condition of C04 on one name: its first alphanumeric character exists and is a letter -/
def LetterFirst (n : Name) : Prop := ∃ c, n.find? isAlnum = some c ∧ isLetter c = true

theorem nameOK_letterFirst {n : Name} (h : nameOK n = true) : LetterFirst n := by
  simp only [nameOK, Bool.and_eq_true] at h
  cases hf : n.find? isAlnum with
  | none => rw [hf] at h; simp at h
  | some c => rw [hf] at h; exact ⟨c, hf ▸ rfl, h.2⟩

theorem isLetter_xidStart {c : Char} (h : isLetter c = true) : xidStart c = true := h

theorem lower_isLetter {d : Char} (h1 : isLower d = true) (h2 : isDigit d = false) : isLetter d = true := by
  simp [isLetter, isLower_alnum h1, h2]

theorem GoodStart_snake {n : Name} (h : LetterFirst n) : GoodStart (snake n) := by
  obtain ⟨c, hf, hl⟩ := h
  cases n with
  | nil => simp at hf
  | cons c0 rest =>
    rw [snake_eq]
    show GoodStart (snakeRun (snakeStep ⟨[], false, false⟩ c0) rest).out
    obtain ⟨t, ht, _, hgrow⟩ := snakeRun_out rest (snakeStep ⟨[], false, false⟩ c0)
    rw [ht]
    by_cases ha : isAlnum c0 = true
    · -- the first character is the first alphanumeric one, hence a letter
      have hc : c = c0 := by simp [List.find?_cons, ha] at hf; exact hf.symm
      subst hc
      apply GoodStart_append
      unfold snakeStep
      by_cases hu : isUpper c = true
      · obtain ⟨d, hd, hlow, hdig⟩ := toLower_upper hu
        simp [hu, hd, GoodStart, isLetter_xidStart (lower_isLetter hlow hdig)]
      · simp [hu, ha, GoodStart, isLetter_xidStart hl]
    · -- a separator first: '_' followed by at least the letter found later
      have hu : isUpper c0 = false := by
        cases hu : isUpper c0 with
        | false => rfl
        | true => exact absurd (isUpper_alnum hu) ha
      have hrest : ∃ x ∈ rest, isAlnum x = true := by
        simp only [List.find?_cons, ha] at hf
        exact ⟨c, List.mem_of_find?_eq_some hf, by have := List.find?_some hf; exact this⟩
      have hout : (snakeStep ⟨[], false, false⟩ c0).out = ['_'] := by
        unfold snakeStep; simp [hu, ha]
      rw [hout]
      show GoodStart ('_' :: t)
      exact Or.inr ⟨rfl, hgrow hrest⟩

/-! ### `to_valid_key`, `create_unused_name` -/
theorem validKey_legal (pre n : Name) (hp : LetterFirst pre) (hn : LetterFirst n) :
    GoodStart (validKey pre n) ∧ (validKey pre n).all xidContinue = true ∧ isKeyword (validKey pre n) = false := by
  unfold validKey
  simp only [snake_map_colon]
  by_cases hk : isKeyword (snake n) = true
  · simp only [hk, if_true]
    refine ⟨?_, ?_, ?_⟩
    · rw [List.append_assoc]; exact GoodStart_append (GoodStart_snake hp) _
    · simp [snake_all, xidContinue_underscore]
    · exact not_keyword_of_underscore (by simp)
  · simp only [hk, Bool.false_eq_true, if_false]
    exact ⟨GoodStart_snake hn, snake_all n, by simpa using hk⟩

theorem dec_xidContinue (i : Nat) : (dec i).all xidContinue = true := by
  have := dec_all_digits i
  rw [List.all_eq_true] at this ⊢
  intro c hc
  have hd := this c hc
  simp [xidContinue, isAlnum, hd]

theorem all_tail {p : Char → Bool} {l : Name} (h : l.all p = true) : l.tail.all p = true := by
  cases l with
  | nil => rfl
  | cons c cs => simp only [List.all_cons, Bool.and_eq_true] at h; exact h.2

/-- every name handed out by `create_unused_name` for a converted key is a legal identifier -/
theorem createUnused_legal (reserved : List Name) (v : Name) (ty : IType)
    (h1 : GoodStart v) (h2 : v.all xidContinue = true) (h3 : isKeyword v = false) :
    legalIdent (createUnused reserved v ty) = true := by
  rw [legalIdent_iff]
  unfold createUnused
  -- the base name
  have hbase : GoodStart (identBase reserved v ty) ∧ (identBase reserved v ty).all xidContinue = true ∧
      isKeyword (identBase reserved v ty) = false := by
    unfold identBase
    split
    · exact ⟨Or.inl (by decide), by decide, by decide⟩
    · split
      · refine ⟨GoodStart_append h1 _, ?_, not_keyword_of_underscore (by simp)⟩
        have : (cl!"_attr").all xidContinue = true := by decide
        simp [h2, this]
      · exact ⟨h1, h2, h3⟩
  obtain ⟨b1, b2, b3⟩ := hbase
  rcases firstFree_cases reserved (identBase reserved v ty) (fun i => identBase reserved v ty ++ ['_'] ++ dec i) with h | ⟨i, _, h⟩
  · rw [h]; exact ⟨b1, all_tail b2, b3⟩
  · rw [h]
    refine ⟨?_, all_tail ?_, not_keyword_of_underscore (by simp)⟩
    · rw [List.append_assoc]; exact GoodStart_append b1 _
    · simp [b2, xidContinue_underscore, dec_xidContinue]

end Xsg

namespace Xsg

theorem identLoop_created (pre : Name) (ty : IType) (reals reserved : List Name) (acc : List (Name × Name)) :
    ∀ p ∈ (identLoop pre ty reals reserved acc).2, p ∈ acc ∨ ∃ r, p.1 ∈ reals ∧ p.2 = createUnused r (validKey pre p.1) ty := by
  induction reals generalizing reserved acc with
  | nil => intro p hp; exact Or.inl hp
  | cons x xs ih =>
    intro p hp
    simp only [identLoop] at hp
    rcases ih _ _ p hp with h | ⟨r, h1, h2⟩
    · simp only [List.mem_append, List.mem_singleton] at h
      rcases h with h | rfl
      · exact Or.inl h
      · exact Or.inr ⟨reserved, by simp, rfl⟩
    · exact Or.inr ⟨r, by simp [h1], h2⟩

theorem identLookup_mem {m : List (Name × Name)} {k v : Name} (h : identLookup m k = some v) : (k, v) ∈ m := by
  unfold identLookup at h
  simp only [Option.map_eq_some_iff] at h
  obtain ⟨p, hp, rfl⟩ := h
  have h1 := List.mem_of_find?_eq_some hp
  have h2 := List.find?_some hp
  simp only [decide_eq_true_eq] at h2
  rw [List.mem_reverse] at h1
  rw [← h2]; exact h1

/-- every identifier of the map is a legal identifier, provided the element name and the names it maps
have a letter before any digit -/
theorem identMap_legal (e : Elem) (he : LetterFirst e.name)
    (ha : ∀ a ∈ e.attrs, LetterFirst a.2) (hc : ∀ c ∈ e.children, LetterFirst c.2.name) :
    (∀ p ∈ (identMap e).child, legalIdent p.2 = true) ∧ (∀ p ∈ (identMap e).attr, legalIdent p.2 = true) ∧
    legalIdent (identMap e).text = true := by
  have key : ∀ (r : List Name) (real : Name) (ty : IType), LetterFirst real → legalIdent (createUnused r (validKey e.name real) ty) = true := by
    intro r real ty hr
    obtain ⟨g1, g2, g3⟩ := validKey_legal e.name real he hr
    exact createUnused_legal r _ ty g1 g2 g3
  refine ⟨?_, ?_, ?_⟩
  · intro p hp
    have : (identMap e).child = (identLoop e.name .child (e.children.map (·.2.name)) [] []).2 := by simp [identMap]
    rw [this] at hp
    rcases identLoop_created _ _ _ _ _ p hp with h | ⟨r, h1, h2⟩
    · cases h
    · rw [h2]
      simp only [List.mem_map] at h1
      obtain ⟨c, hcm, hcn⟩ := h1
      exact key r _ _ (hcn ▸ hc c hcm)
  · intro p hp
    have : (identMap e).attr = (identLoop e.name .attr (e.attrs.map (·.2)) (identLoop e.name .child (e.children.map (·.2.name)) [] []).1 []).2 := by
      simp [identMap]
    rw [this] at hp
    rcases identLoop_created _ _ _ _ _ p hp with h | ⟨r, h1, h2⟩
    · cases h
    · rw [h2]
      simp only [List.mem_map] at h1
      obtain ⟨a, ham, han⟩ := h1
      exact key r _ _ (han ▸ ha a ham)
  · have : ∃ r, (identMap e).text = createUnused r (cl!"text") .text := by
      simp only [identMap]; exact ⟨_, rfl⟩
    obtain ⟨r, hr⟩ := this
    rw [hr]
    exact createUnused_legal r _ _ (Or.inl (by decide)) (by decide) (by decide)

end Xsg

namespace Xsg

theorem identLookup_some_of_mem (reals created : List Name) (hlen : created.length = reals.length) (hnd : reals.Nodup)
    {k : Name} (hk : k ∈ reals) : ∃ v, identLookup (reals.zip created) k = some v := by
  obtain ⟨i, hi, rfl⟩ := List.getElem_of_mem hk
  exact ⟨_, identLookup_zip reals created hlen hnd i hi⟩

/-- every field identifier of a rendered struct is a legal, non-keyword Rust identifier -/
theorem fields_legal (o : Options) (H : Name → Option Nat) (names' : List (List Name × Name)) (en : Entry)
    (hn : LetterFirst en.elem.name) (ha : ∀ a ∈ en.elem.attrs, LetterFirst a.2) (hc : ∀ c ∈ en.elem.children, LetterFirst c.2.name)
    (hnda : (en.elem.attrs.map (fun a : Nec × Name => a.2)).Nodup)
    (hndc : (en.elem.children.map (fun c : Nec × Elem => c.2.name)).Nodup) :
    ∀ f ∈ (structOf o H names' en).fields, legalIdent f.ident = true := by
  obtain ⟨cc, ca, hlc, hla, hch, hat, -⟩ := identMap_spec en.elem
  obtain ⟨lc, la, lt⟩ := identMap_legal en.elem hn ha hc
  intro f hf
  simp only [structOf, List.mem_append, List.mem_map] at hf
  rcases hf with (⟨a, hsa, rfl⟩ | hf) | ⟨c, hsc, rfl⟩
  · have ham : a ∈ en.elem.attrs := by
      unfold sortedAttrs at hsa
      cases hso : o.sort <;> rw [hso] at hsa
      · exact hsa
      · exact mem_sortOn.mp hsa
    have hmem : a.2 ∈ en.elem.attrs.map (fun a : Nec × Name => a.2) := List.mem_map_of_mem ham
    obtain ⟨v, hv⟩ := identLookup_some_of_mem _ ca (by simpa using hla) hnda hmem
    simp only [attrField]
    rw [hat, hv]
    exact la _ (by rw [hat]; exact identLookup_mem hv)
  · split at hf
    · simp only [List.mem_singleton] at hf; subst hf; exact lt
    · cases hf
  · have hcm : c ∈ en.elem.children := mem_sortOn.mp hsc
    have hmem : c.2.name ∈ en.elem.children.map (fun c : Nec × Elem => c.2.name) := List.mem_map_of_mem hcm
    obtain ⟨v, hv⟩ := identLookup_some_of_mem _ cc (by simpa using hlc) hndc hmem
    simp only [childField]
    rw [hch, hv]
    exact lc _ (by rw [hch]; exact identLookup_mem hv)

end Xsg
