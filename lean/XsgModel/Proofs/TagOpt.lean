import XsgModel.Model.Absorb
import XsgModel.Proofs.Ops
/-! `count_children` / `tag_optional_children` on the child map -/
namespace Xsg
set_option linter.unusedSimpArgs false

theorem slookup_snapshot_aux (cs : List (Nec × Elem)) (d : Name) (h : (childNames cs).Nodup) :
    slookup (cs.filterMap fun d => if d.1 = .man then some (d.2.name, d.2.count) else none) d =
      match getChild cs d with
      | some (.man, D) => some D.count
      | _ => none := by
  induction cs with
  | nil => rfl
  | cons c cs ih =>
    simp only [childNames, List.map_cons, List.nodup_cons] at h
    have ih := ih h.2
    rw [getChild_cons]
    obtain ⟨nec, C⟩ := c
    by_cases hn : C.name = d
    · subst hn
      cases nec with
      | man => simp [slookup, List.filterMap_cons]
      | opt =>
        simp only [List.filterMap_cons]
        have : getChild cs C.name = none := by rw [getChild_none_iff]; exact h.1
        simp [this] at ih ⊢; simpa using ih
    · cases nec with
      | man => simp [slookup, List.filterMap_cons, List.find?_cons, hn] at ih ⊢; exact ih
      | opt => simp [List.filterMap_cons, hn] at ih ⊢; exact ih

theorem slookup_snapshot (C : Elem) (d : Name) (h : (childNames C.children).Nodup) :
    slookup (snapshot C) d = match getChild C.children d with
      | some (.man, D) => some D.count
      | _ => none := slookup_snapshot_aux _ _ h

theorem slookup_nil (d : Name) : slookup [] d = none := rfl

theorem mem_toOptional_aux (S : Snapshot) (cs : List (Nec × Elem)) (d : Name) (h : (childNames cs).Nodup) :
    d ∈ (cs.filterMap fun d =>
      if d.1 = .man then
        match slookup S d.2.name with
        | some n => if n = d.2.count then some d.2.name else none
        | none => some d.2.name
      else none) ↔
    ∃ D, getChild cs d = some (.man, D) ∧ (slookup S d = none ∨ slookup S d = some D.count) := by
  induction cs with
  | nil => simp [getChild]
  | cons c cs ih =>
    simp only [childNames, List.map_cons, List.nodup_cons] at h
    have ih := ih h.2
    rw [getChild_cons, List.filterMap_cons]
    obtain ⟨nec, C⟩ := c
    by_cases hn : C.name = d
    · subst hn
      have hno : getChild cs C.name = none := by rw [getChild_none_iff]; exact h.1
      cases nec with
      | opt => simp only [reduceCtorEq, if_false, if_true]; rw [ih]; simp [hno]
      | man =>
        simp only [if_true]
        cases hs : slookup S C.name with
        | none => simp
        | some n =>
          by_cases hc : n = C.count
          · simp [hc]
          · simp only [hc, if_false]; rw [ih]; simp [hno]; exact fun e => hc e
    · simp only [hn, if_false]
      have : d ∉ (match (if nec = Nec.man then
            match slookup S C.name with
            | some n => if n = C.count then some C.name else none
            | none => some C.name
          else none : Option Name) with | some x => [x] | none => []) := by
        split <;> simp
        rename_i x hx; intro e; subst e
        split at hx <;> (try split at hx) <;> (try split at hx) <;> simp_all
      cases hx : (if nec = Nec.man then
            match slookup S C.name with
            | some n => if n = C.count then some C.name else none
            | none => some C.name
          else none : Option Name) with
      | none => simp [hx] at *; exact ih
      | some x =>
        simp [hx] at *
        have hxd : d ≠ x := this
        simp [hxd]; exact ih

theorem mem_toOptional (S : Snapshot) (C : Elem) (d : Name) (h : (childNames C.children).Nodup) :
    d ∈ toOptional S C ↔ ∃ D, getChild C.children d = some (.man, D) ∧ (slookup S d = none ∨ slookup S d = some D.count) :=
  mem_toOptional_aux S C.children d h

theorem tagOpt_children (S) (C : Elem) : (tagOpt S C).children = (toOptional S C).reverse.foldl setChildOptional C.children := by
  simp [tagOpt]
@[simp] theorem tagOpt_name (S) (C : Elem) : (tagOpt S C).name = C.name := by simp [tagOpt]
@[simp] theorem tagOpt_count (S) (C : Elem) : (tagOpt S C).count = C.count := by cases C; rfl
@[simp] theorem tagOpt_standalone (S) (C : Elem) : (tagOpt S C).standalone = C.standalone := by cases C; rfl
@[simp] theorem tagOpt_text (S) (C : Elem) : (tagOpt S C).text = C.text := by cases C; rfl
@[simp] theorem tagOpt_attrs (S) (C : Elem) : (tagOpt S C).attrs = C.attrs := by cases C; rfl
@[simp] theorem tagOpt_position (S) (C : Elem) : (tagOpt S C).position = C.position := by cases C; rfl

theorem getChild_tagOpt (S) (C : Elem) (d : Name) (h : (childNames C.children).Nodup) :
    getChild (tagOpt S C).children d = if d ∈ toOptional S C then demote (getChild C.children d) else getChild C.children d := by
  rw [tagOpt_children, fold_setChildOptional_getChild _ _ _ h]; simp

theorem nodup_tagOpt (S) (C : Elem) (h : (childNames C.children).Nodup) : (childNames (tagOpt S C).children).Nodup := by
  rw [tagOpt_children]; exact fold_setChildOptional_nodup _ _ h

/-! ### `replaceFirst` / `tagOptIn` -/

theorem childNames_replaceFirst (cs : List (Nec × Elem)) (n : Name) (c' : Elem) (hc : c'.name = n) :
    childNames (replaceFirst cs n c') = childNames cs := by
  induction cs with
  | nil => rfl
  | cons d ds ih =>
    unfold replaceFirst; split
    · rename_i h; simp [childNames, hc, h]
    · simp only [childNames, List.map_cons] at ih ⊢; rw [ih]

theorem getChild_replaceFirst (cs : List (Nec × Elem)) (n m : Name) (c' : Elem) (hc : c'.name = n) :
    getChild (replaceFirst cs n c') m =
      if m = n then (getChild cs n).map (fun d => (d.1, c')) else getChild cs m := by
  induction cs with
  | nil => simp [replaceFirst, getChild]
  | cons d ds ih =>
    unfold replaceFirst
    by_cases hd : d.2.name = n
    · simp only [hd, if_true]
      rw [getChild_cons, getChild_cons]
      by_cases e : m = n
      · subst e; simp [hc, hd]
      · have : n ≠ m := fun h => e h.symm
        simp only [hc, this, if_false, e]
        rw [getChild_cons]; simp [hd, this]
    · simp only [hd, if_false]
      rw [getChild_cons, ih]
      by_cases e : m = n
      · subst e; simp [hd, getChild_cons]
      · simp only [e, if_false]; rw [getChild_cons]

theorem getChild_tagOptIn (cs : List (Nec × Elem)) (n m : Name) (S : Snapshot) :
    getChild (tagOptIn cs n S) m =
      if m = n then (getChild cs n).map (fun d => (d.1, tagOpt S d.2)) else getChild cs m := by
  unfold tagOptIn
  cases h : getChild cs n with
  | none =>
    simp only
    by_cases e : m = n
    · subst e; simp [h]
    · simp [e]
  | some d =>
    obtain ⟨nec, c⟩ := d
    simp only
    rw [getChild_replaceFirst _ _ _ _ (by simp [getChild_some_name h])]
    simp [h]

theorem childNames_tagOptIn (cs : List (Nec × Elem)) (n : Name) (S : Snapshot) :
    childNames (tagOptIn cs n S) = childNames cs := by
  unfold tagOptIn
  cases h : getChild cs n with
  | none => rfl
  | some d =>
    obtain ⟨nec, c⟩ := d
    exact childNames_replaceFirst _ _ _ (by simp [getChild_some_name h])

end Xsg
