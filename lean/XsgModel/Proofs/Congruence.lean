import XsgModel.Proofs.InvMachine
import XsgModel.Model.Checks
/-! the machine cannot tell an event stream from its normal form (C11) -/
namespace Xsg

theorem step_ignored (s : St) (h : StInv s) : step s .ignored = s := by
  cases s with
  | done w => rfl
  | fail e => rfl
  | run stack =>
    cases stack with
    | nil => exact absurd rfl h.1
    | cons top rest => rfl

theorem setText_setText (e : Elem) : (e.setText true).setText true = e.setText true := by cases e; rfl

theorem step_text_text (s : St) (a b : Name) : step (step s (.text (.ok a))) (.text (.ok b)) = step s (.text (.ok a)) := by
  cases s with
  | done w => rfl
  | fail e => rfl
  | run stack =>
    cases stack with
    | nil => rfl
    | cons top rest => simp [step, setText_setText]

theorem step_cdata_text (s : St) (a b : Name) : step s (.cdata (.ok a)) = step s (.text (.ok b)) := by
  cases s with
  | done w => rfl
  | fail e => rfl
  | run stack =>
    cases stack with
    | nil => rfl
    | cons top rest => rfl

theorem step_text_any (s : St) (a b : Name) : step s (.text (.ok a)) = step s (.text (.ok b)) := by
  cases s with
  | done w => rfl
  | fail e => rfl
  | run stack =>
    cases stack with
    | nil => rfl
    | cons top rest => rfl

theorem replaceFirst_self {cs : List (Nec × Elem)} {n : Name} {nec : Nec} {c : Elem} (h : getChild cs n = some (nec, c)) :
    replaceFirst cs n c = cs := by
  induction cs with
  | nil => rfl
  | cons d ds ih =>
    rw [getChild_cons] at h
    unfold replaceFirst
    split
    · rename_i hd
      simp only [hd, if_true, Option.some.injEq] at h
      rw [h]
    · rename_i hd
      simp only [hd, if_false] at h
      rw [ih h]

/-- `<x/>` and `<x></x>` do the same to the parent (needs unique child names inside the stored child, which
is why fix F2 and the invariant matter) -/
theorem closeTag_empty_eq (top : Frame) (k : Name) (as : List Name) (h : top.elem.Inv = true) :
    closeTag (openTag top k as).1 (openTag top k as).2 ((getChild top.elem.children k).map fun c => snapshot c.2)
      = closeTag (openTag top k as).1 (openTag top k as).2 (some []) := by
  have hnd := Inv_nodup h
  have hparent : (openTag top k as).1.elem.children = eraseChild top.elem.children k := by simp [openTag_fst]
  have hndp : (childNames (openTag top k as).1.elem.children).Nodup := by rw [hparent]; exact nodup_eraseChild hnd
  rw [openTag_snd]
  cases hg : getChild top.elem.children k with
  | none =>
    obtain ⟨hn, hc, -⟩ := openChild_none (known := top.known) (as := as) hg
    have habs : getChild (openTag top k as).1.elem.children (openChild top.elem top.known k as).name = none := by
      rw [hparent, hn]; exact getChild_eraseChild_self hnd
    simp only [Option.map_none, closeTag]
    congr 1
    congr 1
    unfold tagOptIn
    rw [getChild_addUniqueChild_self habs]
    simp only
    have : tagOpt [] (withPosition (openTag top k as).1.elem.children (openChild top.elem top.known k as))
        = withPosition (openTag top k as).1.elem.children (openChild top.elem top.known k as) :=
      tagOpt_no_children _ _ (by simp [hc])
    rw [this]
    exact (replaceFirst_self (getChild_addUniqueChild_self habs)).symm
  | some p =>
    obtain ⟨nec, C⟩ := p
    obtain ⟨hn, hc, -⟩ := openChild_some (known := top.known) (as := as) hg
    have hCinv : C.Inv = true := Inv_children h (getChild_some_mem hg)
    have habs : getChild (openTag top k as).1.elem.children (openChild top.elem top.known k as).name = none := by
      rw [hparent, hn]; exact getChild_eraseChild_self hnd
    simp only [Option.map_some, closeTag]
    congr 1
    congr 1
    unfold tagOptIn
    rw [getChild_addUniqueChild_self habs]
    simp only
    congr 1
    exact (tagOpt_nil_eq C _ (by simp [hc]) (Inv_nodup hCinv)).symm

theorem step_start_end (s : St) (nm : U8) (as : List AttrItem) (h : StInv s) :
    step (step s (.start nm as)) .endTag = step s (.empty nm as) := by
  cases s with
  | done w => rfl
  | fail e => rfl
  | run stack =>
    cases stack with
    | nil => rfl
    | cons top rest =>
      cases nm with
      | bad m => rfl
      | ok n =>
        cases hk : attrKeys as with
        | error e => simp [step, hk]
        | ok ks =>
          simp only [step, hk]
          rw [closeTag_empty_eq top n ks (h.2 top (by simp))]

theorem run_pushText (s : St) (l : List Ev) : runEvents s (normEvents.pushText l) = runEvents (step s (.text (.ok []))) l := by
  cases l with
  | nil => rfl
  | cons e es =>
    cases e with
    | text u =>
      cases u with
      | ok n =>
        simp only [normEvents.pushText, runEvents_cons]
        rw [step_text_text, step_text_any s n []]
      | bad m => rfl
    | _ => rfl

theorem run_norm (evs : List Ev) (s : St) (h : StInv s) : runEvents s (normEvents evs) = runEvents s evs := by
  induction evs generalizing s with
  | nil => rfl
  | cons ev evs ih =>
    cases ev with
    | ignored =>
      simp only [normEvents, runEvents_cons]
      rw [step_ignored s h]; exact ih s h
    | empty nm as =>
      simp only [normEvents, runEvents_cons]
      rw [step_start_end s nm as h]
      exact ih _ (StInv_step s _ h)
    | cdata u =>
      cases u with
      | ok n =>
        simp only [normEvents, runEvents_cons]
        rw [run_pushText, step_cdata_text s n []]
        exact ih _ (StInv_step s _ h)
      | bad m => simp only [normEvents, runEvents_cons]; exact ih _ (StInv_step s _ h)
    | text u =>
      cases u with
      | ok n =>
        simp only [normEvents, runEvents_cons]
        rw [run_pushText, step_text_any s n []]
        exact ih _ (StInv_step s _ h)
      | bad m => simp only [normEvents, runEvents_cons]; exact ih _ (StInv_step s _ h)
    | start nm as => simp only [normEvents, runEvents_cons]; exact ih _ (StInv_step s _ h)
    | endTag => simp only [normEvents, runEvents_cons]; exact ih _ (StInv_step s _ h)
    | eof => simp only [normEvents, runEvents_cons]; exact ih _ (StInv_step s _ h)
    | err p m => simp only [normEvents, runEvents_cons]; exact ih _ (StInv_step s _ h)

theorem buildFrom_norm (w : Elem) (hw : w.Inv = true) (evs : List Ev) : buildFrom w (normEvents evs) = buildFrom w evs := by
  unfold buildFrom
  have h0 : StInv (.run [⟨w, [], none⟩]) := ⟨by simp, by intro f hf; simp at hf; subst hf; exact hw⟩
  rw [run_norm evs _ h0]

end Xsg
