import XsgModel.Proofs.Central
/-! what `absorbNode` / `absorbItems` do to the child map of an activation -/
namespace Xsg

/-! ### field lemmas -/
@[simp] theorem count_setChildren (e : Elem) (cs) : (e.setChildren cs).count = e.count := by cases e; rfl
@[simp] theorem standalone_setChildren (e : Elem) (cs) : (e.setChildren cs).standalone = e.standalone := by cases e; rfl
@[simp] theorem text_setChildren (e : Elem) (cs) : (e.setChildren cs).text = e.text := by cases e; rfl
@[simp] theorem attrs_setChildren (e : Elem) (cs) : (e.setChildren cs).attrs = e.attrs := by cases e; rfl
@[simp] theorem position_setChildren (e : Elem) (cs) : (e.setChildren cs).position = e.position := by cases e; rfl
@[simp] theorem count_setText (e : Elem) (t) : (e.setText t).count = e.count := by cases e; rfl
@[simp] theorem standalone_setText (e : Elem) (t) : (e.setText t).standalone = e.standalone := by cases e; rfl
@[simp] theorem text_setText (e : Elem) (t) : (e.setText t).text = t := by cases e; rfl
@[simp] theorem attrs_setText (e : Elem) (t) : (e.setText t).attrs = e.attrs := by cases e; rfl
@[simp] theorem position_setText (e : Elem) (t) : (e.setText t).position = e.position := by cases e; rfl
@[simp] theorem count_setPosition (e : Elem) (p) : (e.setPosition p).count = e.count := by cases e; rfl
@[simp] theorem standalone_setPosition (e : Elem) (p) : (e.setPosition p).standalone = e.standalone := by cases e; rfl
@[simp] theorem text_setPosition (e : Elem) (p) : (e.setPosition p).text = e.text := by cases e; rfl
@[simp] theorem attrs_setPosition (e : Elem) (p) : (e.setPosition p).attrs = e.attrs := by cases e; rfl
@[simp] theorem count_setMultiple (e : Elem) : e.setMultiple.count = e.count := by cases e; rfl
@[simp] theorem standalone_setMultiple (e : Elem) : e.setMultiple.standalone = false := by cases e; rfl
@[simp] theorem text_setMultiple (e : Elem) : e.setMultiple.text = e.text := by cases e; rfl
@[simp] theorem attrs_setMultiple (e : Elem) : e.setMultiple.attrs = e.attrs := by cases e; rfl
@[simp] theorem position_setMultiple (e : Elem) : e.setMultiple.position = e.position := by cases e; rfl
@[simp] theorem children_increment (e : Elem) : e.increment.children = e.children := by cases e; rfl
@[simp] theorem name_increment (e : Elem) : e.increment.name = e.name := by cases e; rfl
@[simp] theorem count_increment (e : Elem) : e.increment.count = e.count + 1 := by cases e; rfl
@[simp] theorem standalone_increment (e : Elem) : e.increment.standalone = e.standalone := by cases e; rfl
@[simp] theorem text_increment (e : Elem) : e.increment.text = e.text := by cases e; rfl
@[simp] theorem attrs_increment (e : Elem) : e.increment.attrs = e.attrs := by cases e; rfl
@[simp] theorem position_increment (e : Elem) : e.increment.position = e.position := by cases e; rfl
@[simp] theorem count_mergeAttr (e : Elem) (l) : (e.mergeAttr l).count = e.count := by cases e; rfl
@[simp] theorem standalone_mergeAttr (e : Elem) (l) : (e.mergeAttr l).standalone = e.standalone := by cases e; rfl
@[simp] theorem text_mergeAttr (e : Elem) (l) : (e.mergeAttr l).text = e.text := by cases e; rfl
@[simp] theorem attrs_mergeAttr (e : Elem) (l) : (e.mergeAttr l).attrs = mergeNec e.attrs l := by cases e; rfl
@[simp] theorem position_mergeAttr (e : Elem) (l) : (e.mergeAttr l).position = e.position := by cases e; rfl
@[simp] theorem count_new (n as) : (Elem.new n as).count = 1 := rfl
@[simp] theorem standalone_new (n as) : (Elem.new n as).standalone = true := rfl
@[simp] theorem text_new (n as) : (Elem.new n as).text = false := rfl
@[simp] theorem attrs_new (n as) : (Elem.new n as).attrs = as.map (fun a => (Nec.man, a)) := rfl
@[simp] theorem children_withPosition (cs) (e : Elem) : (withPosition cs e).children = e.children := by
  unfold withPosition; split <;> simp
@[simp] theorem count_withPosition (cs) (e : Elem) : (withPosition cs e).count = e.count := by
  unfold withPosition; split <;> simp
@[simp] theorem standalone_withPosition (cs) (e : Elem) : (withPosition cs e).standalone = e.standalone := by
  unfold withPosition; split <;> simp
@[simp] theorem text_withPosition (cs) (e : Elem) : (withPosition cs e).text = e.text := by
  unfold withPosition; split <;> simp
@[simp] theorem attrs_withPosition (cs) (e : Elem) : (withPosition cs e).attrs = e.attrs := by
  unfold withPosition; split <;> simp

@[simp] theorem position_new (n as) : (Elem.new n as).position = none := rfl
theorem position_withPosition_some (cs) (e : Elem) (p : Nat) (h : e.position = some p) : (withPosition cs e).position = some p := by
  unfold withPosition; simp [h]
theorem position_withPosition_none (cs : List (Nec × Elem)) (e : Elem) (h : e.position = none) : (withPosition cs e).position = some cs.length := by
  unfold withPosition; simp [h]; cases e; rfl

theorem setChildren_self (e : Elem) : e.setChildren e.children = e := by cases e; rfl

/-- everything but children and text -/
structure Same (X X' : Elem) : Prop where
  name : X'.name = X.name
  count : X'.count = X.count
  standalone : X'.standalone = X.standalone
  attrs : X'.attrs = X.attrs
  position : X'.position = X.position

theorem Same.refl (X : Elem) : Same X X := ⟨rfl, rfl, rfl, rfl, rfl⟩
theorem Same.trans {X Y Z : Elem} (h1 : Same X Y) (h2 : Same Y Z) : Same X Z :=
  ⟨h2.name.trans h1.name, h2.count.trans h1.count, h2.standalone.trans h1.standalone, h2.attrs.trans h1.attrs, h2.position.trans h1.position⟩

/-! ### `toOptional` does not look at the position, and `tagOpt []` on an untouched element -/
theorem toOptional_congr (S : Snapshot) {C C' : Elem} (h : C'.children = C.children) : toOptional S C' = toOptional S C := by
  unfold toOptional; rw [h]

theorem tagOpt_children_congr (S : Snapshot) {C C' : Elem} (h : C'.children = C.children) :
    (tagOpt S C').children = (tagOpt S C).children := by
  rw [tagOpt_children, tagOpt_children, toOptional_congr S h, h]

theorem filterMap_congr' {α β} {f g : α → Option β} {l : List α} (h : ∀ a ∈ l, f a = g a) : l.filterMap f = l.filterMap g := by
  induction l with
  | nil => rfl
  | cons a as ih =>
    rw [List.filterMap_cons, List.filterMap_cons, h a (by simp), ih (fun b hb => h b (by simp [hb]))]

theorem toOptional_snapshot_self (C C0 : Elem) (h : C0.children = C.children) (hnd : (childNames C.children).Nodup) :
    toOptional (snapshot C) C0 = toOptional [] C0 := by
  unfold toOptional
  rw [h]
  apply filterMap_congr'
  intro d hd
  by_cases hm : d.1 = Nec.man
  · simp only [hm, if_true, slookup_nil]
    have := slookup_snapshot C d.2.name hnd
    rw [getChild_of_mem_nodup hnd hd] at this
    obtain ⟨nec, D⟩ := d
    simp only at hm; subst hm
    simp only at this
    rw [this]; simp
  · simp [hm]

theorem tagOpt_nil_eq (C C0 : Elem) (h : C0.children = C.children) (hnd : (childNames C.children).Nodup) :
    tagOpt [] C0 = tagOpt (snapshot C) C0 := by
  unfold tagOpt; rw [toOptional_snapshot_self C C0 h hnd]

theorem tagOpt_no_children (S : Snapshot) (C : Elem) (h : C.children = []) : tagOpt S C = C := by
  unfold tagOpt toOptional; rw [h]; simp; rw [← h]; exact setChildren_self C

/-! ### `openTag` / `closeTag` -/
/-- the child `parse_tag` works on: merged with the stored one, or new -/
def openChild (X : Elem) (known : List Name) (k : Name) (as : List Name) : Elem := (openTag ⟨X, known, none⟩ k as).2

theorem openTag_snd (f : Frame) (k as) : (openTag f k as).2 = openChild f.elem f.known k as := by
  unfold openChild openTag; rfl

theorem openTag_fst (f : Frame) (k as) :
    (openTag f k as).1 = { f with elem := f.elem.setChildren (eraseChild f.elem.children k) } := rfl

structure ClosedBy (parent : Frame) (child : Elem) (snap : Option Snapshot) (f' : Frame) : Prop where
  child_entry : getChild f'.elem.children child.name = some (.man,
    match snap with
    | some S => tagOpt S (withPosition parent.elem.children child)
    | none => withPosition parent.elem.children child)
  others : ∀ m, m ≠ child.name → getChild f'.elem.children m = getChild parent.elem.children m
  nodup : (childNames f'.elem.children).Nodup
  len : f'.elem.children.length = parent.elem.children.length + 1
  known : f'.known = mark parent.known child.name
  snap_eq : f'.snap = parent.snap
  same : Same parent.elem f'.elem
  text : f'.elem.text = parent.elem.text

theorem closeTag_spec (parent : Frame) (child : Elem) (snap : Option Snapshot)
    (hnd : (childNames parent.elem.children).Nodup) (habs : getChild parent.elem.children child.name = none) :
    ClosedBy parent child snap (closeTag parent child snap) := by
  have hadd := addUniqueChild_of_absent habs
  have hself := getChild_addUniqueChild_self habs
  have hne : ∀ m, m ≠ child.name → getChild (addUniqueChild parent.elem.children child) m = getChild parent.elem.children m :=
    fun m hm => getChild_addUniqueChild_ne hm
  have hnd' := nodup_addUniqueChild (c := child) hnd
  have hlen : (addUniqueChild parent.elem.children child).length = parent.elem.children.length + 1 := by rw [hadd]; simp
  cases snap with
  | none =>
    refine ⟨?_, ?_, ?_, by simpa [closeTag] using hlen, rfl, rfl, ⟨by simp [closeTag], by simp [closeTag], by simp [closeTag], by simp [closeTag], by simp [closeTag]⟩, by simp [closeTag]⟩
    · simpa [closeTag] using hself
    · intro m hm; simpa [closeTag] using hne m hm
    · simpa [closeTag] using hnd'
  | some S =>
    refine ⟨?_, ?_, ?_, ?_, rfl, rfl, ⟨by simp [closeTag], by simp [closeTag], by simp [closeTag], by simp [closeTag], by simp [closeTag]⟩, by simp [closeTag]⟩
    · simp only [closeTag, children_setChildren]
      rw [getChild_tagOptIn]; simp [hself]
    · intro m hm
      simp only [closeTag, children_setChildren]
      rw [getChild_tagOptIn]; simp [hm, hne m hm]
    · simp only [closeTag, children_setChildren]
      rw [childNames_tagOptIn]; exact hnd'
    · simp only [closeTag, children_setChildren]
      have : (tagOptIn (addUniqueChild parent.elem.children child) child.name S).length = (childNames (tagOptIn (addUniqueChild parent.elem.children child) child.name S)).length := by
        simp [childNames]
      rw [this, childNames_tagOptIn]; simpa [childNames] using hlen

end Xsg

namespace Xsg

theorem absorbNode_eq (f : Frame) (k : Name) (as : List Name) (sc : Bool) (items : Items) (hsc : sc = true → items = .nil) :
    absorbNode f (.mk k as sc items) =
      closeTag (openTag f k as).1
        (absorbItems ⟨openChild f.elem f.known k as, [], (getChild f.elem.children k).map (fun c => snapshot c.2)⟩ items).elem
        (if sc then some [] else
          (absorbItems ⟨openChild f.elem f.known k as, [], (getChild f.elem.children k).map (fun c => snapshot c.2)⟩ items).snap) := by
  cases sc with
  | true => rw [hsc rfl]; simp [absorbNode, absorbItems, openTag_snd]
  | false => simp [absorbNode, openTag_snd]

/-- facts that need no hypothesis: the activation keeps its own name, counters, attributes, position and
pending snapshot; its text flag is raised exactly by text items -/
structure Keeps (f f' : Frame) (hasText : Bool) : Prop where
  snap : f'.snap = f.snap
  same : Same f.elem f'.elem
  text : f'.elem.text = (f.elem.text || hasText)

theorem closeTag_keeps (parent : Frame) (child : Elem) (snap : Option Snapshot) : Keeps parent (closeTag parent child snap) false := by
  refine ⟨rfl, ⟨?_, ?_, ?_, ?_, ?_⟩, ?_⟩ <;> simp [closeTag]

mutual
theorem absorbNode_keeps (n : Node) (f : Frame) : Keeps f (absorbNode f n) false := by
  cases n with
  | mk k as sc items =>
    have h1 : ∀ child snap, Keeps f (closeTag (openTag f k as).1 child snap) false := by
      intro child snap
      have := closeTag_keeps (openTag f k as).1 child snap
      rw [openTag_fst] at this ⊢
      exact ⟨this.snap, ⟨by simpa using this.same.name, by simpa using this.same.count, by simpa using this.same.standalone,
        by simpa using this.same.attrs, by simpa using this.same.position⟩, by simpa using this.text⟩
    simp only [absorbNode]
    split
    · exact h1 _ _
    · exact h1 _ _
theorem absorbItems_keeps (is : Items) (f : Frame) : Keeps f (absorbItems f is) is.hasText := by
  cases is with
  | nil => exact ⟨rfl, Same.refl _, by simp [absorbItems, Items.hasText]⟩
  | elem n r =>
    have a := absorbNode_keeps n f
    have b := absorbItems_keeps r (absorbNode f n)
    simp only [absorbItems, Items.hasText]
    exact ⟨b.snap.trans a.snap, a.same.trans b.same, by rw [b.text, a.text]; simp⟩
  | text cd r =>
    have b := absorbItems_keeps r { f with elem := f.elem.setText true }
    simp only [absorbItems, Items.hasText]
    exact ⟨b.snap, ⟨by simpa using b.same.name, by simpa using b.same.count, by simpa using b.same.standalone,
      by simpa using b.same.attrs, by simpa using b.same.position⟩, by rw [b.text]; simp⟩
  | other r =>
    have b := absorbItems_keeps r f
    simp only [absorbItems, Items.hasText]
    exact b
end

/-! ### the child `parse_tag` starts from -/
theorem openChild_some {X : Elem} {known : List Name} {k : Name} {as : List Name} {nec C}
    (h : getChild X.children k = some (nec, C)) :
    let C0 := openChild X known k as
    C0.name = k ∧ C0.children = C.children ∧ C0.count = C.count + 1 ∧
    C0.standalone = (C.standalone && !known.contains k) ∧ C0.attrs = mergeNec C.attrs (as.map fun a => (Nec.man, a)) ∧
    C0.text = C.text ∧ C0.position = C.position := by
  have hn : C.name = k := getChild_some_name h
  simp only [openChild, openTag, h]
  by_cases hk : k ∈ known <;> simp [hk, hn]

theorem openChild_none {X : Elem} {known : List Name} {k : Name} {as : List Name}
    (h : getChild X.children k = none) :
    let C0 := openChild X known k as
    C0.name = k ∧ C0.children = [] ∧ C0.count = 1 ∧
    C0.standalone = (!known.contains k) ∧ C0.attrs = as.map (fun a => (Nec.man, a)) ∧ C0.text = false ∧ C0.position = none := by
  simp only [openChild, openTag, h]
  by_cases hk : k ∈ known <;> simp [hk]

theorem Node.ok_mk {k as sc items} (h : (Node.mk k as sc items).ok = true) :
    as.Nodup ∧ (sc = true → items = .nil) ∧ items.ok = true := by
  simp only [Node.ok, Bool.and_eq_true, decide_eq_true_eq, Bool.or_eq_true, Bool.not_eq_eq_eq_not, Bool.not_true] at h
  refine ⟨h.1.1, ?_, h.2⟩
  intro hs
  rcases h.1.2 with h' | h'
  · rw [hs] at h'; cases h'
  · cases items <;> simp_all

structure NodeSpec (f f' : Frame) (n : Node) : Prop where
  nodup : (childNames f'.elem.children).Nodup
  known : ∀ d, d ∈ f'.known ↔ d ∈ f.known ∨ d = n.name
  others : ∀ d, d ≠ n.name → getChild f'.elem.children d = getChild f.elem.children d
  post : Post (getChild f.elem.children n.name) f.known (getChild f'.elem.children n.name) n.name [n]
  pos : ∀ ord, PosInv f.elem.children ord → PosInv f'.elem.children (mark ord n.name)

structure ItemsSpec (f f' : Frame) (is : Items) : Prop where
  nodup : (childNames f'.elem.children).Nodup
  known : ∀ d, d ∈ f'.known ↔ d ∈ f.known ∨ is.named d ≠ []
  post : ∀ d, Post (getChild f.elem.children d) f.known (getChild f'.elem.children d) d (is.named d)
  pos : ∀ ord, PosInv f.elem.children ord → PosInv f'.elem.children (marks ord is)

theorem Node.named_mk (k as sc items d) : (Node.mk k as sc items).named d = items.named d := rfl
theorem Node.hasText_mk (k as sc items) : (Node.mk k as sc items).hasText = items.hasText := rfl
theorem Node.attrs_mk (k as sc items) : (Node.mk k as sc items).attrs = as := rfl
theorem Node.name_mk (k as sc items) : (Node.mk k as sc items).name = k := rfl

mutual
theorem absorbNode_spec (n : Node) (f : Frame) (hnd : (childNames f.elem.children).Nodup) (hok : n.ok = true) :
    NodeSpec f (absorbNode f n) n := by
  cases n with
  | mk k as sc items =>
    obtain ⟨has, hsc, hio⟩ := Node.ok_mk hok
    rw [absorbNode_eq f k as sc items hsc]
    -- abbreviations
    let S : Option Snapshot := (getChild f.elem.children k).map (fun c => snapshot c.2)
    let C0 := openChild f.elem f.known k as
    let inner := absorbItems ⟨C0, [], S⟩ items
    have hkeep : Keeps ⟨C0, [], S⟩ inner items.hasText := absorbItems_keeps items _
    have hparent : (openTag f k as).1.elem.children = eraseChild f.elem.children k := by simp [openTag_fst]
    have hndp : (childNames (openTag f k as).1.elem.children).Nodup := by rw [hparent]; exact nodup_eraseChild hnd
    have hC0name : C0.name = k := by
      cases h : getChild f.elem.children k with
      | none => exact (openChild_none h).1
      | some p => obtain ⟨nec, C⟩ := p; exact (openChild_some h).1
    have hC1name : inner.elem.name = k := by rw [hkeep.same.name]; exact hC0name
    have habs : getChild (openTag f k as).1.elem.children inner.elem.name = none := by
      rw [hparent, hC1name]; exact getChild_eraseChild_self hnd
    have hcl := closeTag_spec (openTag f k as).1 inner.elem (if sc then some [] else inner.snap) hndp habs
    have hentry := hcl.child_entry
    have hothers := hcl.others
    have hknown := hcl.known
    rw [hC1name] at hentry hothers hknown
    have hothersX : ∀ d, d ≠ k → getChild (closeTag (openTag f k as).1 inner.elem (if sc then some [] else inner.snap)).elem.children d = getChild f.elem.children d := by
      intro d hd; rw [hothers d hd, hparent, getChild_eraseChild_ne hd]
    -- the position of the rebuilt child is that of `withPosition _ inner.elem`
    have hFpos : ∀ F, getChild (closeTag (openTag f k as).1 inner.elem (if sc then some [] else inner.snap)).elem.children k = some (Nec.man, F) →
        F.position = (withPosition (openTag f k as).1.elem.children inner.elem).position := by
      intro F hF
      rw [hentry] at hF
      have := (Prod.mk.inj (Option.some.inj hF)).2
      rw [← this]
      cases (if sc then some [] else inner.snap : Option Snapshot) <;> simp
    refine ⟨hcl.nodup, ?_, ?_, ?_, ?_⟩
    · intro d; rw [hknown, mem_mark]; simp [openTag_fst, Node.name_mk]
    · intro d hd
      simp only [Node.name_mk] at hd
      exact hothersX d hd
    rotate_left
    · -- positions
      intro ord hp
      simp only [Node.name_mk]
      by_cases hk : k ∈ ord
      · rw [mark_of_mem hk]
        have hne := (hp.mem k).mp hk
        obtain ⟨pC, hg⟩ := Option.ne_none_iff_exists'.mp hne
        obtain ⟨necC, C⟩ := pC
        · -- (indentation block)
          have hc0pos : C0.position = C.position := (openChild_some (known := f.known) (as := as) hg).2.2.2.2.2.2
          refine ⟨hp.nodup, ?_, ?_, ?_⟩
          · rw [hcl.len, hparent]
            have := length_eraseChild hg
            rw [this]; exact hp.len
          · intro d
            by_cases hd : d = k
            · subst hd; rw [hentry]; simp [hk]
            · rw [hothersX d hd]; exact hp.mem d
          · intro j d hj
            by_cases hd : d = k
            · subst hd
              obtain ⟨nec', c', hc', hpos'⟩ := hp.pos j d hj
              rw [hg] at hc'
              have hCc : C = c' := (Prod.mk.inj (Option.some.inj hc')).2
              refine ⟨_, _, hentry, ?_⟩
              rw [hFpos _ hentry]
              apply position_withPosition_some
              rw [hkeep.same.position, hc0pos, hCc]; exact hpos'
            · rw [hothersX d hd]; exact hp.pos j d hj
      · rw [mark_of_not_mem hk]
        have hg : getChild f.elem.children k = none := by
          cases hg : getChild f.elem.children k with
          | none => rfl
          | some x => exact absurd ((hp.mem k).mpr (by rw [hg]; simp)) hk
        have hc0pos : C0.position = none := (openChild_none (known := f.known) (as := as) hg).2.2.2.2.2.2
        have hlenp : (openTag f k as).1.elem.children.length = ord.length := by
          rw [hparent, eraseChild_of_absent hg]; exact hp.len
        refine ⟨by rw [← mark_of_not_mem hk]; exact nodup_mark hp.nodup k, ?_, ?_, ?_⟩
        · rw [hcl.len, hlenp]; simp
        · intro d
          by_cases hd : d = k
          · subst hd; rw [hentry]; simp
          · rw [hothersX d hd, ← hp.mem d]; simp [hd]
        · intro j d hj
          by_cases hjl : j < ord.length
          · rw [List.getElem?_append_left hjl] at hj
            have hd : d ≠ k := by
              intro e; subst e
              exact hk (List.mem_of_getElem? hj)
            rw [hothersX d hd]; exact hp.pos j d hj
          · have hjl' : ord.length ≤ j := Nat.le_of_not_lt hjl
            rw [List.getElem?_append_right hjl'] at hj
            have hj0 : j - ord.length = 0 := by
              cases hjj : j - ord.length with
              | zero => rfl
              | succ m => rw [hjj] at hj; simp at hj
            rw [hj0] at hj
            simp only [List.getElem?_cons_zero, Option.some.injEq] at hj
            subst hj
            refine ⟨_, _, hentry, ?_⟩
            rw [hFpos _ hentry, position_withPosition_none _ _ (by rw [hkeep.same.position]; exact hc0pos), hlenp]
            congr 1; omega
    · simp only [Node.name_mk]
      rw [hentry]
      unfold Post
      simp only [List.cons_ne_nil, if_false]
      refine ⟨_, rfl, ?_⟩
      cases hold : getChild f.elem.children k with
      | none =>
        have hS : S = none := by simp [S, hold]
        obtain ⟨-, hc0, hcnt, hst, hat, htx, -⟩ := openChild_none (known := f.known) (as := as) hold
        have hspec := absorbItems_spec items ⟨C0, [], S⟩ (by show (childNames C0.children).Nodup; rw [hc0]; simp [childNames]) hio
        -- the final child is `withPosition _ inner.elem`, possibly through `tagOpt []` which changes nothing
        have hF : (match (if sc then some [] else inner.snap : Option Snapshot) with
            | some S => tagOpt S (withPosition (openTag f k as).1.elem.children inner.elem)
            | none => withPosition (openTag f k as).1.elem.children inner.elem)
            = withPosition (openTag f k as).1.elem.children inner.elem := by
          cases hs : sc with
          | true =>
            have : items = .nil := hsc hs
            simp only [if_true]
            apply tagOpt_no_children
            simp only [children_withPosition]
            show (absorbItems ⟨C0, [], S⟩ items).elem.children = []
            rw [this]; simp [absorbItems]; exact hc0
          | false =>
            simp only [Bool.false_eq_true, if_false]
            rw [hkeep.snap]; show (match S with | some S => _ | none => _) = _
            rw [hS]
        rw [hF]
        simp only
        refine ⟨?_, ?_, ?_⟩
        · have hm : Matches inner.elem [Node.mk k as sc items] := by
            apply fresh_matches _ _ hspec.nodup (by simpa [Node.attrs_mk] using has)
            · rw [hkeep.same.attrs, Node.attrs_mk]; exact hat
            · rw [hkeep.text, Node.hasText_mk]
              have htx' : C0.text = false := htx
              simp [htx']
            · exact hspec.pos [] (PosInv_congr hc0 PosInv.nil)
            · intro d
              have := hspec.post d
              have e0 : getChild C0.children d = none := by rw [hc0]; rfl
              simp only at this
              rw [e0] at this
              simpa [Node.named_mk] using this
          exact hm.congr (by simp) (by simp) (by simp)
        · simp only [count_withPosition, hkeep.same.count]; simpa using hcnt
        · simp only [standalone_withPosition, hkeep.same.standalone]
          rw [hst, contains_eq_decide]; simp
      | some p =>
        obtain ⟨nec, C⟩ := p
        have hS : S = some (snapshot C) := by simp [S, hold]
        obtain ⟨-, hc0, hcnt, hst, hat, htx, -⟩ := openChild_some (known := f.known) (as := as) hold
        simp only
        -- counters and flags of the final child are those of `inner.elem`
        have hFcount : ∀ S', (tagOpt S' (withPosition (openTag f k as).1.elem.children inner.elem)).count = C.count + 1 := by
          intro S'; simp only [tagOpt_count, count_withPosition, hkeep.same.count]; exact hcnt
        have hFst : ∀ S', (tagOpt S' (withPosition (openTag f k as).1.elem.children inner.elem)).standalone
            = (C.standalone && decide (k ∉ f.known) && decide (1 < 2)) := by
          intro S'; simp only [tagOpt_standalone, standalone_withPosition, hkeep.same.standalone]
          rw [hst, contains_eq_decide]; simp
        have hsnapUsed : ∃ S', (if sc then some [] else inner.snap : Option Snapshot) = some S' ∧
            (∀ (_ : (childNames C.children).Nodup), (tagOpt S' inner.elem).children = (tagOpt (snapshot C) inner.elem).children) := by
          cases hs : sc with
          | true =>
            refine ⟨[], by simp, ?_⟩
            intro hndC
            have : items = .nil := hsc hs
            have hin : inner.elem = C0 := by show (absorbItems ⟨C0, [], S⟩ items).elem = C0; rw [this]; simp [absorbItems]
            rw [hin, tagOpt_nil_eq C C0 hc0 hndC]
          | false =>
            refine ⟨snapshot C, ?_, fun _ => rfl⟩
            simp only [Bool.false_eq_true, if_false]; rw [hkeep.snap]; exact hS
        obtain ⟨S', hS', hSeq⟩ := hsnapUsed
        rw [hS']
        simp only
        refine ⟨?_, by simpa using hFcount S', hFst S'⟩
        intro occs hocc hm
        have hndC := hm.nodup
        have hspec := absorbItems_spec items ⟨C0, [], S⟩ (by show (childNames C0.children).Nodup; rw [hc0]; exact hndC) hio
        have hmm : Matches (tagOpt (snapshot C) inner.elem) (occs ++ [Node.mk k as sc items]) := by
          apply merge_matches _ _ _ _ hocc hm hspec.nodup (by simpa [Node.attrs_mk] using has)
          · rw [hkeep.same.attrs, Node.attrs_mk]; exact hat
          · rw [hkeep.text, Node.hasText_mk]
            have htx' : C0.text = C.text := htx
            simp [htx']
          · exact hspec.pos (orderOf occs) (PosInv_congr hc0 hm.posInv)
          · intro d
            have := hspec.post d
            simp only at this
            rw [hc0] at this
            simpa [Node.named_mk] using this
        refine hmm.congr (by simp) (by simp) ?_
        rw [tagOpt_children_congr S' (children_withPosition _ inner.elem)]
        exact hSeq hndC
theorem absorbItems_spec (is : Items) (f : Frame) (hnd : (childNames f.elem.children).Nodup) (hok : is.ok = true) :
    ItemsSpec f (absorbItems f is) is := by
  cases is with
  | nil => exact ⟨hnd, by simp [absorbItems, Items.named], by intro d; simp [absorbItems, Items.named, Post], fun ord hp => hp⟩
  | other r =>
    have := absorbItems_spec r f hnd (by simpa [Items.ok] using hok)
    exact ⟨this.nodup, by simpa [absorbItems, Items.named] using this.known, by simpa [absorbItems, Items.named] using this.post,
      fun ord hp => by simpa [absorbItems, marks] using this.pos ord hp⟩
  | text cd r =>
    have := absorbItems_spec r { f with elem := f.elem.setText true } (by simpa using hnd) (by simpa [Items.ok] using hok)
    exact ⟨this.nodup, by simpa [absorbItems, Items.named] using this.known, by simpa [absorbItems, Items.named] using this.post,
      fun ord hp => by simpa [absorbItems, marks] using this.pos ord (PosInv_congr (by simp) hp)⟩
  | elem n r =>
    simp only [Items.ok, Bool.and_eq_true] at hok
    have a := absorbNode_spec n f hnd hok.1
    have b := absorbItems_spec r (absorbNode f n) a.nodup hok.2
    simp only [absorbItems]
    refine ⟨b.nodup, ?_, ?_, fun ord hp => by simpa [marks] using b.pos _ (a.pos ord hp)⟩
    · intro d; rw [b.known d, a.known d]; simp only [Items.named]
      by_cases e : n.name = d
      · subst e; simp
      · have : d ≠ n.name := fun h => e h.symm
        simp [e, this]
    · intro d
      have hp2 := b.post d
      by_cases e : n.name = d
      · subst e
        simp only [Items.named, if_true]
        have := Post.comp (known' := (absorbNode f n).known) (by rw [a.known]; simp) a.post hp2
        simpa using this
      · simp only [Items.named, e, if_false]
        rw [a.others d (Ne.symm e)] at hp2
        refine Post.known_congr ?_ hp2
        rw [a.known]
        constructor
        · rintro (h | h); exact h; exact (e h.symm).elim
        · exact Or.inl
end

end Xsg
