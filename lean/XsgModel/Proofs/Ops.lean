import XsgModel.Model.Ops
import XsgModel.Proofs.Children
/-! the uniqueness invariant under the construction operations (C16) -/
namespace Xsg

theorem invKids_iff (cs : List (Nec × Elem)) : Elem.Inv.invKids cs = true ↔ ∀ c ∈ cs, c.2.Inv = true := by
  induction cs with
  | nil => simp [Elem.Inv.invKids]
  | cons c cs ih =>
    obtain ⟨n, e⟩ := c
    simp [Elem.Inv.invKids, ih]

theorem Inv_iff (e : Elem) : e.Inv = true ↔ (childNames e.children).Nodup ∧ ∀ c ∈ e.children, c.2.Inv = true := by
  cases e with
  | mk n t s c a cs p =>
    simp only [Elem.Inv, Bool.and_eq_true, decide_eq_true_eq, invKids_iff, Elem.children, childNames]

@[simp] theorem children_setChildren (e : Elem) (cs) : (e.setChildren cs).children = cs := by cases e; rfl
@[simp] theorem name_setChildren (e : Elem) (cs) : (e.setChildren cs).name = e.name := by cases e; rfl
@[simp] theorem children_setAttrs (e : Elem) (a) : (e.setAttrs a).children = e.children := by cases e; rfl
@[simp] theorem name_setAttrs (e : Elem) (a) : (e.setAttrs a).name = e.name := by cases e; rfl
@[simp] theorem children_setText (e : Elem) (t) : (e.setText t).children = e.children := by cases e; rfl
@[simp] theorem name_setText (e : Elem) (t) : (e.setText t).name = e.name := by cases e; rfl
@[simp] theorem children_setMultiple (e : Elem) : e.setMultiple.children = e.children := by cases e; rfl
@[simp] theorem name_setMultiple (e : Elem) : e.setMultiple.name = e.name := by cases e; rfl
@[simp] theorem children_setPosition (e : Elem) (p) : (e.setPosition p).children = e.children := by cases e; rfl
@[simp] theorem children_mergeAttr (e : Elem) (l) : (e.mergeAttr l).children = e.children := by simp [Elem.mergeAttr]
@[simp] theorem name_mergeAttr (e : Elem) (l) : (e.mergeAttr l).name = e.name := by simp [Elem.mergeAttr]
@[simp] theorem children_new (n as) : (Elem.new n as).children = [] := rfl
@[simp] theorem name_new (n as) : (Elem.new n as).name = n := rfl

theorem Inv_setPosition (e : Elem) (p) : (e.setPosition p).Inv = e.Inv := by cases e; rfl

theorem Inv_withPosition (cs) (e : Elem) : (withPosition cs e).Inv = e.Inv := by
  unfold withPosition; split
  · exact Inv_setPosition _ _
  · rfl

theorem Inv_new (n as) : (Elem.new n as).Inv = true := by rw [Inv_iff]; simp [childNames]

theorem childNames_modifyFirst (cs : List (Nec × Elem)) (n : Name) (f : Elem → Elem) (hf : ∀ e, (f e).name = e.name) :
    childNames (modifyFirst cs n f) = childNames cs := by
  induction cs with
  | nil => rfl
  | cons d ds ih =>
    unfold modifyFirst; split
    · simp [childNames, hf]
    · simp only [childNames, List.map_cons] at ih ⊢; rw [ih]

theorem mem_modifyFirst {cs : List (Nec × Elem)} {n : Name} {f : Elem → Elem} {c'} (h : c' ∈ modifyFirst cs n f) :
    c' ∈ cs ∨ ∃ c ∈ cs, c' = (c.1, f c.2) := by
  induction cs with
  | nil => cases h
  | cons d ds ih =>
    unfold modifyFirst at h; split at h
    · simp only [List.mem_cons] at h
      rcases h with rfl | h
      · exact Or.inr ⟨d, by simp, rfl⟩
      · exact Or.inl (by simp [h])
    · simp only [List.mem_cons] at h
      rcases h with rfl | h
      · exact Or.inl (by simp)
      · rcases ih h with h | ⟨c, hc, e⟩
        · exact Or.inl (by simp [h])
        · exact Or.inr ⟨c, by simp [hc], e⟩

theorem name_modifyAt (path : List Name) (f : Elem → Elem) (hf : ∀ e, (f e).name = e.name) (e : Elem) :
    (modifyAt path f e).name = e.name := by
  cases path with
  | nil => exact hf e
  | cons p ps => simp [modifyAt]

/-- an operation that keeps the name and the invariant of the element it is applied to keeps the
invariant of the whole tree, wherever it is applied -/
theorem Inv_modifyAt (path : List Name) (f : Elem → Elem) (hn : ∀ e, (f e).name = e.name)
    (hf : ∀ e, e.Inv = true → (f e).Inv = true) (e : Elem) (h : e.Inv = true) : (modifyAt path f e).Inv = true := by
  induction path generalizing e with
  | nil => exact hf e h
  | cons p ps ih =>
    simp only [modifyAt]
    rw [Inv_iff] at h ⊢
    simp only [children_setChildren]
    refine ⟨by rw [childNames_modifyFirst _ _ _ (name_modifyAt ps f hn)]; exact h.1, ?_⟩
    intro c hc
    rcases mem_modifyFirst hc with hc | ⟨d, hd, rfl⟩
    · exact h.2 c hc
    · exact ih d.2 (h.2 d hd)

theorem mem_eraseChild {cs : List (Nec × Elem)} {n : Name} {c} (h : c ∈ eraseChild cs n) : c ∈ cs := by
  induction cs with
  | nil => cases h
  | cons d ds ih =>
    unfold eraseChild at h; split at h
    · exact List.mem_cons_of_mem _ h
    · simp only [List.mem_cons] at h ⊢
      rcases h with h | h
      · exact Or.inl h
      · exact Or.inr (ih h)

theorem Inv_add (name : Name) (attrs : List Name) (e : Elem) (h : e.Inv = true) :
    (e.setChildren (addUniqueChild e.children (Elem.new name attrs))).Inv = true := by
  rw [Inv_iff] at h ⊢
  simp only [children_setChildren]
  refine ⟨nodup_addUniqueChild h.1, ?_⟩
  intro c hc
  cases hg : getChild e.children (Elem.new name attrs).name with
  | some d => rw [addUniqueChild_of_present (by rw [hg]; rfl)] at hc; exact h.2 c hc
  | none =>
    rw [addUniqueChild_of_absent hg] at hc
    simp only [List.mem_append, List.mem_singleton] at hc
    rcases hc with hc | rfl
    · exact h.2 c hc
    · simp [Inv_withPosition, Inv_new]

theorem Inv_setOptional (name : Name) (e : Elem) (h : e.Inv = true) :
    (e.setChildren (setChildOptional e.children name)).Inv = true := by
  rw [Inv_iff] at h ⊢
  simp only [children_setChildren]
  refine ⟨nodup_setChildOptional h.1, ?_⟩
  intro c hc
  cases hg : getChild e.children name with
  | none => rw [setChildOptional_of_absent hg] at hc; exact h.2 c hc
  | some d =>
    rw [setChildOptional_of_present h.1 hg] at hc
    simp only [List.mem_append, List.mem_singleton] at hc
    rcases hc with hc | rfl
    · exact h.2 c (mem_eraseChild hc)
    · exact h.2 d (getChild_some_mem hg)

theorem Inv_remove (name : Name) (e : Elem) (h : e.Inv = true) :
    (e.setChildren (eraseChild e.children name)).Inv = true := by
  rw [Inv_iff] at h ⊢
  simp only [children_setChildren]
  exact ⟨nodup_eraseChild h.1, fun c hc => h.2 c (mem_eraseChild hc)⟩

theorem Inv_of_children_eq {e e' : Elem} (hc : e'.children = e.children) (h : e.Inv = true) : e'.Inv = true := by
  rw [Inv_iff] at h ⊢; rw [hc]; exact h

/-- the element reached by `get_child` along a path of a tree with the invariant has the invariant -/
theorem Inv_elemAt : ∀ (path : List Name) (t e : Elem), t.Inv = true → elemAt path t = some e → e.Inv = true
  | [], t, e, h, he => by simp only [elemAt, Option.some.injEq] at he; rw [← he]; exact h
  | p :: ps, t, e, h, he => by
    simp only [elemAt] at he
    split at he
    · rename_i nec c hg
      exact Inv_elemAt ps c e (((Inv_iff t).mp h).2 (nec, c) (getChild_some_mem hg)) he
    · cases he

end Xsg
