import XsgModel.Proofs.PascalLegal
/-! reading the printed program back gives the program: `readProgram (printAST p) = some (p.map plain)` -/
namespace Xsg

theorem stripPrefix?_append (p s : Name) : stripPrefix? p (p ++ s) = some s := by
  induction p with
  | nil => rfl
  | cons c cs ih => simp [stripPrefix?, ih]

theorem stripSuffix?_append (suf s : Name) : stripSuffix? suf (s ++ suf) = some s := by
  unfold stripSuffix?
  rw [List.reverse_append, stripPrefix?_append]; simp

theorem stripPrefix?_head_ne (p : Char) (ps : Name) (c : Char) (cs : Name) (h : p ≠ c) : stripPrefix? (p :: ps) (c :: cs) = none := by
  simp [stripPrefix?, h]

/-! ### lines -/
def NoNL (l : Name) : Prop := '\n' ∉ l

theorem go_line (line : Name) (h : NoNL line) (rest cur : Name) (acc : List Name) :
    splitLines.go (line ++ '\n' :: rest) cur acc = splitLines.go rest [] ((line.reverse ++ cur).reverse :: acc) := by
  induction line generalizing cur with
  | nil => simp [splitLines.go]
  | cons c cs ih =>
    have hc : c ≠ '\n' := by intro e; apply h; simp [e]
    have hcs : NoNL cs := by intro hm; apply h; simp [hm]
    simp only [List.cons_append, splitLines.go, hc, if_false]
    rw [ih hcs]; simp

def joinLines (lines : List Name) : Name := lines.flatMap (· ++ ['\n'])

theorem go_lines (lines : List Name) (h : ∀ l ∈ lines, NoNL l) (acc : List Name) :
    splitLines.go (joinLines lines) [] acc = (([] : Name) :: (lines.reverse ++ acc)).reverse := by
  induction lines generalizing acc with
  | nil => simp [joinLines, splitLines.go]
  | cons l ls ih =>
    simp only [joinLines, List.flatMap_cons, List.append_assoc, List.singleton_append]
    rw [go_line l (h l (by simp))]
    have := ih (fun x hx => h x (by simp [hx])) ((l.reverse ++ []).reverse :: acc)
    simp only [joinLines] at this
    rw [this]; simp

theorem splitLines_join (lines : List Name) (h : ∀ l ∈ lines, NoNL l) : splitLines (joinLines lines) = lines ++ [[]] := by
  unfold splitLines
  rw [go_lines lines h]; simp

/-! ### the lines of a program -/
def fieldLines (f : Field) : List Name :=
  (match f.rename with
   | some r => [cl!"    #[serde(rename = \"" ++ r ++ cl!"\")]"]
   | none => []) ++
  [cl!"    pub " ++ f.ident ++ cl!": " ++ f.tyString ++ cl!","]

def structLines (s : StructDef) : List Name :=
  (match s.derive with
   | some d => [cl!"#[derive(" ++ d ++ cl!")]"]
   | none => []) ++
  [cl!"pub struct " ++ s.name ++ cl!" {"] ++ s.fields.flatMap fieldLines ++ [cl!"}", []]

theorem printField_lines (f : Field) : printField f = joinLines (fieldLines f) := by
  unfold printField fieldLines joinLines
  cases f.rename <;> simp [List.append_assoc]

theorem printStruct_lines (s : StructDef) : printStruct s = joinLines (structLines s) := by
  unfold printStruct structLines joinLines
  have hf : (s.fields.map printField).flatten = (s.fields.flatMap fieldLines).flatMap (· ++ ['\n']) := by
    induction s.fields with
    | nil => rfl
    | cons f fs ih =>
      simp only [List.map_cons, List.flatten_cons, List.flatMap_cons, List.flatMap_append, ih]
      rw [printField_lines]; rfl
  cases s.derive <;> simp [List.append_assoc, hf, List.flatMap_append]

theorem printAST_lines (p : List StructDef) : printAST p = joinLines (p.flatMap structLines) := by
  unfold printAST joinLines
  induction p with
  | nil => rfl
  | cons s ss ih =>
    simp only [List.map_cons, List.flatten_cons, List.flatMap_cons, List.flatMap_append, ih]
    rw [printStruct_lines]; rfl

end Xsg

namespace Xsg

theorem stripPrefix?_some_eq {p s r : Name} (h : stripPrefix? p s = some r) : s = p ++ r := by
  induction p generalizing s with
  | nil => simp [stripPrefix?] at h; simp [h]
  | cons c cs ih =>
    cases s with
    | nil => simp [stripPrefix?] at h
    | cons d ds =>
      simp only [stripPrefix?] at h
      split at h
      · rename_i e; subst e; rw [ih h]; rfl
      · cases h

theorem stripPrefix?_none_of_not_mem {p s : Name} (c : Char) (hc : c ∈ p) (hs : c ∉ s) : stripPrefix? p s = none := by
  cases h : stripPrefix? p s with
  | none => rfl
  | some r =>
    have := stripPrefix?_some_eq h
    exact absurd (by rw [this]; simp [hc]) hs

theorem splitColon_spec (x ty acc : Name) (h : ':' ∉ x) :
    splitColon (x ++ cl!": " ++ ty) acc = some (acc.reverse ++ x, ty) := by
  induction x generalizing acc with
  | nil =>
    simp only [List.nil_append, List.append_nil]
    show splitColon (':' :: ' ' :: ty) acc = _
    simp [splitColon, stripPrefix?]
  | cons c cs ih =>
    have hc : c ≠ ':' := by intro e; apply h; simp [e]
    have hcs : ':' ∉ cs := by intro hm; apply h; simp [hm]
    simp only [List.cons_append, splitColon]
    rw [stripPrefix?_head_ne ':' _ c _ (Ne.symm hc)]
    simp only
    rw [ih _ hcs]; simp

/-- a type name as the renderer produces it: no angle brackets -/
def PlainBase (b : Name) : Prop := '<' ∉ b ∧ '>' ∉ b

theorem parseTy_tyString (f : Field) (h : PlainBase f.base) : parseTy f.tyString = (f.opt, f.vec, f.base) := by
  have n1 : stripPrefix? (cl!"Option<Vec<") f.base = none := stripPrefix?_none_of_not_mem '<' (by decide) h.1
  have n2 : stripPrefix? (cl!"Option<") f.base = none := stripPrefix?_none_of_not_mem '<' (by decide) h.1
  have n3 : stripPrefix? (cl!"Vec<") f.base = none := stripPrefix?_none_of_not_mem '<' (by decide) h.1
  unfold Field.tyString parseTy
  cases ho : f.opt <;> cases hv : f.vec
  · simp only [n1, n2, n3]
  · -- Vec<base>
    have a1 : stripPrefix? (cl!"Option<Vec<") (cl!"Vec<" ++ f.base ++ cl!">") = none := by
      simp [stripPrefix?]
    have a2 : stripPrefix? (cl!"Option<") (cl!"Vec<" ++ f.base ++ cl!">") = none := by
      simp [stripPrefix?]
    have a3 : stripPrefix? (cl!"Vec<") (cl!"Vec<" ++ f.base ++ cl!">") = some (f.base ++ cl!">") := by
      rw [List.append_assoc]; exact stripPrefix?_append _ _
    simp only [a1, a2, a3, stripSuffix?_append, Option.getD_some]
  · -- Option<base>
    have a1 : stripPrefix? (cl!"Option<Vec<") (cl!"Option<" ++ f.base ++ cl!">") = none := by
      cases hx : stripPrefix? (cl!"Option<Vec<") (cl!"Option<" ++ f.base ++ cl!">") with
      | none => rfl
      | some r =>
        have := stripPrefix?_some_eq hx
        have e : f.base ++ cl!">" = cl!"Vec<" ++ r := by
          have h' : cl!"Option<" ++ (f.base ++ cl!">") = cl!"Option<" ++ (cl!"Vec<" ++ r) := by simpa [List.append_assoc] using this
          exact List.append_cancel_left h'
        have : '<' ∈ f.base ++ cl!">" := by rw [e]; simp
        simp only [List.mem_append, List.mem_cons, List.mem_nil_iff, or_false] at this
        rcases this with h1 | h1
        · exact absurd h1 h.1
        · exact absurd h1 (by decide)
    have a2 : stripPrefix? (cl!"Option<") (cl!"Option<" ++ f.base ++ cl!">") = some (f.base ++ cl!">") := by
      rw [List.append_assoc]; exact stripPrefix?_append _ _
    simp only [a1, a2, stripSuffix?_append, Option.getD_some]
  · have a1 : stripPrefix? (cl!"Option<Vec<") (cl!"Option<Vec<" ++ f.base ++ cl!">>") = some (f.base ++ cl!">>") := by
      rw [List.append_assoc]; exact stripPrefix?_append _ _
    simp only [a1, stripSuffix?_append, Option.getD_some]

/-- what the renderer must guarantee for a field / struct to be readable back -/
structure FieldPrintable (f : Field) : Prop where
  rename_nl : ∀ r, f.rename = some r → NoNL r
  ident_colon : ':' ∉ f.ident
  ident_nl : NoNL f.ident
  base : PlainBase f.base
  base_nl : NoNL f.base

structure StructPrintable (s : StructDef) : Prop where
  derive_nl : ∀ d, s.derive = some d → NoNL d
  name_nl : NoNL s.name
  fields : ∀ f ∈ s.fields, FieldPrintable f

theorem readLine_field (done : List PStruct) (d : Option Name) (n : Name) (fs : List PField) (f : Field) (hf : FieldPrintable f) :
    (fieldLines f).foldl (fun st l => st.bind (readLine · l))
      (some { done := done, cur := some (d, n, fs), pendingDerive := none, pendingRename := none })
    = some { done := done, cur := some (d, n, fs ++ [f.plain]), pendingDerive := none, pendingRename := none } := by
  have hbody : ∀ pr, readLine { done := done, cur := some (d, n, fs), pendingDerive := none, pendingRename := pr }
      (cl!"    pub " ++ f.ident ++ cl!": " ++ f.tyString ++ cl!",")
      = some { done := done, cur := some (d, n, fs ++ [⟨pr, f.ident, f.opt, f.vec, f.base⟩]), pendingDerive := none, pendingRename := none } := by
    intro pr
    have hne : (cl!"    pub " ++ f.ident ++ cl!": " ++ f.tyString ++ cl!",") ≠ cl!"}" := by simp
    have h1 : stripPrefix? (cl!"    #[serde(rename = \"") (cl!"    pub " ++ f.ident ++ cl!": " ++ f.tyString ++ cl!",") = none := by
      simp [stripPrefix?]
    have h2 : stripPrefix? (cl!"    pub ") (cl!"    pub " ++ f.ident ++ cl!": " ++ f.tyString ++ cl!",") = some (f.ident ++ cl!": " ++ f.tyString ++ cl!",") := by
      simp only [List.append_assoc]; exact stripPrefix?_append _ _
    have h3 : stripSuffix? (cl!",") (f.ident ++ cl!": " ++ f.tyString ++ cl!",") = some (f.ident ++ cl!": " ++ f.tyString) :=
      stripSuffix?_append _ _
    have h4 := splitColon_spec f.ident f.tyString [] hf.ident_colon
    simp only [List.reverse_nil, List.nil_append] at h4
    simp only [readLine, hne, if_false, h1, h2, h3, h4, parseTy_tyString f hf.base]
  unfold fieldLines
  cases hr : f.rename with
  | none =>
    simp only [List.nil_append, List.foldl_cons, List.foldl_nil, Option.bind_some]
    rw [hbody none]; simp [Field.plain, hr]
  | some r =>
    have hren : readLine { done := done, cur := some (d, n, fs), pendingDerive := none, pendingRename := none }
        (cl!"    #[serde(rename = \"" ++ r ++ cl!"\")]")
        = some { done := done, cur := some (d, n, fs), pendingDerive := none, pendingRename := some r } := by
      have hne : (cl!"    #[serde(rename = \"" ++ r ++ cl!"\")]") ≠ cl!"}" := by simp
      have h1 : stripPrefix? (cl!"    #[serde(rename = \"") (cl!"    #[serde(rename = \"" ++ r ++ cl!"\")]") = some (r ++ cl!"\")]") := by
        rw [List.append_assoc]; exact stripPrefix?_append _ _
      simp only [readLine, hne, if_false, h1, stripSuffix?_append]
      rfl
    simp only [List.singleton_append, List.foldl_cons, List.foldl_nil, Option.bind_some]
    rw [hren]
    simp only [Option.bind_some]
    rw [hbody (some r)]; simp [Field.plain, hr]

end Xsg

namespace Xsg

abbrev readFold (st : Option ReadState) (lines : List Name) : Option ReadState :=
  lines.foldl (fun st l => st.bind (readLine · l)) st

theorem readFold_append (st : Option ReadState) (a b : List Name) : readFold st (a ++ b) = readFold (readFold st a) b := by
  simp [readFold, List.foldl_append]

theorem read_fields (done : List PStruct) (d : Option Name) (n : Name) (fs : List Field) (acc : List PField)
    (h : ∀ f ∈ fs, FieldPrintable f) :
    readFold (some { done := done, cur := some (d, n, acc), pendingDerive := none, pendingRename := none }) (fs.flatMap fieldLines)
      = some { done := done, cur := some (d, n, acc ++ fs.map Field.plain), pendingDerive := none, pendingRename := none } := by
  induction fs generalizing acc with
  | nil => simp [readFold]
  | cons f fs ih =>
    simp only [List.flatMap_cons]
    rw [readFold_append]
    have := readLine_field done d n acc f (h f (by simp))
    simp only [readFold]
    rw [this]
    have ih' := ih (acc ++ [f.plain]) (fun x hx => h x (by simp [hx]))
    simp only [readFold] at ih'
    rw [ih']; simp

theorem read_struct (done : List PStruct) (s : StructDef) (hs : StructPrintable s) :
    readFold (some { done := done, cur := none, pendingDerive := none, pendingRename := none }) (structLines s)
      = some { done := done ++ [s.plain], cur := none, pendingDerive := none, pendingRename := none } := by
  -- header line, with whatever derive is pending
  have hheader : ∀ pd, readLine { done := done, cur := none, pendingDerive := pd, pendingRename := none }
      (cl!"pub struct " ++ s.name ++ cl!" {")
      = some { done := done, cur := some (pd, s.name, []), pendingDerive := none, pendingRename := none } := by
    intro pd
    have h0 : (cl!"pub struct " ++ s.name ++ cl!" {").isEmpty = false := by simp
    have h1 : stripPrefix? (cl!"#[derive(") (cl!"pub struct " ++ s.name ++ cl!" {") = none := by simp [stripPrefix?]
    have h2 : stripPrefix? (cl!"pub struct ") (cl!"pub struct " ++ s.name ++ cl!" {") = some (s.name ++ cl!" {") := by
      rw [List.append_assoc]; exact stripPrefix?_append _ _
    simp only [readLine, h0, Bool.false_eq_true, if_false, h1, h2, stripSuffix?_append]
    rfl
  have hclose : ∀ pd fs, readFold (some { done := done, cur := some (pd, s.name, fs), pendingDerive := none, pendingRename := none }) [cl!"}", []]
      = some { done := done ++ [⟨pd, s.name, fs⟩], cur := none, pendingDerive := none, pendingRename := none } := by
    intro pd fs
    simp [readFold, readLine]
  have hrest : ∀ pd, readFold (some { done := done, cur := none, pendingDerive := pd, pendingRename := none })
      ([cl!"pub struct " ++ s.name ++ cl!" {"] ++ s.fields.flatMap fieldLines ++ [cl!"}", []])
      = some { done := done ++ [⟨pd, s.name, s.fields.map Field.plain⟩], cur := none, pendingDerive := none, pendingRename := none } := by
    intro pd
    rw [readFold_append, readFold_append]
    have e1 : readFold (some { done := done, cur := none, pendingDerive := pd, pendingRename := none }) [cl!"pub struct " ++ s.name ++ cl!" {"]
        = some { done := done, cur := some (pd, s.name, []), pendingDerive := none, pendingRename := none } := by
      simp only [readFold, List.foldl_cons, List.foldl_nil, Option.bind_some]; exact hheader pd
    rw [e1, read_fields done pd s.name s.fields [] hs.fields, List.nil_append]
    exact hclose pd _
  unfold structLines
  cases hd : s.derive with
  | none =>
    simp only [List.nil_append]
    rw [hrest none]; simp [StructDef.plain, hd]
  | some d =>
    have hderive : readLine { done := done, cur := none, pendingDerive := none, pendingRename := none } (cl!"#[derive(" ++ d ++ cl!")]")
        = some { done := done, cur := none, pendingDerive := some d, pendingRename := none } := by
      have h0 : (cl!"#[derive(" ++ d ++ cl!")]").isEmpty = false := by simp
      have h1 : stripPrefix? (cl!"#[derive(") (cl!"#[derive(" ++ d ++ cl!")]") = some (d ++ cl!")]") := by
        rw [List.append_assoc]; exact stripPrefix?_append _ _
      simp only [readLine, h0, Bool.false_eq_true, if_false, h1, stripSuffix?_append]
      rfl
    have e : [cl!"#[derive(" ++ d ++ cl!")]"] ++ [cl!"pub struct " ++ s.name ++ cl!" {"] ++ s.fields.flatMap fieldLines ++ [cl!"}", []]
        = [cl!"#[derive(" ++ d ++ cl!")]"] ++ ([cl!"pub struct " ++ s.name ++ cl!" {"] ++ s.fields.flatMap fieldLines ++ [cl!"}", []]) := by
      simp only [List.append_assoc]
    rw [e, readFold_append]
    have e1 : readFold (some { done := done, cur := none, pendingDerive := none, pendingRename := none }) [cl!"#[derive(" ++ d ++ cl!")]"]
        = some { done := done, cur := none, pendingDerive := some d, pendingRename := none } := by
      simp only [readFold, List.foldl_cons, List.foldl_nil, Option.bind_some]; exact hderive
    rw [e1, hrest (some d)]; simp [StructDef.plain, hd]

theorem read_structs (p : List StructDef) (done : List PStruct) (h : ∀ s ∈ p, StructPrintable s) :
    readFold (some { done := done, cur := none, pendingDerive := none, pendingRename := none }) (p.flatMap structLines)
      = some { done := done ++ p.map StructDef.plain, cur := none, pendingDerive := none, pendingRename := none } := by
  induction p generalizing done with
  | nil => simp [readFold]
  | cons s ss ih =>
    simp only [List.flatMap_cons]
    rw [readFold_append, read_struct done s (h s (by simp)), ih _ (fun x hx => h x (by simp [hx]))]
    simp

theorem fieldLines_nonl (f : Field) (h : FieldPrintable f) : ∀ l ∈ fieldLines f, NoNL l := by
  intro l hl
  unfold fieldLines at hl
  have hty : NoNL f.tyString := by
    unfold Field.tyString NoNL
    have := h.base_nl
    unfold NoNL at this
    cases f.opt <;> cases f.vec <;> simp [this]
  simp only [List.mem_append, List.mem_singleton] at hl
  rcases hl with hl | rfl
  · cases hr : f.rename with
    | none => rw [hr] at hl; cases hl
    | some r =>
      rw [hr] at hl
      simp only [List.mem_singleton] at hl; subst hl
      have := h.rename_nl r hr
      unfold NoNL at this ⊢
      simp [this]
  · have h1 := h.ident_nl
    unfold NoNL at h1 hty ⊢
    simp [h1, hty]

theorem structLines_nonl (s : StructDef) (h : StructPrintable s) : ∀ l ∈ structLines s, NoNL l := by
  intro l hl
  unfold structLines at hl
  simp only [List.mem_append, List.mem_cons, List.mem_nil_iff, or_false, List.mem_flatMap] at hl
  rcases hl with ((hl | hl) | ⟨f, hf, hlf⟩) | hl | hl
  · cases hd : s.derive with
    | none => rw [hd] at hl; cases hl
    | some d =>
      rw [hd] at hl
      simp only [List.mem_singleton] at hl; subst hl
      have := h.derive_nl d hd
      unfold NoNL at this ⊢
      simp [this]
  · subst hl
    have := h.name_nl
    unfold NoNL at this ⊢
    simp [this]
  · exact fieldLines_nonl f (h.fields f hf) l hlf
  · subst hl; unfold NoNL; decide
  · subst hl; unfold NoNL; simp

/-- the reader gives back the program that was printed -/
theorem readProgram_printAST (p : List StructDef) (h : ∀ s ∈ p, StructPrintable s) :
    readProgram (printAST p) = some (p.map StructDef.plain) := by
  unfold readProgram
  rw [printAST_lines, splitLines_join _ (by
    intro l hl
    rw [List.mem_flatMap] at hl
    obtain ⟨s, hs, hls⟩ := hl
    exact structLines_nonl s (h s hs) l hls)]
  have := read_structs p [] h
  simp only [readFold, List.nil_append] at this
  rw [List.foldl_append, this]
  simp [readLine]

end Xsg
