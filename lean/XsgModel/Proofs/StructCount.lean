import XsgModel.Proofs.SpecOf
import XsgModel.Proofs.Sort
import XsgModel.Proofs.Paths
import XsgModel.Proofs.Naming
import XsgModel.Model.Checks
import XsgModel.Model.Render
/-!
# One struct per non-`String` position, and nothing else (C03)

The number of structs rendered for a tree is `structCount` of its schema: one for the root and one for every
position that is not typed `String`.
-/
namespace Xsg

theorem absKids_map (cs : List (Nec × Elem)) :
    (Elem.abs.absKids cs).map (·.2) = cs.map fun c => (c.2.name, c.1, !c.2.standalone, c.2.abs) := by
  induction cs with
  | nil => rfl
  | cons c cs ih =>
    obtain ⟨a, e⟩ := c
    simp [Elem.abs.absKids, ih]

theorem abs_kids_perm (cs : List (Nec × Elem)) :
    ((sortKeyed (Elem.abs.absKids cs)).map (·.2)).Perm (cs.map fun c => (c.2.name, c.1, !c.2.standalone, c.2.abs)) := by
  rw [← absKids_map]
  exact (perm_insertionSort _ _).map _

theorem length_flatMap_perm {α β : Type} (f : α → List β) {l₁ l₂ : List α} (h : l₁.Perm l₂) :
    (l₁.flatMap f).length = (l₂.flatMap f).length := (h.flatMap_right f).length_eq

theorem sum_perm : ∀ {l₁ l₂ : List Nat}, l₁.Perm l₂ → l₁.sum = l₂.sum := by
  intro l₁ l₂ h
  induction h with
  | nil => rfl
  | cons x _ ih => simp [ih]
  | swap x y l => simp only [List.sum_cons]; omega
  | trans _ _ ih1 ih2 => exact ih1.trans ih2

theorem walkKids_length (s : SortBy) (path trace : List Name) :
    ∀ cs : List (Nec × Elem), ((walk.walkKids s path trace cs).flatMap (·.2)).length
      = (cs.map fun c => if c.2.textOnly then 0 else (walk s path trace c.2).length).sum
  | [] => by simp [walk.walkKids]
  | (n, e) :: cs => by
    simp only [walk.walkKids, List.flatMap_append, List.length_append, List.map_cons, List.sum_cons, walkKids_length s path trace cs]
    congr 1
    split <;> simp

theorem countKids_eq (ks : List (Name × Nec × Bool × Schema)) :
    Schema.structCount.countKids ks = (ks.map fun k => if k.2.2.2.isString then 0 else k.2.2.2.structCount).sum := by
  induction ks with
  | nil => rfl
  | cons k ks ih =>
    obtain ⟨a, b, c, s⟩ := k
    simp [Schema.structCount.countKids, ih]

theorem abs_isString (e : Elem) : e.abs.isString = e.textOnly := by
  cases e with
  | mk n t s c as cs p =>
    simp only [Elem.abs, Schema.isString, Schema.text, Schema.attrs, Schema.kids, Elem.textOnly, Elem.text, Elem.attrs, Elem.children]
    congr 1
    have hp := (abs_kids_perm cs).length_eq
    simp only [List.length_map] at hp
    cases cs with
    | nil => simp [Elem.abs.absKids, sortKeyed, insertionSort]
    | cons c cs =>
      have : ((sortKeyed (Elem.abs.absKids (c :: cs))).map (·.2)) ≠ [] := by
        intro e'
        rw [List.map_eq_nil_iff] at e'
        rw [e'] at hp
        simp at hp
      cases hk : (sortKeyed (Elem.abs.absKids (c :: cs))).map (·.2) with
      | nil => exact absurd hk this
      | cons _ _ => simp

/-- the number of rendered structs is the number of non-`String` positions of the schema -/
theorem walk_length (s : SortBy) (e : Elem) : ∀ (path trace : List Name), (walk s path trace e).length = e.abs.structCount := by
  intro path trace
  rw [walk_eq]
  cases e with
  | mk n t st cnt as cs p =>
    simp only [List.length_cons, Elem.abs, Schema.structCount, countKids_eq, Elem.name, Elem.children]
    rw [Nat.add_comm]
    congr 1
    have h1 : ((sortKeyed (walk.walkKids s (path ++ [n]) (trace ++ [pascal n]) cs)).flatMap (·.2)).length
        = ((walk.walkKids s (path ++ [n]) (trace ++ [pascal n]) cs).flatMap (·.2)).length :=
      length_flatMap_perm _ (perm_insertionSort _ _)
    rw [h1, walkKids_length]
    have h2 := sum_perm ((abs_kids_perm cs).map (fun k => if k.2.2.2.isString then 0 else k.2.2.2.structCount))
    rw [h2]
    simp only [List.map_map, Function.comp_def]
    congr 1
    apply List.map_congr_left
    intro c hc
    have hlt : sizeOf c.2 < sizeOf (Elem.mk n t st cnt as cs p) := sizeOf_child_lt (e := Elem.mk n t st cnt as cs p) hc
    rw [abs_isString]
    split
    · rfl
    · exact walk_length s c.2 _ _
termination_by sizeOf e
decreasing_by
  exact hlt

end Xsg
