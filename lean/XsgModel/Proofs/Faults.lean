import XsgModel.Model.Checks
/-! the event loop fails exactly at the first fault (C08) -/
namespace Xsg

def errOf : Except PErr Elem → Option PErr
  | .ok _ => none
  | .error e => some e

theorem runEvents_done (w : Elem) (evs : List Ev) : runEvents (.done w) evs = .done w := by
  induction evs with
  | nil => rfl
  | cons e es ih => simpa [runEvents, step] using ih

theorem runEvents_fail (e : PErr) (evs : List Ev) : runEvents (.fail e) evs = .fail e := by
  induction evs with
  | nil => rfl
  | cons x es ih => simpa [runEvents, step] using ih

theorem runEvents_cons (s : St) (e : Ev) (es : List Ev) : runEvents s (e :: es) = runEvents (step s e) es := rfl

/-- the bottom activation (the synthetic wrapper) -/
def bottom : Frame → List Frame → Frame
  | f, [] => f
  | _, g :: rest => bottom g rest

/-- the wrapper has a child, or an element is still open -/
def Started (top : Frame) (rest : List Frame) : Prop := rest ≠ [] ∨ top.elem.children ≠ []

theorem addUnique_ne_nil (cs : List (Nec × Elem)) (d : Nec × Elem) : addUnique cs d ≠ [] := by
  unfold addUnique
  by_cases h : (cs.any fun c => decide (c.1 = d.1 ∧ c.2.name = d.2.name)) = true
  · rw [if_pos h]; intro e; rw [e] at h; simp at h
  · rw [if_neg h]; simp

theorem addUniqueChild_ne_nil (cs : List (Nec × Elem)) (c : Elem) : addUniqueChild cs c ≠ [] := by
  unfold addUniqueChild
  by_cases h : (getChild cs c.name).isSome = true
  · rw [if_pos h]; intro e; subst e; simp [getChild] at h
  · rw [if_neg h]; exact addUnique_ne_nil _ _

theorem replaceFirst_ne_nil {cs : List (Nec × Elem)} (h : cs ≠ []) (n : Name) (c : Elem) : replaceFirst cs n c ≠ [] := by
  cases cs with
  | nil => exact absurd rfl h
  | cons d ds => unfold replaceFirst; split <;> simp

theorem tagOptIn_ne_nil {cs : List (Nec × Elem)} (h : cs ≠ []) (n : Name) (S : Snapshot) : tagOptIn cs n S ≠ [] := by
  unfold tagOptIn; split
  · exact replaceFirst_ne_nil h _ _
  · exact h

theorem closeTag_children_ne_nil (parent : Frame) (child : Elem) (snap : Option Snapshot) :
    (closeTag parent child snap).elem.children ≠ [] := by
  unfold closeTag
  cases parent.elem with
  | mk n t s c a cs p =>
    simp only [Elem.setChildren, Elem.children]
    cases snap with
    | none => exact addUniqueChild_ne_nil _ _
    | some S => exact tagOptIn_ne_nil (addUniqueChild_ne_nil _ _) _ _

theorem unwind_children_ne_nil (top : Frame) (rest : List Frame) (h : Started top rest) :
    (unwind top rest).children ≠ [] := by
  induction rest generalizing top with
  | nil => rcases h with h | h; exact absurd rfl h; simpa [unwind] using h
  | cons p rest ih =>
    simp only [unwind]
    exact ih _ (Or.inr (closeTag_children_ne_nil _ _ _))

/-- generalised statement over every reachable configuration: the error is the first fault (depth = open
elements), and without a fault the wrapper ends up with a child iff an element had started or starts -/
theorem run_spec (evs : List Ev) (top : Frame) (rest : List Frame) :
    errOf (finish (runEvents (.run (top :: rest)) evs)) = firstFault rest.length evs ∧
    (firstFault rest.length evs = none →
      ∃ w, finish (runEvents (.run (top :: rest)) evs) = .ok w ∧
        (Started top rest → w.children ≠ []) ∧
        (¬ Started top rest → (w.children ≠ [] ↔ hasElement rest.length evs = true))) := by
  induction evs generalizing top rest with
  | nil =>
    refine ⟨rfl, fun _ => ⟨unwind top rest, rfl, unwind_children_ne_nil top rest, ?_⟩⟩
    intro hs
    have hr : rest = [] := by
      cases rest with
      | nil => rfl
      | cons _ _ => exact absurd (Or.inl (by simp)) hs
    subst hr
    have hc : top.elem.children = [] := by
      cases h : top.elem.children with
      | nil => rfl
      | cons _ _ => exact absurd (Or.inr (by simp [h])) hs
    simp [unwind, hasElement, hc]
  | cons ev evs ih =>
    rw [runEvents_cons]
    cases ev with
    | start nm attrs =>
      cases nm with
      | bad m => simp [step, runEvents_fail, finish, errOf, firstFault]
      | ok name =>
        cases hk : attrKeys attrs with
        | error e => simp [step, hk, runEvents_fail, finish, errOf, firstFault]
        | ok keys =>
          simp only [step, hk, firstFault, hasElement]
          have := ih { elem := (openTag top name keys).2, known := [], snap := (getChild top.elem.children name).map (fun c => snapshot c.2) }
            ((openTag top name keys).1 :: rest)
          simp only [List.length_cons] at this
          refine ⟨this.1, fun hn => ?_⟩
          obtain ⟨w, hw, h1, _⟩ := this.2 hn
          refine ⟨w, hw, fun _ => h1 (Or.inl (by simp)), fun _ => ?_⟩
          simp [Except.toBool, h1 (Or.inl (by simp))]
    | empty nm attrs =>
      cases nm with
      | bad m => simp [step, runEvents_fail, finish, errOf, firstFault]
      | ok name =>
        cases hk : attrKeys attrs with
        | error e => simp [step, hk, runEvents_fail, finish, errOf, firstFault]
        | ok keys =>
          simp only [step, hk, firstFault, hasElement]
          have := ih (closeTag (openTag top name keys).1 (openTag top name keys).2 (some [])) rest
          refine ⟨this.1, fun hn => ?_⟩
          obtain ⟨w, hw, h1, _⟩ := this.2 hn
          have hst : Started (closeTag (openTag top name keys).1 (openTag top name keys).2 (some [])) rest :=
            Or.inr (closeTag_children_ne_nil _ _ _)
          refine ⟨w, hw, fun _ => h1 hst, fun _ => ?_⟩
          simp [Except.toBool, h1 hst]
    | endTag =>
      cases rest with
      | nil =>
        simp only [step, runEvents_done, finish, errOf, firstFault, List.length_nil, if_true, hasElement]
        refine ⟨trivial, fun _ => ⟨top.elem, rfl, ?_, ?_⟩⟩
        · rintro (h | h); exact absurd rfl h; exact h
        · intro hs
          have hc : top.elem.children = [] := by
            cases h : top.elem.children with
            | nil => rfl
            | cons _ _ => exact absurd (Or.inr (by simp [h])) hs
          simp [hc]
      | cons parent rest' =>
        simp only [step, firstFault, hasElement, List.length_cons, Nat.add_one_ne_zero, if_false, Nat.add_sub_cancel]
        have := ih (closeTag parent top.elem top.snap) rest'
        refine ⟨this.1, fun hn => ?_⟩
        obtain ⟨w, hw, h1, _⟩ := this.2 hn
        have hst : Started (closeTag parent top.elem top.snap) rest' := Or.inr (closeTag_children_ne_nil _ _ _)
        exact ⟨w, hw, fun _ => h1 hst, fun hs => absurd (Or.inl (by simp)) hs⟩
    | text u =>
      cases u with
      | bad m => simp [step, runEvents_fail, finish, errOf, firstFault]
      | ok s =>
        simp only [step, firstFault, hasElement]
        have := ih { top with elem := top.elem.setText true } rest
        have hch : ({ top with elem := top.elem.setText true } : Frame).elem.children = top.elem.children := by
          cases top.elem; rfl
        refine ⟨this.1, fun hn => ?_⟩
        obtain ⟨w, hw, h1, h2⟩ := this.2 hn
        refine ⟨w, hw, fun hs => h1 ?_, fun hs => h2 ?_⟩
        · rcases hs with h | h; exact Or.inl h; exact Or.inr (by rw [hch]; exact h)
        · intro h; apply hs; rcases h with h | h; exact Or.inl h; exact Or.inr (by rw [← hch]; exact h)
    | cdata u =>
      cases u with
      | bad m => simp [step, runEvents_fail, finish, errOf, firstFault]
      | ok s =>
        simp only [step, firstFault, hasElement]
        have := ih { top with elem := top.elem.setText true } rest
        have hch : ({ top with elem := top.elem.setText true } : Frame).elem.children = top.elem.children := by
          cases top.elem; rfl
        refine ⟨this.1, fun hn => ?_⟩
        obtain ⟨w, hw, h1, h2⟩ := this.2 hn
        refine ⟨w, hw, fun hs => h1 ?_, fun hs => h2 ?_⟩
        · rcases hs with h | h; exact Or.inl h; exact Or.inr (by rw [hch]; exact h)
        · intro h; apply hs; rcases h with h | h; exact Or.inl h; exact Or.inr (by rw [← hch]; exact h)
    | ignored =>
      simp only [step, firstFault, hasElement]
      exact ih top rest
    | eof =>
      simp only [step, runEvents_done, finish, errOf, firstFault, hasElement]
      refine ⟨trivial, fun _ => ⟨unwind top rest, rfl, unwind_children_ne_nil top rest, ?_⟩⟩
      intro hs
      have hr : rest = [] := by
        cases rest with
        | nil => rfl
        | cons _ _ => exact absurd (Or.inl (by simp)) hs
      subst hr
      have hc : top.elem.children = [] := by
        cases h : top.elem.children with
        | nil => rfl
        | cons _ _ => exact absurd (Or.inr (by simp [h])) hs
      simp [unwind, hc]
    | err p m => simp [step, runEvents_fail, finish, errOf, firstFault]

theorem extractRoot_eq (w : Elem) : extractRoot w = if w.children = [] then .error .noRoot else
    (match w.children with | (_, c) :: _ => .ok c | [] => .error .noRoot) := by
  unfold extractRoot
  cases h : w.children with
  | nil => simp
  | cons d ds =>
    obtain ⟨n, c⟩ := d
    simp [getChild]

end Xsg
