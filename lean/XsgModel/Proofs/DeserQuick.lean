import XsgModel.Proofs.DeserGen
/-!
# The quick-xml preset is linked to the model of `quick_xml::de`

Side condition (`Elem.keysOK`): per tree element, the serde names of the attributes, and of the children, are
pairwise distinct ("no names clash after removing namespace prefixes"), and no child's serde name is `$text`
or begins with `@` (true of every XML name).
-/
namespace Xsg

/-- a child name whose serde name cannot be mistaken for the text key or an attribute key (true of every XML name) -/
def childKeyOK (k : Name) : Bool :=
  decide (removeNamespace k ≠ cl!"$text") && decide ((removeNamespace k).head? ≠ some '@')

/-- per element: serde names of attributes distinct, serde names of children distinct and well-shaped; recursively -/
def Elem.keysOK : Elem → Bool
  | .mk _ _ _ _ as cs _ =>
    decide (((as.map (·.2)).map attrLocal).Nodup) && decide (((cs.map (·.2.name)).map removeNamespace).Nodup) &&
    cs.all (fun c => childKeyOK c.2.name) && keysKids cs
where
  keysKids : List (Nec × Elem) → Bool
    | [] => true
    | (_, e) :: rest => e.keysOK && keysKids rest

theorem keysKids_iff (cs : List (Nec × Elem)) : Elem.keysOK.keysKids cs = true ↔ ∀ c ∈ cs, c.2.keysOK = true := by
  induction cs with
  | nil => simp [Elem.keysOK.keysKids]
  | cons c cs ih =>
    obtain ⟨n, e⟩ := c
    simp [Elem.keysOK.keysKids, ih]

theorem keysOK_iff (e : Elem) : e.keysOK = true ↔
    ((names e.attrs).map attrLocal).Nodup ∧ ((childNames e.children).map removeNamespace).Nodup ∧
    (∀ c ∈ e.children, childKeyOK c.2.name = true) ∧ ∀ c ∈ e.children, c.2.keysOK = true := by
  cases e with
  | mk n t s c as cs p =>
    simp only [Elem.keysOK, Bool.and_eq_true, decide_eq_true_eq, List.all_eq_true, keysKids_iff, Elem.attrs, Elem.children,
      names, childNames]
    constructor
    · rintro ⟨⟨⟨h1, h2⟩, h3⟩, h4⟩; exact ⟨h1, h2, h3, h4⟩
    · rintro ⟨h1, h2, h3, h4⟩; exact ⟨⟨⟨h1, h2⟩, h3⟩, h4⟩

abbrev oQ : Options := Options.quickXmlDe
abbrev cQ : DeCfg := DeCfg.quickXml

theorem at_ne_text (x : Name) : cl!"@" ++ x ≠ cl!"$text" := by
  intro h; cases h

theorem childKey_ne_at {k : Name} (h : childKeyOK k = true) (x : Name) : removeNamespace k ≠ cl!"@" ++ x := by
  simp only [childKeyOK, Bool.and_eq_true, decide_eq_true_eq] at h
  intro e
  apply h.2
  rw [e]; rfl

theorem childKey_ne_text {k : Name} (h : childKeyOK k = true) : removeNamespace k ≠ cl!"$text" := by
  simp only [childKeyOK, Bool.and_eq_true, decide_eq_true_eq] at h
  exact h.1

/-- every child element of an admitted document element is a child of the tree element -/
theorem admitted_child_known {e : Elem} {n : VNode} (hadm : Admits e n.erase) (c : VNode) (hc : c ∈ n.items.elems) :
    ∃ d ∈ e.children, d.2.name = c.name := by
  cases hadm with
  | intro _ _ _ _ _ hkf _ _ _ =>
    have : n.erase.named c.name ≠ [] := by
      rw [VNode.erase_named]
      intro he
      have : c ∈ n.items.elems.filter (fun d => d.name = c.name) := by simp [hc]
      rw [List.map_eq_nil_iff] at he
      rw [he] at this; cases this
    have := hkf c.name this
    rw [Ne, getChild_none_iff] at this
    have := Classical.not_not.mp this
    simpa [childNames] using this

theorem admitted_attr_known {e : Elem} {n : VNode} (hadm : Admits e n.erase) (x : Name × Str) (hx : x ∈ n.attrs) :
    x.1 ∈ names e.attrs := by
  cases hadm with
  | intro _ _ haf _ _ _ _ _ _ => exact haf x.1 (by rw [VNode.erase_attrs]; exact List.mem_map_of_mem hx)

theorem link_quick (e : Elem) (n : VNode) (hk : e.keysOK = true) (hadm : Admits e n.erase) : Link oQ cQ true e n := by
  obtain ⟨hkA, hkC, hkK, _⟩ := (keysOK_iff e).mp hk
  have hdk : ∀ d ∈ n.items.elems, childKeyOK d.name = true := by
    intro d hd
    obtain ⟨c, hc, hcn⟩ := admitted_child_known hadm d hd
    rw [← hcn]; exact hkK c hc
  refine
    { attr_iff := ?_, attr_ne_text := ?_, attr_ne_elem := ?_, text_ne_attr := ?_, text_ne_elem := ?_, child_ne_attr := ?_,
      child_ne_text := ?_, child_iff := ?_, contig := ?_, fed_eq := fun _ => rfl, fed_text := ?_, unfed_ne := fun h => by cases h }
  · intro x hx a ha
    have hx' := admitted_attr_known hadm x hx
    simp only [DeCfg.quickXml, Options.quickXmlDe, List.cons_append, List.nil_append, List.cons.injEq, true_and]
    constructor
    · intro e'; exact inj_of_nodup_map attrLocal _ hkA x.1 hx' a ha e'
    · intro e'; rw [e']
  · intro a _ e'; exact at_ne_text _ e'.symm
  · intro a _ d hd; exact childKey_ne_at (hdk d hd) _
  · intro x _; exact at_ne_text _
  · intro d hd; exact childKey_ne_text (hdk d hd)
  · intro c hc x _; exact (childKey_ne_at (hkK c hc) _).symm
  · intro c hc; exact (childKey_ne_text (hkK c hc)).symm
  · intro c hc d hd
    obtain ⟨c', hc', hcn⟩ := admitted_child_known hadm d hd
    constructor
    · intro e'
      exact inj_of_nodup_map removeNamespace _ hkC d.name (by simp only [childNames, List.mem_map]; exact ⟨c', hc', hcn⟩) c.2.name
        (by simp only [childNames, List.mem_map]; exact ⟨c, hc, rfl⟩) e'
    · intro e'; simp only [DeCfg.quickXml]; rw [e']
  · intro h; cases h
  · intro _ hne
    cases hadm with
    | intro _ _ _ _ htext _ _ _ _ =>
      apply htext
      cases n with
      | mk nm as sc items => exact texts_quick_hasText items hne

/-- the serde names of one struct's fields are pairwise distinct (quick-xml preset) -/
theorem bounds_nodup (hints names') (en : Entry) (hk : en.elem.keysOK = true) :
    ((structOf oQ hints names' en).plain.fields.map PField.bound').Nodup := by
  obtain ⟨hkA, hkC, hkK, _⟩ := (keysOK_iff en.elem).mp hk
  apply bounds_nodup_gen oQ rfl hints names' en
  · unfold List.Nodup at hkA ⊢
    rw [List.pairwise_map] at hkA ⊢
    exact hkA.imp (fun h e => h (by simpa [Options.quickXmlDe] using e))
  · exact hkC
  · intro a _; exact at_ne_text _
  · intro a _ c hc; exact (childKey_ne_at (hkK c hc) _).symm
  · intro c hc; exact (childKey_ne_text (hkK c hc)).symm

/-- the side conditions of the quick-xml preset -/
def scopeQuick : Scope oQ cQ true where
  PE := fun e => e.keysOK = true
  PN := fun _ => True
  PE_child := fun e c h hc => ((keysOK_iff e).mp h).2.2.2 c hc
  PN_child := fun _ _ _ _ => trivial
  link := fun e n hk _ _ hadm => link_quick e n hk hadm
  bounds := fun hints names' en hk _ => bounds_nodup hints names' en hk

/-- with character data fed to the text field, what is kept of an admitted element is everything it holds -/
theorem kept_eq_values (e : Elem) (n : VNode) (hinv : e.Inv = true) (hadm : Admits e n.erase) :
    n.kept true cQ e = n.values cQ := by
  rw [VNode.kept_eq, VNode.values_eq]
  simp only [if_true]
  congr 1
  apply flatMap_congr'
  intro c hc
  have hlt : sizeOf c < sizeOf n := by
    cases n with
    | mk nm as sc items =>
      have := sizeOf_elems_lt items c (by simpa [VNode.items] using hc)
      simp; omega
  have hnamed : c.erase ∈ n.erase.named c.name := by
    rw [VNode.erase_named]
    exact List.mem_map_of_mem (by simp [hc])
  obtain ⟨ce, hg⟩ : ∃ ce, getChild e.children c.name = some ce := by
    cases hadm with
    | intro _ _ _ _ _ hkf _ _ _ =>
      have := hkf c.name (by intro e'; rw [e'] at hnamed; cases hnamed)
      exact Option.ne_none_iff_exists'.mp this
  have hadmc : Admits ce.2 c.erase := by
    cases hadm with
    | intro _ _ _ _ _ _ _ _ hsub => exact hsub c.name ce.1 ce.2 hg c.erase hnamed
  unfold keptChild
  rw [hg]
  simp only
  split
  · rfl
  · exact kept_eq_values ce.2 c (Inv_children hinv (getChild_some_mem hg)) hadmc
termination_by sizeOf n

/-- **The quick-xml deserializer model returns a value for every admitted document element**, for the struct
rendered for the tree element, with and without `deny_unknown_fields`, and the value holds exactly the strings
of the element. -/
theorem deNode_ok (t : Elem) (htInv : t.Inv = true) (deny : Bool) (n : VNode) (en : Entry)
    (hen : en ∈ walk oQ.sort [] [] t) (hkeys : en.elem.keysOK = true) (hinv : en.elem.Inv = true)
    (hadm : Admits en.elem n.erase) (hok : n.erase.ok = true) (hmodel : n.inModel cQ = true) :
    ∃ v, deNode cQ ((renderAST oQ t).map StructDef.plain) deny
      (structNameOf (hintOf (fillNames [] t)) (structNames (hintOf (fillNames [] t)) t) en.path en.trace en.elem) n = .ok v ∧
      (ne v.strings).Perm (ne (n.values cQ)) := by
  obtain ⟨v, hv, hp⟩ := deNode_gen oQ cQ true rfl scopeQuick t htInv deny (fun _ => rfl) n en hen hkeys trivial hinv hadm hok hmodel
  exact ⟨v, hv, by rw [← kept_eq_values en.elem n hinv hadm]; exact hp⟩

end Xsg
