import XsgModel.Props.C06
import XsgModel.Model.De
import XsgModel.Proofs.Paths
/-!
# Names of a parsed tree are names of the documents

`TreeOK p e`: at every position of the tree the element name and the attribute names satisfy `p`, and the
attribute names are pairwise distinct.  For a tree that `Matches` documents whose names all satisfy `p`
(`Node.allNames p`) this holds (`matches_treeOK`), and it is inherited by every entry of the walk together with
the names on the entry's path (`treeOK_walk`).  This turns the per-entry side conditions of the C04 theorems into
one condition on the documents.
-/
namespace Xsg

inductive TreeOK (p : Name → Bool) : Elem → Prop
  | intro (e : Elem) (hn : p e.name = true) (ha : ∀ a ∈ names e.attrs, p a = true) (hnd : (names e.attrs).Nodup)
      (hc : ∀ c ∈ e.children, TreeOK p c.2) : TreeOK p e

theorem TreeOK.name {p e} (h : TreeOK p e) : p e.name = true := by cases h; assumption
theorem TreeOK.attrs {p e} (h : TreeOK p e) : ∀ a ∈ names e.attrs, p a = true := by cases h; assumption
theorem TreeOK.nodup {p e} (h : TreeOK p e) : (names e.attrs).Nodup := by cases h; assumption
theorem TreeOK.kids {p e} (h : TreeOK p e) : ∀ c ∈ e.children, TreeOK p c.2 := by cases h; assumption

theorem named_allNames (p : Name → Bool) (k : Name) : ∀ (items : Items) (n : Node), n ∈ items.named k →
    Node.allNames.goItems p items = true → n.allNames p = true ∧ n.name = k
  | .nil, n, h, _ => by simp [Items.named] at h
  | .elem m r, n, h, hall => by
    simp only [Node.allNames.goItems, Bool.and_eq_true] at hall
    simp only [Items.named] at h
    split at h
    · rename_i hk
      simp only [List.mem_cons] at h
      rcases h with rfl | h
      · exact ⟨hall.1, hk⟩
      · exact named_allNames p k r n h hall.2
    · exact named_allNames p k r n h hall.2
  | .text _ r, n, h, hall => named_allNames p k r n (by simpa [Items.named] using h) (by simpa [Node.allNames.goItems] using hall)
  | .other r, n, h, hall => named_allNames p k r n (by simpa [Items.named] using h) (by simpa [Node.allNames.goItems] using hall)

theorem node_named_allNames (p : Name → Bool) (k : Name) (o n : Node) (hn : n ∈ o.named k) (ho : o.allNames p = true) :
    n.allNames p = true ∧ n.name = k := by
  cases o with
  | mk nm as sc items =>
    simp only [Node.allNames, Bool.and_eq_true] at ho
    exact named_allNames p k items n (by simpa [Node.named, Node.items] using hn) ho.2

theorem node_attrs_allNames (p : Name → Bool) (o : Node) (ho : o.allNames p = true) : ∀ a ∈ o.attrs, p a = true := by
  cases o with
  | mk nm as sc items =>
    simp only [Node.allNames, Bool.and_eq_true, List.all_eq_true] at ho
    exact ho.1.2

theorem matches_treeOK (p : Name → Bool) {e : Elem} {occs : List Node} (h : Matches e occs) :
    (∀ o ∈ occs, o.allNames p = true) → p e.name = true → TreeOK p e := by
  induction h with
  | intro e occs htext hattrs hattr_man hnd hnone hman hmulti hlen hpos hsub ih =>
    intro hall hname
    refine TreeOK.intro e hname ?_ ?_ ?_
    · intro a ha
      rw [hattrs, mem_dedupNames, List.mem_flatMap] at ha
      obtain ⟨o, ho, hao⟩ := ha
      exact node_attrs_allNames p o (hall o ho) a hao
    · rw [hattrs]; exact nodup_dedupNames _
    · intro c hc
      have hg : getChild e.children c.2.name = some c := getChild_of_mem_nodup hnd hc
      have hg' : getChild e.children c.2.name = some (c.1, c.2) := hg
      -- some occurrence has a child with that name
      have hex : ∃ o ∈ occs, o.named c.2.name ≠ [] := by
        apply Classical.byContradiction
        intro hne
        have : getChild e.children c.2.name = none := by
          rw [hnone]
          intro o ho
          apply Classical.byContradiction
          intro hn
          exact hne ⟨o, ho, hn⟩
        rw [this] at hg; cases hg
      obtain ⟨o, ho, hno⟩ := hex
      obtain ⟨n, hn⟩ := List.exists_mem_of_ne_nil _ hno
      have hnn := node_named_allNames p c.2.name o n hn (hall o ho)
      apply ih c.2.name c.1 c.2 hg'
      · intro m hm
        rw [List.mem_flatMap] at hm
        obtain ⟨o', ho', hmo⟩ := hm
        exact (node_named_allNames p c.2.name o' m hmo (hall o' ho')).1
      · have : p n.name = true := by
          cases n with
          | mk nm as sc items =>
            have := hnn.1
            simp only [Node.allNames, Bool.and_eq_true] at this
            exact this.1.1
        rw [← hnn.2]; exact this

theorem treeOK_walk (p : Name → Bool) (s : SortBy) (e : Elem) (he : TreeOK p e) : ∀ (path trace : List Name) (en : Entry),
    (∀ x ∈ path, p x = true) → en ∈ walk s path trace e → TreeOK p en.elem ∧ ∀ x ∈ en.path, p x = true := by
  intro path trace en hpath h
  rw [mem_walk] at h
  rcases h with h | ⟨c, hc, _, hen⟩
  · rw [h]
    refine ⟨he, ?_⟩
    intro x hx
    simp only [List.mem_append, List.mem_singleton] at hx
    rcases hx with hx | rfl
    · exact hpath x hx
    · exact he.name
  · have := sizeOf_child_lt hc
    apply treeOK_walk p s c.2 (he.kids c hc) _ _ en _ hen
    intro x hx
    simp only [List.mem_append, List.mem_singleton] at hx
    rcases hx with hx | rfl
    · exact hpath x hx
    · exact he.name
termination_by sizeOf e

/-- the parsed tree `Matches` the document roots and carries the common root name -/
theorem parse_exact_name (H : List Doc) (h : historyOk H) :
    ∃ t, parseHistory (H.map Doc.events) = .ok t ∧ Matches t (H.map (·.root)) ∧ ∀ d ∈ H, t.name = d.root.name := by
  cases H with
  | nil => exact absurd rfl h.1
  | cons d ds =>
    obtain ⟨-, hok, hnames⟩ := h
    obtain ⟨R, hR, hm, hn⟩ := intoStruct_doc d (hok d (by simp))
    simp only [parseHistory, List.map_cons, hR]
    obtain ⟨R', hR', hm', hn'⟩ := extend_fold ds R [d.root] (by simp) hm
      (fun d' hd' => ⟨hok d' (by simp [hd']), by rw [hn]; exact hnames d' (by simp [hd']) d (by simp)⟩)
    refine ⟨R', hR', by simpa using hm', ?_⟩
    intro d' hd'
    rw [hn', hn]
    exact hnames d (by simp) d' hd'

/-- a parsed tree satisfies `TreeOK p` if all names of the documents satisfy `p` -/
theorem parse_treeOK (p : Name → Bool) (H : List Doc) (h : historyOk H) (hp : ∀ d ∈ H, d.root.allNames p = true) :
    ∃ t, parseHistory (H.map Doc.events) = .ok t ∧ Matches t (H.map (·.root)) ∧ TreeOK p t := by
  obtain ⟨t, ht, hm, hname⟩ := parse_exact_name H h
  refine ⟨t, ht, hm, matches_treeOK p hm ?_ ?_⟩
  · intro o ho
    rw [List.mem_map] at ho
    obtain ⟨d, hd, rfl⟩ := ho
    exact hp d hd
  · obtain ⟨d, hd⟩ := List.exists_mem_of_ne_nil _ h.1
    rw [hname d hd]
    have := hp d hd
    cases hr : d.root with
    | mk nm as sc items =>
      rw [hr] at this
      simp only [Node.allNames, Bool.and_eq_true] at this
      exact this.1.1

end Xsg
