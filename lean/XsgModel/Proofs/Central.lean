import XsgModel.Proofs.Order
/-! the heart of C03: absorbing one more occurrence and demoting yields the schema of `occs ++ [c]` -/
namespace Xsg

/-- what happened to the entry of name `d` while the new occurrences `cs` of `d` were absorbed -/
def Post (old : Option (Nec × Elem)) (known : List Name) (new : Option (Nec × Elem)) (d : Name) (cs : List Node) : Prop :=
  if cs = [] then new = old
  else ∃ D', new = some (.man, D') ∧
    match old with
    | some (_, D) => (∀ occs, occs ≠ [] → Matches D occs → Matches D' (occs ++ cs)) ∧ D'.count = D.count + cs.length ∧
        D'.standalone = (D.standalone && decide (d ∉ known) && decide (cs.length < 2))
    | none => Matches D' cs ∧ D'.count = cs.length ∧ D'.standalone = (decide (d ∉ known) && decide (cs.length < 2))

theorem Post.comp {old mid new : Option (Nec × Elem)} {known known' : List Name} {d : Name} {cs1 cs2 : List Node}
    (hk : d ∈ known' ↔ d ∈ known ∨ cs1 ≠ [])
    (h1 : Post old known mid d cs1) (h2 : Post mid known' new d cs2) : Post old known new d (cs1 ++ cs2) := by
  unfold Post at *
  by_cases e1 : cs1 = []
  · subst e1
    simp only [if_true] at h1; subst h1
    have hk' : d ∈ known' ↔ d ∈ known := by simpa using hk
    simp only [List.nil_append]
    by_cases e2 : cs2 = []
    · simp [e2] at h2 ⊢; exact h2
    · simp only [e2, if_false] at h2 ⊢
      obtain ⟨D', hn, hm⟩ := h2
      refine ⟨D', hn, ?_⟩
      cases mid with
      | none => simpa [hk'] using hm
      | some m => simpa [hk'] using hm
  · simp only [e1, if_false] at h1
    obtain ⟨M, hmid, hM⟩ := h1
    subst hmid
    have hk' : d ∈ known' := hk.mpr (Or.inr e1)
    have e12 : cs1 ++ cs2 ≠ [] := by simp [e1]
    simp only [e12, if_false]
    by_cases e2 : cs2 = []
    · subst e2; simp only [if_true] at h2; subst h2
      refine ⟨M, rfl, ?_⟩; simpa using hM
    · simp only [e2, if_false] at h2
      obtain ⟨D', hn, hD⟩ := h2
      refine ⟨D', hn, ?_⟩
      have l1 : 0 < cs1.length := List.length_pos_iff.mpr e1
      have l2 : 0 < cs2.length := List.length_pos_iff.mpr e2
      cases old with
      | none =>
        simp only at hM ⊢
        obtain ⟨hm1, hc1, hs1⟩ := hM
        obtain ⟨hm2, hc2, hs2⟩ := hD
        refine ⟨hm2 cs1 e1 hm1, by simp [hc2, hc1], ?_⟩
        rw [hs2]; simp [hk']; omega
      | some o =>
        simp only at hM ⊢
        obtain ⟨hm1, hc1, hs1⟩ := hM
        obtain ⟨hm2, hc2, hs2⟩ := hD
        refine ⟨?_, by simp [hc2, hc1]; omega, ?_⟩
        · intro occs ho hmo
          have := hm2 (occs ++ cs1) (by simp [ho]) (hm1 occs ho hmo)
          simpa [List.append_assoc] using this
        · rw [hs2]; simp [hk']; omega

theorem Post.known_congr {old new : Option (Nec × Elem)} {known known' : List Name} {d cs}
    (hk : d ∈ known' ↔ d ∈ known) (h : Post old known' new d cs) : Post old known new d cs := by
  have := Post.comp (old := old) (mid := old) (known := known) (known' := known') (d := d) (cs1 := []) (cs2 := cs)
    (by simpa using hk) (by simp [Post]) h
  simpa using this

theorem flatMap_nil_of_forall {occs : List Node} {k} (h : ∀ o ∈ occs, o.named k = []) : occs.flatMap (Node.named k) = [] := by
  induction occs with
  | nil => rfl
  | cons o os ih => simp [List.flatMap_cons, h o (by simp), ih (fun o ho => h o (by simp [ho]))]

theorem flatMap_ne_nil {occs : List Node} {k} (h : ¬ ∀ o ∈ occs, o.named k = []) : occs.flatMap (Node.named k) ≠ [] := by
  intro e; apply h; intro o ho
  have : o.named k ⊆ occs.flatMap (Node.named k) := by intro x hx; exact List.mem_flatMap.mpr ⟨o, ho, hx⟩
  rw [e] at this; exact List.eq_nil_of_subset_nil this

def PostSome (D D' : Elem) (cs : List Node) : Prop :=
  (∀ occs, occs ≠ [] → Matches D occs → Matches D' (occs ++ cs)) ∧ D'.count = D.count + cs.length ∧
    D'.standalone = (D.standalone && decide (cs.length < 2))
def PostNone (D' : Elem) (cs : List Node) : Prop :=
  Matches D' cs ∧ D'.count = cs.length ∧ D'.standalone = decide (cs.length < 2)

/-- classification of the entry of `d` after absorbing occurrence `c` into `C` (giving `C1`) and demoting -/
theorem classify (c : Node) (C C1 : Elem) (hnd : (childNames C.children).Nodup) (hnd1 : (childNames C1.children).Nodup)
    (hpost : ∀ d, Post (getChild C.children d) [] (getChild C1.children d) d (c.named d)) (d : Name) :
    let R := (tagOpt (snapshot C) C1).children
    (c.named d = [] ∧ getChild C.children d = none ∧ getChild R d = none) ∨
    (c.named d = [] ∧ ∃ nec D, getChild C.children d = some (nec, D) ∧ getChild R d = some (.opt, D)) ∨
    (c.named d ≠ [] ∧ ∃ D D', getChild C.children d = some (.man, D) ∧ getChild R d = some (.man, D') ∧ PostSome D D' (c.named d)) ∨
    (c.named d ≠ [] ∧ ∃ D D', getChild C.children d = some (.opt, D) ∧ getChild R d = some (.opt, D') ∧ PostSome D D' (c.named d)) ∨
    (c.named d ≠ [] ∧ ∃ D', getChild C.children d = none ∧ getChild R d = some (.opt, D') ∧ PostNone D' (c.named d)) := by
  intro R
  have key : getChild R d = if d ∈ toOptional (snapshot C) C1 then demote (getChild C1.children d) else getChild C1.children d :=
    getChild_tagOpt _ _ _ hnd1
  have hmem := mem_toOptional (snapshot C) C1 d hnd1
  have hsnap := slookup_snapshot C d hnd
  have hp := hpost d
  unfold Post at hp
  by_cases ecs : c.named d = []
  · simp only [ecs, if_true] at hp
    cases hC : getChild C.children d with
    | none =>
      left; refine ⟨ecs, rfl, ?_⟩
      rw [key, hp, hC]; simp [demote]
    | some p =>
      obtain ⟨nec, D⟩ := p
      right; left; refine ⟨ecs, nec, D, rfl, ?_⟩
      rw [key, hp, hC]
      cases nec with
      | opt => simp [demote]
      | man =>
        have : d ∈ toOptional (snapshot C) C1 := by
          rw [hmem]; refine ⟨D, by rw [hp, hC], Or.inr ?_⟩; rw [hsnap, hC]
        simp [this, demote]
  · simp only [ecs, if_false] at hp
    obtain ⟨D', hC1, hD⟩ := hp
    have lpos : 0 < (c.named d).length := List.length_pos_iff.mpr ecs
    cases hC : getChild C.children d with
    | none =>
      right; right; right; right
      rw [hC] at hD; simp only at hD
      have : d ∈ toOptional (snapshot C) C1 := by
        rw [hmem]; refine ⟨D', hC1, Or.inl ?_⟩; rw [hsnap, hC]
      refine ⟨ecs, D', rfl, ?_, ?_⟩
      · rw [key, hC1]; simp [this, demote]
      · simpa [PostNone] using hD
    | some p =>
      obtain ⟨nec, D⟩ := p
      rw [hC] at hD; simp only at hD
      have hPS : PostSome D D' (c.named d) := by simpa [PostSome] using hD
      cases nec with
      | opt =>
        right; right; right; left
        have : d ∈ toOptional (snapshot C) C1 := by
          rw [hmem]; refine ⟨D', hC1, Or.inl ?_⟩; rw [hsnap, hC]
        refine ⟨ecs, D, D', rfl, ?_, hPS⟩
        rw [key, hC1]; simp [this, demote]
      | man =>
        right; right; left
        have : d ∉ toOptional (snapshot C) C1 := by
          rw [hmem]; rintro ⟨D'', h1, h2⟩
          rw [hC1] at h1; cases h1
          rw [hsnap, hC] at h2
          have := hPS.2.1
          rcases h2 with h2 | h2
          · cases h2
          · simp at h2; omega
        refine ⟨ecs, D, D', rfl, ?_, hPS⟩
        rw [key, hC1]; simp [this]

theorem names_map_man (as : List Name) : names (as.map fun a => ((Nec.man, a) : Nec × Name)) = as := by
  simp [names, List.map_map, Function.comp_def]

theorem mem_map_man (as : List Name) (a : Name) : ((Nec.man, a) : Nec × Name) ∈ as.map (fun a => (Nec.man, a)) ↔ a ∈ as := by
  simp

/-- the heart: after the items of occurrence `c` were absorbed into `C` (giving `C1`), demotion yields the schema of `occs ++ [c]` -/
theorem merge_matches (c : Node) (C C1 : Elem) (occs : List Node) (hocc : occs ≠ [])
    (hm : Matches C occs) (hnd1 : (childNames C1.children).Nodup)
    (hca : c.attrs.Nodup)
    (hattrs1 : C1.attrs = mergeNec C.attrs (c.attrs.map fun a => (Nec.man, a)))
    (htext1 : C1.text = (C.text || c.hasText))
    (hpos1 : PosInv C1.children (marks (orderOf occs) c.items))
    (hpost : ∀ d, Post (getChild C.children d) [] (getChild C1.children d) d (c.named d)) :
    Matches (tagOpt (snapshot C) C1) (occs ++ [c]) := by
  have hnd := hm.nodup
  have cl := classify c C C1 hnd hnd1 hpost
  have all_app : ∀ (P : Node → Prop), (∀ o ∈ occs ++ [c], P o) ↔ (∀ o ∈ occs, P o) ∧ P c := by
    intro P; simp only [List.mem_append, List.mem_singleton]
    constructor
    · intro h; exact ⟨fun o ho => h o (Or.inl ho), h c (Or.inr rfl)⟩
    · rintro ⟨h1, h2⟩ o (ho | rfl); exact h1 o ho; exact h2
  have ex_app : ∀ (P : Node → Prop), (∃ o ∈ occs ++ [c], P o) ↔ (∃ o ∈ occs, P o) ∨ P c := by
    intro P; simp only [List.mem_append, List.mem_singleton]
    constructor
    · rintro ⟨o, (ho | rfl), hp⟩; exact Or.inl ⟨o, ho, hp⟩; exact Or.inr hp
    · rintro (⟨o, ho, hp⟩ | hp); exact ⟨o, Or.inl ho, hp⟩; exact ⟨c, Or.inr rfl, hp⟩
  have fm_app : ∀ k, (occs ++ [c]).flatMap (Node.named k) = occs.flatMap (Node.named k) ++ c.named k := by
    intro k; simp [List.flatMap_append]
  obtain ⟨o0, ho0⟩ := List.exists_mem_of_ne_nil occs hocc
  have hnm : (names (c.attrs.map fun a => ((Nec.man, a) : Nec × Name))).Nodup := by rw [names_map_man]; exact hca
  have hpi := PosInv_tagOpt (snapshot C) C1 _ hnd1 hpos1
  refine Matches.intro _ _ ?_ ?_ ?_ (nodup_tagOpt _ _ hnd1) ?_ ?_ ?_ (by rw [orderOf_append]; exact hpi.len) (by rw [orderOf_append]; exact hpi.pos) ?_
  · -- text
    simp only [tagOpt_text, htext1, hm.text, List.any_append, List.any_cons, List.any_nil, Bool.or_false]
  · -- attribute names, in first-appearance order
    simp only [tagOpt_attrs, hattrs1]
    rw [mergeNec_names _ _ hnm, names_map_man, hm.attrs]
    simp only [List.flatMap_append, List.flatMap_cons, List.flatMap_nil, List.append_nil]
    rw [dedupNames_append, dedupNames_of_nodup hca]
    congr 1
    apply List.filter_congr
    intro a _
    simp [mem_dedupNames]
  · -- attribute necessity
    intro a
    simp only [tagOpt_attrs, hattrs1]
    rw [mergeNec_man_iff _ _ hnm, hm.attr_man, mem_map_man, all_app (fun o => a ∈ o.attrs)]
  · -- hnone
    intro k
    rw [all_app (fun o => o.named k = [])]
    rcases cl k with ⟨e, hC, hR⟩ | ⟨e, nec, D, hC, hR⟩ | ⟨e, D, D', hC, hR, _⟩ | ⟨e, D, D', hC, hR, _⟩ | ⟨e, D', hC, hR, _⟩
    · simp [hR, e]; exact (hm.hnone k).mp hC
    · simp [hR]; intro h; have := (hm.hnone k).mpr h; rw [hC] at this; cases this
    · simp [hR, e]
    · simp [hR, e]
    · simp [hR, e]
  · -- hman
    intro k nec X hX
    rw [all_app (fun o => o.named k ≠ [])]
    rcases cl k with ⟨e, hC, hR⟩ | ⟨e, nec', D, hC, hR⟩ | ⟨e, D, D', hC, hR, _⟩ | ⟨e, D, D', hC, hR, _⟩ | ⟨e, D', hC, hR, _⟩
    · rw [hR] at hX; cases hX
    · rw [hR] at hX; cases hX; simp [e]
    · rw [hR] at hX; cases hX; simp [e]; exact (hm.hman k _ _ hC).mp rfl
    · rw [hR] at hX; cases hX; simp [e]
      have := (hm.hman k _ _ hC); simp at this; exact this
    · rw [hR] at hX; cases hX; simp [e]
      have := (hm.hnone k).mp hC
      exact ⟨o0, ho0, this o0 ho0⟩
  · -- hmulti
    intro k nec X hX
    rw [ex_app (fun o => 2 ≤ (o.named k).length)]
    rcases cl k with ⟨e, hC, hR⟩ | ⟨e, nec', D, hC, hR⟩ | ⟨e, D, D', hC, hR, hP⟩ | ⟨e, D, D', hC, hR, hP⟩ | ⟨e, D', hC, hR, hP⟩
    · rw [hR] at hX; cases hX
    · rw [hR] at hX; cases hX; simp [e]; exact hm.hmulti k _ _ hC
    · rw [hR] at hX; cases hX
      have h1 := hm.hmulti k _ _ hC; have h2 := hP.2.2
      rw [h2, ← h1]; cases D.standalone <;> simp <;> omega
    · rw [hR] at hX; cases hX
      have h1 := hm.hmulti k _ _ hC; have h2 := hP.2.2
      rw [h2, ← h1]; cases D.standalone <;> simp <;> omega
    · rw [hR] at hX; cases hX
      have h0 := (hm.hnone k).mp hC
      have h2 := hP.2.2
      rw [h2]; simp only [decide_eq_false_iff_not, Nat.not_lt]
      constructor
      · intro h; exact Or.inr h
      · rintro (⟨o, ho, h⟩ | h)
        · rw [h0 o ho] at h; simp at h
        · exact h
  · -- hsub
    intro k nec X hX
    rw [fm_app]
    rcases cl k with ⟨e, hC, hR⟩ | ⟨e, nec', D, hC, hR⟩ | ⟨e, D, D', hC, hR, hP⟩ | ⟨e, D, D', hC, hR, hP⟩ | ⟨e, D', hC, hR, hP⟩
    · rw [hR] at hX; cases hX
    · rw [hR] at hX; cases hX; simp [e]; exact hm.hsub k _ _ hC
    · rw [hR] at hX; cases hX
      refine hP.1 _ ?_ (hm.hsub k _ _ hC)
      apply flatMap_ne_nil; intro h; have := (hm.hnone k).mpr h; rw [hC] at this; cases this
    · rw [hR] at hX; cases hX
      refine hP.1 _ ?_ (hm.hsub k _ _ hC)
      apply flatMap_ne_nil; intro h; have := (hm.hnone k).mpr h; rw [hC] at this; cases this
    · rw [hR] at hX; cases hX
      rw [flatMap_nil_of_forall ((hm.hnone k).mp hC)]; simpa using hP.1

theorem fresh_matches (c : Node) (C1 : Elem) (hnd1 : (childNames C1.children).Nodup)
    (hca : c.attrs.Nodup)
    (hattrs1 : C1.attrs = c.attrs.map fun a => (Nec.man, a))
    (htext1 : C1.text = c.hasText)
    (hpos1 : PosInv C1.children (marks [] c.items))
    (hpost : ∀ d, Post none [] (getChild C1.children d) d (c.named d)) : Matches C1 [c] := by
  have cl : ∀ d, (c.named d = [] ∧ getChild C1.children d = none) ∨
      (c.named d ≠ [] ∧ ∃ D', getChild C1.children d = some (.man, D') ∧ PostNone D' (c.named d)) := by
    intro d; have hp := hpost d; unfold Post at hp
    by_cases e : c.named d = []
    · left; simp only [e, if_true] at hp; exact ⟨e, hp⟩
    · right; simp only [e, if_false] at hp
      obtain ⟨D', h1, h2⟩ := hp
      exact ⟨e, D', h1, by simpa [PostNone] using h2⟩
  refine Matches.intro _ _ ?_ ?_ ?_ hnd1 ?_ ?_ ?_ hpos1.len hpos1.pos ?_
  · simp [htext1]
  · rw [hattrs1, names_map_man]; simp [dedupNames_of_nodup hca]
  · intro a; rw [hattrs1, mem_map_man]; simp
  · intro k; rcases cl k with ⟨e, h⟩ | ⟨e, D', h, _⟩ <;> simp [h, e]
  · intro k nec X hX; rcases cl k with ⟨e, h⟩ | ⟨e, D', h, _⟩
    · rw [h] at hX; cases hX
    · rw [h] at hX; cases hX; simp [e]
  · intro k nec X hX; rcases cl k with ⟨e, h⟩ | ⟨e, D', h, hP⟩
    · rw [h] at hX; cases hX
    · rw [h] at hX; cases hX; rw [hP.2.2]; simp
  · intro k nec X hX; rcases cl k with ⟨e, h⟩ | ⟨e, D', h, hP⟩
    · rw [h] at hX; cases hX
    · rw [h] at hX; cases hX; simpa using hP.1

end Xsg
