import XsgModel.Proofs.Naming
import XsgModel.Proofs.InvMachine
/-! the XML paths of the structs of a tree with unique child names are pairwise distinct -/
namespace Xsg

theorem mem_walkKids {s : SortBy} {path trace : List Name} {cs : List (Nec × Elem)} {en : Entry} :
    (∃ q ∈ walk.walkKids s path trace cs, en ∈ q.2) ↔ ∃ c ∈ cs, c.2.textOnly = false ∧ en ∈ walk s path trace c.2 := by
  induction cs with
  | nil => simp [walk.walkKids]
  | cons c cs ih =>
    obtain ⟨nec, e⟩ := c
    simp only [walk.walkKids, List.mem_append, List.mem_cons]
    constructor
    · rintro ⟨q, hq | hq, hen⟩
      · split at hq
        · cases hq
        · rename_i ht
          simp only [List.mem_singleton] at hq; subst hq
          exact ⟨(nec, e), Or.inl rfl, by simpa using ht, hen⟩
      · obtain ⟨c', hc', h1, h2⟩ := ih.mp ⟨q, hq, hen⟩
        exact ⟨c', Or.inr hc', h1, h2⟩
    · rintro ⟨c', hc' | hc', h1, h2⟩
      · subst hc'
        simp only at h1 h2
        exact ⟨(sortKeyOf s e, walk s path trace e), Or.inl (by simp [h1]), h2⟩
      · obtain ⟨q, hq, hen⟩ := ih.mpr ⟨c', hc', h1, h2⟩
        exact ⟨q, Or.inr hq, hen⟩

theorem mem_walk {s : SortBy} {path trace : List Name} {e : Elem} {en : Entry} :
    en ∈ walk s path trace e ↔ en = ⟨path ++ [e.name], trace ++ [pascal e.name], e⟩ ∨
      ∃ c ∈ e.children, c.2.textOnly = false ∧ en ∈ walk s (path ++ [e.name]) (trace ++ [pascal e.name]) c.2 := by
  rw [walk_eq]
  simp only [List.mem_cons, List.mem_flatMap]
  constructor
  · rintro (h | ⟨q, hq, hen⟩)
    · exact Or.inl h
    · exact Or.inr (mem_walkKids.mp ⟨q, mem_sortKeyed.mp hq, hen⟩)
  · rintro (h | h)
    · exact Or.inl h
    · obtain ⟨q, hq, hen⟩ := mem_walkKids.mpr h
      exact Or.inr ⟨q, mem_sortKeyed.mpr hq, hen⟩

/-- the set of entries does not depend on the sort option -/
theorem mem_walk_sort (s₁ s₂ : SortBy) (e : Elem) : ∀ (path trace : List Name) (en : Entry),
    en ∈ walk s₁ path trace e → en ∈ walk s₂ path trace e := by
  -- induction on the size of the tree via the nested structure: use well-founded recursion on sizeOf
  intro path trace en h
  rw [mem_walk] at h ⊢
  rcases h with h | ⟨c, hc, ht, hen⟩
  · exact Or.inl h
  · refine Or.inr ⟨c, hc, ht, ?_⟩
    have : sizeOf c.2 < sizeOf e := by
      cases e with
      | mk n t st cnt as cs p =>
        simp only [Elem.children] at hc
        have h1 := List.sizeOf_lt_of_mem hc
        have h2 : sizeOf c.2 < sizeOf c := by cases c; simp; omega
        simp only [Elem.mk.sizeOf_spec]
        omega
    exact mem_walk_sort s₁ s₂ c.2 _ _ en hen
termination_by sizeOf e

/-- every path of the walk of `e` extends `path ++ [e.name]` -/
theorem walk_prefix (s : SortBy) (e : Elem) : ∀ (path trace : List Name) (en : Entry),
    en ∈ walk s path trace e → (path ++ [e.name]) <+: en.path := by
  intro path trace en h
  rw [mem_walk] at h
  rcases h with h | ⟨c, hc, _, hen⟩
  · subst h; exact List.prefix_refl _
  · have : sizeOf c.2 < sizeOf e := by
      cases e with
      | mk n t st cnt as cs p =>
        simp only [Elem.children] at hc
        have h1 := List.sizeOf_lt_of_mem hc
        have h2 : sizeOf c.2 < sizeOf c := by cases c; simp; omega
        simp only [Elem.mk.sizeOf_spec]
        omega
    have := walk_prefix s c.2 _ _ en hen
    exact (List.prefix_append _ _).trans ((List.prefix_append _ _).trans this |> fun h => by simpa [List.append_assoc] using this)
termination_by sizeOf e

end Xsg

namespace Xsg

theorem sizeOf_child_lt {e : Elem} {c : Nec × Elem} (hc : c ∈ e.children) : sizeOf c.2 < sizeOf e := by
  cases e with
  | mk n t st cnt as cs p =>
    simp only [Elem.children] at hc
    have h1 := List.sizeOf_lt_of_mem hc
    have h2 : sizeOf c.2 < sizeOf c := by cases c; simp; omega
    simp only [Elem.mk.sizeOf_spec]
    omega

/-- two entries of the walk of a tree with unique child names that have the same path are the same entry -/
theorem walk_path_inj (s : SortBy) (e : Elem) (he : e.Inv = true) : ∀ (path trace : List Name) (en en' : Entry),
    en ∈ walk s path trace e → en' ∈ walk s path trace e → en.path = en'.path → en = en' := by
  intro path trace en en' h h' hp
  rw [mem_walk] at h h'
  have hlen : ∀ (x : Entry) (c : Nec × Elem), x ∈ walk s (path ++ [e.name]) (trace ++ [pascal e.name]) c.2 →
      (path ++ [e.name] ++ [c.2.name]) <+: x.path := fun x c hx => walk_prefix s c.2 _ _ x hx
  rcases h with h | ⟨c, hc, _, hen⟩
  · rcases h' with h' | ⟨c', hc', _, hen'⟩
    · rw [h, h']
    · exfalso
      have := hlen en' c' hen'
      rw [← hp, h] at this
      have := this.length_le
      simp at this
  · rcases h' with h' | ⟨c', hc', _, hen'⟩
    · exfalso
      have := hlen en c hen
      rw [hp, h'] at this
      have := this.length_le
      simp at this
    · -- same child: both prefixes of the same path
      have p1 := hlen en c hen
      have p2 := hlen en' c' hen'
      rw [hp] at p1
      have hname : c.2.name = c'.2.name := by
        have := List.prefix_of_prefix_length_le p1 p2 (by simp)
        have h3 := this.eq_of_length (by simp)
        simpa using h3
      have hcc : c = c' := by
        have hnd := Inv_nodup he
        have g1 := getChild_of_mem_nodup hnd hc
        have g2 := getChild_of_mem_nodup hnd hc'
        rw [hname] at g1
        rw [g1] at g2
        exact Option.some.inj g2
      subst hcc
      have := sizeOf_child_lt hc
      exact walk_path_inj s c.2 (Inv_children he hc) _ _ en en' hen hen' hp
termination_by sizeOf e

/-- the entry of a struct-typed child of an entry of the walk is itself an entry of the walk -/
theorem child_entry_mem (s : SortBy) (en : Entry) (c : Nec × Elem) (hcm : c ∈ en.elem.children) (hto : c.2.textOnly = false)
    (e : Elem) : ∀ (path trace : List Name), en ∈ walk s path trace e →
      (⟨en.path ++ [c.2.name], en.trace ++ [pascal c.2.name], c.2⟩ : Entry) ∈ walk s path trace e := by
  intro path trace h
  rw [mem_walk] at h ⊢
  rcases h with h | ⟨d, hd, htd, hend⟩
  · right
    rw [h] at hcm
    simp only at hcm
    refine ⟨c, hcm, hto, ?_⟩
    rw [h, mem_walk]; left; rfl
  · have := sizeOf_child_lt hd
    exact Or.inr ⟨d, hd, htd, child_entry_mem s en c hcm hto d.2 _ _ hend⟩
termination_by sizeOf e


end Xsg
