import XsgModel.Proofs.DeserBasics
import XsgModel.Proofs.DeserPerm
import XsgModel.Props.C01
import XsgModel.Props.C04
/-!
# A deserializer model accepts every document the tree admits — generic part

`deNode_gen`: for a preset `o` and a deserializer configuration `cfg` that are *linked* (`Link`: the serde name
the preset gives to an attribute / a child / the text is the key the deserializer offers it under, and keys of
different kinds never coincide), for an entry of the walk and a document element that the entry's element
admits (`Admits`, C01), `deNode` on the rendered program returns a value, and the non-empty strings of that
value are exactly the strings of the element that the struct has a place for (`VNode.kept`: all attribute
values, the character data of elements typed `String`, and — only if the deserializer offers character data
under the preset's text name (`textFed`) — the character data of elements rendered as structs).

`Proofs/DeserQuick.lean` and `Proofs/DeserSxr.lean` establish `Link` for the two presets.
-/
namespace Xsg

/-! ### generic list facts -/

theorem inj_of_nodup_map {α β : Type} (f : α → β) : ∀ l : List α, (l.map f).Nodup → ∀ x ∈ l, ∀ y ∈ l, f x = f y → x = y
  | [], _, x, hx, _, _, _ => by cases hx
  | a :: l, hnd, x, hx, y, hy, e => by
    simp only [List.map_cons, List.nodup_cons] at hnd
    simp only [List.mem_cons] at hx hy
    rcases hx with rfl | hx <;> rcases hy with rfl | hy
    · rfl
    · exact absurd (by rw [e]; exact List.mem_map_of_mem hy) hnd.1
    · exact absurd (by rw [← e]; exact List.mem_map_of_mem hx) hnd.1
    · exact inj_of_nodup_map f l hnd.2 x hx y hy e

theorem filter_len_le_one {α β : Type} [DecidableEq β] (f : α → β) (k : β) :
    ∀ l : List α, (l.map f).Nodup → (l.filter (fun x => f x = k)).length ≤ 1
  | [], _ => by simp
  | a :: l, hnd => by
    simp only [List.map_cons, List.nodup_cons] at hnd
    by_cases h : f a = k
    · have : l.filter (fun x => f x = k) = [] := by
        rw [List.filter_eq_nil_iff]
        intro x hx hk
        simp only [decide_eq_true_eq] at hk
        exact hnd.1 (by rw [h, ← hk]; exact List.mem_map_of_mem hx)
      simp [h, this]
    · simp only [List.filter_cons, h, decide_false]
      exact filter_len_le_one f k l hnd.2

theorem len_le_one_cases {α : Type} (l : List α) (h : l.length ≤ 1) : l = [] ∨ ∃ x, l = [x] := by
  match l, h with
  | [], _ => exact Or.inl rfl
  | [x], _ => exact Or.inr ⟨x, rfl⟩
  | _ :: _ :: _, h => simp at h

theorem filter_const {α : Type} (b : Bool) (l : List α) : l.filter (fun _ => b) = if b then l else [] := by
  cases b <;> simp

/-! ### `contiguous` -/

theorem dropWhile_map {α β : Type} (f : α → β) (p : β → Bool) : ∀ l : List α,
    (l.map f).dropWhile p = (l.dropWhile (p ∘ f)).map f
  | [] => rfl
  | a :: l => by
    simp only [List.map_cons, List.dropWhile_cons, Function.comp]
    split
    · exact dropWhile_map f p l
    · rfl

theorem contiguous_map {α β : Type} (f : α → β) (p : β → Bool) (l : List α) :
    contiguous p (l.map f) = contiguous (p ∘ f) l := by
  unfold contiguous
  have e1 : (fun a => !p a) ∘ f = fun a => !(p ∘ f) a := rfl
  rw [dropWhile_map, dropWhile_map, List.any_map, e1]

theorem dropWhile_congr {α : Type} (p q : α → Bool) : ∀ l : List α, (∀ x ∈ l, p x = q x) → l.dropWhile p = l.dropWhile q
  | [], _ => rfl
  | a :: l, h => by
    simp only [List.dropWhile_cons, h a (by simp)]
    split
    · exact dropWhile_congr p q l (fun x hx => h x (by simp [hx]))
    · rfl

theorem dropWhile_sub {α : Type} (p : α → Bool) : ∀ l : List α, ∀ x ∈ l.dropWhile p, x ∈ l
  | [], x, h => by simp at h
  | a :: l, x, h => by
    simp only [List.dropWhile_cons] at h
    split at h
    · exact List.mem_cons_of_mem _ (dropWhile_sub p l x h)
    · exact h

theorem contiguous_congr {α : Type} (p q : α → Bool) (l : List α) (h : ∀ x ∈ l, p x = q x) :
    contiguous p l = contiguous q l := by
  unfold contiguous
  have h1 : l.dropWhile (fun a => !p a) = l.dropWhile (fun a => !q a) :=
    dropWhile_congr _ _ l (fun x hx => by simp [h x hx])
  rw [h1]
  have hsub : ∀ x ∈ l.dropWhile (fun a => !q a), x ∈ l := dropWhile_sub _ l
  have h2 : (l.dropWhile (fun a => !q a)).dropWhile p = (l.dropWhile (fun a => !q a)).dropWhile q :=
    dropWhile_congr _ _ _ (fun x hx => h x (hsub x hx))
  rw [h2]
  congr 1
  rw [Bool.eq_iff_iff, List.any_eq_true, List.any_eq_true]
  constructor
  · rintro ⟨x, hx, hpx⟩; exact ⟨x, hx, by rw [← h x (hsub x (dropWhile_sub _ _ x hx))]; exact hpx⟩
  · rintro ⟨x, hx, hpx⟩; exact ⟨x, hx, by rw [h x (hsub x (dropWhile_sub _ _ x hx))]; exact hpx⟩

/-! ### strings of values, strings of documents -/

theorem Val.strings_str (s : Str) : (Val.str s).strings = [s] := by simp [Val.strings]
theorem Val.strings_none : Val.none.strings = [] := by simp [Val.strings]
theorem Val.strings_some (v : Val) : (Val.some v).strings = v.strings := by simp [Val.strings]
theorem Val.strings_seq (vs : List Val) : (Val.seq vs).strings = stringsList vs := by simp [Val.strings]
theorem Val.strings_struct (nm : Name) (fs : List (Name × Val)) : (Val.struct nm fs).strings = stringsFields fs := by
  simp [Val.strings]

theorem VItems.values_eq (cfg : DeCfg) : ∀ items : VItems, items.values cfg = items.elems.flatMap (VNode.values cfg)
  | .nil => by simp [VItems.values, VItems.elems]
  | .elem n r => by simp [VItems.values, VItems.elems, VItems.values_eq cfg r]
  | .text _ _ r => by simp [VItems.values, VItems.elems, VItems.values_eq cfg r]
  | .other _ r => by simp [VItems.values, VItems.elems, VItems.values_eq cfg r]

theorem VNode.values_eq (cfg : DeCfg) (n : VNode) :
    n.values cfg = n.attrs.map (·.2) ++ cfg.texts n.items ++ n.items.elems.flatMap (VNode.values cfg) := by
  cases n with
  | mk nm as sc items => simp [VNode.values, VNode.attrs, VNode.items, VItems.values_eq]

/-- without the empty strings (`<e/>` read as a `String` gives `""`, which no document value corresponds to) -/
def ne (l : List Str) : List Str := l.filter (fun s => !s.isEmpty)

theorem ne_append (a b : List Str) : ne (a ++ b) = ne a ++ ne b := by simp [ne]
theorem ne_perm {a b : List Str} (h : a.Perm b) : (ne a).Perm (ne b) := h.filter _

mutual
/-- the strings of a document element that the struct rendered for the tree element `e` has a place for:
attribute values; character data only if `fed`; children typed `String` with all they hold, children rendered as
structs recursively -/
def VNode.kept (fed : Bool) (cfg : DeCfg) (e : Elem) : VNode → List Str
  | .mk _ as _ items => as.map (·.2) ++ (if fed then cfg.texts items else []) ++ items.kept fed cfg e
def VItems.kept (fed : Bool) (cfg : DeCfg) (e : Elem) : VItems → List Str
  | .nil => []
  | .elem c r =>
    (match getChild e.children c.name with
     | some ce => if ce.2.textOnly then c.values cfg else c.kept fed cfg ce.2
     | none => []) ++ r.kept fed cfg e
  | .text _ _ r => r.kept fed cfg e
  | .other _ r => r.kept fed cfg e
end

/-- what is kept of one child element -/
def keptChild (fed : Bool) (cfg : DeCfg) (e : Elem) (c : VNode) : List Str :=
  match getChild e.children c.name with
  | some ce => if ce.2.textOnly then c.values cfg else c.kept fed cfg ce.2
  | none => []

theorem VItems.kept_eq (fed : Bool) (cfg : DeCfg) (e : Elem) :
    ∀ items : VItems, items.kept fed cfg e = items.elems.flatMap (keptChild fed cfg e)
  | .nil => by simp [VItems.kept, VItems.elems]
  | .elem c r => by
    simp only [VItems.kept, VItems.elems, List.flatMap_cons, VItems.kept_eq fed cfg e r, keptChild]
  | .text _ _ r => by simp [VItems.kept, VItems.elems, VItems.kept_eq fed cfg e r]
  | .other _ r => by simp [VItems.kept, VItems.elems, VItems.kept_eq fed cfg e r]

theorem VNode.kept_eq (fed : Bool) (cfg : DeCfg) (e : Elem) (n : VNode) :
    n.kept fed cfg e = n.attrs.map (·.2) ++ (if fed then cfg.texts n.items else []) ++ n.items.elems.flatMap (keptChild fed cfg e) := by
  cases n with
  | mk nm as sc items => simp [VNode.kept, VNode.attrs, VNode.items, VItems.kept_eq]

/-! ### the serde names of the fields -/

theorem bound_attrField (o : Options) (im : IdentMap) (a : Nec × Name) :
    (attrField o im a).plain.bound' = o.attrPrefix ++ attrLocal a.2 := (C01_attr_field o im a).2.2.2

theorem bound_textField (o : Options) (im : IdentMap) : (textField o im).plain.bound' = o.textIdent := rfl

theorem bound_childField (hints names' im path trace) (c : Nec × Elem) :
    (childField hints names' im path trace c).plain.bound' = removeNamespace c.2.name := by
  have := (C01_child_field hints names' im path trace c).2.2.1
  simpa [PField.bound', Field.plain] using this

/-- the fields of the struct rendered for an entry, as read back from the text (unsorted presets) -/
theorem plain_fields (o : Options) (ho : o.sort = .unsorted) (hints names') (en : Entry) :
    (structOf o hints names' en).plain.fields =
      (en.elem.attrs.map fun a => (attrField o (identMap en.elem) a).plain)
      ++ (if en.elem.text then [(textField o (identMap en.elem)).plain] else [])
      ++ ((sortedChildren o en.elem).map fun c => (childField hints names' (identMap en.elem) en.path en.trace c).plain) := by
  simp only [StructDef.plain, C01_fields, List.map_append, List.map_map, sortedAttrs, ho]
  congr 1
  congr 1
  split <;> simp

theorem mem_fields_attr (o : Options) (ho : o.sort = .unsorted) (hints names') (en : Entry) (a : Nec × Name) (ha : a ∈ en.elem.attrs) :
    (attrField o (identMap en.elem) a).plain ∈ (structOf o hints names' en).plain.fields := by
  rw [plain_fields o ho]
  simp only [List.mem_append, List.mem_map]
  exact Or.inl (Or.inl ⟨a, ha, rfl⟩)

theorem mem_fields_text (o : Options) (ho : o.sort = .unsorted) (hints names') (en : Entry) (ht : en.elem.text = true) :
    (textField o (identMap en.elem)).plain ∈ (structOf o hints names' en).plain.fields := by
  rw [plain_fields o ho]
  simp [ht]

theorem mem_fields_child (o : Options) (ho : o.sort = .unsorted) (hints names') (en : Entry) (c : Nec × Elem) (hc : c ∈ en.elem.children) :
    (childField hints names' (identMap en.elem) en.path en.trace c).plain ∈ (structOf o hints names' en).plain.fields := by
  rw [plain_fields o ho]
  simp only [List.mem_append, List.mem_map]
  exact Or.inr ⟨c, mem_sortOn.mpr hc, rfl⟩

theorem fields_cases (o : Options) (ho : o.sort = .unsorted) (hints names') (en : Entry) (f : PField)
    (hf : f ∈ (structOf o hints names' en).plain.fields) :
    (∃ a ∈ en.elem.attrs, f = (attrField o (identMap en.elem) a).plain) ∨
    (en.elem.text = true ∧ f = (textField o (identMap en.elem)).plain) ∨
    (∃ c ∈ en.elem.children, f = (childField hints names' (identMap en.elem) en.path en.trace c).plain) := by
  rw [plain_fields o ho] at hf
  simp only [List.mem_append, List.mem_map] at hf
  rcases hf with (⟨a, ha, rfl⟩ | hf) | ⟨c, hc, rfl⟩
  · exact Or.inl ⟨a, ha, rfl⟩
  · split at hf
    · rename_i ht
      simp only [List.mem_singleton] at hf
      exact Or.inr (Or.inl ⟨ht, hf⟩)
    · cases hf
  · exact Or.inr (Or.inr ⟨c, mem_sortOn.mp hc, rfl⟩)

/-- the serde names of one struct's fields are pairwise distinct, given that the three kinds do not collide -/
theorem bounds_nodup_gen (o : Options) (ho : o.sort = .unsorted) (hints names') (en : Entry)
    (hA : ((names en.elem.attrs).map fun a => o.attrPrefix ++ attrLocal a).Nodup)
    (hC : ((childNames en.elem.children).map removeNamespace).Nodup)
    (hAT : ∀ a ∈ names en.elem.attrs, o.attrPrefix ++ attrLocal a ≠ o.textIdent)
    (hAC : ∀ a ∈ names en.elem.attrs, ∀ c ∈ en.elem.children, o.attrPrefix ++ attrLocal a ≠ removeNamespace c.2.name)
    (hTC : ∀ c ∈ en.elem.children, o.textIdent ≠ removeNamespace c.2.name) :
    ((structOf o hints names' en).plain.fields.map PField.bound').Nodup := by
  rw [plain_fields o ho]
  simp only [List.map_append, List.map_map]
  have e1 : (en.elem.attrs.map (PField.bound' ∘ fun a => (attrField o (identMap en.elem) a).plain))
      = (names en.elem.attrs).map (fun a => o.attrPrefix ++ attrLocal a) := by
    simp only [names, List.map_map]
    apply List.map_congr_left
    intro a _
    simp [bound_attrField]
  have e3 : ((sortedChildren o en.elem).map (PField.bound' ∘ fun c => (childField hints names' (identMap en.elem) en.path en.trace c).plain))
      = (sortedChildren o en.elem).map (fun c => removeNamespace c.2.name) := by
    apply List.map_congr_left
    intro c _
    simp [bound_childField]
  rw [e1, e3]
  have hperm : ((sortedChildren o en.elem).map (fun c => removeNamespace c.2.name)).Perm ((childNames en.elem.children).map removeNamespace) := by
    have := (perm_sortOn (fun c : Nec × Elem => sortKeyOf o.sort c.2) en.elem.children).map (fun c => removeNamespace c.2.name)
    simpa [sortedChildren, childNames, List.map_map, Function.comp_def] using this
  have hC' : ((sortedChildren o en.elem).map (fun c => removeNamespace c.2.name)).Nodup := hperm.nodup_iff.mpr hC
  rw [List.nodup_append, List.nodup_append]
  refine ⟨⟨hA, ?_, ?_⟩, hC', ?_⟩
  · split <;> simp
  · intro x hx y hy
    simp only [List.mem_map] at hx
    obtain ⟨a, ha, rfl⟩ := hx
    split at hy
    · simp only [List.map_cons, List.map_nil, List.mem_singleton] at hy
      rw [hy]
      exact hAT a ha
    · simp at hy
  · intro x hx y hy
    simp only [List.mem_map] at hy
    obtain ⟨c, hc, rfl⟩ := hy
    have hcm : c ∈ en.elem.children := mem_sortOn.mp hc
    simp only [List.mem_append] at hx
    rcases hx with hx | hx
    · simp only [List.mem_map] at hx
      obtain ⟨a, ha, rfl⟩ := hx
      exact hAC a ha c hcm
    · split at hx
      · simp only [List.map_cons, List.map_nil, List.mem_singleton] at hx
        rw [hx]
        exact hTC c hcm
      · simp at hx

/-! ### one element -/

/-- the strings of the document element offered under one key -/
def srcStrings (cfg : DeCfg) (G : VNode → List Str) (n : VNode) (txt : Option Str) (key : Name) : List Str :=
  (n.attrs.filter (fun x => cfg.attrKey x.1 = key)).map (·.2)
  ++ (if cfg.textKey = key then txt.toList else [])
  ++ (n.items.elems.filter (fun d => cfg.elemKey d.name = key)).flatMap G

/-- how the preset's field names relate to the keys the deserializer offers, at one tree element and one
document element it admits -/
structure Link (o : Options) (cfg : DeCfg) (fed : Bool) (e : Elem) (n : VNode) : Prop where
  attr_iff : ∀ x ∈ n.attrs, ∀ a ∈ names e.attrs, (cfg.attrKey x.1 = o.attrPrefix ++ attrLocal a ↔ x.1 = a)
  attr_ne_text : ∀ a ∈ names e.attrs, cfg.textKey ≠ o.attrPrefix ++ attrLocal a
  attr_ne_elem : ∀ a ∈ names e.attrs, ∀ d ∈ n.items.elems, cfg.elemKey d.name ≠ o.attrPrefix ++ attrLocal a
  text_ne_attr : ∀ x ∈ n.attrs, cfg.attrKey x.1 ≠ o.textIdent
  text_ne_elem : ∀ d ∈ n.items.elems, cfg.elemKey d.name ≠ o.textIdent
  child_ne_attr : ∀ c ∈ e.children, ∀ x ∈ n.attrs, cfg.attrKey x.1 ≠ removeNamespace c.2.name
  child_ne_text : ∀ c ∈ e.children, cfg.textKey ≠ removeNamespace c.2.name
  child_iff : ∀ c ∈ e.children, ∀ d ∈ n.items.elems, (cfg.elemKey d.name = removeNamespace c.2.name ↔ d.name = c.2.name)
  contig : cfg.adjacent = true → ∀ c ∈ e.children, contiguous (fun d : VNode => decide (d.name = c.2.name)) n.items.elems = true
  fed_eq : fed = true → cfg.textKey = o.textIdent
  fed_text : fed = true → cfg.texts n.items ≠ [] → e.text = true
  unfed_ne : fed = false → cfg.textKey ≠ o.textIdent

/-- what the proof needs to know about one document element `n` offered to the struct of the tree element `e` -/
structure NodeCtx (o : Options) (cfg : DeCfg) (fed : Bool) (e : Elem) (n : VNode) (kids : List KidRes)
    (K : VNode → KidRes) (G : VNode → List Str) : Prop where
  adm : Admits e n.erase
  link : Link o cfg fed e n
  ndC : (childNames e.children).Nodup
  ndA : (n.attrs.map (·.1)).Nodup
  tx1 : (cfg.texts n.items).length ≤ 1
  hkids : kids = n.items.elems.map K
  kkey : ∀ c, (K c).key = cfg.elemKey c.name
  kqname : ∀ c, (K c).qname = c.name
  kval : ∀ c ∈ n.items.elems, ∃ v, (K c).val = .ok v ∧ (ne v.strings).Perm (ne (G c))

namespace NodeCtx
variable {o : Options} {cfg : DeCfg} {fed : Bool} {e : Elem} {n : VNode} {kids : List KidRes} {K : VNode → KidRes}
  {G : VNode → List Str}

/-- every child element of the document element is a child of the tree element -/
theorem child_known (h : NodeCtx o cfg fed e n kids K G) (c : VNode) (hc : c ∈ n.items.elems) :
    ∃ d ∈ e.children, d.2.name = c.name := by
  cases h.adm with
  | intro _ _ _ _ _ hkf _ _ _ =>
    have : n.erase.named c.name ≠ [] := by
      rw [VNode.erase_named]
      intro he
      have : c ∈ n.items.elems.filter (fun d => d.name = c.name) := by simp [hc]
      rw [List.map_eq_nil_iff] at he
      rw [he] at this; cases this
    have := hkf c.name this
    rw [Ne, getChild_none_iff] at this
    have := Classical.not_not.mp this
    simpa [childNames] using this

theorem kids_filter (h : NodeCtx o cfg fed e n kids K G) (key : Name) :
    kids.filter (fun k => k.key = key) = (n.items.elems.filter (fun d => cfg.elemKey d.name = key)).map K := by
  rw [h.hkids, List.filter_map]
  congr 1
  apply List.filter_congr
  intro d _
  simp [Function.comp, h.kkey]

theorem attr_known (h : NodeCtx o cfg fed e n kids K G) (x : Name × Str) (hx : x ∈ n.attrs) : x.1 ∈ names e.attrs := by
  cases h.adm with
  | intro _ _ haf _ _ _ _ _ _ => exact haf x.1 (by rw [VNode.erase_attrs]; exact List.mem_map_of_mem hx)

theorem fieldVal_attr (h : NodeCtx o cfg fed e n kids K G) (im : IdentMap) (a : Nec × Name) (ha : a ∈ e.attrs) (txt : Option Str) :
    ∃ v, fieldVal cfg (attrField o im a).plain n.attrs txt kids = .ok v ∧
      (ne v.strings).Perm (ne (srcStrings cfg G n txt (attrField o im a).plain.bound')) := by
  have hb := bound_attrField o im a
  have han : a.2 ∈ names e.attrs := by simp only [names, List.mem_map]; exact ⟨a, ha, rfl⟩
  have hA : n.attrs.filter (fun x => cfg.attrKey x.1 = o.attrPrefix ++ attrLocal a.2) = n.attrs.filter (fun x => x.1 = a.2) := by
    apply List.filter_congr
    intro x hx
    simp only [decide_eq_decide]
    exact h.link.attr_iff x hx a.2 han
  have hlen : (n.attrs.filter (fun x => x.1 = a.2)).length ≤ 1 := filter_len_le_one (·.1) a.2 n.attrs h.ndA
  have hT : (if cfg.textKey = o.attrPrefix ++ attrLocal a.2 then txt.toList else []) = [] := by
    rw [if_neg]; exact h.link.attr_ne_text a.2 han
  have hE : n.items.elems.filter (fun d => cfg.elemKey d.name = o.attrPrefix ++ attrLocal a.2) = [] := by
    rw [List.filter_eq_nil_iff]
    intro d hd
    simp only [decide_eq_true_eq]
    exact h.link.attr_ne_elem a.2 han d hd
  have hK : kids.filter (fun k => k.key = o.attrPrefix ++ attrLocal a.2) = [] := by rw [h.kids_filter, hE]; rfl
  unfold fieldVal srcStrings
  rw [hb]
  unfold fieldValAt
  simp only [hA, hT, hK, hE]
  rcases len_le_one_cases _ hlen with h0 | ⟨x, h1⟩
  · rw [h0]
    simp only
    by_cases hopt : (attrField o im a).plain.opt = true
    · exact ⟨.none, by simp [hopt], by simp [Val.strings_none]⟩
    · exfalso
      -- a mandatory attribute is present in every admitted element
      have hman : a.1 = .man := by
        have : (attrField o im a).plain.opt = decide (a.1 = .opt) := rfl
        rw [this] at hopt
        cases hh : a.1 <;> simp_all
      cases h.adm with
      | intro _ _ _ har _ _ _ _ _ =>
        have := har a.2 (by rw [← hman]; exact ha)
        rw [VNode.erase_attrs, List.mem_map] at this
        obtain ⟨x, hx, hxa⟩ := this
        have : x ∈ n.attrs.filter (fun x => x.1 = a.2) := by simp [hx, hxa]
        rw [h0] at this; cases this
  · rw [h1]
    have hv : (attrField o im a).plain.vec = false := rfl
    have hs : (attrField o im a).plain.base = stringTy := rfl
    refine ⟨if (attrField o im a).plain.opt then optOfStr x.2 else .str x.2, by simp [hv, hs], ?_⟩
    apply ne_perm
    split <;> simp [optOfStr, Val.strings_some, Val.strings_str]

theorem fieldVal_text (h : NodeCtx o cfg fed e n kids K G) (im : IdentMap) :
    ∃ v, fieldVal cfg (textField o im).plain n.attrs (cfg.texts n.items).head? kids = .ok v ∧
      (ne v.strings).Perm (ne (srcStrings cfg G n (cfg.texts n.items).head? (textField o im).plain.bound')) := by
  have hA : n.attrs.filter (fun x => cfg.attrKey x.1 = o.textIdent) = [] := by
    rw [List.filter_eq_nil_iff]
    intro x hx
    simp only [decide_eq_true_eq]
    exact h.link.text_ne_attr x hx
  have hE : n.items.elems.filter (fun d => cfg.elemKey d.name = o.textIdent) = [] := by
    rw [List.filter_eq_nil_iff]
    intro d hd
    simp only [decide_eq_true_eq]
    exact h.link.text_ne_elem d hd
  have hK : kids.filter (fun k => k.key = o.textIdent) = [] := by rw [h.kids_filter, hE]; rfl
  unfold fieldVal srcStrings
  rw [bound_textField]
  unfold fieldValAt
  simp only [hA, hK, hE]
  cases hf : fed with
  | true =>
    have ht := h.link.fed_eq hf
    simp only [ht, if_true]
    cases (cfg.texts n.items).head? with
    | none => exact ⟨.none, by simp [textField, Field.plain], by simp [Val.strings_none]⟩
    | some t => exact ⟨optOfStr t, by simp [textField, Field.plain, stringTy], by apply ne_perm; simp [optOfStr, Val.strings_some, Val.strings_str]⟩
  | false =>
    have ht := h.link.unfed_ne hf
    simp only [ht, if_false]
    exact ⟨.none, by simp [textField, Field.plain], by simp [Val.strings_none]⟩

theorem collectVals_ok (K : VNode → KidRes) (G : VNode → List Str) : ∀ L : List VNode,
    (∀ d ∈ L, ∃ v, (K d).val = .ok v ∧ (ne v.strings).Perm (ne (G d))) →
    ∃ vs, collectVals (L.map K) = .ok vs ∧ (ne (stringsList vs)).Perm (ne (L.flatMap G))
  | [], _ => ⟨[], rfl, by simp [stringsList]⟩
  | d :: ds, h => by
    obtain ⟨v, hv, hp⟩ := h d (by simp)
    obtain ⟨vs, hvs, hps⟩ := collectVals_ok K G ds (fun d' hd' => h d' (by simp [hd']))
    refine ⟨v :: vs, by simp [collectVals, hv, hvs], ?_⟩
    simp only [stringsList, List.flatMap_cons, ne_append]
    exact hp.append hps

theorem seqOf_ok (K : VNode → KidRes) (G : VNode → List Str) (L : List VNode)
    (h : ∀ d ∈ L, ∃ v, (K d).val = .ok v ∧ (ne v.strings).Perm (ne (G d))) :
    ∃ v, seqOf (L.map K) = .ok v ∧ (ne v.strings).Perm (ne (L.flatMap G)) := by
  obtain ⟨vs, hvs, hp⟩ := collectVals_ok K G L h
  exact ⟨.seq vs, by simp [seqOf, hvs], by rw [Val.strings_seq]; exact hp⟩

theorem fieldVal_child (h : NodeCtx o cfg fed e n kids K G) (hints names' im path trace) (c : Nec × Elem) (hc : c ∈ e.children)
    (txt : Option Str) :
    ∃ v, fieldVal cfg (childField hints names' im path trace c).plain n.attrs txt kids = .ok v ∧
      (ne v.strings).Perm (ne (srcStrings cfg G n txt (childField hints names' im path trace c).plain.bound')) := by
  have hb := bound_childField hints names' im path trace c
  have hA : n.attrs.filter (fun x => cfg.attrKey x.1 = removeNamespace c.2.name) = [] := by
    rw [List.filter_eq_nil_iff]
    intro x hx
    simp only [decide_eq_true_eq]
    exact h.link.child_ne_attr c hc x hx
  have hT : (if cfg.textKey = removeNamespace c.2.name then txt.toList else []) = [] := by
    rw [if_neg]; exact h.link.child_ne_text c hc
  have hE : n.items.elems.filter (fun d => cfg.elemKey d.name = removeNamespace c.2.name) = n.items.elems.filter (fun d => d.name = c.2.name) := by
    apply List.filter_congr
    intro d hd
    simp only [decide_eq_decide]
    exact h.link.child_iff c hc d hd
  have hK : kids.filter (fun k => k.key = removeNamespace c.2.name) = (n.items.elems.filter (fun d => d.name = c.2.name)).map K := by
    rw [h.kids_filter, hE]
  have hg : getChild e.children c.2.name = some c := getChild_of_mem_nodup h.ndC hc
  have hnamed : (n.erase.named c.2.name).length = (n.items.elems.filter (fun d => d.name = c.2.name)).length := by
    rw [VNode.erase_named, List.length_map]
  have hopt : (childField hints names' im path trace c).plain.opt = decide (c.1 = .opt) := rfl
  have hvec : (childField hints names' im path trace c).plain.vec = !c.2.standalone := rfl
  -- contiguity, for a deserializer that needs it
  have hcont : (!cfg.adjacent || contiguous (fun k' : KidRes => decide (k'.key = removeNamespace c.2.name)) kids) = true := by
    cases hadj : cfg.adjacent with
    | false => rfl
    | true =>
      simp only [Bool.not_true, Bool.false_or]
      rw [h.hkids, contiguous_map]
      rw [contiguous_congr _ (fun d : VNode => decide (d.name = c.2.name)) n.items.elems]
      · exact h.link.contig hadj c hc
      · intro d hd
        simp only [Function.comp, h.kkey, decide_eq_decide]
        exact h.link.child_iff c hc d hd
  unfold fieldVal srcStrings
  rw [hb]
  unfold fieldValAt
  simp only [hA, hT, hK, hE]
  cases hL : n.items.elems.filter (fun d => d.name = c.2.name) with
  | nil =>
    simp only [List.map_nil]
    by_cases ho : c.1 = .opt
    · exact ⟨.none, by simp [hopt, ho], by simp [Val.strings_none]⟩
    · exfalso
      have hman : c.1 = .man := by cases hh : c.1 <;> simp_all
      cases h.adm with
      | intro _ _ _ _ _ _ hreq _ _ =>
        have := hreq c.2.name c.2 (by rw [hg, ← hman])
        apply this
        apply List.eq_nil_of_length_eq_zero
        rw [hnamed, hL]; rfl
  | cons d ds =>
    have hall : ∀ x ∈ d :: ds, x ∈ n.items.elems ∧ x.name = c.2.name := by
      intro x hx
      rw [← hL] at hx
      simpa using hx
    have hvals : ∀ x ∈ d :: ds, ∃ v, (K x).val = .ok v ∧ (ne v.strings).Perm (ne (G x)) :=
      fun x hx => h.kval x (hall x hx).1
    simp only [List.map_cons]
    by_cases hs : c.2.standalone = true
    · -- single field: at most one occurrence
      have hlen : (d :: ds).length ≤ 1 := by
        cases h.adm with
        | intro _ _ _ _ _ _ _ hsingle _ =>
          have := hsingle c.2.name c.1 c.2 hg hs
          rw [hnamed, hL] at this
          exact this
      have hds : ds = [] := by
        cases ds with
        | nil => rfl
        | cons _ _ => simp at hlen
      subst hds
      obtain ⟨v, hv, hp⟩ := hvals d (by simp)
      refine ⟨if (childField hints names' im path trace c).plain.opt then .some v else v, by simp [hvec, hs, hv, Except.map], ?_⟩
      have : ([d].flatMap G) = G d := by simp
      simp only [this]
      split
      · rw [Val.strings_some]; exact hp
      · exact hp
    · have hs' : c.2.standalone = false := by simpa using hs
      have hq : (ds.map K).all (fun k' => k'.qname = (K d).qname) = true := by
        rw [List.all_eq_true]
        intro k hk
        rw [List.mem_map] at hk
        obtain ⟨x, hx, rfl⟩ := hk
        simp only [h.kqname, decide_eq_true_eq]
        rw [(hall x (by simp [hx])).2, (hall d (by simp)).2]
      obtain ⟨v, hv, hp⟩ := seqOf_ok K G (d :: ds) hvals
      simp only [List.map_cons] at hv
      refine ⟨if (childField hints names' im path trace c).plain.opt then .some v else v,
        by simp [hvec, hs', hq, hv, Except.map, hcont], ?_⟩
      split
      · rw [Val.strings_some]; exact hp
      · exact hp

end NodeCtx

/-! ### all fields, unknown keys -/

theorem fieldVals_ok (cfg : DeCfg) (attrs : List (Name × Str)) (txt : Option Str) (kids : List KidRes) (S : PField → List Str) :
    ∀ (fs : List PField) (seen : List Name), (fs.map PField.bound').Nodup → (∀ f ∈ fs, f.bound' ∉ seen) →
      (∀ f ∈ fs, ∃ v, fieldVal cfg f attrs txt kids = .ok v ∧ (ne v.strings).Perm (ne (S f))) →
      ∃ fv, fieldVals cfg attrs txt kids seen fs = .ok fv ∧ (ne (stringsFields fv)).Perm (ne (fs.flatMap S))
  | [], _, _, _, _ => ⟨[], rfl, by simp [stringsFields]⟩
  | f :: fs, seen, hnd, hseen, hv => by
    simp only [List.map_cons, List.nodup_cons] at hnd
    obtain ⟨v, hfv, hp⟩ := hv f (by simp)
    have hns : f.bound' ∉ seen := hseen f (by simp)
    obtain ⟨rest, hrest, hpr⟩ := fieldVals_ok cfg attrs txt kids S fs (f.bound' :: seen) hnd.2
      (by
        intro g hg
        simp only [List.mem_cons, not_or]
        refine ⟨?_, hseen g (by simp [hg])⟩
        intro e'
        exact hnd.1 (by rw [← e']; exact List.mem_map_of_mem hg))
      (fun g hg => hv g (by simp [hg]))
    refine ⟨(f.bound', v) :: rest, by simp [fieldVals, hns, hfv, hrest], ?_⟩
    simp only [stringsFields, List.flatMap_cons, ne_append]
    exact hp.append hpr

theorem findField_isSome {fs : List PField} {key : Name} (h : ∃ f ∈ fs, f.bound' = key) : (findField fs key).isSome = true := by
  obtain ⟨f, hf, hk⟩ := h
  unfold findField
  rw [List.find?_isSome]
  exact ⟨f, hf, by simp [hk]⟩

theorem mem_map_bound {fs : List PField} {key : Name} (h : key ∈ fs.map PField.bound') : ∃ f ∈ fs, f.bound' = key := by
  rw [List.mem_map] at h; exact h

section known
variable {o : Options} {cfg : DeCfg} {fed : Bool}
  (hints : Name → Option Nat) (names' : List (List Name × Name)) (en : Entry) {n : VNode} {kids : List KidRes}
  {K : VNode → KidRes} {G : VNode → List Str}

/-- every attribute / child key the document element offers is the serde name of a field -/
theorem attr_key_known (ho : o.sort = .unsorted) (h : NodeCtx o cfg fed en.elem n kids K G) (x : Name × Str) (hx : x ∈ n.attrs) :
    cfg.attrKey x.1 ∈ (structOf o hints names' en).plain.fields.map PField.bound' := by
  have hx' := h.attr_known x hx
  have hx'' := hx'
  simp only [names, List.mem_map] at hx'
  obtain ⟨a, ha, hax⟩ := hx'
  rw [List.mem_map]
  refine ⟨_, mem_fields_attr o ho hints names' en a ha, ?_⟩
  rw [bound_attrField, hax]
  exact ((h.link.attr_iff x hx x.1 hx'').mpr rfl).symm

theorem text_key_known (ho : o.sort = .unsorted) (h : NodeCtx o cfg fed en.elem n kids K G) (hf : fed = true) (hne : cfg.texts n.items ≠ []) :
    cfg.textKey ∈ (structOf o hints names' en).plain.fields.map PField.bound' := by
  have ht : en.elem.text = true := h.link.fed_text hf hne
  rw [List.mem_map]
  exact ⟨_, mem_fields_text o ho hints names' en ht, by rw [bound_textField]; exact (h.link.fed_eq hf).symm⟩

theorem text_key_unknown (ho : o.sort = .unsorted) (h : NodeCtx o cfg fed en.elem n kids K G) (hf : fed = false) :
    cfg.textKey ∉ (structOf o hints names' en).plain.fields.map PField.bound' := by
  intro hm
  obtain ⟨f, hfm, hfb⟩ := mem_map_bound hm
  rcases fields_cases o ho hints names' en f hfm with ⟨a, ha, rfl⟩ | ⟨_, rfl⟩ | ⟨c, hc, rfl⟩
  · rw [bound_attrField] at hfb
    exact h.link.attr_ne_text a.2 (by simp only [names, List.mem_map]; exact ⟨a, ha, rfl⟩) hfb.symm
  · rw [bound_textField] at hfb
    exact h.link.unfed_ne hf hfb.symm
  · rw [bound_childField] at hfb
    exact h.link.child_ne_text c hc hfb.symm

theorem elem_key_known (ho : o.sort = .unsorted) (h : NodeCtx o cfg fed en.elem n kids K G) (c : VNode) (hc : c ∈ n.items.elems) :
    cfg.elemKey c.name ∈ (structOf o hints names' en).plain.fields.map PField.bound' := by
  obtain ⟨d, hd, hdn⟩ := h.child_known c hc
  rw [List.mem_map]
  refine ⟨_, mem_fields_child o ho hints names' en d hd, ?_⟩
  rw [bound_childField]
  exact ((h.link.child_iff d hd c hc).mpr hdn.symm).symm

end known

/-- the strings offered under the serde names of the fields are, together, what the struct keeps of the element -/
theorem srcStrings_partition (o : Options) (cfg : DeCfg) (fed : Bool) (ho : o.sort = .unsorted) (hints names') (en : Entry)
    (n : VNode) (kids : List KidRes) (K : VNode → KidRes) (G : VNode → List Str)
    (h : NodeCtx o cfg fed en.elem n kids K G)
    (hnd : ((structOf o hints names' en).plain.fields.map PField.bound').Nodup) :
    ((structOf o hints names' en).plain.fields.flatMap fun f => srcStrings cfg G n (cfg.texts n.items).head? f.bound').Perm
      (n.attrs.map (·.2) ++ (if fed then cfg.texts n.items else []) ++ n.items.elems.flatMap G) := by
  have hA := attr_key_known hints names' en ho h
  have hT := text_key_known hints names' en ho h
  have hT' := text_key_unknown hints names' en ho h
  have hE := elem_key_known hints names' en ho h
  generalize (structOf o hints names' en).plain.fields = fs at hnd hA hT hT' hE
  have e1 : (fs.flatMap fun f => srcStrings cfg G n (cfg.texts n.items).head? f.bound')
      = (fs.map PField.bound').flatMap (srcStrings cfg G n (cfg.texts n.items).head?) := by
    rw [List.flatMap_map]
  rw [e1]
  unfold srcStrings
  refine (flatMap_append_perm _ _ _).trans ?_
  refine ((flatMap_append_perm _ _ _).append_right _).trans ?_
  refine (List.Perm.append ?_ ?_).append ?_
  · -- attribute values
    have := partition_flatMap_perm (fun x : Name × Str => cfg.attrKey x.1) (fun x => [x.2]) _ hnd n.attrs hA
    have e2 : ∀ l : List (Name × Str), l.flatMap (fun x => [x.2]) = l.map (·.2) := by
      intro l; induction l with
      | nil => rfl
      | cons a l ih => simp [List.flatMap_cons, ih]
    simpa only [e2] using this
  · -- character data
    have hlen := h.tx1
    cases hf : fed with
    | false =>
      have hk := hT' hf
      have : ((fs.map PField.bound').flatMap fun k => if cfg.textKey = k then (cfg.texts n.items).head?.toList else []) = [] := by
        rw [List.flatMap_eq_nil_iff]
        intro k hkm
        rw [if_neg]
        intro e'; exact hk (by rw [e']; exact hkm)
      rw [this]
      simp
    | true =>
      simp only [if_true]
      cases htx : cfg.texts n.items with
      | nil =>
        simp only [List.head?_nil, Option.toList, ite_self]
        have : ((fs.map PField.bound').flatMap fun _ => ([] : List Str)) = [] := by
          rw [List.flatMap_eq_nil_iff]; intro _ _; rfl
        rw [this]
      | cons s r =>
        have hr : r = [] := by
          rw [htx] at hlen
          cases r with
          | nil => rfl
          | cons _ _ => simp at hlen
        subst hr
        have hk : cfg.textKey ∈ fs.map PField.bound' := hT hf (by rw [htx]; simp)
        have := partition_perm (fun _ : Str => cfg.textKey) _ hnd [s] (fun _ _ => hk)
        simp only [List.head?_cons, Option.toList]
        refine (List.Perm.of_eq ?_).trans this
        apply flatMap_congr'
        intro k _
        rw [filter_const]
        by_cases hkk : cfg.textKey = k <;> simp [hkk]
  · -- children
    exact partition_flatMap_perm (fun d : VNode => cfg.elemKey d.name) G _ hnd n.items.elems hE

/-- one element: the struct is assembled (with `deny_unknown_fields` only if character data is fed to the text
field) and holds exactly the strings it has a place for -/
theorem assemble_ok (o : Options) (cfg : DeCfg) (fed : Bool) (ho : o.sort = .unsorted) (hints names') (en : Entry)
    (n : VNode) (kids : List KidRes) (K : VNode → KidRes) (G : VNode → List Str)
    (h : NodeCtx o cfg fed en.elem n kids K G)
    (hnd : ((structOf o hints names' en).plain.fields.map PField.bound').Nodup)
    (deny : Bool) (hdeny : deny = true → fed = true) :
    ∃ v, assemble cfg deny (structOf o hints names' en).plain n.attrs (cfg.texts n.items).head? kids = .ok v ∧
      (ne v.strings).Perm (ne (n.attrs.map (·.2) ++ (if fed then cfg.texts n.items else []) ++ n.items.elems.flatMap G)) := by
  have hvals : ∀ f ∈ (structOf o hints names' en).plain.fields,
      ∃ v, fieldVal cfg f n.attrs (cfg.texts n.items).head? kids = .ok v ∧
        (ne v.strings).Perm (ne (srcStrings cfg G n (cfg.texts n.items).head? f.bound')) := by
    intro f hf
    rcases fields_cases o ho hints names' en f hf with ⟨a, ha, rfl⟩ | ⟨_, rfl⟩ | ⟨c, hc, rfl⟩
    · exact h.fieldVal_attr _ a ha _
    · exact h.fieldVal_text _
    · exact h.fieldVal_child hints names' _ _ _ c hc _
  obtain ⟨fv, hfv, hp⟩ := fieldVals_ok cfg n.attrs (cfg.texts n.items).head? kids
    (fun f => srcStrings cfg G n (cfg.texts n.items).head? f.bound') _ [] hnd (by simp) hvals
  have hknown : deny = true → allKnown cfg (structOf o hints names' en).plain.fields n.attrs (cfg.texts n.items).head? kids = true := by
    intro hd
    have hf := hdeny hd
    unfold allKnown
    simp only [Bool.and_eq_true, List.all_eq_true, Bool.or_eq_true]
    refine ⟨⟨?_, ?_⟩, ?_⟩
    · intro x hx
      exact findField_isSome (mem_map_bound (attr_key_known hints names' en ho h x hx))
    · cases htx : (cfg.texts n.items).head? with
      | none => left; rfl
      | some s =>
        right
        have hne : cfg.texts n.items ≠ [] := by
          intro e'; rw [e'] at htx; cases htx
        exact findField_isSome (mem_map_bound (text_key_known hints names' en ho h hf hne))
    · intro k hk
      rw [h.hkids, List.mem_map] at hk
      obtain ⟨c, hc, rfl⟩ := hk
      rw [h.kkey]
      exact findField_isSome (mem_map_bound (elem_key_known hints names' en ho h c hc))
  refine ⟨.struct (structOf o hints names' en).plain.name fv, ?_, ?_⟩
  · unfold assemble
    cases hd : deny with
    | false => simp [hfv, Except.map]
    | true => simp [hknown hd, hfv, Except.map]
  · rw [Val.strings_struct]
    exact hp.trans (ne_perm (srcStrings_partition o cfg fed ho hints names' en n kids K G h hnd))

/-! ### the recursion over the document -/

theorem inModel_child (cfg : DeCfg) : ∀ (items : VItems) (c : VNode), c ∈ items.elems → items.inModel cfg = true → c.inModel cfg = true
  | .nil, c, h, _ => by simp [VItems.elems] at h
  | .elem n r, c, h, hm => by
    simp only [VItems.inModel, Bool.and_eq_true] at hm
    simp only [VItems.elems, List.mem_cons] at h
    rcases h with rfl | h
    · exact hm.1
    · exact inModel_child cfg r c h hm.2
  | .text _ _ r, c, h, hm => inModel_child cfg r c (by simpa [VItems.elems] using h) (by simpa [VItems.inModel] using hm)
  | .other _ r, c, h, hm => inModel_child cfg r c (by simpa [VItems.elems] using h) (by simpa [VItems.inModel] using hm)

theorem erase_ok_child : ∀ (items : VItems) (c : VNode), c ∈ items.elems → items.erase.ok = true → c.erase.ok = true
  | .nil, c, h, _ => by simp [VItems.elems] at h
  | .elem n r, c, h, hm => by
    simp only [VItems.erase, Items.ok, Bool.and_eq_true] at hm
    simp only [VItems.elems, List.mem_cons] at h
    rcases h with rfl | h
    · exact hm.1
    · exact erase_ok_child r c h hm.2
  | .text _ _ r, c, h, hm => by
    apply erase_ok_child r c (by simpa [VItems.elems] using h)
    simp only [VItems.erase] at hm
    split at hm
    · exact hm
    · simpa [Items.ok] using hm
  | .other _ r, c, h, hm => erase_ok_child r c (by simpa [VItems.elems] using h) (by simpa [VItems.erase, Items.ok] using hm)

theorem stringTy_reserved : stringTy ∈ reservedStructNames := by decide

/-- the side conditions of a preset / deserializer pair, as predicates on tree elements and document elements
that are inherited by children and give `Link` and distinct serde names wherever an element admits a node -/
structure Scope (o : Options) (cfg : DeCfg) (fed : Bool) where
  PE : Elem → Prop
  PN : VNode → Prop
  PE_child : ∀ e c, PE e → c ∈ e.children → PE c.2
  PN_child : ∀ n c, PN n → c ∈ n.items.elems → PN c
  link : ∀ e n, PE e → PN n → e.Inv = true → Admits e n.erase → Link o cfg fed e n
  bounds : ∀ hints names' (en : Entry), PE en.elem → en.elem.Inv = true → ((structOf o hints names' en).plain.fields.map PField.bound').Nodup

/-- **A linked deserializer model returns a value for every admitted document element**, for the struct rendered
for the tree element, and the value holds exactly what the struct has a place for. -/
theorem deNode_gen (o : Options) (cfg : DeCfg) (fed : Bool) (ho : o.sort = .unsorted) (S : Scope o cfg fed)
    (t : Elem) (htInv : t.Inv = true) (deny : Bool) (hdeny : deny = true → fed = true) (n : VNode) (en : Entry)
    (hen : en ∈ walk o.sort [] [] t) (hPE : S.PE en.elem) (hPN : S.PN n) (hinv : en.elem.Inv = true)
    (hadm : Admits en.elem n.erase) (hok : n.erase.ok = true) (hmodel : n.inModel cfg = true) :
    ∃ v, deNode cfg ((renderAST o t).map StructDef.plain) deny
      (structNameOf (hintOf (fillNames [] t)) (structNames (hintOf (fillNames [] t)) t) en.path en.trace en.elem) n = .ok v ∧
      (ne v.strings).Perm (ne (n.kept fed cfg en.elem)) := by
  let H0 := hintOf (fillNames [] t)
  let names' := structNames H0 t
  let prog := (renderAST o t).map StructDef.plain
  have hndC := Inv_nodup hinv
  have hbnd := S.bounds H0 names' en hPE hinv
  -- the struct of this entry is the one found under its name
  have hprogNd : (prog.map (·.name)).Nodup := by
    have := C04_structs_unique o t htInv
    simpa [prog, List.map_map, Function.comp_def, StructDef.plain] using this
  have hmem : (structOf o H0 names' en).plain ∈ prog := by
    simp only [prog, renderAST, renderWith, List.mem_map]
    exact ⟨structOf o H0 names' en, ⟨en, hen, rfl⟩, rfl⟩
  have hfind : findStruct prog (structNameOf H0 names' en.path en.trace en.elem) = some (structOf o H0 names' en).plain := by
    have := find?_of_nodup_map (fun d : PStruct => d.name) prog hprogNd _ hmem
    exact this
  have hlink := S.link en.elem n hPE hPN hinv hadm
  cases n with
  | mk nm attrs sc items =>
    have hokI : items.erase.ok = true := by
      simp only [VNode.erase, Node.ok, Bool.and_eq_true] at hok
      exact hok.2
    have hndA : (attrs.map (·.1)).Nodup := by
      simp only [VNode.erase, Node.ok, Bool.and_eq_true, decide_eq_true_eq] at hok
      exact hok.1.1
    have hmI : items.inModel cfg = true := by
      simp only [VNode.inModel, Bool.and_eq_true] at hmodel
      exact hmodel.2
    have htx : (cfg.texts items).length ≤ 1 := by
      simp only [VNode.inModel, Bool.and_eq_true, decide_eq_true_eq] at hmodel
      exact hmodel.1.1.2
    -- every child element gets a value
    have hkval : ∀ c ∈ items.elems, ∃ v, (kidRes cfg prog deny (structOf o H0 names' en).plain.fields c).val = .ok v ∧
        (ne v.strings).Perm (ne (keptChild fed cfg en.elem c)) := by
      intro c hc
      have hlt : sizeOf c < sizeOf (VNode.mk nm attrs sc items) := by
        have := sizeOf_elems_lt items c hc
        simp; omega
      -- the tree child with that name
      have hnamed : c.erase ∈ (VNode.mk nm attrs sc items).erase.named c.name := by
        rw [VNode.erase_named]
        exact List.mem_map_of_mem (by simp [VNode.items, hc])
      obtain ⟨ce, hg⟩ : ∃ ce, getChild en.elem.children c.name = some ce := by
        cases hadm with
        | intro _ _ _ _ _ hkf _ _ _ =>
          have := hkf c.name (by intro e'; rw [e'] at hnamed; cases hnamed)
          exact Option.ne_none_iff_exists'.mp this
      have hcem : ce ∈ en.elem.children := getChild_some_mem hg
      have hcen : ce.2.name = c.name := getChild_some_name hg
      have hadmc : Admits ce.2 c.erase := by
        cases hadm with
        | intro _ _ _ _ _ _ _ _ hsub => exact hsub c.name ce.1 ce.2 hg c.erase hnamed
      -- the field found for the child's key is the child's field
      have hF := mem_fields_child o ho H0 names' en ce hcem
      have hkeyc : cfg.elemKey c.name = removeNamespace ce.2.name :=
        (hlink.child_iff ce hcem c (by simp [VNode.items, hc])).mpr hcen.symm
      have hfindF : findField (structOf o H0 names' en).plain.fields (cfg.elemKey c.name)
          = some (childField H0 names' (identMap en.elem) en.path en.trace ce).plain := by
        have hb := bound_childField H0 names' (identMap en.elem) en.path en.trace ce
        have := find?_of_nodup_map PField.bound' _ hbnd _ hF
        rw [hb, ← hkeyc] at this
        exact this
      unfold kidRes keptChild
      rw [hfindF, hg]
      simp only
      by_cases hto : ce.2.textOnly = true
      · -- a `String` field: the document child has no child elements
        have hbase : (childField H0 names' (identMap en.elem) en.path en.trace ce).plain.base = stringTy := by
          simp [childField, Field.plain, hto]
        rw [if_pos hbase, if_pos hto]
        have hnokids : ce.2.children = [] := by
          simp only [Elem.textOnly, Bool.and_eq_true, List.isEmpty_iff] at hto
          exact hto.2
        have hel : c.items.elems = [] := by
          cases hel : c.items.elems with
          | nil => rfl
          | cons d ds =>
            exfalso
            cases hadmc with
            | intro _ _ _ _ _ hkf _ _ _ =>
              have : c.erase.named d.name ≠ [] := by
                rw [VNode.erase_named, hel]
                simp
              have := hkf d.name this
              rw [hnokids] at this
              exact this rfl
        -- … and no attributes, so its values are its character data
        have hnoattrs : c.attrs = [] := by
          cases hca : c.attrs with
          | nil => rfl
          | cons x xs =>
            exfalso
            have hea : ce.2.attrs = [] := by
              simp only [Elem.textOnly, Bool.and_eq_true, List.isEmpty_iff] at hto
              exact hto.1.2
            cases hadmc with
            | intro _ _ haf _ _ _ _ _ _ =>
              have := haf x.1 (by rw [VNode.erase_attrs, hca]; simp)
              rw [hea] at this
              simp [names] at this
        have hcm := inModel_child cfg items c hc hmI
        cases c with
        | mk cn cas csc citems =>
          simp only [VNode.items] at hel
          simp only [VNode.attrs] at hnoattrs
          have htx1 : (cfg.texts citems).length ≤ 1 := by
            simp only [VNode.inModel, Bool.and_eq_true, decide_eq_true_eq] at hcm
            exact hcm.1.1.2
          refine ⟨Val.str ((cfg.texts citems).head?.getD []), ?_, ?_⟩
          · simp [deStringElem, hel]
          · rw [VNode.values_eq]
            simp only [VNode.attrs, VNode.items, hnoattrs, hel, List.map_nil, List.flatMap_nil, List.nil_append, List.append_nil,
              Val.strings_str]
            rcases len_le_one_cases _ htx1 with h0 | ⟨x, h1⟩
            · rw [h0]; simp [ne]
            · rw [h1]; simp
      · -- a struct field: recursion with the child's entry
        have hto' : ce.2.textOnly = false := by simpa using hto
        have hsub : (⟨en.path ++ [ce.2.name], en.trace ++ [pascal ce.2.name], ce.2⟩ : Entry) ∈ walk o.sort [] [] t :=
          child_entry_mem o.sort en ce hcem hto' t [] [] hen
        have hbase : (childField H0 names' (identMap en.elem) en.path en.trace ce).plain.base
            = structNameOf H0 names' (en.path ++ [ce.2.name]) (en.trace ++ [pascal ce.2.name]) ce.2 := by
          simp [childField, Field.plain, hto']
        have hnot : structNameOf H0 names' (en.path ++ [ce.2.name]) (en.trace ++ [pascal ce.2.name]) ce.2 ≠ stringTy := by
          intro e'
          have := (struct_names_spec H0 o t htInv).2 (structOf o H0 names' ⟨en.path ++ [ce.2.name], en.trace ++ [pascal ce.2.name], ce.2⟩)
            (by simp only [renderWith, List.mem_map]; exact ⟨_, hsub, rfl⟩)
          apply this
          have hn : (structOf o H0 names' ⟨en.path ++ [ce.2.name], en.trace ++ [pascal ce.2.name], ce.2⟩).name = stringTy := e'
          rw [hn]
          exact stringTy_reserved
        rw [hbase, if_neg hnot, if_neg hto]
        exact deNode_gen o cfg fed ho S t htInv deny hdeny c ⟨en.path ++ [ce.2.name], en.trace ++ [pascal ce.2.name], ce.2⟩ hsub
          (S.PE_child en.elem ce hPE hcem) (S.PN_child _ c hPN (by simp [VNode.items, hc])) (Inv_children hinv hcem) hadmc
          (erase_ok_child items c hc hokI) (inModel_child cfg items c hc hmI)
    have ctx : NodeCtx o cfg fed en.elem (VNode.mk nm attrs sc items)
        (items.elems.map (kidRes cfg prog deny (structOf o H0 names' en).plain.fields))
        (kidRes cfg prog deny (structOf o H0 names' en).plain.fields) (keptChild fed cfg en.elem) :=
      { adm := hadm, link := hlink, ndC := hndC, ndA := hndA, tx1 := htx, hkids := rfl,
        kkey := fun c => kidRes_key _ _ _ _ c, kqname := fun c => kidRes_qname _ _ _ _ c, kval := hkval }
    obtain ⟨v, hv, hp⟩ := assemble_ok o cfg fed ho H0 names' en _ _ _ _ ctx hbnd deny hdeny
    refine ⟨v, ?_, ?_⟩
    · unfold deNode
      rw [hfind]
      simp only
      rw [deItems_eq_map]
      exact hv
    · rw [VNode.kept_eq]
      exact hp
termination_by sizeOf n
decreasing_by
  rename_i hn
  rw [hn]
  exact hlt

end Xsg
