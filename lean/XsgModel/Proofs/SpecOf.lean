import XsgModel.Proofs.FirstAppearance
/-! the executable specification `specOf` computes exactly the schema `Matches` determines -/
namespace Xsg

/-! ### `orderOf` is the de-duplicated list of child names -/
theorem dedupNames_idem (l : List Name) : dedupNames (dedupNames l) = dedupNames l :=
  dedupNames_of_nodup (nodup_dedupNames l)

theorem dedupNames_append_left (xs ys : List Name) : dedupNames (dedupNames xs ++ ys) = dedupNames (xs ++ ys) := by
  rw [dedupNames_append, dedupNames_append, dedupNames_idem]
  congr 1
  apply List.filter_congr
  intro a _
  simp [mem_dedupNames]

theorem dedupNames_append_right (xs ys : List Name) : dedupNames (xs ++ dedupNames ys) = dedupNames (xs ++ ys) := by
  rw [dedupNames_append, dedupNames_append, dedupNames_idem]

theorem childNames_nodup (is : Items) : is.childNames.Nodup := by
  cases is with
  | nil => simp [Items.childNames]
  | other r => simpa [Items.childNames] using childNames_nodup r
  | text c r => simpa [Items.childNames] using childNames_nodup r
  | elem n r =>
    simp only [Items.childNames, List.nodup_cons, List.mem_filter, decide_eq_true_eq]
    exact ⟨fun h => h.2 rfl, (childNames_nodup r).filter _⟩

theorem dedup_cons_filter (n : Name) (l : List Name) : dedupNames (n :: l.filter (· ≠ n)) = dedupNames (n :: l) := by
  simp only [dedupNames]
  congr 1
  -- filtering before or after de-duplication
  have : ∀ l : List Name, dedupNames (l.filter (· ≠ n)) = (dedupNames l).filter (· ≠ n) := by
    intro l
    induction l with
    | nil => rfl
    | cons b bs ih =>
      by_cases hb : b = n
      · subst hb
        simp only [ne_eq, not_true_eq_false, decide_false, Bool.false_eq_true, not_false_eq_true, List.filter_cons_of_neg, dedupNames]
        rw [ih]
        simp only [List.filter_cons, ne_eq, not_true_eq_false, decide_false, Bool.false_eq_true, if_false]
        rw [List.filter_filter]
        apply List.filter_congr; intro a _; simp
      · simp only [ne_eq, hb, not_false_eq_true, decide_true, List.filter_cons_of_pos, dedupNames, List.filter_cons, if_true]
        rw [ih, List.filter_filter, List.filter_filter]
        congr 1
        apply List.filter_congr; intro a _; exact Bool.and_comm _ _
  rw [this, List.filter_filter]
  apply List.filter_congr; intro a _; simp

theorem marks_eq (is : Items) (ord : List Name) (h : ord.Nodup) : marks ord is = dedupNames (ord ++ is.childNames) := by
  cases is with
  | nil => simp [marks, Items.childNames, dedupNames_of_nodup h]
  | other r => simpa [marks, Items.childNames] using marks_eq r ord h
  | text c r => simpa [marks, Items.childNames] using marks_eq r ord h
  | elem n r =>
    simp only [marks, Items.childNames]
    rw [marks_eq r _ (nodup_mark h _)]
    -- both sides are `dedup (ord ++ n :: childNames r)`
    have h1 : dedupNames (mark ord n.name ++ r.childNames) = dedupNames (ord ++ (n.name :: r.childNames)) := by
      by_cases hm : n.name ∈ ord
      · rw [mark_of_mem hm]
        rw [dedupNames_append, dedupNames_append]
        congr 1
        simp only [dedupNames, List.filter_cons, hm, not_true_eq_false, decide_false, Bool.false_eq_true, if_false]
        rw [List.filter_filter]
        apply List.filter_congr
        intro a _
        by_cases ha : a ∈ ord
        · simp [ha]
        · have : a ≠ n.name := fun e => ha (e ▸ hm)
          simp [ha, this]
      · rw [mark_of_not_mem hm, List.append_assoc]; rfl
    rw [h1]
    rw [← dedupNames_append_right ord (n.name :: r.childNames), ← dedupNames_append_right ord (n.name :: (r.childNames.filter (· ≠ n.name)))]
    rw [dedup_cons_filter]

theorem orderOf_eq (occs : List Node) : orderOf occs = dedupNames (occs.flatMap fun o => o.items.childNames) := by
  suffices ∀ ord0 : List Name, ord0.Nodup →
      occs.foldl (fun ord o => marks ord o.items) ord0 = dedupNames (ord0 ++ occs.flatMap fun o => o.items.childNames) by
    have := this [] List.nodup_nil
    simpa [orderOf] using this
  induction occs with
  | nil => intro ord0 h; simp [dedupNames_of_nodup h]
  | cons c occs ih =>
    intro ord0 h
    simp only [List.foldl_cons, List.flatMap_cons]
    rw [ih _ (nodup_marks _ _ h), marks_eq _ _ h, dedupNames_append_left, List.append_assoc]

end Xsg

namespace Xsg

/-! ### `abs` through `sortOn` -/
theorem insertSorted_map {α β : Type} (f : α → β) (le : α → α → Bool) (le' : β → β → Bool)
    (h : ∀ a b, le' (f a) (f b) = le a b) (a : α) (l : List α) :
    insertSorted le' (f a) (l.map f) = (insertSorted le a l).map f := by
  induction l with
  | nil => rfl
  | cons b bs ih =>
    simp only [List.map_cons, insertSorted, h]
    split
    · rfl
    · simp [ih]

theorem insertionSort_map {α β : Type} (f : α → β) (le : α → α → Bool) (le' : β → β → Bool)
    (h : ∀ a b, le' (f a) (f b) = le a b) (l : List α) :
    insertionSort le' (l.map f) = (insertionSort le l).map f := by
  induction l with
  | nil => rfl
  | cons a as ih =>
    show insertSorted le' (f a) (insertionSort le' (as.map f)) = (insertSorted le a (insertionSort le as)).map f
    rw [ih, insertSorted_map f le le' h]

def toKid (c : Nec × Elem) : Name × Nec × Bool × Schema := (c.2.name, c.1, !c.2.standalone, c.2.abs)

theorem absKids_eq (cs : List (Nec × Elem)) :
    Elem.abs.absKids cs = cs.map (fun c => (SortKey.pos c.2.position, toKid c)) := by
  induction cs with
  | nil => rfl
  | cons c cs ih => obtain ⟨nec, e⟩ := c; simp [Elem.abs.absKids, ih, toKid]

theorem abs_eq (e : Elem) :
    e.abs = .mk e.text e.attrs ((sortOn (fun c : Nec × Elem => SortKey.pos c.2.position) e.children).map toKid) := by
  cases e with
  | mk n t st c as cs p =>
    simp only [Elem.abs, Elem.text, Elem.attrs, Elem.children, absKids_eq, sortOn, sortKeyed]
    congr 1
    have := insertionSort_map (fun (x : SortKey × (Nec × Elem)) => (x.1, toKid x.2))
      (fun a b => a.1.le b.1) (fun (a b : SortKey × Name × Nec × Bool × Schema) => a.1.le b.1) (fun _ _ => rfl)
      (cs.map fun c => (SortKey.pos c.2.position, c))
    simp only [List.map_map, Function.comp_def] at this
    rw [this]
    simp [List.map_map, Function.comp_def]

/-! ### tagged lists are determined by their names and their mandatory entries -/
theorem tag_unique {l : List (Nec × Name)} (h : (names l).Nodup) {m m' : Nec} {a : Name}
    (h1 : (m, a) ∈ l) (h2 : (m', a) ∈ l) : m = m' := by
  have e1 := find?_name_of_nodup h h1
  have e2 := find?_name_of_nodup h h2
  simp only at e1 e2
  rw [e1] at e2
  exact (Prod.mk.inj (Option.some.inj e2)).1

theorem tagged_eq_of_names (l : List (Nec × Name)) (h : (names l).Nodup) :
    l = (names l).map (fun a => (if (Nec.man, a) ∈ l then Nec.man else Nec.opt, a)) := by
  simp only [names, List.map_map]
  conv => lhs; rw [← List.map_id l]
  apply List.map_congr_left
  intro x hx
  obtain ⟨m, a⟩ := x
  simp only [id, Function.comp]
  cases m with
  | man => simp [hx]
  | opt =>
    have : (Nec.man, a) ∉ l := fun hm => by have := tag_unique h hm hx; cases this
    simp [this]

end Xsg

namespace Xsg

theorem named_depth (is : Items) (k : Name) : ∀ n ∈ is.named k, n.depth ≤ is.depth := by
  cases is with
  | nil => intro n hn; simp [Items.named] at hn
  | other r => intro n hn; simpa [Items.named, Items.depth] using named_depth r k n (by simpa [Items.named] using hn)
  | text c r => intro n hn; simpa [Items.named, Items.depth] using named_depth r k n (by simpa [Items.named] using hn)
  | elem m r =>
    intro n hn
    simp only [Items.named] at hn
    simp only [Items.depth]
    split at hn
    · simp only [List.mem_cons] at hn
      rcases hn with rfl | hn
      · exact Nat.le_max_left _ _
      · exact Nat.le_trans (named_depth r k n hn) (Nat.le_max_right _ _)
    · exact Nat.le_trans (named_depth r k n hn) (Nat.le_max_right _ _)

theorem Node.depth_pos (n : Node) : 1 ≤ n.depth := by cases n; simp [Node.depth]

theorem node_named_depth (o : Node) (k : Name) : ∀ n ∈ o.named k, n.depth + 1 ≤ o.depth := by
  cases o with
  | mk nm as sc items =>
    intro n hn
    simp only [Node.depth]
    exact Nat.succ_le_succ (named_depth items k n hn)

/-- the executable specification computes exactly the schema of the tree (field order included) -/
theorem abs_eq_specOf {e : Elem} {occs : List Node} (h : Matches e occs) :
    ∀ fuel, occs ≠ [] → (∀ o ∈ occs, o.depth ≤ fuel) → e.abs = specOf fuel occs := by
  induction h with
  | intro e occs htext hattrs hattr_man hnd hnone hman hmulti hlen hpos hsub ih =>
    intro fuel hne hdepth
    obtain ⟨o0, ho0⟩ := List.exists_mem_of_ne_nil occs hne
    cases fuel with
    | zero => have := hdepth o0 ho0; have := Node.depth_pos o0; omega
    | succ f =>
      have hm : Matches e occs := Matches.intro e occs htext hattrs hattr_man hnd hnone hman hmulti hlen hpos hsub
      rw [abs_eq]
      simp only [specOf]
      congr 1
      · -- attributes
        have hn : (names e.attrs).Nodup := by rw [hattrs]; exact nodup_dedupNames _
        rw [tagged_eq_of_names e.attrs hn, hattrs]
        apply List.map_congr_left
        intro a _
        have : ((Nec.man, a) ∈ e.attrs) ↔ (occs.all fun o => o.attrs.contains a) = true := by
          rw [hattr_man, List.all_eq_true]
          constructor
          · intro h o ho; exact List.contains_iff_mem.mpr (h o ho)
          · intro h o ho; exact List.contains_iff_mem.mp (h o ho)
        by_cases hb : (occs.all fun o => o.attrs.contains a) = true
        · rw [if_pos (this.mpr hb), if_pos hb]
        · have hnm : (Nec.man, a) ∉ e.attrs := fun hm' => hb (this.mp hm')
          rw [if_neg hnm, if_neg hb]
      · -- children, in first-appearance order
        have hnames := sorted_children_names e (orderOf occs) hnd hm.posInv Options.quickXmlDe rfl
        have hsorted_eq : sortedChildren Options.quickXmlDe e = sortOn (fun c : Nec × Elem => SortKey.pos c.2.position) e.children := rfl
        rw [hsorted_eq] at hnames
        rw [← orderOf_eq, ← hnames, List.map_map]
        apply List.map_congr_left
        intro c hc
        have hcm : c ∈ e.children := mem_sortOn.mp hc
        have hg := getChild_of_mem_nodup hnd hcm
        obtain ⟨nec, ce⟩ := c
        simp only [Function.comp, toKid]
        have h1 := hman ce.name nec ce hg
        have h2 := hmulti ce.name nec ce hg
        have hsubne : occs.flatMap (Node.named ce.name) ≠ [] := by
          apply flatMap_ne_nil
          intro hall
          have := (hnone ce.name).mpr hall
          rw [hg] at this; cases this
        have h3 := ih ce.name nec ce hg f hsubne (by
          intro n hn
          rw [List.mem_flatMap] at hn
          obtain ⟨o, ho, hno⟩ := hn
          have := node_named_depth o ce.name n hno
          have := hdepth o ho
          omega)
        congr 1
        congr 1
        · -- necessity
          have hall : (occs.all fun o => !(Node.named ce.name o).isEmpty) = true ↔ ∀ o ∈ occs, Node.named ce.name o ≠ [] := by
            rw [List.all_eq_true]
            constructor
            · intro h o ho; have := h o ho; simpa [List.isEmpty_iff] using this
            · intro h o ho; simpa [List.isEmpty_iff] using h o ho
          by_cases hb : (occs.all fun o => !(Node.named ce.name o).isEmpty) = true
          · simp only [hb, if_true]; exact h1.mpr (hall.mp hb)
          · simp only [hb]
            cases nec with
            | opt => rfl
            | man => exact absurd (hall.mpr (h1.mp rfl)) hb
        · congr 1
          · -- multiplicity
            have hany : (occs.any fun o => decide (2 ≤ (Node.named ce.name o).length)) = true ↔ ∃ o ∈ occs, 2 ≤ (Node.named ce.name o).length := by
              rw [List.any_eq_true]; simp
            cases hs : ce.standalone with
            | true =>
              simp only [Bool.not_true]
              symm
              rw [Bool.eq_false_iff]
              intro hb
              have := h2.mpr (hany.mp hb)
              rw [hs] at this; cases this
            | false =>
              simp only [Bool.not_false]
              exact (hany.mpr (h2.mp hs)).symm

/-- the schema of a parsed history is `specOfDocs` of its roots -/
theorem parse_abs_eq_spec (H : List Doc) (h : historyOk H) :
    ∃ t, parseHistory (H.map Doc.events) = .ok t ∧ t.abs = specOfDocs (H.map (·.root)) := by
  cases H with
  | nil => exact absurd rfl h.1
  | cons d ds =>
    obtain ⟨-, hok, hnames⟩ := h
    obtain ⟨R, hR, hm, hn⟩ := intoStruct_doc d (hok d (by simp))
    obtain ⟨R', hR', hm', -⟩ := extend_fold ds R [d.root] (by simp) hm
      (fun d' hd' => ⟨hok d' (by simp [hd']), by rw [hn]; exact hnames d' (by simp [hd']) d (by simp)⟩)
    refine ⟨R', by simp only [parseHistory, List.map_cons, hR]; exact hR', ?_⟩
    have hm'' : Matches R' ((d :: ds).map (·.root)) := by simpa using hm'
    unfold specOfDocs
    apply abs_eq_specOf hm'' _ (by simp)
    intro o ho
    -- every depth is below the maximum
    have key : ∀ (l : List Nat) (init : Nat) (x : Nat), x ∈ l → x ≤ l.foldl max init := by
      intro l
      induction l with
      | nil => intro _ _ hx; cases hx
      | cons a as ih =>
        intro init x hx
        simp only [List.foldl_cons]
        simp only [List.mem_cons] at hx
        rcases hx with rfl | hx
        · have mono : ∀ (l : List Nat) (i : Nat), i ≤ l.foldl max i := by
            intro l
            induction l with
            | nil => intro i; exact Nat.le_refl _
            | cons b bs ihb => intro i; exact Nat.le_trans (Nat.le_max_left i b) (ihb _)
          exact Nat.le_trans (Nat.le_max_right init x) (mono as _)
        · exact ih _ x hx
    have := key (((d :: ds).map (·.root)).map Node.depth) 0 o.depth (List.mem_map_of_mem ho)
    omega

theorem le_foldl_max (l : List Nat) (init x : Nat) (hx : x ∈ l) : x ≤ l.foldl max init := by
  induction l generalizing init with
  | nil => cases hx
  | cons a as ih =>
    simp only [List.foldl_cons]
    simp only [List.mem_cons] at hx
    rcases hx with rfl | hx
    · have mono : ∀ (l : List Nat) (i : Nat), i ≤ l.foldl max i := by
        intro l
        induction l with
        | nil => intro i; exact Nat.le_refl _
        | cons b bs ihb => intro i; exact Nat.le_trans (Nat.le_max_left i b) (ihb _)
      exact Nat.le_trans (Nat.le_max_right init x) (mono as _)
    · exact ih _ hx

/-- whatever `Matches` a non-empty list of occurrences has exactly the schema `specOfDocs` computes for them -/
theorem matches_abs_eq_specOfDocs {e : Elem} {occs : List Node} (h : Matches e occs) (hne : occs ≠ []) :
    e.abs = specOfDocs occs := by
  unfold specOfDocs
  apply abs_eq_specOf h _ hne
  intro o ho
  have := le_foldl_max (occs.map Node.depth) 0 o.depth (List.mem_map_of_mem ho)
  omega

end Xsg
