import XsgModel.Model.Convert
/-! character-level facts about the model of `is_alphanumeric` / `to_uppercase` / `to_lowercase` -/
namespace Xsg

theorem toNat_ofNat (n : Nat) (h : n < 0xD800) : (Char.ofNat n).toNat = n := by
  have hv : n.isValidChar := Or.inl h
  simp [Char.ofNat, hv, Char.toNat, Char.ofNatAux]

/-- ASCII lower-case letter -/
def asciiLower (c : Char) : Bool := 97 ≤ c.toNat && c.toNat ≤ 122

theorem isUpper_alnum {c : Char} (h : isUpper c = true) : isAlnum c = true := by
  simp [isAlnum, h]
theorem isLower_alnum {c : Char} (h : isLower c = true) : isAlnum c = true := by
  simp [isAlnum, h]

theorem isLetter_iff (c : Char) : isLetter c = true ↔ isAlnum c = true ∧ isDigit c = false := by
  simp [isLetter]

/-- lower-casing an upper-case letter gives one lower-case letter -/
theorem toLower_upper {c : Char} (h : isUpper c = true) : ∃ d, toLower c = [d] ∧ isLower d = true ∧ isDigit d = false := by
  simp only [isUpper, Bool.or_eq_true, Bool.and_eq_true, decide_eq_true_eq, bne_iff_ne, ne_eq] at h
  unfold toLower
  simp only [Bool.and_eq_true, decide_eq_true_eq, bne_iff_ne, ne_eq]
  rcases h with (h | h) | h
  · rw [if_pos h]
    refine ⟨_, rfl, ?_, ?_⟩
    · simp only [isLower, toNat_ofNat (c.toNat + 32) (by omega), Bool.or_eq_true, Bool.and_eq_true, decide_eq_true_eq]; left; left; omega
    · simp only [isDigit, toNat_ofNat (c.toNat + 32) (by omega), Bool.and_eq_false_iff, decide_eq_false_iff_not]; right; omega
  · have h1 : ¬ (65 ≤ c.toNat ∧ c.toNat ≤ 90) := by omega
    rw [if_neg h1, if_pos h]
    refine ⟨_, rfl, ?_, ?_⟩
    · simp only [isLower, toNat_ofNat (c.toNat + 32) (by omega), Bool.or_eq_true, Bool.and_eq_true, decide_eq_true_eq, bne_iff_ne, ne_eq]
      left; right
      obtain ⟨⟨ha, hb⟩, hc⟩ := h
      exact ⟨⟨by omega, by omega⟩, by omega⟩
    · simp only [isDigit, toNat_ofNat (c.toNat + 32) (by omega), Bool.and_eq_false_iff, decide_eq_false_iff_not]; right; omega
  · have h1 : ¬ (65 ≤ c.toNat ∧ c.toNat ≤ 90) := by omega
    have h2 : ¬ ((0xC0 ≤ c.toNat ∧ c.toNat ≤ 0xDE) ∧ ¬ c.toNat = 0xD7) := by omega
    rw [if_neg h1, if_neg h2]
    by_cases h3 : 0x400 ≤ c.toNat ∧ c.toNat ≤ 0x40F
    · rw [if_pos h3]
      refine ⟨_, rfl, ?_, ?_⟩
      · simp only [isLower, toNat_ofNat (c.toNat + 0x50) (by omega), Bool.or_eq_true, Bool.and_eq_true, decide_eq_true_eq]; right; omega
      · simp only [isDigit, toNat_ofNat (c.toNat + 0x50) (by omega), Bool.and_eq_false_iff, decide_eq_false_iff_not]; right; omega
    · have h4 : 0x410 ≤ c.toNat ∧ c.toNat ≤ 0x42F := by omega
      rw [if_neg h3, if_pos h4]
      refine ⟨_, rfl, ?_, ?_⟩
      · simp only [isLower, toNat_ofNat (c.toNat + 0x20) (by omega), Bool.or_eq_true, Bool.and_eq_true, decide_eq_true_eq]; right; omega
      · simp only [isDigit, toNat_ofNat (c.toNat + 0x20) (by omega), Bool.and_eq_false_iff, decide_eq_false_iff_not]; right; omega

/-- lower-casing something that is not upper-case changes nothing -/
theorem toLower_not_upper {c : Char} (h : isUpper c = false) : toLower c = [c] := by
  simp only [isUpper, Bool.or_eq_false_iff, Bool.and_eq_false_iff, decide_eq_false_iff_not, bne_eq_false_iff_eq] at h
  unfold toLower
  simp only [Bool.and_eq_true, decide_eq_true_eq, bne_iff_ne, ne_eq]
  obtain ⟨⟨h1, h2⟩, h3⟩ := h
  rw [if_neg (by omega), if_neg (by omega), if_neg (by omega), if_neg (by omega)]

end Xsg

namespace Xsg

theorem S_upper : isUpper 'S' = true ∧ isDigit 'S' = false ∧ asciiLower 'S' = false := by decide

/-- upper-casing an alphanumeric character gives alphanumeric characters; a letter gives letters that are
not ASCII lower-case -/
theorem toUpper_spec {c : Char} (h : isAlnum c = true) :
    ∀ d ∈ toUpper c, isAlnum d = true ∧ (isDigit c = false → isDigit d = false ∧ asciiLower d = false) := by
  intro d hd
  by_cases hl : isLower c = true
  · -- lower-case letters are mapped into the upper-case ranges
    have hup : isUpper d = true ∧ isDigit d = false ∧ asciiLower d = false := by
      simp only [isLower, Bool.or_eq_true, Bool.and_eq_true, decide_eq_true_eq, bne_iff_ne, ne_eq] at hl
      unfold toUpper at hd
      simp only [Bool.and_eq_true, decide_eq_true_eq, bne_iff_ne, ne_eq] at hd
      rcases hl with (hl | hl) | hl
      · rw [if_pos hl] at hd
        simp only [List.mem_singleton] at hd; subst hd
        simp only [isUpper, isDigit, asciiLower, toNat_ofNat (c.toNat - 32) (by omega), Bool.or_eq_true, Bool.and_eq_true,
          decide_eq_true_eq, Bool.and_eq_false_iff, decide_eq_false_iff_not]
        exact ⟨Or.inl (Or.inl (by omega)), Or.inr (by omega), Or.inl (by omega)⟩
      · have h1 : ¬ (97 ≤ c.toNat ∧ c.toNat ≤ 122) := by omega
        rw [if_neg h1] at hd
        by_cases hdf : c.toNat = 0xDF
        · rw [if_pos hdf] at hd
          simp only [List.mem_cons, List.mem_nil_iff, or_false, or_self] at hd
          subst hd; exact S_upper
        · rw [if_neg hdf] at hd
          have h2 : (0xE0 ≤ c.toNat ∧ c.toNat ≤ 0xFE) ∧ ¬ c.toNat = 0xF7 := by
            obtain ⟨⟨ha, hb⟩, hc⟩ := hl
            exact ⟨⟨by omega, hb⟩, hc⟩
          rw [if_pos h2] at hd
          simp only [List.mem_singleton] at hd; subst hd
          simp only [isUpper, isDigit, asciiLower, toNat_ofNat (c.toNat - 32) (by omega), Bool.or_eq_true, Bool.and_eq_true,
            decide_eq_true_eq, Bool.and_eq_false_iff, decide_eq_false_iff_not, bne_iff_ne, ne_eq]
          obtain ⟨⟨ha, hb⟩, hc⟩ := h2
          exact ⟨Or.inl (Or.inr ⟨⟨by omega, by omega⟩, by omega⟩), Or.inr (by omega), Or.inr (by omega)⟩
      · have h1 : ¬ (97 ≤ c.toNat ∧ c.toNat ≤ 122) := by omega
        have h2 : ¬ c.toNat = 0xDF := by omega
        have h3 : ¬ ((0xE0 ≤ c.toNat ∧ c.toNat ≤ 0xFE) ∧ ¬ c.toNat = 0xF7) := by omega
        rw [if_neg h1, if_neg h2, if_neg h3] at hd
        by_cases h4 : 0x430 ≤ c.toNat ∧ c.toNat ≤ 0x44F
        · rw [if_pos h4] at hd
          simp only [List.mem_singleton] at hd; subst hd
          simp only [isUpper, isDigit, asciiLower, toNat_ofNat (c.toNat - 0x20) (by omega), Bool.or_eq_true, Bool.and_eq_true,
            decide_eq_true_eq, Bool.and_eq_false_iff, decide_eq_false_iff_not]
          exact ⟨Or.inr (by omega), Or.inr (by omega), Or.inr (by omega)⟩
        · have h5 : 0x450 ≤ c.toNat ∧ c.toNat ≤ 0x45F := by omega
          rw [if_neg h4, if_pos h5] at hd
          simp only [List.mem_singleton] at hd; subst hd
          simp only [isUpper, isDigit, asciiLower, toNat_ofNat (c.toNat - 0x50) (by omega), Bool.or_eq_true, Bool.and_eq_true,
            decide_eq_true_eq, Bool.and_eq_false_iff, decide_eq_false_iff_not]
          exact ⟨Or.inr (by omega), Or.inr (by omega), Or.inr (by omega)⟩
    exact ⟨isUpper_alnum hup.1, fun _ => ⟨hup.2.1, hup.2.2⟩⟩
  · -- everything else is left alone
    have hl' : isLower c = false := by cases h' : isLower c <;> simp_all
    have hself : toUpper c = [c] := by
      simp only [isLower, Bool.or_eq_false_iff, Bool.and_eq_false_iff, decide_eq_false_iff_not, bne_eq_false_iff_eq] at hl'
      unfold toUpper
      simp only [Bool.and_eq_true, decide_eq_true_eq, bne_iff_ne, ne_eq]
      obtain ⟨⟨h1, h2⟩, h3⟩ := hl'
      rw [if_neg (by omega), if_neg (by omega), if_neg (by omega), if_neg (by omega), if_neg (by omega)]
    rw [hself] at hd
    simp only [List.mem_singleton] at hd; subst hd
    refine ⟨h, fun hdg => ⟨hdg, ?_⟩⟩
    -- not lower-case, so in particular not ASCII lower-case
    simp only [isLower, Bool.or_eq_false_iff, Bool.and_eq_false_iff, decide_eq_false_iff_not] at hl'
    simp only [asciiLower, Bool.and_eq_false_iff, decide_eq_false_iff_not]
    omega

/-- lower-casing an alphanumeric character keeps it alphanumeric, a letter stays a letter -/
theorem toLower_spec {c : Char} (h : isAlnum c = true) :
    ∀ d ∈ toLower c, isAlnum d = true ∧ (isDigit c = false → isDigit d = false) := by
  intro d hd
  by_cases hu : isUpper c = true
  · obtain ⟨x, hx, hlow, hdig⟩ := toLower_upper hu
    rw [hx] at hd; simp only [List.mem_singleton] at hd; subst hd
    exact ⟨isLower_alnum hlow, fun _ => hdig⟩
  · have : isUpper c = false := by cases h' : isUpper c <;> simp_all
    rw [toLower_not_upper this] at hd
    simp only [List.mem_singleton] at hd; subst hd
    exact ⟨h, fun h' => h'⟩

end Xsg
