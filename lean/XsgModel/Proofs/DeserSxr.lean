import XsgModel.Proofs.DeserGen
/-!
# The serde-xml-rs preset and the model of `serde_xml_rs` 0.6.0

The preset binds attributes to their bare names and the text field to `$text`; the deserializer offers
attributes and children under their local names and character data under `$value`.  Inside the property's scope
(`Elem.sxrOK`: names without `:` — hence no prefixes and no `xmlns:` attributes — and without `$`, attribute
names of a position distinct from each other and from its child names; `VNode.adjacentOK`: repeated children
adjacent) the two are linked *except for the text key*: `fed = false`.  So `from_str` succeeds and keeps every
attribute value and the character data of every `String`-typed element, and drops the character data of every
element rendered as a struct — known finding K1, here as a theorem about the model.
-/
namespace Xsg

abbrev oS : Options := Options.serdeXmlRs
abbrev cS : DeCfg := DeCfg.serdeXmlRs

/-- a name without `:` and `$` -/
def plainName (k : Name) : Bool := k.all (fun c => c != ':' && c != '$')

theorem afterColon_plain : ∀ k : Name, (∀ c ∈ k, c ≠ ':') → afterColon k = none
  | [], _ => rfl
  | c :: cs, h => by
    simp only [afterColon]
    rw [if_neg (h c (by simp))]
    exact afterColon_plain cs (fun d hd => h d (by simp [hd]))

theorem plain_no_colon {k : Name} (h : plainName k = true) : ∀ c ∈ k, c ≠ ':' := by
  intro c hc e
  simp only [plainName, List.all_eq_true, Bool.and_eq_true, bne_iff_ne, ne_eq] at h
  exact (h c hc).1 e

theorem plain_no_dollar {k : Name} (h : plainName k = true) : '$' ∉ k := by
  intro hc
  simp only [plainName, List.all_eq_true, Bool.and_eq_true, bne_iff_ne, ne_eq] at h
  exact (h '$' hc).2 rfl

theorem removeNamespace_plain {k : Name} (h : plainName k = true) : removeNamespace k = k := by
  simp [removeNamespace, afterColon_plain k (plain_no_colon h)]

theorem isPrefixOf_colon : ∀ (p k : Name), ':' ∈ p → p.isPrefixOf k = true → ':' ∈ k
  | [], _, h, _ => by cases h
  | _ :: _, [], _, h => by simp [List.isPrefixOf] at h
  | a :: p, b :: k, hm, h => by
    simp only [List.isPrefixOf, Bool.and_eq_true, beq_iff_eq] at h
    simp only [List.mem_cons] at hm ⊢
    rcases hm with rfl | hm
    · left; exact h.1
    · right; exact isPrefixOf_colon p k hm h.2

theorem attrLocal_plain {k : Name} (h : plainName k = true) : attrLocal k = k := by
  unfold attrLocal
  split
  · rfl
  · exact removeNamespace_plain h

theorem plain_ne_text {k : Name} (h : plainName k = true) : k ≠ cl!"$text" := by
  intro e; apply plain_no_dollar h; rw [e]; simp

theorem plain_ne_value {k : Name} (h : plainName k = true) : k ≠ cl!"$value" := by
  intro e; apply plain_no_dollar h; rw [e]; simp

/-- the scope of C13 on the tree: plain names; attribute names distinct from each other and from the child names -/
def Elem.sxrOK : Elem → Bool
  | .mk _ _ _ _ as cs _ =>
    as.all (fun a => plainName a.2) && cs.all (fun c => plainName c.2.name) && decide ((as.map (·.2)).Nodup) &&
    as.all (fun a => cs.all (fun c => decide (a.2 ≠ c.2.name))) && sxrKids cs
where
  sxrKids : List (Nec × Elem) → Bool
    | [] => true
    | (_, e) :: rest => e.sxrOK && sxrKids rest

theorem sxrKids_iff (cs : List (Nec × Elem)) : Elem.sxrOK.sxrKids cs = true ↔ ∀ c ∈ cs, c.2.sxrOK = true := by
  induction cs with
  | nil => simp [Elem.sxrOK.sxrKids]
  | cons c cs ih =>
    obtain ⟨n, e⟩ := c
    simp [Elem.sxrOK.sxrKids, ih]

theorem sxrOK_iff (e : Elem) : e.sxrOK = true ↔
    (∀ a ∈ names e.attrs, plainName a = true) ∧ (∀ c ∈ e.children, plainName c.2.name = true) ∧ (names e.attrs).Nodup ∧
    (∀ a ∈ names e.attrs, ∀ c ∈ e.children, a ≠ c.2.name) ∧ ∀ c ∈ e.children, c.2.sxrOK = true := by
  cases e with
  | mk n t s c as cs p =>
    simp only [Elem.sxrOK, Bool.and_eq_true, decide_eq_true_eq, List.all_eq_true, sxrKids_iff, Elem.attrs, Elem.children, names,
      List.mem_map, forall_exists_index, and_imp, forall_apply_eq_imp_iff₂]
    constructor
    · rintro ⟨⟨⟨⟨h1, h2⟩, h3⟩, h4⟩, h5⟩; exact ⟨h1, h2, h3, h4, h5⟩
    · rintro ⟨h1, h2, h3, h4, h5⟩; exact ⟨⟨⟨⟨h1, h2⟩, h3⟩, h4⟩, h5⟩

mutual
/-- the scope of C13 on a document: the children with one name are adjacent, at every element -/
def VNode.adjacentOK : VNode → Bool
  | .mk _ _ _ items => items.elems.all (fun c => contiguous (fun d : VNode => decide (d.name = c.name)) items.elems) && items.adjacentOK
def VItems.adjacentOK : VItems → Bool
  | .nil => true
  | .elem n r => n.adjacentOK && r.adjacentOK
  | .text _ _ r => r.adjacentOK
  | .other _ r => r.adjacentOK
end

theorem adjacent_child : ∀ (items : VItems) (c : VNode), c ∈ items.elems → items.adjacentOK = true → c.adjacentOK = true
  | .nil, c, h, _ => by simp [VItems.elems] at h
  | .elem n r, c, h, hm => by
    simp only [VItems.adjacentOK, Bool.and_eq_true] at hm
    simp only [VItems.elems, List.mem_cons] at h
    rcases h with rfl | h
    · exact hm.1
    · exact adjacent_child r c h hm.2
  | .text _ _ r, c, h, hm => adjacent_child r c (by simpa [VItems.elems] using h) (by simpa [VItems.adjacentOK] using hm)
  | .other _ r, c, h, hm => adjacent_child r c (by simpa [VItems.elems] using h) (by simpa [VItems.adjacentOK] using hm)

/-- children of one name absent: trivially contiguous -/
theorem contiguous_none {α : Type} (p : α → Bool) (l : List α) (h : ∀ x ∈ l, p x = false) : contiguous p l = true := by
  unfold contiguous
  simp only [Bool.not_eq_true', List.any_eq_false]
  intro x hx
  have hx1 := dropWhile_sub _ _ x hx
  have hx2 := dropWhile_sub _ _ x hx1
  simp [h x hx2]

theorem admitted_child_known' {e : Elem} {n : VNode} (hadm : Admits e n.erase) (c : VNode) (hc : c ∈ n.items.elems) :
    ∃ d ∈ e.children, d.2.name = c.name := by
  cases hadm with
  | intro _ _ _ _ _ hkf _ _ _ =>
    have : n.erase.named c.name ≠ [] := by
      rw [VNode.erase_named]
      intro he
      have : c ∈ n.items.elems.filter (fun d => d.name = c.name) := by simp [hc]
      rw [List.map_eq_nil_iff] at he
      rw [he] at this; cases this
    have := hkf c.name this
    rw [Ne, getChild_none_iff] at this
    have := Classical.not_not.mp this
    simpa [childNames] using this

theorem admitted_attr_known' {e : Elem} {n : VNode} (hadm : Admits e n.erase) (x : Name × Str) (hx : x ∈ n.attrs) :
    x.1 ∈ names e.attrs := by
  cases hadm with
  | intro _ _ haf _ _ _ _ _ _ => exact haf x.1 (by rw [VNode.erase_attrs]; exact List.mem_map_of_mem hx)

theorem link_sxr (e : Elem) (n : VNode) (hk : e.sxrOK = true) (hadj : n.adjacentOK = true) (hadm : Admits e n.erase) :
    Link oS cS false e n := by
  obtain ⟨hpA, hpC, _, hdis, _⟩ := (sxrOK_iff e).mp hk
  have hxa : ∀ x ∈ n.attrs, plainName x.1 = true := fun x hx => hpA x.1 (admitted_attr_known' hadm x hx)
  have hdc : ∀ d ∈ n.items.elems, plainName d.name = true := by
    intro d hd
    obtain ⟨c, hc, hcn⟩ := admitted_child_known' hadm d hd
    rw [← hcn]; exact hpC c hc
  have hdin : ∀ d ∈ n.items.elems, ∃ c ∈ e.children, c.2.name = d.name := fun d hd => admitted_child_known' hadm d hd
  refine
    { attr_iff := ?_, attr_ne_text := ?_, attr_ne_elem := ?_, text_ne_attr := ?_, text_ne_elem := ?_, child_ne_attr := ?_,
      child_ne_text := ?_, child_iff := ?_, contig := ?_, fed_eq := fun h => (by cases h), fed_text := fun h => (by cases h),
      unfed_ne := fun _ => (by decide) }
  · intro x hx a ha
    simp only [DeCfg.serdeXmlRs, Options.serdeXmlRs, List.nil_append]
    rw [removeNamespace_plain (hxa x hx), attrLocal_plain (hpA a ha)]
  · intro a ha
    simp only [DeCfg.serdeXmlRs, Options.serdeXmlRs, List.nil_append]
    rw [attrLocal_plain (hpA a ha)]
    exact (plain_ne_value (hpA a ha)).symm
  · intro a ha d hd
    simp only [DeCfg.serdeXmlRs, Options.serdeXmlRs, List.nil_append]
    rw [removeNamespace_plain (hdc d hd), attrLocal_plain (hpA a ha)]
    obtain ⟨c, hc, hcn⟩ := hdin d hd
    rw [← hcn]
    exact (hdis a ha c hc).symm
  · intro x hx
    simp only [DeCfg.serdeXmlRs, Options.serdeXmlRs]
    rw [removeNamespace_plain (hxa x hx)]
    exact plain_ne_text (hxa x hx)
  · intro d hd
    simp only [DeCfg.serdeXmlRs, Options.serdeXmlRs]
    rw [removeNamespace_plain (hdc d hd)]
    exact plain_ne_text (hdc d hd)
  · intro c hc x hx
    simp only [DeCfg.serdeXmlRs]
    rw [removeNamespace_plain (hxa x hx), removeNamespace_plain (hpC c hc)]
    exact hdis x.1 (admitted_attr_known' hadm x hx) c hc
  · intro c hc
    simp only [DeCfg.serdeXmlRs]
    rw [removeNamespace_plain (hpC c hc)]
    exact (plain_ne_value (hpC c hc)).symm
  · intro c hc d hd
    simp only [DeCfg.serdeXmlRs]
    rw [removeNamespace_plain (hdc d hd), removeNamespace_plain (hpC c hc)]
  · intro _ c hc
    cases n with
    | mk nm as sc items =>
      simp only [VNode.adjacentOK, Bool.and_eq_true, List.all_eq_true] at hadj
      by_cases hex : ∃ d ∈ items.elems, d.name = c.2.name
      · obtain ⟨d, hd, hdn⟩ := hex
        have := hadj.1 d hd
        rw [hdn] at this
        exact this
      · apply contiguous_none
        intro d hd
        simp only [decide_eq_false_iff_not]
        intro e'
        exact hex ⟨d, by simpa [VNode.items] using hd, e'⟩

theorem bounds_nodup_sxr (hints names') (en : Entry) (hk : en.elem.sxrOK = true) (hinv : en.elem.Inv = true) :
    ((structOf oS hints names' en).plain.fields.map PField.bound').Nodup := by
  obtain ⟨hpA, hpC, hndA, hdis, _⟩ := (sxrOK_iff en.elem).mp hk
  apply bounds_nodup_gen oS rfl hints names' en
  · have : (names en.elem.attrs).map (fun a => oS.attrPrefix ++ attrLocal a) = names en.elem.attrs := by
      have : ∀ l : List Name, (∀ a ∈ l, plainName a = true) → l.map (fun a => oS.attrPrefix ++ attrLocal a) = l := by
        intro l hl
        induction l with
        | nil => rfl
        | cons a l ih =>
          simp only [List.map_cons, Options.serdeXmlRs, List.nil_append, attrLocal_plain (hl a (by simp))]
          rw [show l.map (fun a => attrLocal a) = l from ih (fun b hb => hl b (by simp [hb]))]
      exact this _ hpA
    rw [this]; exact hndA
  · have : (childNames en.elem.children).map removeNamespace = childNames en.elem.children := by
      have : ∀ l : List Name, (∀ a ∈ l, plainName a = true) → l.map removeNamespace = l := by
        intro l hl
        induction l with
        | nil => rfl
        | cons a l ih =>
          simp only [List.map_cons, removeNamespace_plain (hl a (by simp))]
          rw [ih (fun b hb => hl b (by simp [hb]))]
      apply this
      intro a ha
      simp only [childNames, List.mem_map] at ha
      obtain ⟨c, hc, rfl⟩ := ha
      exact hpC c hc
    rw [this]; exact Inv_nodup hinv
  · intro a ha
    simp only [Options.serdeXmlRs, List.nil_append]
    rw [attrLocal_plain (hpA a ha)]
    exact plain_ne_text (hpA a ha)
  · intro a ha c hc
    simp only [Options.serdeXmlRs, List.nil_append]
    rw [attrLocal_plain (hpA a ha), removeNamespace_plain (hpC c hc)]
    exact hdis a ha c hc
  · intro c hc
    rw [removeNamespace_plain (hpC c hc)]
    exact (plain_ne_text (hpC c hc)).symm

/-- the side conditions of the serde-xml-rs preset -/
def scopeSxr : Scope oS cS false where
  PE := fun e => e.sxrOK = true
  PN := fun n => n.adjacentOK = true
  PE_child := fun e c h hc => ((sxrOK_iff e).mp h).2.2.2.2 c hc
  PN_child := fun n c h hc => by
    cases n with
    | mk nm as sc items =>
      simp only [VNode.adjacentOK, Bool.and_eq_true] at h
      exact adjacent_child items c (by simpa [VNode.items] using hc) h.2
  link := fun e n hk hn _ hadm => link_sxr e n hk hn hadm
  bounds := fun hints names' en hk hinv => bounds_nodup_sxr hints names' en hk hinv

/-- **The serde-xml-rs deserializer model returns a value for every admitted document element in scope**, and the
value holds the attribute values and the character data of `String`-typed elements, and nothing else. -/
theorem deNode_sxr (t : Elem) (htInv : t.Inv = true) (n : VNode) (en : Entry)
    (hen : en ∈ walk oS.sort [] [] t) (hk : en.elem.sxrOK = true) (hadj : n.adjacentOK = true) (hinv : en.elem.Inv = true)
    (hadm : Admits en.elem n.erase) (hok : n.erase.ok = true) (hmodel : n.inModel cS = true) :
    ∃ v, deNode cS ((renderAST oS t).map StructDef.plain) false
      (structNameOf (hintOf (fillNames [] t)) (structNames (hintOf (fillNames [] t)) t) en.path en.trace en.elem) n = .ok v ∧
      (ne v.strings).Perm (ne (n.kept false cS en.elem)) :=
  deNode_gen oS cS false rfl scopeSxr t htInv false (fun h => by cases h) n en hen hk hadj hinv hadm hok hmodel

end Xsg
