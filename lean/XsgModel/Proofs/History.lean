import XsgModel.Proofs.AbsorbSpec
import XsgModel.Proofs.Refine
/-! from single elements to documents and histories -/
namespace Xsg

theorem absorbItems_noElems (is : Items) (f : Frame) (h : is.noElems = true) :
    (absorbItems f is).elem.children = f.elem.children ∧ (absorbItems f is).known = f.known := by
  cases is with
  | nil => exact ⟨rfl, rfl⟩
  | elem n r => simp [Items.noElems] at h
  | text cd r =>
    have := absorbItems_noElems r { f with elem := f.elem.setText true } (by simpa [Items.noElems] using h)
    simpa [absorbItems] using this
  | other r => simpa [absorbItems] using absorbItems_noElems r f (by simpa [Items.noElems] using h)

/-- a document as the parser needs it: only misc around a well-formed root -/
def Doc.ok (d : Doc) : Bool := d.pre.noElems && d.root.ok && d.post.noElems

theorem buildFrom_doc (w : Elem) (d : Doc) :
    buildFrom w d.events =
      extractRoot (absorbItems (absorbNode (absorbItems ⟨w, [], none⟩ d.pre) d.root) d.post).elem := by
  unfold buildFrom Doc.events
  rw [runEvents_append, runEvents_append, runEvents_append, run_items, run_node, run_items]
  simp [runEvents, step, unwind, finish]

theorem extractRoot_of_single {w : Elem} {k : Name} {nec : Nec} {R : Elem}
    (h1 : getChild w.children k = some (nec, R)) (h2 : ∀ d, d ≠ k → getChild w.children d = none) :
    extractRoot w = .ok R := by
  unfold extractRoot
  cases hc : w.children with
  | nil => rw [hc] at h1; simp [getChild] at h1
  | cons c cs =>
    obtain ⟨n, e⟩ := c
    simp only
    have hname : e.name = k := by
      by_cases hk : e.name = k
      · exact hk
      · have := h2 e.name hk
        rw [hc, getChild_cons] at this; simp at this
    rw [hname, ← hc, h1]

/-- what one document does to the wrapper: the entry of the root name is rebuilt, nothing else is touched -/
theorem doc_step (w : Elem) (d : Doc) (hw : (childNames w.children).Nodup) (hd : d.ok = true) :
    let w' := (absorbItems (absorbNode (absorbItems ⟨w, [], none⟩ d.pre) d.root) d.post).elem
    (∀ m, m ≠ d.root.name → getChild w'.children m = getChild w.children m) ∧
    Post (getChild w.children d.root.name) [] (getChild w'.children d.root.name) d.root.name [d.root] := by
  simp only [Doc.ok, Bool.and_eq_true] at hd
  obtain ⟨⟨hpre, hroot⟩, hpost⟩ := hd
  have h1 := absorbItems_noElems d.pre ⟨w, [], none⟩ hpre
  have spec := absorbNode_spec d.root (absorbItems ⟨w, [], none⟩ d.pre) (by rw [h1.1]; exact hw) hroot
  have h3 := absorbItems_noElems d.post (absorbNode (absorbItems ⟨w, [], none⟩ d.pre) d.root) hpost
  simp only
  rw [h3.1]
  refine ⟨fun m hm => ?_, ?_⟩
  · rw [spec.others m hm, h1.1]
  · have := spec.post
    rw [h1.1, h1.2] at this
    exact this

theorem intoStruct_doc (d : Doc) (hd : d.ok = true) :
    ∃ R, intoStruct d.events = .ok R ∧ Matches R [d.root] ∧ R.name = d.root.name := by
  unfold intoStruct
  rw [buildFrom_doc]
  have hs := doc_step wrapper0 d (by simp [wrapper0, childNames]) hd
  simp only at hs
  obtain ⟨hothers, hpost⟩ := hs
  have h0 : getChild wrapper0.children d.root.name = none := rfl
  rw [h0] at hpost
  unfold Post at hpost
  simp only [List.cons_ne_nil, if_false] at hpost
  obtain ⟨R, hR, hm, -, -⟩ := hpost
  refine ⟨R, ?_, hm, getChild_some_name hR⟩
  apply extractRoot_of_single hR
  intro m hm'
  rw [hothers m hm']; rfl

theorem extendStruct_doc (t : Elem) (occs : List Node) (hocc : occs ≠ []) (hm : Matches t occs)
    (d : Doc) (hd : d.ok = true) (hname : d.root.name = t.name) :
    ∃ R, extendStruct t d.events = .ok R ∧ Matches R (occs ++ [d.root]) ∧ R.name = t.name := by
  unfold extendStruct
  rw [buildFrom_doc]
  have hw0 : addUniqueChild wrapper0.children t = [(.man, withPosition [] t)] := by
    have : getChild wrapper0.children t.name = none := rfl
    rw [addUniqueChild_of_absent this]; rfl
  rw [hw0]
  have hs := doc_step (wrapper0.setChildren [(.man, withPosition [] t)]) d (by simp [childNames]) hd
  simp only at hs
  obtain ⟨hothers, hpost⟩ := hs
  have h0 : getChild (wrapper0.setChildren [(Nec.man, withPosition [] t)]).children d.root.name = some (.man, withPosition [] t) := by
    simp [getChild_singleton, hname]
  rw [h0] at hpost
  unfold Post at hpost
  simp only [List.cons_ne_nil, if_false] at hpost
  obtain ⟨R, hR, hmm, -, -⟩ := hpost
  have hm' : Matches (withPosition [] t) occs := hm.congr (by simp) (by simp) (by simp)
  refine ⟨R, ?_, hmm occs hocc hm', ?_⟩
  · apply extractRoot_of_single hR
    intro m hne
    rw [hothers m hne]
    simp [getChild_singleton]
    intro e; exact hne (by rw [← e, hname])
  · rw [getChild_some_name hR, hname]

/-- a history: documents with a common root name -/
def historyOk (H : List Doc) : Prop :=
  H ≠ [] ∧ (∀ d ∈ H, d.ok = true) ∧ ∀ d ∈ H, ∀ d' ∈ H, d.root.name = d'.root.name

theorem extend_fold (ds : List Doc) (t : Elem) (occs : List Node) (hocc : occs ≠ []) (hm : Matches t occs)
    (hds : ∀ d ∈ ds, d.ok = true ∧ d.root.name = t.name) :
    ∃ R, (ds.map Doc.events).foldl extendStep (Except.ok t) = Except.ok R ∧ Matches R (occs ++ ds.map (·.root)) ∧ R.name = t.name := by
  induction ds generalizing t occs with
  | nil => exact ⟨t, rfl, by simpa using hm, rfl⟩
  | cons d ds ih =>
    obtain ⟨R, hR, hmR, hn⟩ := extendStruct_doc t occs hocc hm d (hds d (by simp)).1 (hds d (by simp)).2
    simp only [List.map_cons, List.foldl_cons, extendStep, hR]
    obtain ⟨R', hR', hmR', hn'⟩ := ih R (occs ++ [d.root]) (by simp) hmR
      (fun d' hd' => ⟨(hds d' (by simp [hd'])).1, by rw [hn]; exact (hds d' (by simp [hd'])).2⟩)
    exact ⟨R', hR', by simpa [List.append_assoc] using hmR', hn'.trans hn⟩

end Xsg
