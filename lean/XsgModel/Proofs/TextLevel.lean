import XsgModel.Proofs.ReadPrint
import XsgModel.Proofs.StructNames
import XsgModel.Proofs.Hints
/-! the rendered *text* of a tree with well-behaved names reads back as the rendered AST -/
namespace Xsg

theorem xidContinue_not_special {c : Char} (h : xidContinue c = true) : c ≠ ':' ∧ c ≠ '\n' ∧ c ≠ '<' ∧ c ≠ '>' := by
  refine ⟨?_, ?_, ?_, ?_⟩ <;> (intro e; subst e; revert h; decide)

theorem alnum_not_special {c : Char} (h : isAlnum c = true) : c ≠ ':' ∧ c ≠ '\n' ∧ c ≠ '<' ∧ c ≠ '>' :=
  xidContinue_not_special (xidContinue_of_alnum h)

theorem legalIdent_chars {n : Name} (h : legalIdent n = true) : ∀ c ∈ n, c ≠ ':' ∧ c ≠ '\n' := by
  rw [legalIdent_iff] at h
  obtain ⟨h1, h2, _⟩ := h
  cases n with
  | nil => intro c hc; cases hc
  | cons d ds =>
    intro c hc
    simp only [List.mem_cons] at hc
    rcases hc with rfl | hc
    · rcases h1 with h1 | ⟨h1, _⟩
      · have : isAlnum c = true := by simp only [xidStart, isLetter, Bool.and_eq_true] at h1; exact h1.1
        exact ⟨(alnum_not_special this).1, (alnum_not_special this).2.1⟩
      · subst h1; exact ⟨by decide, by decide⟩
    · have := (List.all_eq_true.mp h2) c hc
      exact ⟨(xidContinue_not_special this).1, (xidContinue_not_special this).2.1⟩

theorem nameOK_nonl {n : Name} (h : nameOK n = true) : NoNL n := by
  simp only [nameOK, Bool.and_eq_true] at h
  intro hm
  have := (List.all_eq_true.mp h.1) '\n' hm
  revert this; decide

theorem afterColon_suffix (n r : Name) (h : afterColon n = some r) : ∀ c ∈ r, c ∈ n := by
  induction n with
  | nil => simp [afterColon] at h
  | cons x xs ih =>
    simp only [afterColon] at h
    split at h
    · simp only [Option.some.injEq] at h; subst h; intro c hc; exact List.mem_cons_of_mem _ hc
    · intro c hc; exact List.mem_cons_of_mem _ (ih h c hc)

theorem removeNamespace_sub (n : Name) : ∀ c ∈ removeNamespace n, c ∈ n := by
  unfold removeNamespace
  cases h : afterColon n with
  | none => intro c hc; exact hc
  | some r => intro c hc; exact afterColon_suffix n r h c hc

theorem attrLocal_nonl' {a : Name} (h : NoNL a) : NoNL (if startsWithXmlns a then a else removeNamespace a) := by
  split
  · exact h
  · intro hm; exact h (removeNamespace_sub a _ hm)

end Xsg
