import XsgModel.Proofs.Ops
import XsgModel.Proofs.TreeNames
import XsgModel.Proofs.InvMachine
/-!
# Trees built by the public operations keep legal, distinct names (for the rendering clause of C16)

If every name handed to the operations satisfies `p` and the attribute lists handed to `Element::new` and
`merge_attr` are duplicate-free, every reachable tree satisfies `TreeOK p` (names satisfy `p`, attribute names
distinct per element) — together with `Elem.Inv` exactly what the C04 theorems need.
-/
namespace Xsg

theorem TreeOK.congr {p : Name → Bool} {e e' : Elem} (h : TreeOK p e) (hn : e'.name = e.name) (ha : e'.attrs = e.attrs)
    (hc : e'.children = e.children) : TreeOK p e' :=
  TreeOK.intro e' (by rw [hn]; exact h.name) (by rw [ha]; exact h.attrs) (by rw [ha]; exact h.nodup) (by rw [hc]; exact h.kids)

theorem TreeOK.setKids {p : Name → Bool} {e : Elem} (h : TreeOK p e) (cs : List (Nec × Elem)) (hcs : ∀ c ∈ cs, TreeOK p c.2) :
    TreeOK p (e.setChildren cs) :=
  TreeOK.intro _ (by simpa using h.name) (by cases e; exact h.attrs) (by cases e; exact h.nodup) (by simpa using hcs)

/-- which operations are within the scope of the rendering clause -/
def Op.ok (p : Name → Bool) : Op → Prop
  | .add _ name attrs => p name = true ∧ (∀ a ∈ attrs, p a = true) ∧ attrs.Nodup
  | .mergeAttr _ l => (∀ a ∈ names l, p a = true) ∧ (names l).Nodup
  | _ => True

theorem TreeOK_new (p : Name → Bool) (name : Name) (attrs : List Name) (hn : p name = true) (ha : ∀ a ∈ attrs, p a = true)
    (hnd : attrs.Nodup) : TreeOK p (Elem.new name attrs) := by
  refine TreeOK.intro _ hn ?_ ?_ ?_
  · intro a h
    simp only [Elem.new, Elem.attrs, names, List.map_map, List.mem_map, Function.comp] at h
    obtain ⟨x, hx, rfl⟩ := h
    exact ha x hx
  · simpa [Elem.new, Elem.attrs, names, List.map_map, Function.comp_def] using hnd
  · intro c hc; simp [Elem.new, Elem.children] at hc

theorem TreeOK_modifyAt (p : Name → Bool) (path : List Name) (f : Elem → Elem) (hf : ∀ e, TreeOK p e → TreeOK p (f e))
    (e : Elem) (h : TreeOK p e) : TreeOK p (modifyAt path f e) := by
  induction path generalizing e with
  | nil => exact hf e h
  | cons q qs ih =>
    simp only [modifyAt]
    apply h.setKids
    intro c hc
    rcases mem_modifyFirst hc with hc | ⟨d, hd, rfl⟩
    · exact h.kids c hc
    · exact ih d.2 (h.kids d hd)

theorem TreeOK_elemAt (p : Name → Bool) : ∀ (path : List Name) (t e : Elem), TreeOK p t → elemAt path t = some e → TreeOK p e
  | [], t, e, h, he => by simp only [elemAt, Option.some.injEq] at he; rw [← he]; exact h
  | q :: qs, t, e, h, he => by
    simp only [elemAt] at he
    split at he
    · rename_i nec c hg
      exact TreeOK_elemAt p qs c e (h.kids (nec, c) (getChild_some_mem hg)) he
    · cases he

theorem TreeOK_withPosition (p : Name → Bool) (cs : List (Nec × Elem)) (e : Elem) (h : TreeOK p e) : TreeOK p (withPosition cs e) := by
  unfold withPosition
  split
  · apply h.congr <;> cases e <;> rfl
  · exact h

theorem TreeOK_op (p : Name → Bool) (t : Elem) (op : Op) (hop : op.ok p) (hinv : t.Inv = true) (h : TreeOK p t) :
    TreeOK p (applyOp t op).1 := by
  cases op with
  | add path name attrs =>
    obtain ⟨hn, ha, hnd⟩ := hop
    apply TreeOK_modifyAt p path _ _ t h
    intro e he
    apply he.setKids
    intro c hc
    cases hg : getChild e.children (Elem.new name attrs).name with
    | some d => rw [addUniqueChild_of_present (by rw [hg]; rfl)] at hc; exact he.kids c hc
    | none =>
      rw [addUniqueChild_of_absent hg] at hc
      simp only [List.mem_append, List.mem_singleton] at hc
      rcases hc with hc | rfl
      · exact he.kids c hc
      · exact TreeOK_withPosition p _ _ (TreeOK_new p name attrs hn ha hnd)
  | setOptional path name =>
    apply TreeOK_modifyAt p path _ _ t h
    intro e he
    apply he.setKids
    intro c hc
    -- `set_child_optional` keeps every child's payload
    unfold setChildOptional at hc
    cases hg : getChild e.children name with
    | none => rw [hg] at hc; exact he.kids c hc
    | some d =>
      rw [hg] at hc
      simp only at hc
      unfold addUnique at hc
      split at hc
      · exact he.kids c (mem_eraseChild hc)
      · simp only [List.mem_append, List.mem_singleton] at hc
        rcases hc with hc | rfl
        · exact he.kids c (mem_eraseChild hc)
        · exact he.kids d (getChild_some_mem hg)
  | remove path name =>
    apply TreeOK_modifyAt p path _ _ t h
    intro e he
    exact he.setKids _ (fun c hc => he.kids c (mem_eraseChild hc))
  | mergeAttr path l =>
    obtain ⟨hl, hnd⟩ := hop
    apply TreeOK_modifyAt p path _ _ t h
    intro e he
    have hnames := mergeNec_names e.attrs l hnd
    refine TreeOK.intro _ (by simpa [Elem.mergeAttr] using he.name) ?_ ?_ ?_
    · intro a ha
      have ha' : a ∈ names (mergeNec e.attrs l) := by cases e; exact ha
      rw [hnames] at ha'
      simp only [List.mem_append, List.mem_filter] at ha'
      rcases ha' with ha' | ha'
      · exact he.attrs a ha'
      · exact hl a ha'.1
    · have : (names (mergeNec e.attrs l)).Nodup := by
        rw [hnames, List.nodup_append]
        refine ⟨he.nodup, hnd.filter _, ?_⟩
        intro a ha b hb e'
        subst e'
        simp only [List.mem_filter, decide_eq_true_eq] at hb
        exact hb.2 ha
      cases e; exact this
    · intro c hc
      have : c ∈ e.children := by cases e; exact hc
      exact he.kids c this
  | setMultiple path =>
    apply TreeOK_modifyAt p path _ _ t h
    intro e he
    apply he.congr <;> cases e <;> rfl
  | setText path =>
    apply TreeOK_modifyAt p path _ _ t h
    intro e he
    apply he.congr <;> cases e <;> rfl
  | get path name => exact h
  | move src name dst =>
    simp only [applyOp]
    split
    · exact h
    · rename_i c hc
      obtain ⟨e, he, hg⟩ : ∃ e, elemAt src t = some e ∧ getChild e.children name = some c := by
        cases hs : elemAt src t with
        | none => rw [hs] at hc; cases hc
        | some e => rw [hs] at hc; exact ⟨e, rfl, hc⟩
      have hck : TreeOK p c.2 := (TreeOK_elemAt p src t e h he).kids c (getChild_some_mem hg)
      apply TreeOK_modifyAt p dst _ _ _ (TreeOK_modifyAt p src _ (fun e he => he.setKids _ (fun d hd => he.kids d (mem_eraseChild hd))) t h)
      intro e' he'
      apply he'.setKids
      intro d hd
      cases hg' : getChild e'.children c.2.name with
      | some x => rw [addUniqueChild_of_present (by rw [hg']; rfl)] at hd; exact he'.kids d hd
      | none =>
        rw [addUniqueChild_of_absent hg'] at hd
        simp only [List.mem_append, List.mem_singleton] at hd
        rcases hd with hd | rfl
        · exact he'.kids d hd
        · exact TreeOK_withPosition p _ _ hck

end Xsg
