import XsgModel.Proofs.DeserQuick
import XsgModel.Proofs.DeserSxr
import XsgModel.Proofs.SpecOf
import XsgModel.Proofs.StructCount
/-!
# The side condition of C02 stated on the documents

`Elem.keysOK` (what `deNode_ok` needs of the tree) is the same as `Schema.keysOK` of the tree's schema, and that
schema is `specOfDocs` of the document roots (`C03_spec_exact`).  So the condition is a decidable predicate of
the documents: per position of the merged history, the attribute names, and the child names, are pairwise
distinct after removing namespace prefixes.
-/
namespace Xsg

def Schema.keysOK : Schema → Bool
  | .mk _ as ks =>
    decide ((as.map fun a => attrLocal a.2).Nodup) && decide ((ks.map fun k => removeNamespace k.1).Nodup) &&
    ks.all (fun k => childKeyOK k.1) && kidsOK ks
where
  kidsOK : List (Name × Nec × Bool × Schema) → Bool
    | [] => true
    | (_, _, _, s) :: rest => s.keysOK && kidsOK rest

theorem Schema.kidsOK_eq (ks : List (Name × Nec × Bool × Schema)) :
    Schema.keysOK.kidsOK ks = ks.all (fun k => k.2.2.2.keysOK) := by
  induction ks with
  | nil => rfl
  | cons k ks ih =>
    obtain ⟨a, b, c, s⟩ := k
    simp [Schema.keysOK.kidsOK, ih]

theorem Elem.keysKids_eq (cs : List (Nec × Elem)) : Elem.keysOK.keysKids cs = cs.all (fun c => c.2.keysOK) := by
  induction cs with
  | nil => rfl
  | cons c cs ih =>
    obtain ⟨a, e⟩ := c
    simp [Elem.keysOK.keysKids, ih]

theorem abs_keysOK (e : Elem) : e.abs.keysOK = e.keysOK := by
  cases e with
  | mk n t s cnt as cs p =>
    have hp := abs_kids_perm cs
    have ih : ∀ c ∈ cs, c.2.abs.keysOK = c.2.keysOK := by
      intro c hc
      have hlt : sizeOf c.2 < sizeOf (Elem.mk n t s cnt as cs p) := sizeOf_child_lt (e := Elem.mk n t s cnt as cs p) hc
      exact abs_keysOK c.2
    simp only [Elem.abs, Schema.keysOK, Elem.keysOK, Schema.kidsOK_eq, Elem.keysKids_eq]
    congr 1
    · congr 1
      · congr 1
        · simp [List.map_map, Function.comp_def]
        · apply decide_eq_decide.mpr
          have := (hp.map (fun k => removeNamespace k.1)).nodup_iff
          simpa [List.map_map, Function.comp_def] using this
      · rw [hp.all_eq]
        simp [List.all_map, Function.comp_def]
    · rw [hp.all_eq]
      simp only [List.all_map, Function.comp_def]
      rw [Bool.eq_iff_iff, List.all_eq_true, List.all_eq_true]
      constructor
      · intro h c hc; rw [← ih c hc]; exact h c hc
      · intro h c hc; rw [ih c hc]; exact h c hc
termination_by sizeOf e
decreasing_by
  exact hlt

/-! ### the scope of C13 on the schema of the documents -/

def Schema.sxrOK : Schema → Bool
  | .mk _ as ks =>
    as.all (fun a => plainName a.2) && ks.all (fun k => plainName k.1) && decide ((as.map (·.2)).Nodup) &&
    as.all (fun a => ks.all (fun k => decide (a.2 ≠ k.1))) && kidsOK ks
where
  kidsOK : List (Name × Nec × Bool × Schema) → Bool
    | [] => true
    | (_, _, _, s) :: rest => s.sxrOK && kidsOK rest

theorem Schema.sxrKidsOK_eq (ks : List (Name × Nec × Bool × Schema)) :
    Schema.sxrOK.kidsOK ks = ks.all (fun k => k.2.2.2.sxrOK) := by
  induction ks with
  | nil => rfl
  | cons k ks ih =>
    obtain ⟨a, b, c, s⟩ := k
    simp [Schema.sxrOK.kidsOK, ih]

theorem Elem.sxrKids_eq (cs : List (Nec × Elem)) : Elem.sxrOK.sxrKids cs = cs.all (fun c => c.2.sxrOK) := by
  induction cs with
  | nil => rfl
  | cons c cs ih =>
    obtain ⟨a, e⟩ := c
    simp [Elem.sxrOK.sxrKids, ih]

theorem abs_sxrOK (e : Elem) : e.abs.sxrOK = e.sxrOK := by
  cases e with
  | mk n t s cnt as cs p =>
    have hp := abs_kids_perm cs
    have ih : ∀ c ∈ cs, c.2.abs.sxrOK = c.2.sxrOK := by
      intro c hc
      have hlt : sizeOf c.2 < sizeOf (Elem.mk n t s cnt as cs p) := sizeOf_child_lt (e := Elem.mk n t s cnt as cs p) hc
      exact abs_sxrOK c.2
    simp only [Elem.abs, Schema.sxrOK, Elem.sxrOK, Schema.sxrKidsOK_eq, Elem.sxrKids_eq]
    congr 1
    · congr 1
      · congr 1
        congr 1
        rw [hp.all_eq]
        simp [List.all_map, Function.comp_def]
      · apply List.all_congr rfl
        intro a
        rw [hp.all_eq]
        simp [List.all_map, Function.comp_def]
    · rw [hp.all_eq]
      simp only [List.all_map, Function.comp_def]
      rw [Bool.eq_iff_iff, List.all_eq_true, List.all_eq_true]
      constructor
      · intro h c hc; rw [← ih c hc]; exact h c hc
      · intro h c hc; rw [ih c hc]; exact h c hc
termination_by sizeOf e
decreasing_by
  exact hlt

end Xsg
