import XsgModel.Model.Element
/-! the child list of an element as a finite map keyed by name -/
namespace Xsg

theorem getChild_none_iff {cs : List (Nec × Elem)} {n : Name} : getChild cs n = none ↔ n ∉ childNames cs := by
  simp [getChild, childNames, List.find?_eq_none]

theorem getChild_some_name {cs : List (Nec × Elem)} {n c} (h : getChild cs n = some c) : c.2.name = n := by
  have := List.find?_some h; simpa using this

theorem getChild_some_mem {cs : List (Nec × Elem)} {n c} (h : getChild cs n = some c) : c ∈ cs :=
  List.mem_of_find?_eq_some h

theorem getChild_cons (c : Nec × Elem) (cs n) :
    getChild (c :: cs) n = if c.2.name = n then some c else getChild cs n := by
  simp only [getChild, List.find?_cons]; split <;> simp_all

theorem getChild_append {cs ds : List (Nec × Elem)} {n} : getChild (cs ++ ds) n = (getChild cs n).or (getChild ds n) := by
  simp [getChild, List.find?_append]

theorem getChild_of_mem_nodup {cs : List (Nec × Elem)} (h : (childNames cs).Nodup) {c} (hc : c ∈ cs) :
    getChild cs c.2.name = some c := by
  induction cs with
  | nil => cases hc
  | cons d ds ih =>
    simp only [childNames, List.map_cons, List.nodup_cons] at h
    rw [getChild_cons]
    simp only [List.mem_cons] at hc
    rcases hc with rfl | hc
    · simp
    · have : d.2.name ≠ c.2.name := by
        intro e; apply h.1; rw [e]; exact List.mem_map_of_mem (f := fun x => x.2.name) hc
      simp [this, ih h.2 hc]

theorem childNames_eraseChild_sub {cs : List (Nec × Elem)} {n m} (h : m ∈ childNames (eraseChild cs n)) : m ∈ childNames cs := by
  induction cs with
  | nil => simp [eraseChild, childNames] at h
  | cons c cs ih =>
    unfold eraseChild at h
    split at h
    · simp only [childNames, List.map_cons, List.mem_cons]; exact Or.inr h
    · simp only [childNames, List.map_cons, List.mem_cons] at h ⊢
      rcases h with h | h
      · exact Or.inl h
      · exact Or.inr (ih h)

theorem getChild_eraseChild_ne {cs : List (Nec × Elem)} {n m} (h : m ≠ n) : getChild (eraseChild cs n) m = getChild cs m := by
  induction cs with
  | nil => rfl
  | cons c cs ih =>
    unfold eraseChild
    split
    · rename_i hc; rw [getChild_cons]; simp [hc, Ne.symm h]
    · rw [getChild_cons, getChild_cons, ih]

theorem getChild_eraseChild_self {cs : List (Nec × Elem)} {n} (h : (childNames cs).Nodup) : getChild (eraseChild cs n) n = none := by
  induction cs with
  | nil => rfl
  | cons c cs ih =>
    simp only [childNames, List.map_cons, List.nodup_cons] at h
    unfold eraseChild
    split
    · rename_i hc; rw [getChild_none_iff]; rw [← hc]; exact h.1
    · rename_i hc; rw [getChild_cons]; simp [hc, ih h.2]

theorem nodup_eraseChild {cs : List (Nec × Elem)} {n} (h : (childNames cs).Nodup) : (childNames (eraseChild cs n)).Nodup := by
  induction cs with
  | nil => simpa [eraseChild]
  | cons c cs ih =>
    simp only [childNames, List.map_cons, List.nodup_cons] at h
    unfold eraseChild
    split
    · exact h.2
    · simp only [childNames, List.map_cons, List.nodup_cons]
      exact ⟨fun hm => h.1 (childNames_eraseChild_sub hm), ih h.2⟩

theorem eraseChild_of_absent {cs : List (Nec × Elem)} {n} (h : getChild cs n = none) : eraseChild cs n = cs := by
  induction cs with
  | nil => rfl
  | cons c cs ih =>
    rw [getChild_cons] at h
    unfold eraseChild
    split at h
    · cases h
    · rename_i hc; simp [hc, ih h]

theorem length_eraseChild {cs : List (Nec × Elem)} {n c} (h : getChild cs n = some c) : (eraseChild cs n).length + 1 = cs.length := by
  induction cs with
  | nil => simp [getChild] at h
  | cons d ds ih =>
    rw [getChild_cons] at h
    unfold eraseChild
    split at h
    · rename_i hc; simp [hc]
    · rename_i hc; simp [hc, ih h]

/-- `add_unique` appends when no child has that name -/
theorem addUnique_of_absent {cs : List (Nec × Elem)} {d : Nec × Elem} (h : getChild cs d.2.name = none) :
    addUnique cs d = cs ++ [d] := by
  unfold addUnique
  have : (cs.any fun c => decide (c.1 = d.1 ∧ c.2.name = d.2.name)) = false := by
    rw [List.any_eq_false]
    intro c hc
    simp only [decide_eq_true_eq, not_and]
    intro _ hn
    rw [getChild_none_iff] at h
    apply h; rw [← hn]; exact List.mem_map_of_mem (f := fun x => x.2.name) hc
  simp only [this, Bool.false_eq_true, if_false]

/-- the child that `add_unique_child` stores: the position is filled in if it is missing -/
def withPosition (cs : List (Nec × Elem)) (c : Elem) : Elem :=
  if c.position.isNone then c.setPosition (some cs.length) else c

@[simp] theorem name_setPosition (c : Elem) (p) : (c.setPosition p).name = c.name := by cases c; rfl
@[simp] theorem name_withPosition (cs) (c : Elem) : (withPosition cs c).name = c.name := by
  unfold withPosition; split <;> simp

theorem addUniqueChild_of_absent {cs : List (Nec × Elem)} {c : Elem} (h : getChild cs c.name = none) :
    addUniqueChild cs c = cs ++ [(.man, withPosition cs c)] := by
  unfold addUniqueChild
  simp only [h, Option.isSome_none, Bool.false_eq_true, if_false]
  exact addUnique_of_absent (d := (.man, withPosition cs c)) (by simpa using h)

theorem addUniqueChild_of_present {cs : List (Nec × Elem)} {c : Elem} (h : (getChild cs c.name).isSome) :
    addUniqueChild cs c = cs := by
  unfold addUniqueChild; simp [h]

theorem getChild_singleton (d : Nec × Elem) (n : Name) : getChild [d] n = if d.2.name = n then some d else none := by
  rw [getChild_cons]; rfl

theorem getChild_addUniqueChild_self {cs : List (Nec × Elem)} {c : Elem} (h : getChild cs c.name = none) :
    getChild (addUniqueChild cs c) c.name = some (.man, withPosition cs c) := by
  rw [addUniqueChild_of_absent h, getChild_append, h, getChild_singleton]; simp

theorem getChild_addUniqueChild_ne {cs : List (Nec × Elem)} {c : Elem} {m} (h : m ≠ c.name) :
    getChild (addUniqueChild cs c) m = getChild cs m := by
  cases hc : getChild cs c.name with
  | some d => rw [addUniqueChild_of_present (by simp [hc])]
  | none =>
    rw [addUniqueChild_of_absent hc, getChild_append, getChild_singleton]
    simp [Ne.symm h]

theorem nodup_addUniqueChild {cs : List (Nec × Elem)} {c : Elem} (h : (childNames cs).Nodup) :
    (childNames (addUniqueChild cs c)).Nodup := by
  cases hc : getChild cs c.name with
  | some d => rw [addUniqueChild_of_present (by simp [hc])]; exact h
  | none =>
    rw [addUniqueChild_of_absent hc]
    have : c.name ∉ childNames cs := getChild_none_iff.mp hc
    simp only [childNames, List.map_append, List.map_cons, List.map_nil, name_withPosition]
    rw [List.nodup_append]
    refine ⟨h, by simp, ?_⟩
    intro a ha b hb e
    simp at hb; subst hb; subst e; exact this ha

theorem setChildOptional_of_present {cs : List (Nec × Elem)} {n c} (hn : (childNames cs).Nodup) (h : getChild cs n = some c) :
    setChildOptional cs n = eraseChild cs n ++ [(.opt, c.2)] := by
  unfold setChildOptional
  rw [h]
  apply addUnique_of_absent
  simp only [getChild_some_name h]
  exact getChild_eraseChild_self hn

theorem setChildOptional_of_absent {cs : List (Nec × Elem)} {n} (h : getChild cs n = none) : setChildOptional cs n = cs := by
  unfold setChildOptional; rw [h]

def demote (c : Option (Nec × Elem)) : Option (Nec × Elem) := c.map (fun c => (.opt, c.2))

theorem demote_demote (c) : demote (demote c) = demote c := by cases c <;> rfl

theorem getChild_setChildOptional (cs : List (Nec × Elem)) (n m : Name) (h : (childNames cs).Nodup) :
    getChild (setChildOptional cs n) m = if m = n then demote (getChild cs m) else getChild cs m := by
  cases hc : getChild cs n with
  | none =>
    rw [setChildOptional_of_absent hc]
    split
    · rename_i e; subst e; simp [hc, demote]
    · rfl
  | some c =>
    rw [setChildOptional_of_present h hc, getChild_append, getChild_singleton]
    have hcn := getChild_some_name hc
    by_cases e : m = n
    · subst e; simp [getChild_eraseChild_self h, hc, hcn, demote]
    · simp only [e, if_false, getChild_eraseChild_ne e]
      have : c.2.name ≠ m := by rw [hcn]; exact Ne.symm e
      simp [this]

theorem nodup_setChildOptional {cs : List (Nec × Elem)} {n} (h : (childNames cs).Nodup) : (childNames (setChildOptional cs n)).Nodup := by
  cases hc : getChild cs n with
  | none => rw [setChildOptional_of_absent hc]; exact h
  | some c =>
    rw [setChildOptional_of_present h hc]
    have h1 := nodup_eraseChild (n := n) h
    have h2 : n ∉ childNames (eraseChild cs n) := getChild_none_iff.mp (getChild_eraseChild_self h)
    have hcn := getChild_some_name hc
    simp only [childNames, List.map_append, List.map_cons, List.map_nil]
    rw [List.nodup_append]
    refine ⟨h1, by simp, ?_⟩
    intro a ha b hb e
    simp at hb; subst hb; subst e; rw [hcn] at ha; exact h2 ha

theorem childNames_setChildOptional_perm {cs : List (Nec × Elem)} {n} (h : (childNames cs).Nodup) (m : Name) :
    m ∈ childNames (setChildOptional cs n) ↔ m ∈ childNames cs := by
  have h1 := getChild_setChildOptional cs n m h
  have := @getChild_none_iff (setChildOptional cs n) m
  have h2 := @getChild_none_iff cs m
  constructor
  · intro hm
    by_cases hne : m ∈ childNames cs
    · exact hne
    · have := h2.mpr hne
      rw [this] at h1
      have : getChild (setChildOptional cs n) m = none := by rw [h1]; split <;> simp [demote]
      exact absurd hm (getChild_none_iff.mp this)
  · intro hm
    by_cases hne : m ∈ childNames (setChildOptional cs n)
    · exact hne
    · have hnone := getChild_none_iff.mpr hne
      rw [hnone] at h1
      have : getChild cs m = none := by
        split at h1
        · cases hg : getChild cs m with
          | none => rfl
          | some c => rw [hg] at h1; simp [demote] at h1
        · exact h1.symm
      exact absurd hm (h2.mp this)

theorem fold_setChildOptional_nodup (ns : List Name) (cs : List (Nec × Elem)) (h : (childNames cs).Nodup) :
    (childNames (ns.foldl setChildOptional cs)).Nodup := by
  induction ns generalizing cs with
  | nil => exact h
  | cons n ns ih => exact ih _ (nodup_setChildOptional h)

theorem fold_setChildOptional_getChild (ns : List Name) (cs : List (Nec × Elem)) (m : Name) (h : (childNames cs).Nodup) :
    getChild (ns.foldl setChildOptional cs) m = if m ∈ ns then demote (getChild cs m) else getChild cs m := by
  induction ns generalizing cs with
  | nil => simp
  | cons n ns ih =>
    simp only [List.foldl_cons]
    rw [ih _ (nodup_setChildOptional h), getChild_setChildOptional _ _ _ h]
    by_cases e : m = n
    · subst e; simp [demote_demote]
    · simp [e]

end Xsg
