import XsgModel.Proofs.History
/-! `Matches` determines the schema up to field order, and depends only on the set of occurrences -/
namespace Xsg

/-- two element trees stand for the same schema up to the order of fields: same text flag, same attribute
names with the same necessity, same child names with the same necessity and multiplicity, recursively -/
inductive SchemaEq : Elem → Elem → Prop
  | intro (e e' : Elem)
      (htext : e.text = e'.text)
      (hattr : ∀ a, a ∈ names e.attrs ↔ a ∈ names e'.attrs)
      (hattr_man : ∀ a, (Nec.man, a) ∈ e.attrs ↔ (Nec.man, a) ∈ e'.attrs)
      (hnone : ∀ k, getChild e.children k = none ↔ getChild e'.children k = none)
      (hkid_nec : ∀ k n c n' c', getChild e.children k = some (n, c) → getChild e'.children k = some (n', c') → n = n')
      (hkid_multi : ∀ k n c n' c', getChild e.children k = some (n, c) → getChild e'.children k = some (n', c') →
        c.standalone = c'.standalone)
      (hkid_sub : ∀ k n c n' c', getChild e.children k = some (n, c) → getChild e'.children k = some (n', c') → SchemaEq c c')
      : SchemaEq e e'

theorem mem_flatMap_congr {α β} {l l' : List α} (f : α → List β) (h : ∀ o, o ∈ l ↔ o ∈ l') (x : β) :
    x ∈ l.flatMap f ↔ x ∈ l'.flatMap f := by
  simp only [List.mem_flatMap]
  constructor
  · rintro ⟨o, ho, hx⟩; exact ⟨o, (h o).mp ho, hx⟩
  · rintro ⟨o, ho, hx⟩; exact ⟨o, (h o).mpr ho, hx⟩

/-- the schema is determined by the *set* of occurrences: order and repetition of occurrences do not matter -/
theorem matches_unique {e : Elem} {occs : List Node} (h : Matches e occs) :
    ∀ {e' : Elem} {occs' : List Node}, Matches e' occs' → (∀ o, o ∈ occs ↔ o ∈ occs') → SchemaEq e e' := by
  induction h with
  | intro e occs htext hattrs hattr_man hnd hnone hman hmulti hlen hpos hsub ih =>
    intro e' occs' h' hmem
    have all_congr : ∀ (P : Node → Prop), (∀ o ∈ occs, P o) ↔ (∀ o ∈ occs', P o) := by
      intro P; constructor
      · intro h o ho; exact h o ((hmem o).mpr ho)
      · intro h o ho; exact h o ((hmem o).mp ho)
    have ex_congr : ∀ (P : Node → Prop), (∃ o ∈ occs, P o) ↔ (∃ o ∈ occs', P o) := by
      intro P; constructor
      · rintro ⟨o, ho, hp⟩; exact ⟨o, (hmem o).mp ho, hp⟩
      · rintro ⟨o, ho, hp⟩; exact ⟨o, (hmem o).mpr ho, hp⟩
    refine SchemaEq.intro _ _ ?_ ?_ ?_ ?_ ?_ ?_ ?_
    · rw [htext, h'.text, Bool.eq_iff_iff]
      simp only [List.any_eq_true]
      exact ex_congr (fun o => o.hasText = true)
    · intro a
      rw [hattrs, h'.attrs, mem_dedupNames, mem_dedupNames]
      exact mem_flatMap_congr _ hmem a
    · intro a; rw [hattr_man, h'.attr_man]; exact all_congr (fun o => a ∈ o.attrs)
    · intro k; rw [hnone, h'.hnone]; exact all_congr (fun o => o.named k = [])
    · intro k n c n' c' hc hc'
      have h1 := hman k n c hc
      have h2 := h'.hman k n' c' hc'
      rw [all_congr (fun o => o.named k ≠ [])] at h1
      have h12 : n = .man ↔ n' = .man := h1.trans h2.symm
      cases n with
      | man => cases n' with
        | man => rfl
        | opt => exact absurd (h12.mp rfl) (by simp)
      | opt => cases n' with
        | opt => rfl
        | man => exact absurd (h12.mpr rfl) (by simp)
    · intro k n c n' c' hc hc'
      have h1 := hmulti k n c hc
      have h2 := h'.hmulti k n' c' hc'
      rw [ex_congr (fun o => 2 ≤ (o.named k).length)] at h1
      have h12 : c.standalone = false ↔ c'.standalone = false := h1.trans h2.symm
      cases hs : c.standalone with
      | false => exact (h12.mp hs).symm
      | true => cases hs' : c'.standalone with
        | true => rfl
        | false => rw [h12.mpr hs'] at hs; cases hs
    · intro k n c n' c' hc hc'
      exact ih k n c hc (h'.hsub k n' c' hc') (fun o => mem_flatMap_congr _ hmem o)

/-- later documents never drop a field, never turn an Option field into a required one, never turn a Vec
field into a single one, never clear the text flag -/
inductive Grows : Elem → Elem → Prop
  | intro (e e' : Elem)
      (htext : e.text = true → e'.text = true)
      (hattr : ∀ a, a ∈ names e.attrs → a ∈ names e'.attrs)
      (hattr_opt : ∀ a, a ∈ names e.attrs → (Nec.man, a) ∉ e.attrs → (Nec.man, a) ∉ e'.attrs)
      (hkid_some : ∀ k n c, getChild e.children k = some (n, c) → getChild e'.children k ≠ none)
      (hkid_opt : ∀ k c n' c', getChild e.children k = some (Nec.opt, c) → getChild e'.children k = some (n', c') → n' = .opt)
      (hkid_multi : ∀ k n c n' c', getChild e.children k = some (n, c) → getChild e'.children k = some (n', c') →
        c.standalone = false → c'.standalone = false)
      (hkid_sub : ∀ k n c n' c', getChild e.children k = some (n, c) → getChild e'.children k = some (n', c') → Grows c c')
      : Grows e e'

theorem matches_grows {e : Elem} {occs : List Node} (h : Matches e occs) :
    ∀ {e' : Elem} {occs' : List Node}, Matches e' occs' → (∀ o, o ∈ occs → o ∈ occs') → Grows e e' := by
  induction h with
  | intro e occs htext hattrs hattr_man hnd hnone hman hmulti hlen hpos hsub ih =>
    intro e' occs' h' hsub'
    have key : ∀ k n c, getChild e.children k = some (n, c) → ¬ ∀ o ∈ occs', o.named k = [] := by
      intro k n c hc hall
      have : ∀ o ∈ occs, o.named k = [] := fun o ho => hall o (hsub' o ho)
      have := (hnone k).mpr this; rw [hc] at this; cases this
    refine Grows.intro _ _ ?_ ?_ ?_ ?_ ?_ ?_ ?_
    · intro ht
      rw [htext] at ht
      rw [h'.text]
      simp only [List.any_eq_true] at ht ⊢
      obtain ⟨o, ho, hto⟩ := ht
      exact ⟨o, hsub' o ho, hto⟩
    · intro a ha
      rw [hattrs, mem_dedupNames, List.mem_flatMap] at ha
      rw [h'.attrs, mem_dedupNames, List.mem_flatMap]
      obtain ⟨o, ho, hao⟩ := ha
      exact ⟨o, hsub' o ho, hao⟩
    · intro a _ hn hm
      apply hn
      rw [hattr_man]
      intro o ho
      exact (h'.attr_man a).mp hm o (hsub' o ho)
    · intro k n c hc hc'
      exact key k n c hc ((h'.hnone k).mp hc')
    · intro k c n' c' hc hc'
      cases hn' : n' with
      | opt => rfl
      | man =>
        subst hn'
        have := (h'.hman k _ _ hc').mp rfl
        have h1 := (hman k _ _ hc).mpr (fun o ho => this o (hsub' o ho))
        cases h1
    · intro k n c n' c' hc hc' hs
      obtain ⟨o, ho, hl⟩ := (hmulti k n c hc).mp hs
      exact (h'.hmulti k n' c' hc').mpr ⟨o, hsub' o ho, hl⟩
    · intro k n c n' c' hc hc'
      apply ih k n c hc (h'.hsub k n' c' hc')
      intro o ho
      rw [List.mem_flatMap] at ho ⊢
      obtain ⟨p, hp, hop⟩ := ho
      exact ⟨p, hsub' p hp, hop⟩

end Xsg
