import XsgModel.Model.Names
/-! the suffix loops `while used.contains(name) { i += 1; … }` terminate and return an unused name -/
namespace Xsg

def digitVal (l : List Char) : Nat := l.foldl (fun acc c => 10 * acc + (c.toNat - 48)) 0

theorem digitVal_append (l : List Char) (c : Char) : digitVal (l ++ [c]) = 10 * digitVal l + (c.toNat - 48) := by
  simp [digitVal, List.foldl_append]

theorem digit_toNat (d : Nat) (h : d < 10) : (Char.ofNat (48 + d)).toNat = 48 + d := by
  have : ∀ d : Fin 10, (Char.ofNat (48 + d.val)).toNat = 48 + d.val := by decide
  exact this ⟨d, h⟩

theorem digit_isDigit (d : Nat) (h : d < 10) : isDigit (Char.ofNat (48 + d)) = true := by
  have : ∀ d : Fin 10, isDigit (Char.ofNat (48 + d.val)) = true := by decide
  exact this ⟨d, h⟩

theorem decDigits_val (fuel n : Nat) (h : n < fuel) : digitVal (decDigits fuel n) = n := by
  induction fuel generalizing n with
  | zero => omega
  | succ fuel ih =>
    unfold decDigits
    split
    · rename_i h10
      simp [digitVal, digit_toNat n h10]
    · rename_i h10
      rw [digitVal_append, ih (n / 10) (by omega), digit_toNat (n % 10) (by omega)]
      omega

theorem decDigits_all (fuel n : Nat) : (decDigits fuel n).all isDigit = true := by
  induction fuel generalizing n with
  | zero => rfl
  | succ fuel ih =>
    unfold decDigits
    split
    · rename_i h10; simp [digit_isDigit n h10]
    · simp [ih, digit_isDigit (n % 10) (by omega)]

theorem dec_all_digits (n : Nat) : (dec n).all isDigit = true := decDigits_all _ _

theorem dec_injective {m n : Nat} (h : dec m = dec n) : m = n := by
  have hm := decDigits_val (m + 1) m (by omega)
  have hn := decDigits_val (n + 1) n (by omega)
  unfold dec at h
  rw [h] at hm
  omega

/-- the result of `firstFree` is the base or a numbered candidate -/
theorem firstFree_cases (used : List Name) (base : Name) (cand : Nat → Name) :
    firstFree used base cand = base ∨ ∃ i, 1 ≤ i ∧ firstFree used base cand = cand i := by
  unfold firstFree
  split
  · exact Or.inl rfl
  · split
    · rename_i i _; exact Or.inr ⟨i + 1, by omega, rfl⟩
    · exact Or.inl rfl

/-- with pairwise distinct candidates the search always succeeds (pigeonhole): the result is not in `used` -/
theorem firstFree_not_mem (used : List Name) (base : Name) (cand : Nat → Name)
    (hinj : ∀ i j, cand i = cand j → i = j) : firstFree used base cand ∉ used := by
  unfold firstFree
  split
  · rename_i h; simpa using h
  · split
    · rename_i i hi
      have := List.find?_some hi
      simpa using this
    · rename_i hnone
      exfalso
      rw [List.find?_eq_none] at hnone
      -- all `used.length + 1` distinct candidates would be in `used`
      have hsub : ((List.range (used.length + 1)).map fun i => cand (i + 1)) ⊆ used := by
        intro x hx
        simp only [List.mem_map, List.mem_range] at hx
        obtain ⟨i, hi, rfl⟩ := hx
        have := hnone i (List.mem_range.mpr hi)
        simpa using this
      have hnd : ((List.range (used.length + 1)).map fun i => cand (i + 1)).Nodup := by
        unfold List.Nodup
        rw [List.pairwise_map]
        have hr : (List.range (used.length + 1)).Pairwise (· ≠ ·) := List.nodup_range
        refine hr.imp ?_
        intro a b hab heq
        have := hinj _ _ heq
        omega
      have := List.Nodup.length_le_of_subset hnd hsub
      simp at this
      omega

/-- the loop of `create_unused_name` / `fill_struct_names` needs at most `used.length` increments -/
theorem firstFree_terminates (used : List Name) (base : Name) (cand : Nat → Name)
    (hinj : ∀ i j, cand i = cand j → i = j) (h : used.contains base = true) :
    ∃ i, i < used.length + 1 ∧ firstFree used base cand = cand (i + 1) ∧ cand (i + 1) ∉ used ∧
      ∀ j < i, cand (j + 1) ∈ used := by
  have hfree := firstFree_not_mem used base cand hinj
  unfold firstFree at hfree ⊢
  simp only [h, not_true_eq_false, if_false] at hfree ⊢
  cases hf : (List.range (used.length + 1)).find? (fun i => decide ¬used.contains (cand (i + 1)) = true) with
  | some i =>
    rw [hf] at hfree
    refine ⟨i, List.mem_range.mp (List.mem_of_find?_eq_some hf), rfl, hfree, ?_⟩
    intro j hj
    have hi := List.mem_range.mp (List.mem_of_find?_eq_some hf)
    have := List.find?_eq_some_iff_append.mp hf
    obtain ⟨-, as, bs, hrange, hbefore⟩ := this
    have hj_mem : j ∈ as := by
      have hlen : as.length = i := by
        have : (List.range (used.length + 1))[as.length]? = some i := by rw [hrange]; simp
        rw [List.getElem?_range] at this
        · simpa using this
        · have := congrArg List.length hrange; simp at this; omega
      have : (List.range (used.length + 1))[j]? = some j := by
        rw [List.getElem?_range]; omega
      rw [hrange, List.getElem?_append_left (by omega)] at this
      exact List.mem_of_getElem? this
    have := hbefore j hj_mem
    simpa using this
  | none =>
    rw [hf] at hfree
    simp only at hfree
    exact absurd (by simpa using h) hfree

theorem append_dec_injective (base : Name) : ∀ i j, base ++ dec i = base ++ dec j → i = j := by
  intro i j h; exact dec_injective (List.append_cancel_left h)

theorem underscore_dec_injective (base : Name) : ∀ i j, base ++ ['_'] ++ dec i = base ++ ['_'] ++ dec j → i = j := by
  intro i j h
  rw [List.append_assoc, List.append_assoc] at h
  exact dec_injective (List.append_cancel_left (List.append_cancel_left h))

end Xsg
