import XsgModel.Proofs.TagOpt
import XsgModel.Proofs.Necessity
import XsgModel.Model.Absorb
/-! the relational specification `Matches` and the per-name post-condition `Post` -/
namespace Xsg

/-- `e` is exactly the schema determined by the occurrences `occs` of its position (C03, relational form):
text flag, attribute list (in first-appearance order, each name once), necessity of attributes and children,
multiplicity, and recursively the children. Counters and positions are not mentioned. -/
inductive Matches : Elem → List Node → Prop
  | intro (e : Elem) (occs : List Node)
      (htext : e.text = occs.any Node.hasText)
      (hattrs : names e.attrs = dedupNames (occs.flatMap Node.attrs))
      (hattr_man : ∀ a, (Nec.man, a) ∈ e.attrs ↔ ∀ o ∈ occs, a ∈ o.attrs)
      (hnd : (childNames e.children).Nodup)
      (hnone : ∀ k, getChild e.children k = none ↔ ∀ o ∈ occs, o.named k = [])
      (hman : ∀ k nec c, getChild e.children k = some (nec, c) → (nec = .man ↔ ∀ o ∈ occs, o.named k ≠ []))
      (hmulti : ∀ k nec c, getChild e.children k = some (nec, c) → (c.standalone = false ↔ ∃ o ∈ occs, 2 ≤ (o.named k).length))
      (hlen : e.children.length = (orderOf occs).length)
      (hpos : ∀ i k, (orderOf occs)[i]? = some k → ∃ nec c, getChild e.children k = some (nec, c) ∧ c.position = some i)
      (hsub : ∀ k nec c, getChild e.children k = some (nec, c) → Matches c (occs.flatMap (Node.named k)))
      : Matches e occs

theorem Matches.text {e occs} (h : Matches e occs) : e.text = occs.any Node.hasText := by cases h; assumption
theorem Matches.attrs {e occs} (h : Matches e occs) : names e.attrs = dedupNames (occs.flatMap Node.attrs) := by cases h; assumption
theorem Matches.attr_man {e occs} (h : Matches e occs) : ∀ a, (Nec.man, a) ∈ e.attrs ↔ ∀ o ∈ occs, a ∈ o.attrs := by cases h; assumption
theorem Matches.nodup {e occs} (h : Matches e occs) : (childNames e.children).Nodup := by cases h; assumption
theorem Matches.hnone {e occs} (h : Matches e occs) : ∀ k, getChild e.children k = none ↔ ∀ o ∈ occs, o.named k = [] := by cases h; assumption
theorem Matches.hman {e occs} (h : Matches e occs) : ∀ k nec c, getChild e.children k = some (nec, c) → (nec = .man ↔ ∀ o ∈ occs, o.named k ≠ []) := by cases h; assumption
theorem Matches.hmulti {e occs} (h : Matches e occs) : ∀ k nec c, getChild e.children k = some (nec, c) → (c.standalone = false ↔ ∃ o ∈ occs, 2 ≤ (o.named k).length) := by cases h; assumption
theorem Matches.hlen {e occs} (h : Matches e occs) : e.children.length = (orderOf occs).length := by cases h; assumption
theorem Matches.hpos {e occs} (h : Matches e occs) : ∀ i k, (orderOf occs)[i]? = some k → ∃ nec c, getChild e.children k = some (nec, c) ∧ c.position = some i := by cases h; assumption
theorem Matches.hsub {e occs} (h : Matches e occs) : ∀ k nec c, getChild e.children k = some (nec, c) → Matches c (occs.flatMap (Node.named k)) := by cases h; assumption

/-- `Matches` looks only at text flag, attributes and children -/
theorem Matches.congr {e e' : Elem} {occs} (h : Matches e occs) (ht : e'.text = e.text) (ha : e'.attrs = e.attrs)
    (hc : e'.children = e.children) : Matches e' occs := by
  refine Matches.intro _ _ (by rw [ht]; exact h.text) (by rw [ha]; exact h.attrs) (by rw [ha]; exact h.attr_man)
    (by rw [hc]; exact h.nodup) (by rw [hc]; exact h.hnone) (by rw [hc]; exact h.hman) (by rw [hc]; exact h.hmulti)
    (by rw [hc]; exact h.hlen) (by rw [hc]; exact h.hpos) (by rw [hc]; exact h.hsub)

/-! ### `dedupNames` -/
theorem mem_dedupNames {l : List Name} {a : Name} : a ∈ dedupNames l ↔ a ∈ l := by
  induction l with
  | nil => simp [dedupNames]
  | cons b bs ih =>
    simp only [dedupNames, List.mem_cons, List.mem_filter, decide_eq_true_eq, ih]
    constructor
    · rintro (h | h); exact Or.inl h; exact Or.inr h.1
    · rintro (h | h)
      · exact Or.inl h
      · by_cases e : a = b
        · exact Or.inl e
        · exact Or.inr ⟨h, e⟩

theorem nodup_dedupNames (l : List Name) : (dedupNames l).Nodup := by
  induction l with
  | nil => simp [dedupNames]
  | cons b bs ih =>
    simp only [dedupNames, List.nodup_cons, List.mem_filter, decide_eq_true_eq]
    exact ⟨fun h => h.2 rfl, ih.filter _⟩

theorem dedupNames_of_nodup {l : List Name} (h : l.Nodup) : dedupNames l = l := by
  induction l with
  | nil => rfl
  | cons b bs ih =>
    simp only [List.nodup_cons] at h
    simp only [dedupNames, ih h.2]
    congr 1
    apply List.filter_eq_self.mpr
    intro a ha; simp only [decide_eq_true_eq]; intro e; subst e; exact h.1 ha

theorem filter_filter_ne (l : List Name) (b : Name) (p : Name → Bool) :
    (l.filter p).filter (· ≠ b) = (l.filter (· ≠ b)).filter p := by
  simp only [List.filter_filter]; apply List.filter_congr; intro a _; exact Bool.and_comm _ _

theorem dedupNames_append (xs ys : List Name) :
    dedupNames (xs ++ ys) = dedupNames xs ++ (dedupNames ys).filter (fun a => a ∉ xs) := by
  induction xs with
  | nil =>
    simp only [List.nil_append, dedupNames, List.not_mem_nil, not_false_eq_true, decide_true]
    exact (List.filter_eq_self.mpr (fun _ _ => rfl)).symm
  | cons b bs ih =>
    simp only [List.cons_append, dedupNames, ih, List.filter_append, List.cons.injEq, true_and]
    congr 1
    simp only [List.filter_filter]
    apply List.filter_congr
    intro a _
    by_cases e : a = b <;> by_cases m : a ∈ bs <;> simp [e, m]

end Xsg
