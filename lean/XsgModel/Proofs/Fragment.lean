import XsgModel.Proofs.History
/-!
# Inputs that repeat their root element

`quick_xml` does not insist on a single root, and neither does the parser: an input that is a sequence of
well-formed elements of one name `k` (with comments, white space, text between them) is accepted, and the
result is the schema of *all* these elements. Such an input therefore behaves like the corresponding sequence
of single-root documents (`C06_regroup`).
-/
namespace Xsg

/-- all top-level elements of the input are called `k`, and there is at least one -/
def Items.rootsNamed (is : Items) (k : Name) : Prop := is.named k ≠ [] ∧ ∀ d, d ≠ k → is.named d = []

theorem buildFrom_items (w : Elem) (is : Items) :
    buildFrom w (fragEvents is) = extractRoot (absorbItems ⟨w, [], none⟩ is).elem := by
  unfold buildFrom fragEvents
  rw [runEvents_append, run_items]
  simp [runEvents, step, unwind, finish]

theorem intoStruct_fragment (is : Items) (hok : is.ok = true) (k : Name) (hk : is.rootsNamed k) :
    ∃ R, intoStruct (fragEvents is) = .ok R ∧ Matches R (is.named k) ∧ R.name = k := by
  unfold intoStruct
  rw [buildFrom_items]
  have spec := absorbItems_spec is ⟨wrapper0, [], none⟩ (by simp [wrapper0, childNames]) hok
  have hpost := spec.post k
  have h0 : ∀ d, getChild wrapper0.children d = none := fun _ => rfl
  simp only [h0] at hpost
  unfold Post at hpost
  simp only [hk.1, if_false] at hpost
  obtain ⟨R, hR, hm, -, -⟩ := hpost
  refine ⟨R, ?_, hm, getChild_some_name hR⟩
  apply extractRoot_of_single hR
  intro m hm'
  have := spec.post m
  unfold Post at this
  simp only [hk.2 m hm', if_true, h0] at this
  exact this

theorem extendStruct_fragment (t : Elem) (occs : List Node) (hocc : occs ≠ []) (hm : Matches t occs)
    (is : Items) (hok : is.ok = true) (hk : is.rootsNamed t.name) :
    ∃ R, extendStruct t (fragEvents is) = .ok R ∧ Matches R (occs ++ is.named t.name) ∧ R.name = t.name := by
  unfold extendStruct
  rw [buildFrom_items]
  have hw0 : addUniqueChild wrapper0.children t = [(.man, withPosition [] t)] := by
    have : getChild wrapper0.children t.name = none := rfl
    rw [addUniqueChild_of_absent this]; rfl
  rw [hw0]
  have spec := absorbItems_spec is ⟨wrapper0.setChildren [(.man, withPosition [] t)], [], none⟩ (by simp [childNames]) hok
  have hpost := spec.post t.name
  have h0 : getChild (wrapper0.setChildren [(Nec.man, withPosition [] t)]).children t.name = some (.man, withPosition [] t) := by
    simp [getChild_singleton]
  simp only [h0] at hpost
  unfold Post at hpost
  simp only [hk.1, if_false] at hpost
  obtain ⟨R, hR, hmm, -, -⟩ := hpost
  have hm' : Matches (withPosition [] t) occs := hm.congr (by simp) (by simp) (by simp)
  refine ⟨R, ?_, hmm occs hocc hm', getChild_some_name hR⟩
  apply extractRoot_of_single hR
  intro m hne
  have := spec.post m
  unfold Post at this
  simp only [hk.2 m hne, if_true] at this
  rw [this]
  simp [getChild_singleton]
  intro e; exact hne e.symm

/-- a history of inputs each of which may repeat the root element `k` -/
def fragmentsOk (F : List Items) (k : Name) : Prop :=
  F ≠ [] ∧ ∀ is ∈ F, is.ok = true ∧ is.rootsNamed k

theorem fragments_fold (F : List Items) (t : Elem) (occs : List Node) (hocc : occs ≠ []) (hm : Matches t occs)
    (hF : ∀ is ∈ F, is.ok = true ∧ is.rootsNamed t.name) :
    ∃ R, (F.map fragEvents).foldl extendStep (Except.ok t) = Except.ok R ∧
      Matches R (occs ++ F.flatMap (·.named t.name)) ∧ R.name = t.name := by
  induction F generalizing t occs with
  | nil => exact ⟨t, rfl, by simpa using hm, rfl⟩
  | cons is F ih =>
    obtain ⟨R, hR, hmR, hn⟩ := extendStruct_fragment t occs hocc hm is (hF is (by simp)).1 (hF is (by simp)).2
    simp only [List.map_cons, List.foldl_cons, extendStep, hR]
    obtain ⟨R', hR', hmR', hn'⟩ := ih R (occs ++ is.named t.name) (by simp [hocc]) hmR
      (fun is' h' => by rw [hn]; exact hF is' (by simp [h']))
    refine ⟨R', hR', ?_, hn'.trans hn⟩
    rw [hn] at hmR'
    simpa [List.append_assoc] using hmR'

/-- **the structure after a history of such inputs is the schema of all their top-level elements** -/
theorem parse_fragments (F : List Items) (k : Name) (h : fragmentsOk F k) :
    ∃ t, parseHistory (F.map fragEvents) = .ok t ∧ Matches t (F.flatMap (·.named k)) ∧ t.name = k := by
  cases F with
  | nil => exact absurd rfl h.1
  | cons is F =>
    obtain ⟨R, hR, hm, hn⟩ := intoStruct_fragment is (h.2 is (by simp)).1 k (h.2 is (by simp)).2
    obtain ⟨R', hR', hm', hn'⟩ := fragments_fold F R (is.named k) (h.2 is (by simp)).2.1 hm
      (fun is' h' => by rw [hn]; exact h.2 is' (by simp [h']))
    refine ⟨R', ?_, ?_, hn'.trans hn⟩
    · simp only [parseHistory, List.map_cons, hR]; exact hR'
    · rw [hn] at hm'; simpa using hm'

/-! ### a document is such an input -/
theorem Items.events_append (a b : Items) : (a.append b).events = a.events ++ b.events := by
  cases a with
  | nil => rfl
  | elem n r => simp [Items.append, Items.events, Items.events_append r b]
  | text c r => cases c <;> simp [Items.append, Items.events, Items.events_append r b]
  | other r => simp [Items.append, Items.events, Items.events_append r b]

theorem Items.ok_append (a b : Items) : (a.append b).ok = (a.ok && b.ok) := by
  cases a with
  | nil => simp [Items.append, Items.ok]
  | elem n r => simp [Items.append, Items.ok, Items.ok_append r b, Bool.and_assoc]
  | text c r => simp [Items.append, Items.ok, Items.ok_append r b]
  | other r => simp [Items.append, Items.ok, Items.ok_append r b]

theorem Items.named_append (a b : Items) (k : Name) : (a.append b).named k = a.named k ++ b.named k := by
  cases a with
  | nil => simp [Items.append, Items.named]
  | elem n r =>
    simp only [Items.append, Items.named, Items.named_append r b k]
    split <;> simp
  | text c r => simp [Items.append, Items.named, Items.named_append r b]
  | other r => simp [Items.append, Items.named, Items.named_append r b]

theorem Items.named_noElems (a : Items) (h : a.noElems = true) (k : Name) : a.named k = [] := by
  cases a with
  | nil => rfl
  | elem n r => simp [Items.noElems] at h
  | text c r => simpa [Items.named] using Items.named_noElems r (by simpa [Items.noElems] using h) k
  | other r => simpa [Items.named] using Items.named_noElems r (by simpa [Items.noElems] using h) k

theorem Items.ok_noElems (a : Items) (h : a.noElems = true) : a.ok = true := by
  cases a with
  | nil => rfl
  | elem n r => simp [Items.noElems] at h
  | text c r => simpa [Items.ok] using Items.ok_noElems r (by simpa [Items.noElems] using h)
  | other r => simpa [Items.ok] using Items.ok_noElems r (by simpa [Items.noElems] using h)

theorem Doc.events_eq (d : Doc) : d.events = fragEvents d.items := by
  simp [Doc.events, fragEvents, Doc.items, Items.events_append, Items.events]

theorem Doc.items_ok (d : Doc) (h : d.ok = true) : d.items.ok = true := by
  simp only [Doc.ok, Bool.and_eq_true] at h
  simp [Doc.items, Items.ok_append, Items.ok, h.1.2, Items.ok_noElems _ h.1.1, Items.ok_noElems _ h.2]

theorem Doc.items_named (d : Doc) (h : d.ok = true) (k : Name) :
    d.items.named k = if d.root.name = k then [d.root] else [] := by
  simp only [Doc.ok, Bool.and_eq_true] at h
  simp only [Doc.items, Items.named_append, Items.named, Items.named_noElems _ h.1.1, Items.named_noElems _ h.2]
  split <;> simp

theorem Doc.items_rootsNamed (d : Doc) (h : d.ok = true) : d.items.rootsNamed d.root.name := by
  refine ⟨by simp [Doc.items_named d h], ?_⟩
  intro k hk
  rw [Doc.items_named d h]
  rw [if_neg (fun e => hk e.symm)]

end Xsg

namespace Xsg

theorem Items.mem_childNames (is : Items) (k : Name) : k ∈ is.childNames ↔ is.named k ≠ [] := by
  cases is with
  | nil => simp [Items.childNames, Items.named]
  | elem n r =>
    have ih := Items.mem_childNames r k
    simp only [Items.childNames, Items.named, List.mem_cons, List.mem_filter]
    by_cases e : n.name = k
    · simp [e]
    · have : k ≠ n.name := fun h => e h.symm
      simp [e, this, ih]
  | text c r => simpa [Items.childNames, Items.named] using Items.mem_childNames r k
  | other r => simpa [Items.childNames, Items.named] using Items.mem_childNames r k

/-- the driver's executable test for `rootsNamed` -/
theorem Items.rootsNamed_of_childNames (is : Items) (k : Name) (h : is.childNames = [k]) : is.rootsNamed k := by
  refine ⟨(Items.mem_childNames is k).mp (by simp [h]), ?_⟩
  intro d hd
  have : d ∉ is.childNames := by simp [h, hd]
  by_cases e : is.named d = []
  · exact e
  · exact absurd ((Items.mem_childNames is d).mpr e) this

end Xsg
