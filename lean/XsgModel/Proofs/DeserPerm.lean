/-!
# Permutation facts used to show that a deserialized value holds exactly the strings of the document
-/
namespace Xsg

theorem flatMap_congr' {α β : Type} (f g : α → List β) :
    ∀ l : List α, (∀ x ∈ l, f x = g x) → l.flatMap f = l.flatMap g
  | [], _ => rfl
  | a :: l, h => by
    simp only [List.flatMap_cons]
    rw [h a (by simp), flatMap_congr' f g l (fun x hx => h x (by simp [hx]))]

theorem flatMap_perm_congr {α β : Type} (f g : α → List β) :
    ∀ l : List α, (∀ x ∈ l, (f x).Perm (g x)) → (l.flatMap f).Perm (l.flatMap g)
  | [], _ => by simp
  | a :: l, h => by
    simp only [List.flatMap_cons]
    exact (h a (by simp)).append (flatMap_perm_congr f g l (fun x hx => h x (by simp [hx])))

theorem flatMap_append_perm {α β : Type} (f g : α → List β) :
    ∀ l : List α, (l.flatMap fun x => f x ++ g x).Perm (l.flatMap f ++ l.flatMap g)
  | [] => by simp
  | a :: l => by
    simp only [List.flatMap_cons]
    have ih := flatMap_append_perm f g l
    -- (f a ++ g a) ++ R  ~  (f a ++ F) ++ (g a ++ G)   with R ~ F ++ G
    refine ((List.Perm.append_left (f a ++ g a) ih)).trans ?_
    simp only [List.append_assoc]
    exact List.Perm.append_left (f a) (List.perm_append_comm_assoc (g a) (l.flatMap f) (l.flatMap g))

/-- put one element into the class of its key: all other classes are unchanged -/
theorem flatMap_insert_perm {α κ : Type} [DecidableEq κ] (key : α → κ) (x : α) (F : κ → List α) :
    ∀ ks : List κ, ks.Nodup → key x ∈ ks →
      (ks.flatMap fun k => if key x = k then x :: F k else F k).Perm (x :: ks.flatMap F)
  | [], _, h => by cases h
  | k :: ks, hnd, hmem => by
    simp only [List.nodup_cons] at hnd
    simp only [List.flatMap_cons]
    by_cases hk : key x = k
    · have hrest : (ks.flatMap fun k' => if key x = k' then x :: F k' else F k') = ks.flatMap F := by
        apply flatMap_congr'
        intro k' hk'
        have : key x ≠ k' := by intro e; exact hnd.1 (by rw [← hk, e]; exact hk')
        simp [this]
      rw [hrest]
      simp [hk]
    · simp only [hk, if_false]
      have hmem' : key x ∈ ks := by
        simp only [List.mem_cons] at hmem
        rcases hmem with h | h
        · exact absurd h hk
        · exact h
      exact (List.Perm.append_left (F k) (flatMap_insert_perm key x F ks hnd.2 hmem')).trans List.perm_middle

/-- the classes of a partition by key, concatenated in any order of distinct keys covering the list, are a
permutation of the list -/
theorem partition_perm {α κ : Type} [DecidableEq κ] (key : α → κ) (ks : List κ) (hnd : ks.Nodup) :
    ∀ l : List α, (∀ x ∈ l, key x ∈ ks) → (ks.flatMap fun k => l.filter (fun x => key x = k)).Perm l
  | [], _ => by
    have : (ks.flatMap fun k => ([] : List α).filter (fun x => key x = k)) = [] := by
      rw [List.flatMap_eq_nil_iff]; intro k _; rfl
    rw [this]
  | x :: l, h => by
    have e : (ks.flatMap fun k => (x :: l).filter (fun y => key y = k))
        = ks.flatMap fun k => if key x = k then x :: l.filter (fun y => key y = k) else l.filter (fun y => key y = k) := by
      apply flatMap_congr'
      intro k _
      by_cases hk : key x = k <;> simp [List.filter_cons, hk]
    rw [e]
    refine (flatMap_insert_perm key x (fun k => l.filter (fun y => key y = k)) ks hnd (h x (by simp))).trans ?_
    exact List.Perm.cons x (partition_perm key ks hnd l (fun y hy => h y (by simp [hy])))

/-- the same after mapping every element to a list -/
theorem partition_flatMap_perm {α β κ : Type} [DecidableEq κ] (key : α → κ) (g : α → List β) (ks : List κ) (hnd : ks.Nodup)
    (l : List α) (h : ∀ x ∈ l, key x ∈ ks) :
    (ks.flatMap fun k => (l.filter (fun x => key x = k)).flatMap g).Perm (l.flatMap g) := by
  have := (partition_perm key ks hnd l h).flatMap_right g
  rwa [List.flatMap_assoc] at this

end Xsg
