import XsgModel.Proofs.Sort
import XsgModel.Proofs.FirstFree
/-! `identifier::Map::new`: the identifiers handed out for one struct are pairwise distinct -/
namespace Xsg

theorem createUnused_not_mem (reserved : List Name) (name : Name) (ty : IType) : createUnused reserved name ty ∉ reserved := by
  unfold createUnused
  exact firstFree_not_mem _ _ _ (underscore_dec_injective _)

/-- one loop of `Map::new` -/
theorem identLoop_spec (pre : Name) (ty : IType) (reals reserved : List Name) (acc : List (Name × Name)) :
    ∃ created : List Name, created.length = reals.length ∧
      identLoop pre ty reals reserved acc = (reserved ++ created, acc ++ reals.zip created) ∧
      created.Nodup ∧ ∀ n ∈ created, n ∉ reserved := by
  induction reals generalizing reserved acc with
  | nil => exact ⟨[], rfl, by simp [identLoop], List.nodup_nil, by simp⟩
  | cons r rs ih =>
    obtain ⟨created, hlen, heq, hnd, hfresh⟩ := ih (reserved ++ [createUnused reserved (validKey pre r) ty]) (acc ++ [(r, createUnused reserved (validKey pre r) ty)])
    refine ⟨createUnused reserved (validKey pre r) ty :: created, by simp [hlen], ?_, ?_, ?_⟩
    · simp only [identLoop, heq, List.append_assoc, List.singleton_append, List.zip_cons_cons]
    · rw [List.nodup_cons]
      exact ⟨fun hm => hfresh _ hm (by simp), hnd⟩
    · intro n hn
      simp only [List.mem_cons] at hn
      rcases hn with rfl | hn
      · exact createUnused_not_mem _ _ _
      · intro hr; exact hfresh n hn (by simp [hr])

theorem identLookup_zip (reals created : List Name) (hlen : created.length = reals.length) (hnd : reals.Nodup)
    (i : Nat) (hi : i < reals.length) :
    identLookup (reals.zip created) reals[i] = some (created[i]'(by omega)) := by
  induction reals generalizing created i with
  | nil => simp at hi
  | cons r rs ih =>
    cases created with
    | nil => simp at hlen
    | cons c cs =>
      simp only [List.nodup_cons] at hnd
      simp only [List.length_cons, Nat.add_right_cancel_iff] at hlen
      unfold identLookup
      simp only [List.zip_cons_cons, List.reverse_cons, List.find?_append]
      cases i with
      | zero =>
        simp only [List.getElem_cons_zero]
        have hnone : ((rs.zip cs).reverse.find? fun p => decide (p.1 = r)) = none := by
          rw [List.find?_eq_none]
          intro p hp
          simp only [List.mem_reverse] at hp
          have := (List.of_mem_zip hp).1
          simp only [decide_eq_true_eq]
          intro e; rw [e] at this; exact hnd.1 this
        simp [hnone]
      | succ j =>
        simp only [List.getElem_cons_succ]
        have hj : j < rs.length := by simpa using hi
        have := ih cs hlen hnd.2 j hj
        unfold identLookup at this
        simp only [Option.map_eq_some_iff] at this
        obtain ⟨p, hp, hp2⟩ := this
        simp [hp, hp2]

/-- the identifiers of one struct: children first, then attributes, then text — pairwise distinct -/
theorem identMap_spec (e : Elem) :
    ∃ cc ca : List Name, cc.length = e.children.length ∧ ca.length = e.attrs.length ∧
      (identMap e).child = (e.children.map (·.2.name)).zip cc ∧
      (identMap e).attr = (e.attrs.map (·.2)).zip ca ∧
      (cc ++ ca ++ [(identMap e).text]).Nodup := by
  obtain ⟨cc, hlc, heqc, hndc, -⟩ := identLoop_spec e.name .child (e.children.map (·.2.name)) [] []
  obtain ⟨ca, hla, heqa, hnda, hfa⟩ := identLoop_spec e.name .attr (e.attrs.map (·.2)) ([] ++ cc) []
  refine ⟨cc, ca, by simpa using hlc, by simpa using hla, ?_, ?_, ?_⟩
  · simp [identMap, heqc]
  · simp only [identMap, heqc]; simp only [List.nil_append] at heqa; simp [heqa]
  · have htext : (identMap e).text = createUnused (cc ++ ca) (cl!"text") .text := by
      simp only [identMap, heqc]; simp only [List.nil_append] at heqa; simp [heqa]
    rw [htext]
    rw [List.nodup_append]
    refine ⟨?_, by simp, ?_⟩
    · rw [List.nodup_append]
      refine ⟨hndc, hnda, ?_⟩
      intro a ha b hb e'
      subst e'
      exact hfa a hb (by simpa using ha)
    · intro a ha b hb e'
      simp only [List.mem_singleton] at hb
      subst hb; subst e'
      exact createUnused_not_mem _ _ _ ha

theorem getElem_of_mem_nodup {l : List Name} {a : Name} (h : a ∈ l) : ∃ i, ∃ hi : i < l.length, l[i] = a :=
  List.getElem_of_mem h

/-- looking up the stored names gives back the created identifiers, in order -/
theorem lookup_all (reals created : List Name) (hlen : created.length = reals.length) (hnd : reals.Nodup) :
    reals.map (fun r => (identLookup (reals.zip created) r).getD r) = created := by
  apply List.ext_getElem
  · simp [hlen]
  · intro i h1 h2
    simp only [List.getElem_map]
    rw [identLookup_zip reals created hlen hnd i (by simpa using h1)]
    rfl

end Xsg
