import XsgModel.Proofs.Paths
import XsgModel.Proofs.IdentMap
/-! struct names of a rendered tree are pairwise distinct, not reserved, and every field type resolves -/
namespace Xsg

/-- `pathLookup` on the table of `assignNames`: the entry of a path that occurs once is found -/
theorem pathLookup_assign (H : Name → Option Nat) (entries : List Entry) (used : List Name)
    (hinj : entries.Pairwise (fun a b => a.path ≠ b.path)) (en : Entry) (hen : en ∈ entries) :
    ∃ nm, pathLookup (assignNames H entries used) en.path = some nm ∧ (en.path, nm) ∈ assignNames H entries used := by
  induction entries generalizing used with
  | nil => cases hen
  | cons e rest ih =>
    rw [List.pairwise_cons] at hinj
    simp only [assignNames]
    unfold pathLookup
    simp only [List.reverse_cons, List.find?_append]
    simp only [List.mem_cons] at hen
    rcases hen with rfl | hen
    · -- the head: no later entry has this path
      have hnone : ((assignNames H rest (used ++ [firstFree used (expandName H en.trace en.elem) fun i => expandName H en.trace en.elem ++ dec i])).reverse.find?
          fun p => decide (p.1 = en.path)) = none := by
        rw [List.find?_eq_none]
        intro p hp
        simp only [List.mem_reverse] at hp
        obtain ⟨en', hen', h1, _⟩ := assignNames_shape H rest _ p hp
        simp only [decide_eq_true_eq]
        intro e'
        exact hinj.1 en' hen' (by rw [← h1, e'])
      simp [hnone]
    · obtain ⟨nm, hl, hm⟩ := ih (used ++ [firstFree used (expandName H e.trace e.elem) fun i => expandName H e.trace e.elem ++ dec i]) hinj.2 hen
      unfold pathLookup at hl
      simp only [Option.map_eq_some_iff] at hl
      obtain ⟨p, hp, hp2⟩ := hl
      refine ⟨nm, ?_, by simp [hm]⟩
      simp [hp, hp2]

theorem walk_pairwise_paths (s : SortBy) (t : Elem) (h : t.Inv = true) :
    ∀ en ∈ walk s [] [] t, ∀ en' ∈ walk s [] [] t, en.path = en'.path → en = en' :=
  fun en hen en' hen' hp => walk_path_inj s t h [] [] en en' hen hen' hp

end Xsg

namespace Xsg

theorem walkKids_flat_nodup (s : SortBy) (path trace : List Name) (cs : List (Nec × Elem))
    (hnd : (childNames cs).Nodup)
    (ihc : ∀ c ∈ cs, (((walk s path trace c.2).map (·.path))).Nodup) :
    ((((walk.walkKids s path trace cs).flatMap (·.2))).map (·.path)).Nodup := by
  induction cs with
  | nil => simp [walk.walkKids]
  | cons c cs ih =>
    obtain ⟨nec, e⟩ := c
    simp only [childNames, List.map_cons, List.nodup_cons] at hnd
    have ih' := ih hnd.2 (fun c hc => ihc c (by simp [hc]))
    simp only [walk.walkKids, List.flatMap_append, List.map_append]
    rw [List.nodup_append]
    refine ⟨?_, ih', ?_⟩
    · split
      · simp
      · simpa using ihc (nec, e) (by simp)
    · intro a ha b hb hab
      subst hab
      -- a path that belongs to the walk of `e` and to the walk of a later sibling
      have hae : ∃ x ∈ walk s path trace e, x.path = a := by
        split at ha
        · simp at ha
        · simpa using ha
      obtain ⟨x, hx, rfl⟩ := hae
      simp only [List.mem_map, List.mem_flatMap] at hb
      obtain ⟨y, ⟨q, hq, hyq⟩, hyx⟩ := hb
      obtain ⟨c', hc', _, hy⟩ := mem_walkKids.mp ⟨q, hq, hyq⟩
      have p1 := walk_prefix s e path trace x hx
      have p2 := walk_prefix s c'.2 path trace y hy
      rw [hyx] at p2
      have := List.prefix_of_prefix_length_le p1 p2 (by simp)
      have h3 := this.eq_of_length (by simp)
      have hname : e.name = c'.2.name := by simpa using h3
      apply hnd.1
      rw [hname]
      exact List.mem_map_of_mem (f := fun x => x.2.name) hc'

theorem walk_paths_nodup (s : SortBy) (e : Elem) (he : e.Inv = true) :
    ∀ (path trace : List Name), ((walk s path trace e).map (·.path)).Nodup := by
  intro path trace
  rw [walk_eq]
  simp only [List.map_cons, List.nodup_cons]
  have hkids : ((((walk.walkKids s (path ++ [e.name]) (trace ++ [pascal e.name]) e.children).flatMap (·.2))).map (·.path)).Nodup :=
    walkKids_flat_nodup s _ _ e.children (Inv_nodup he) (fun c hc => by
      have := sizeOf_child_lt hc
      exact walk_paths_nodup s c.2 (Inv_children he hc) _ _)
  have hperm : ((sortKeyed (walk.walkKids s (path ++ [e.name]) (trace ++ [pascal e.name]) e.children)).flatMap (·.2)).Perm
      ((walk.walkKids s (path ++ [e.name]) (trace ++ [pascal e.name]) e.children).flatMap (·.2)) :=
    List.Perm.flatMap_right _ (perm_insertionSort _ _)
  refine ⟨?_, ((hperm.map _).nodup_iff).mpr hkids⟩
  -- the own path is shorter than every other path
  intro hm
  simp only [List.mem_map, List.mem_flatMap] at hm
  obtain ⟨y, ⟨q, hq, hyq⟩, hy⟩ := hm
  obtain ⟨c, hc, _, hyw⟩ := mem_walkKids.mp ⟨q, mem_sortKeyed.mp hq, hyq⟩
  have := (walk_prefix s c.2 _ _ y hyw).length_le
  rw [hy] at this
  simp at this
termination_by sizeOf e

/-- the struct names of a rendered tree with unique child names: every entry's path is in the naming table,
the names are pairwise distinct and none is reserved -/
theorem struct_names_spec (H : Name → Option Nat) (o : Options) (t : Elem) (ht : t.Inv = true) :
    ((renderWith H o t).map (·.name)).Nodup ∧ ∀ s ∈ renderWith H o t, s.name ∉ reservedStructNames := by
  -- lookups of the rendered entries hit the naming table
  have hpw : (walk .unsorted [] [] t).Pairwise (fun a b => a.path ≠ b.path) := by
    have := walk_paths_nodup .unsorted t ht [] []
    unfold List.Nodup at this
    rw [List.pairwise_map] at this
    exact this
  have hit : ∀ en ∈ walk o.sort [] [] t, ∃ nm, pathLookup (structNames H t) en.path = some nm ∧ (en.path, nm) ∈ structNames H t := by
    intro en hen
    have hen' := mem_walk_sort o.sort .unsorted t [] [] en hen
    exact pathLookup_assign H _ _ hpw en hen'
  have hfresh := assignNames_fresh H (walk .unsorted [] [] t) reservedStructNames
  have hpaths := assignNames_paths H (walk .unsorted [] [] t) reservedStructNames
  -- a name determines its path in the table
  have name_inj : ∀ p q nm, (p, nm) ∈ structNames H t → (q, nm) ∈ structNames H t → p = q := by
    intro p q nm hp hq
    have hnd := hfresh.1
    unfold List.Nodup at hnd
    rw [List.pairwise_map] at hnd
    obtain ⟨i, hi, hpi⟩ := List.getElem_of_mem hp
    obtain ⟨j, hj, hqj⟩ := List.getElem_of_mem hq
    by_cases hij : i = j
    · subst hij; rw [hpi] at hqj; exact (Prod.mk.inj hqj).1
    · exfalso
      rcases Nat.lt_or_gt_of_ne hij with h | h
      · have := List.pairwise_iff_getElem.mp hnd i j hi hj h
        have e1 : (structNames H t)[i].2 = nm := by rw [hpi]
        have e2 : (structNames H t)[j].2 = nm := by rw [hqj]
        exact this (e1.trans e2.symm)
      · have := List.pairwise_iff_getElem.mp hnd j i hj hi h
        have e1 : (structNames H t)[i].2 = nm := by rw [hpi]
        have e2 : (structNames H t)[j].2 = nm := by rw [hqj]
        exact this (e2.trans e1.symm)
  constructor
  · simp only [renderWith, List.map_map]
    have hnodup := walk_paths_nodup o.sort t ht [] []
    unfold List.Nodup at hnodup ⊢
    rw [List.pairwise_map] at hnodup ⊢
    refine hnodup.imp_of_mem ?_
    intro a b ha hb hab hname
    apply hab
    simp only [Function.comp, structOf, structNameOf] at hname
    obtain ⟨na, hla, hma⟩ := hit a ha
    obtain ⟨nb, hlb, hmb⟩ := hit b hb
    rw [hla, hlb] at hname
    simp only at hname
    subst hname
    exact name_inj _ _ _ hma hmb
  · intro s hs
    simp only [renderWith, List.mem_map] at hs
    obtain ⟨en, hen, rfl⟩ := hs
    obtain ⟨nm, hl, hm⟩ := hit en hen
    simp only [structOf, structNameOf, hl]
    exact hfresh.2 nm (List.mem_map_of_mem (f := (·.2)) hm)

end Xsg
