import XsgModel.Proofs.StructNames
import XsgModel.Proofs.Sort
import XsgModel.Model.RustSyntax
import XsgModel.Props.C14
/-!
# Every non-root struct is the type of exactly one field (last clause of C04)

Every entry of the walk other than the root's is the child entry of exactly one (parent entry, child) pair;
struct names are pairwise distinct and never `String`; so among all fields of all rendered structs exactly one
has the struct's name as its base type.
-/
namespace Xsg

/-! ### counting -/

theorem flatMap_length_one {α β : Type} (f : α → List β) (x0 : α) :
    ∀ l : List α, l.Pairwise (· ≠ ·) → x0 ∈ l → (f x0).length = 1 → (∀ x ∈ l, x ≠ x0 → f x = []) →
      (l.flatMap f).length = 1
  | [], _, h, _, _ => by cases h
  | a :: l, hnd, hmem, h1, h0 => by
    simp only [List.pairwise_cons] at hnd
    simp only [List.flatMap_cons, List.length_append]
    simp only [List.mem_cons] at hmem
    by_cases ha : a = x0
    · subst ha
      have : l.flatMap f = [] := by
        rw [List.flatMap_eq_nil_iff]
        intro x hx
        exact h0 x (by simp [hx]) (fun e => hnd.1 x hx e.symm)
      rw [this, h1]; rfl
    · have hx0 : x0 ∈ l := by
        rcases hmem with h | h
        · exact absurd h.symm ha
        · exact h
      rw [h0 a (by simp) ha]
      simp only [List.length_nil, Nat.zero_add]
      exact flatMap_length_one f x0 l hnd.2 hx0 h1 (fun x hx => h0 x (by simp [hx]))

theorem filter_length_one {α : Type} (p : α → Bool) (x0 : α) :
    ∀ l : List α, l.Pairwise (· ≠ ·) → x0 ∈ l → (∀ x ∈ l, p x = true ↔ x = x0) → (l.filter p).length = 1
  | [], _, h, _ => by cases h
  | a :: l, hnd, hmem, hp => by
    simp only [List.pairwise_cons] at hnd
    simp only [List.mem_cons] at hmem
    by_cases ha : a = x0
    · subst ha
      have h1 : p a = true := (hp a (by simp)).mpr rfl
      have : l.filter p = [] := by
        rw [List.filter_eq_nil_iff]
        intro x hx hpx
        exact hnd.1 x hx ((hp x (by simp [hx])).mp hpx).symm
      simp [List.filter_cons, h1, this]
    · have hx0 : x0 ∈ l := by
        rcases hmem with h | h
        · exact absurd h.symm ha
        · exact h
      have h1 : p a = false := by
        cases hpa : p a with
        | false => rfl
        | true => exact absurd ((hp a (by simp)).mp hpa) ha
      simp only [List.filter_cons, h1]
      exact filter_length_one p x0 l hnd.2 hx0 (fun x hx => hp x (by simp [hx]))

theorem pairwise_ne_of_map {α β : Type} (g : α → β) : ∀ l : List α, (l.map g).Nodup → l.Pairwise (· ≠ ·) := by
  intro l h
  unfold List.Nodup at h
  rw [List.pairwise_map] at h
  exact h.imp (fun hne e => hne (by rw [e]))

theorem inj_of_nodup_map' {α β : Type} (f : α → β) : ∀ l : List α, (l.map f).Nodup → ∀ x ∈ l, ∀ y ∈ l, f x = f y → x = y
  | [], _, x, hx, _, _, _ => by cases hx
  | a :: l, hnd, x, hx, y, hy, e => by
    simp only [List.map_cons, List.nodup_cons] at hnd
    simp only [List.mem_cons] at hx hy
    rcases hx with rfl | hx <;> rcases hy with rfl | hy
    · rfl
    · exact absurd (by rw [e]; exact List.mem_map_of_mem hy) hnd.1
    · exact absurd (by rw [← e]; exact List.mem_map_of_mem hx) hnd.1
    · exact inj_of_nodup_map' f l hnd.2 x hx y hy e

/-! ### parents -/

/-- every entry of a walk is the root's entry or the child entry of an entry of the walk -/
theorem walk_parent (s : SortBy) (e : Elem) : ∀ (path trace : List Name) (en : Entry), en ∈ walk s path trace e →
    en = ⟨path ++ [e.name], trace ++ [pascal e.name], e⟩ ∨
    ∃ pe ∈ walk s path trace e, ∃ c ∈ pe.elem.children, c.2.textOnly = false ∧
      en = ⟨pe.path ++ [c.2.name], pe.trace ++ [pascal c.2.name], c.2⟩ := by
  intro path trace en h
  rw [mem_walk] at h
  rcases h with h | ⟨c, hc, hto, hen⟩
  · exact Or.inl h
  · right
    have := sizeOf_child_lt hc
    rcases walk_parent s c.2 _ _ en hen with h | ⟨pe, hpe, c', hc', hto', heq⟩
    · refine ⟨⟨path ++ [e.name], trace ++ [pascal e.name], e⟩, ?_, c, hc, hto, h⟩
      rw [mem_walk]; left; rfl
    · refine ⟨pe, ?_, c', hc', hto', heq⟩
      rw [mem_walk]; right; exact ⟨c, hc, hto, hpe⟩
termination_by sizeOf e

/-- every entry's element is a subtree of the walked element, so it inherits the invariant -/
theorem walk_inv (s : SortBy) (e : Elem) (he : e.Inv = true) : ∀ (path trace : List Name) (en : Entry),
    en ∈ walk s path trace e → en.elem.Inv = true := by
  intro path trace en h
  rw [mem_walk] at h
  rcases h with h | ⟨c, hc, _, hen⟩
  · rw [h]; exact he
  · have := sizeOf_child_lt hc
    exact walk_inv s c.2 (Inv_children he hc) _ _ en hen
termination_by sizeOf e

/-! ### the theorem -/

theorem structOf_fields' (o : Options) (hints : Name → Option Nat) (names' : List (List Name × Name)) (en : Entry) :
    (structOf o hints names' en).fields =
      (sortedAttrs o en.elem).map (attrField o (identMap en.elem))
      ++ (if en.elem.text then [textField o (identMap en.elem)] else [])
      ++ (sortedChildren o en.elem).map (childField hints names' (identMap en.elem) en.path en.trace) := rfl

theorem childField_base_string (hints names' im path trace) (c : Nec × Elem) (h : c.2.textOnly = true) :
    (childField hints names' im path trace c).base = stringTy := by simp [childField, h]

theorem childField_base_struct (hints names' im path trace) (c : Nec × Elem) (h : c.2.textOnly = false) :
    (childField hints names' im path trace c).base = structNameOf hints names' (path ++ [c.2.name]) (trace ++ [pascal c.2.name]) c.2 := by
  simp [childField, h]

theorem used_once (o : Options) (t : Elem) (ht : t.Inv = true) :
    ∀ s ∈ ((renderAST o t).map StructDef.plain).tail, usesOf ((renderAST o t).map StructDef.plain) s.name = 1 := by
  intro s hs
  let H0 := hintOf (fillNames [] t)
  let names' := structNames H0 t
  let E := walk o.sort [] [] t
  have hspec := struct_names_spec H0 o t ht
  have hnames : (E.map fun en => (structOf o H0 names' en).name).Nodup := by
    have := hspec.1
    simpa [renderWith, List.map_map, Function.comp_def, E, names'] using this
  have hnotres : ∀ en ∈ E, (structOf o H0 names' en).name ≠ stringTy := by
    intro en hen e'
    have := hspec.2 (structOf o H0 names' en) (by simp only [renderWith, List.mem_map]; exact ⟨en, hen, rfl⟩)
    apply this
    rw [e']; decide
  have hEne : E.Pairwise (· ≠ ·) := pairwise_ne_of_map _ E hnames
  have hname_inj : ∀ a ∈ E, ∀ b ∈ E, (structOf o H0 names' a).name = (structOf o H0 names' b).name → a = b :=
    inj_of_nodup_map' _ E hnames
  -- the struct `s` belongs to a non-root entry
  obtain ⟨r, hr⟩ : ∃ r, E = ⟨[t.name], [pascal t.name], t⟩ :: r := by
    have := walk_head o.sort t
    cases hw : walk o.sort [] [] t with
    | nil => rw [hw] at this; cases this
    | cons b r => rw [hw] at this; simp only [List.head?_cons, Option.some.injEq] at this; exact ⟨r, by simp only [E]; rw [hw, this]⟩
  have hprog : (renderAST o t).map StructDef.plain = E.map fun en => (structOf o H0 names' en).plain := by
    simp [renderAST, renderWith, List.map_map, Function.comp_def, E, names', H0]
  rw [hprog] at hs ⊢
  rw [hr] at hs
  simp only [List.map_cons, List.tail_cons, List.mem_map] at hs
  obtain ⟨en, henr, rfl⟩ := hs
  have henE : en ∈ E := by rw [hr]; simp [henr]
  have hen_ne_root : en ≠ ⟨[t.name], [pascal t.name], t⟩ := by
    intro e'
    rw [hr] at hEne
    simp only [List.pairwise_cons] at hEne
    exact hEne.1 en henr e'.symm
  -- its parent
  obtain ⟨pe, hpe, c, hc, hto, hen_eq⟩ : ∃ pe ∈ E, ∃ c ∈ pe.elem.children, c.2.textOnly = false ∧
      en = ⟨pe.path ++ [c.2.name], pe.trace ++ [pascal c.2.name], c.2⟩ := by
    rcases walk_parent o.sort t [] [] en henE with h | h
    · exact absurd (by simpa using h) hen_ne_root
    · exact h
  have hsname : (structOf o H0 names' en).plain.name = structNameOf H0 names' (pe.path ++ [c.2.name]) (pe.trace ++ [pascal c.2.name]) c.2 := by
    rw [hen_eq]; rfl
  -- which fields have that base type
  have hfield : ∀ pe' ∈ E, ∀ f ∈ (structOf o H0 names' pe').plain.fields, f.base = (structOf o H0 names' en).plain.name →
      pe' = pe ∧ f = (childField H0 names' (identMap pe.elem) pe.path pe.trace c).plain := by
    intro pe' hpe' f hf hb
    simp only [StructDef.plain, structOf_fields', List.map_append, List.mem_append, List.mem_map] at hf
    have hne : (structOf o H0 names' en).plain.name ≠ stringTy := hnotres en henE
    rcases hf with (⟨f', ⟨a, _, rfl⟩, rfl⟩ | ⟨f', hf', rfl⟩) | ⟨f', ⟨c', hc', rfl⟩, rfl⟩
    · exact absurd hb.symm hne
    · split at hf'
      · simp only [List.mem_singleton] at hf'; subst hf'
        exact absurd hb.symm hne
      · cases hf'
    · have hc'm : c' ∈ pe'.elem.children := mem_sortOn.mp hc'
      by_cases hto' : c'.2.textOnly = true
      · have hbs : (childField H0 names' (identMap pe'.elem) pe'.path pe'.trace c').base = stringTy :=
          childField_base_string H0 names' (identMap pe'.elem) pe'.path pe'.trace c' hto'
        have hb2 : (childField H0 names' (identMap pe'.elem) pe'.path pe'.trace c').base = (structOf o H0 names' en).plain.name := hb
        rw [hbs] at hb2
        exact absurd hb2.symm hne
      · have hto'' : c'.2.textOnly = false := by simpa using hto'
        have hchild : (⟨pe'.path ++ [c'.2.name], pe'.trace ++ [pascal c'.2.name], c'.2⟩ : Entry) ∈ E :=
          child_entry_mem o.sort pe' c' hc'm hto'' t [] [] hpe'
        have hb' : (structOf o H0 names' ⟨pe'.path ++ [c'.2.name], pe'.trace ++ [pascal c'.2.name], c'.2⟩).name
            = (structOf o H0 names' en).name := by
          have := childField_base_struct H0 names' (identMap pe'.elem) pe'.path pe'.trace c' hto''
          have hb2 : (childField H0 names' (identMap pe'.elem) pe'.path pe'.trace c').base = (structOf o H0 names' en).name := hb
          rw [this] at hb2
          exact hb2
        have heq := hname_inj _ hchild en henE hb'
        rw [hen_eq] at heq
        have hpath : pe'.path ++ [c'.2.name] = pe.path ++ [c.2.name] := congrArg Entry.path heq
        have hpp : pe'.path = pe.path ∧ c'.2.name = c.2.name := by
          have := List.append_inj' hpath rfl
          exact ⟨this.1, by simpa using this.2⟩
        have hpe_eq : pe' = pe := walk_pairwise_paths o.sort t ht pe' hpe' pe hpe hpp.1
        subst hpe_eq
        have hcc : c' = c := by
          have hinv : pe'.elem.Inv = true := by
            -- every entry's element is a subtree of `t`
            exact walk_inv o.sort t ht [] [] pe' hpe'
          have hnd := Inv_nodup hinv
          have g1 := getChild_of_mem_nodup hnd hc'm
          have g2 := getChild_of_mem_nodup hnd hc
          rw [hpp.2] at g1
          rw [g1] at g2
          exact Option.some.inj g2
        subst hcc
        exact ⟨rfl, rfl⟩
  unfold usesOf
  rw [List.flatMap_map]
  apply flatMap_length_one _ pe E hEne hpe
  · -- exactly one field of the parent's struct
    have hinv : pe.elem.Inv = true := walk_inv o.sort t ht [] [] pe hpe
    have hne : (structOf o H0 names' en).plain.name ≠ stringTy := hnotres en henE
    have hCne : (sortedChildren o pe.elem).Pairwise (· ≠ ·) := by
      apply pairwise_ne_of_map (fun c : Nec × Elem => c.2.name)
      have hperm := (perm_sortOn (fun c : Nec × Elem => sortKeyOf o.sort c.2) pe.elem.children).map (fun c => c.2.name)
      exact hperm.nodup_iff.mpr (Inv_nodup hinv)
    simp only [StructDef.plain, structOf_fields', List.map_append, List.filter_append, List.length_append]
    have hA : (((sortedAttrs o pe.elem).map (attrField o (identMap pe.elem))).map Field.plain).filter
        (fun f => decide (f.base = (structOf o H0 names' en).name)) = [] := by
      rw [List.filter_eq_nil_iff]
      intro f hf
      simp only [List.mem_map] at hf
      obtain ⟨f', ⟨a, _, rfl⟩, rfl⟩ := hf
      simp only [decide_eq_true_eq]
      exact fun hb => hne hb.symm
    have hT : ((if pe.elem.text then [textField o (identMap pe.elem)] else []).map Field.plain).filter
        (fun f => decide (f.base = (structOf o H0 names' en).name)) = [] := by
      rw [List.filter_eq_nil_iff]
      intro f hf
      simp only [List.mem_map] at hf
      obtain ⟨f', hf', rfl⟩ := hf
      simp only [decide_eq_true_eq]
      split at hf'
      · simp only [List.mem_singleton] at hf'; subst hf'
        exact fun hb => hne hb.symm
      · cases hf'
    rw [hA, hT]
    simp only [List.length_nil, Nat.zero_add]
    rw [List.map_map, List.filter_map, List.length_map]
    apply filter_length_one _ c _ hCne (mem_sortOn.mpr hc)
    intro c' hc'
    simp only [Function.comp, decide_eq_true_eq]
    constructor
    · intro hb
      have hfm : (childField H0 names' (identMap pe.elem) pe.path pe.trace c').plain ∈ (structOf o H0 names' pe).plain.fields := by
        simp only [StructDef.plain, structOf_fields', List.map_append, List.mem_append, List.mem_map]
        exact Or.inr ⟨_, ⟨c', hc', rfl⟩, rfl⟩
      have h2 := (hfield pe hpe _ hfm hb).2
      -- equal fields have equal bound names, hence equal child names
      by_cases hcc : c'.2.name = c.2.name
      · have hnd := Inv_nodup hinv
        have g1 := getChild_of_mem_nodup hnd (mem_sortOn.mp hc')
        have g2 := getChild_of_mem_nodup hnd hc
        rw [hcc] at g1
        rw [g1] at g2
        exact Option.some.inj g2
      · exfalso
        -- different children of one parent have different child entries, hence different struct names
        have hto' : c'.2.textOnly = false := by
          cases h : c'.2.textOnly with
          | false => rfl
          | true =>
            have hbs : (childField H0 names' (identMap pe.elem) pe.path pe.trace c').base = stringTy :=
              childField_base_string H0 names' (identMap pe.elem) pe.path pe.trace c' h
            have hb2 : (childField H0 names' (identMap pe.elem) pe.path pe.trace c').base = (structOf o H0 names' en).name := hb
            rw [hbs] at hb2
            exact absurd hb2.symm hne
        have hchild : (⟨pe.path ++ [c'.2.name], pe.trace ++ [pascal c'.2.name], c'.2⟩ : Entry) ∈ E :=
          child_entry_mem o.sort pe c' (mem_sortOn.mp hc') hto' t [] [] hpe
        have hb' : (structOf o H0 names' ⟨pe.path ++ [c'.2.name], pe.trace ++ [pascal c'.2.name], c'.2⟩).name
            = (structOf o H0 names' en).name := by
          have := childField_base_struct H0 names' (identMap pe.elem) pe.path pe.trace c' hto'
          have hb2 : (childField H0 names' (identMap pe.elem) pe.path pe.trace c').base = (structOf o H0 names' en).name := hb
          rw [this] at hb2
          exact hb2
        have heq := hname_inj _ hchild en henE hb'
        rw [hen_eq] at heq
        have hpath : pe.path ++ [c'.2.name] = pe.path ++ [c.2.name] := congrArg Entry.path heq
        exact hcc (by simpa using hpath)
    · intro e'
      rw [e']
      have hbs : (childField H0 names' (identMap pe.elem) pe.path pe.trace c).base
          = structNameOf H0 names' (pe.path ++ [c.2.name]) (pe.trace ++ [pascal c.2.name]) c.2 :=
        childField_base_struct H0 names' (identMap pe.elem) pe.path pe.trace c hto
      show (childField H0 names' (identMap pe.elem) pe.path pe.trace c).base = (structOf o H0 names' en).name
      rw [hbs]; exact hsname.symm
  · intro pe' hpe' hne
    rw [List.filter_eq_nil_iff]
    intro f hf hb
    simp only [decide_eq_true_eq] at hb
    exact hne (hfield pe' hpe' f hf hb).1

end Xsg
