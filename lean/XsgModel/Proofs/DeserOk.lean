import XsgModel.Proofs.DeserBasics
import XsgModel.Proofs.DeserPerm
import XsgModel.Props.C01
import XsgModel.Props.C04
/-!
# The quick-xml deserializer model accepts every document the tree admits

`deNode_ok`: for an entry of the walk (an element rendered as a struct) and a document element that the
entry's element admits (`Admits`, C01), `deNode` on the rendered program — also with `deny_unknown_fields` —
returns a value.  Side conditions: the serde names of one element's attributes, and of its children, are
pairwise distinct (`Elem.keysOK`: "no names clash after removing namespace prefixes"; XML names never produce
`$text` or a leading `@`), attribute names of a document element are distinct (well-formedness), and the
document is inside the deserializer model (`VNode.inModel`).
-/
namespace Xsg

/-- a child name whose serde name cannot be mistaken for the text key or an attribute key (true of every XML name) -/
def childKeyOK (k : Name) : Bool :=
  decide (removeNamespace k ≠ cl!"$text") && decide ((removeNamespace k).head? ≠ some '@')

/-- per element: serde names of attributes distinct, serde names of children distinct and well-shaped; recursively -/
def Elem.keysOK : Elem → Bool
  | .mk _ _ _ _ as cs _ =>
    decide (((as.map (·.2)).map attrLocal).Nodup) && decide (((cs.map (·.2.name)).map removeNamespace).Nodup) &&
    cs.all (fun c => childKeyOK c.2.name) && keysKids cs
where
  keysKids : List (Nec × Elem) → Bool
    | [] => true
    | (_, e) :: rest => e.keysOK && keysKids rest

theorem keysKids_iff (cs : List (Nec × Elem)) : Elem.keysOK.keysKids cs = true ↔ ∀ c ∈ cs, c.2.keysOK = true := by
  induction cs with
  | nil => simp [Elem.keysOK.keysKids]
  | cons c cs ih =>
    obtain ⟨n, e⟩ := c
    simp [Elem.keysOK.keysKids, ih]

theorem keysOK_iff (e : Elem) : e.keysOK = true ↔
    ((names e.attrs).map attrLocal).Nodup ∧ ((childNames e.children).map removeNamespace).Nodup ∧
    (∀ c ∈ e.children, childKeyOK c.2.name = true) ∧ ∀ c ∈ e.children, c.2.keysOK = true := by
  cases e with
  | mk n t s c as cs p =>
    simp only [Elem.keysOK, Bool.and_eq_true, decide_eq_true_eq, List.all_eq_true, keysKids_iff, Elem.attrs, Elem.children,
      names, childNames]
    constructor
    · rintro ⟨⟨⟨h1, h2⟩, h3⟩, h4⟩; exact ⟨h1, h2, h3, h4⟩
    · rintro ⟨h1, h2, h3, h4⟩; exact ⟨⟨⟨h1, h2⟩, h3⟩, h4⟩

/-! ### the serde names of the fields (quick-xml preset) -/

abbrev oQ : Options := Options.quickXmlDe
abbrev cQ : DeCfg := DeCfg.quickXml

theorem bound_attrField (im : IdentMap) (a : Nec × Name) :
    (attrField oQ im a).plain.bound' = cl!"@" ++ attrLocal a.2 := by
  exact (C01_attr_field oQ im a).2.2.2

theorem bound_textField (im : IdentMap) : (textField oQ im).plain.bound' = cl!"$text" := rfl

theorem bound_childField (hints names' im path trace) (c : Nec × Elem) :
    (childField hints names' im path trace c).plain.bound' = removeNamespace c.2.name := by
  have := (C01_child_field hints names' im path trace c).2.2.1
  simpa [PField.bound', Field.plain] using this

theorem at_ne_text (x : Name) : cl!"@" ++ x ≠ cl!"$text" := by
  intro h; cases h

theorem childKey_ne_at {k : Name} (h : childKeyOK k = true) (x : Name) : removeNamespace k ≠ cl!"@" ++ x := by
  simp only [childKeyOK, Bool.and_eq_true, decide_eq_true_eq] at h
  intro e
  apply h.2
  rw [e]; rfl

theorem childKey_ne_text {k : Name} (h : childKeyOK k = true) : removeNamespace k ≠ cl!"$text" := by
  simp only [childKeyOK, Bool.and_eq_true, decide_eq_true_eq] at h
  exact h.1

/-- the fields of the struct rendered for an entry, as read back from the text (quick-xml preset, unsorted) -/
theorem plain_fields (hints names') (en : Entry) :
    (structOf oQ hints names' en).plain.fields =
      (en.elem.attrs.map fun a => (attrField oQ (identMap en.elem) a).plain)
      ++ (if en.elem.text then [(textField oQ (identMap en.elem)).plain] else [])
      ++ ((sortedChildren oQ en.elem).map fun c => (childField hints names' (identMap en.elem) en.path en.trace c).plain) := by
  simp only [StructDef.plain, C01_fields, List.map_append, List.map_map, sortedAttrs]
  congr 1
  congr 1
  split <;> simp

/-- the serde names of one struct's fields are pairwise distinct -/
theorem bounds_nodup (hints names') (en : Entry)
    (hA : ((names en.elem.attrs).map attrLocal).Nodup) (hC : ((childNames en.elem.children).map removeNamespace).Nodup)
    (hK : ∀ c ∈ en.elem.children, childKeyOK c.2.name = true) :
    ((structOf oQ hints names' en).plain.fields.map PField.bound').Nodup := by
  rw [plain_fields]
  simp only [List.map_append, List.map_map]
  have e1 : (en.elem.attrs.map (PField.bound' ∘ fun a => (attrField oQ (identMap en.elem) a).plain))
      = ((names en.elem.attrs).map attrLocal).map (fun x => cl!"@" ++ x) := by
    simp only [names, List.map_map]
    apply List.map_congr_left
    intro a _
    simp [bound_attrField]
  have e3 : ((sortedChildren oQ en.elem).map (PField.bound' ∘ fun c => (childField hints names' (identMap en.elem) en.path en.trace c).plain))
      = (sortedChildren oQ en.elem).map (fun c => removeNamespace c.2.name) := by
    apply List.map_congr_left
    intro c _
    simp [bound_childField]
  rw [e1, e3]
  have hperm : ((sortedChildren oQ en.elem).map (fun c => removeNamespace c.2.name)).Perm ((childNames en.elem.children).map removeNamespace) := by
    have := (perm_sortOn (fun c : Nec × Elem => sortKeyOf oQ.sort c.2) en.elem.children).map (fun c => removeNamespace c.2.name)
    simpa [sortedChildren, childNames, List.map_map, Function.comp_def] using this
  have hC' : ((sortedChildren oQ en.elem).map (fun c => removeNamespace c.2.name)).Nodup := hperm.nodup_iff.mpr hC
  have hA' : (((names en.elem.attrs).map attrLocal).map (fun x => cl!"@" ++ x)).Nodup := by
    unfold List.Nodup at hA ⊢
    rw [List.pairwise_map]
    exact hA.imp (fun h e => h (by simpa using e))
  rw [List.nodup_append, List.nodup_append]
  refine ⟨⟨hA', ?_, ?_⟩, hC', ?_⟩
  · split <;> simp
  · intro x hx y hy
    simp only [List.mem_map] at hx
    obtain ⟨x', _, rfl⟩ := hx
    split at hy
    · simp only [List.map_cons, List.map_nil, List.mem_singleton] at hy
      rw [hy, bound_textField]
      exact at_ne_text _
    · simp at hy
  · intro x hx y hy
    simp only [List.mem_map] at hy
    obtain ⟨c, hc, rfl⟩ := hy
    have hcm : c ∈ en.elem.children := mem_sortOn.mp hc
    have hk := hK c hcm
    simp only [List.mem_append] at hx
    rcases hx with hx | hx
    · simp only [List.mem_map] at hx
      obtain ⟨x', _, rfl⟩ := hx
      exact (childKey_ne_at hk _).symm
    · split at hx
      · simp only [List.map_cons, List.map_nil, List.mem_singleton] at hx
        rw [hx, bound_textField]
        exact (childKey_ne_text hk).symm
      · simp at hx

/-! ### generic list facts -/

theorem inj_of_nodup_map {α β : Type} (f : α → β) : ∀ l : List α, (l.map f).Nodup → ∀ x ∈ l, ∀ y ∈ l, f x = f y → x = y
  | [], _, x, hx, _, _, _ => by cases hx
  | a :: l, hnd, x, hx, y, hy, e => by
    simp only [List.map_cons, List.nodup_cons] at hnd
    simp only [List.mem_cons] at hx hy
    rcases hx with rfl | hx <;> rcases hy with rfl | hy
    · rfl
    · exact absurd (by rw [e]; exact List.mem_map_of_mem hy) hnd.1
    · exact absurd (by rw [← e]; exact List.mem_map_of_mem hx) hnd.1
    · exact inj_of_nodup_map f l hnd.2 x hx y hy e

theorem filter_len_le_one {α β : Type} [DecidableEq β] (f : α → β) (k : β) :
    ∀ l : List α, (l.map f).Nodup → (l.filter (fun x => f x = k)).length ≤ 1
  | [], _ => by simp
  | a :: l, hnd => by
    simp only [List.map_cons, List.nodup_cons] at hnd
    by_cases h : f a = k
    · have : l.filter (fun x => f x = k) = [] := by
        rw [List.filter_eq_nil_iff]
        intro x hx hk
        simp only [decide_eq_true_eq] at hk
        exact hnd.1 (by rw [h, ← hk]; exact List.mem_map_of_mem hx)
      simp [h, this]
    · simp only [List.filter_cons, h, decide_false]
      exact filter_len_le_one f k l hnd.2

theorem len_le_one_cases {α : Type} (l : List α) (h : l.length ≤ 1) : l = [] ∨ ∃ x, l = [x] := by
  match l, h with
  | [], _ => exact Or.inl rfl
  | [x], _ => exact Or.inr ⟨x, rfl⟩
  | _ :: _ :: _, h => simp at h

/-! ### one element: every field gets a value, and the value holds the strings offered under its key -/

theorem Val.strings_str (s : Str) : (Val.str s).strings = [s] := by simp [Val.strings]
theorem Val.strings_none : Val.none.strings = [] := by simp [Val.strings]
theorem Val.strings_some (v : Val) : (Val.some v).strings = v.strings := by simp [Val.strings]
theorem Val.strings_seq (vs : List Val) : (Val.seq vs).strings = stringsList vs := by simp [Val.strings]
theorem Val.strings_struct (nm : Name) (fs : List (Name × Val)) : (Val.struct nm fs).strings = stringsFields fs := by
  simp [Val.strings]

theorem VItems.values_eq (cfg : DeCfg) : ∀ items : VItems, items.values cfg = items.elems.flatMap (VNode.values cfg)
  | .nil => by simp [VItems.values, VItems.elems]
  | .elem n r => by simp [VItems.values, VItems.elems, VItems.values_eq cfg r]
  | .text _ _ r => by simp [VItems.values, VItems.elems, VItems.values_eq cfg r]
  | .other _ r => by simp [VItems.values, VItems.elems, VItems.values_eq cfg r]

theorem VNode.values_eq (cfg : DeCfg) (n : VNode) :
    n.values cfg = n.attrs.map (·.2) ++ cfg.texts n.items ++ n.items.elems.flatMap (VNode.values cfg) := by
  cases n with
  | mk nm as sc items => simp [VNode.values, VNode.attrs, VNode.items, VItems.values_eq]

/-- without the empty strings (`<e/>` read as a `String` gives `""`, which no document value corresponds to) -/
def ne (l : List Str) : List Str := l.filter (fun s => !s.isEmpty)

theorem ne_append (a b : List Str) : ne (a ++ b) = ne a ++ ne b := by simp [ne]
theorem ne_perm {a b : List Str} (h : a.Perm b) : (ne a).Perm (ne b) := h.filter _

/-- the strings of the document element offered under one key: attribute values, character data, and
everything inside the child elements with that key -/
def srcStrings (n : VNode) (txt : Option Str) (key : Name) : List Str :=
  (n.attrs.filter (fun x => cQ.attrKey x.1 = key)).map (·.2)
  ++ (if cQ.textKey = key then txt.toList else [])
  ++ (n.items.elems.filter (fun d => cQ.elemKey d.name = key)).flatMap (VNode.values cQ)

/-- what the proof needs to know about one document element `n` offered to the struct of the tree element `e` -/
structure NodeCtx (e : Elem) (n : VNode) (kids : List KidRes) (K : VNode → KidRes) : Prop where
  adm : Admits e n.erase
  keysA : ((names e.attrs).map attrLocal).Nodup
  keysC : ((childNames e.children).map removeNamespace).Nodup
  keysK : ∀ c ∈ e.children, childKeyOK c.2.name = true
  ndC : (childNames e.children).Nodup
  ndA : (n.attrs.map (·.1)).Nodup
  tx1 : (cQ.texts n.items).length ≤ 1
  hkids : kids = n.items.elems.map K
  kkey : ∀ c, (K c).key = removeNamespace c.name
  kqname : ∀ c, (K c).qname = c.name
  kval : ∀ c ∈ n.items.elems, ∃ v, (K c).val = .ok v ∧ (ne v.strings).Perm (ne (c.values cQ))

namespace NodeCtx
variable {e : Elem} {n : VNode} {kids : List KidRes} {K : VNode → KidRes}

/-- every child element of the document element is a child of the tree element -/
theorem child_known (h : NodeCtx e n kids K) (c : VNode) (hc : c ∈ n.items.elems) : c.name ∈ childNames e.children := by
  cases h.adm with
  | intro _ _ _ _ _ hkf _ _ _ =>
    have : n.erase.named c.name ≠ [] := by
      rw [VNode.erase_named]
      intro he
      have : c ∈ n.items.elems.filter (fun d => d.name = c.name) := by simp [hc]
      rw [List.map_eq_nil_iff] at he
      rw [he] at this; cases this
    have := hkf c.name this
    rw [Ne, getChild_none_iff] at this
    exact Classical.not_not.mp this

theorem child_keyOK (h : NodeCtx e n kids K) (c : VNode) (hc : c ∈ n.items.elems) : childKeyOK c.name = true := by
  have := h.child_known c hc
  simp only [childNames, List.mem_map] at this
  obtain ⟨d, hd, hdn⟩ := this
  rw [← hdn]
  exact h.keysK d hd

theorem elems_key_ne_at (h : NodeCtx e n kids K) (x : Name) :
    n.items.elems.filter (fun d => cQ.elemKey d.name = cl!"@" ++ x) = [] := by
  rw [List.filter_eq_nil_iff]
  intro d hd
  simp only [decide_eq_true_eq]
  exact childKey_ne_at (h.child_keyOK d hd) x

theorem elems_key_ne_text (h : NodeCtx e n kids K) : n.items.elems.filter (fun d => cQ.elemKey d.name = cl!"$text") = [] := by
  rw [List.filter_eq_nil_iff]
  intro d hd
  simp only [decide_eq_true_eq]
  exact childKey_ne_text (h.child_keyOK d hd)

theorem kids_filter (h : NodeCtx e n kids K) (key : Name) :
    kids.filter (fun k => k.key = key) = (n.items.elems.filter (fun d => cQ.elemKey d.name = key)).map K := by
  rw [h.hkids, List.filter_map]
  congr 1
  apply List.filter_congr
  intro d _
  simp [Function.comp, h.kkey, DeCfg.quickXml]

theorem kid_key_ne_at (h : NodeCtx e n kids K) (x : Name) : kids.filter (fun k => k.key = cl!"@" ++ x) = [] := by
  rw [h.kids_filter, h.elems_key_ne_at]; rfl

theorem kid_key_ne_text (h : NodeCtx e n kids K) : kids.filter (fun k => k.key = cl!"$text") = [] := by
  rw [h.kids_filter, h.elems_key_ne_text]; rfl

theorem attr_known (h : NodeCtx e n kids K) (x : Name × Str) (hx : x ∈ n.attrs) : x.1 ∈ names e.attrs := by
  cases h.adm with
  | intro _ _ haf _ _ _ _ _ _ => exact haf x.1 (by rw [VNode.erase_attrs]; exact List.mem_map_of_mem hx)

/-- the attribute sources offered under the serde name of the tree attribute `a`: the document's attribute `a` -/
theorem attr_sources (h : NodeCtx e n kids K) (a : Name) (ha : a ∈ names e.attrs) :
    n.attrs.filter (fun x => cQ.attrKey x.1 = cl!"@" ++ attrLocal a) = n.attrs.filter (fun x => x.1 = a) := by
  apply List.filter_congr
  intro x hx
  have hx' := h.attr_known x hx
  simp only [DeCfg.quickXml, List.cons_append, List.nil_append, List.cons.injEq, true_and, decide_eq_decide]
  constructor
  · intro e'; exact inj_of_nodup_map attrLocal _ h.keysA x.1 hx' a ha e'
  · intro e'; rw [e']

theorem fieldVal_attr (h : NodeCtx e n kids K) (im : IdentMap) (a : Nec × Name) (ha : a ∈ e.attrs) (txt : Option Str) :
    ∃ v, fieldVal cQ (attrField oQ im a).plain n.attrs txt kids = .ok v ∧
      (ne v.strings).Perm (ne (srcStrings n txt (attrField oQ im a).plain.bound')) := by
  have hb := bound_attrField im a
  have hA := h.attr_sources a.2 (by simp only [names, List.mem_map]; exact ⟨a, ha, rfl⟩)
  have hlen : (n.attrs.filter (fun x => x.1 = a.2)).length ≤ 1 := filter_len_le_one (·.1) a.2 n.attrs h.ndA
  have hT : (if cQ.textKey = cl!"@" ++ attrLocal a.2 then txt.toList else []) = [] := by
    rw [if_neg]; intro e'; exact at_ne_text _ e'.symm
  have hK := h.kid_key_ne_at (attrLocal a.2)
  have hE := h.elems_key_ne_at (attrLocal a.2)
  unfold fieldVal srcStrings
  rw [hb]
  unfold fieldValAt
  simp only [hA, hT, hK, hE]
  rcases len_le_one_cases _ hlen with h0 | ⟨x, h1⟩
  · rw [h0]
    simp only
    by_cases hopt : (attrField oQ im a).plain.opt = true
    · exact ⟨.none, by simp [hopt], by simp [Val.strings_none]⟩
    · exfalso
      -- a mandatory attribute is present in every admitted element
      have hman : a.1 = .man := by
        have : (attrField oQ im a).plain.opt = decide (a.1 = .opt) := rfl
        rw [this] at hopt
        cases hh : a.1 <;> simp_all
      cases h.adm with
      | intro _ _ _ har _ _ _ _ _ =>
        have := har a.2 (by rw [← hman]; exact ha)
        rw [VNode.erase_attrs, List.mem_map] at this
        obtain ⟨x, hx, hxa⟩ := this
        have : x ∈ n.attrs.filter (fun x => x.1 = a.2) := by simp [hx, hxa]
        rw [h0] at this; cases this
  · rw [h1]
    have hv : (attrField oQ im a).plain.vec = false := rfl
    have hs : (attrField oQ im a).plain.base = stringTy := rfl
    refine ⟨if (attrField oQ im a).plain.opt then optOfStr x.2 else .str x.2, by simp [hv, hs], ?_⟩
    apply ne_perm
    split <;> simp [optOfStr, Val.strings_some, Val.strings_str]

theorem fieldVal_text (h : NodeCtx e n kids K) (im : IdentMap) :
    ∃ v, fieldVal cQ (textField oQ im).plain n.attrs (cQ.texts n.items).head? kids = .ok v ∧
      (ne v.strings).Perm (ne (srcStrings n (cQ.texts n.items).head? (textField oQ im).plain.bound')) := by
  have hA : n.attrs.filter (fun x => cQ.attrKey x.1 = cl!"$text") = [] := by
    rw [List.filter_eq_nil_iff]
    intro x _
    simp only [decide_eq_true_eq]
    exact at_ne_text _
  have hK := h.kid_key_ne_text
  have hE := h.elems_key_ne_text
  have ht : cQ.textKey = cl!"$text" := rfl
  unfold fieldVal srcStrings
  rw [bound_textField]
  unfold fieldValAt
  simp only [ht, if_true, hA, hK, hE]
  cases (cQ.texts n.items).head? with
  | none => exact ⟨.none, by simp [textField, Field.plain], by simp [Val.strings_none]⟩
  | some t => exact ⟨optOfStr t, by simp [textField, Field.plain, stringTy], by apply ne_perm; simp [optOfStr, Val.strings_some, Val.strings_str]⟩

theorem collectVals_ok (K : VNode → KidRes) : ∀ L : List VNode,
    (∀ d ∈ L, ∃ v, (K d).val = .ok v ∧ (ne v.strings).Perm (ne (d.values cQ))) →
    ∃ vs, collectVals (L.map K) = .ok vs ∧ (ne (stringsList vs)).Perm (ne (L.flatMap (VNode.values cQ)))
  | [], _ => ⟨[], rfl, by simp [stringsList]⟩
  | d :: ds, h => by
    obtain ⟨v, hv, hp⟩ := h d (by simp)
    obtain ⟨vs, hvs, hps⟩ := collectVals_ok K ds (fun d' hd' => h d' (by simp [hd']))
    refine ⟨v :: vs, by simp [collectVals, hv, hvs], ?_⟩
    simp only [stringsList, List.flatMap_cons, ne_append]
    exact hp.append hps

theorem seqOf_ok (K : VNode → KidRes) (L : List VNode)
    (h : ∀ d ∈ L, ∃ v, (K d).val = .ok v ∧ (ne v.strings).Perm (ne (d.values cQ))) :
    ∃ v, seqOf (L.map K) = .ok v ∧ (ne v.strings).Perm (ne (L.flatMap (VNode.values cQ))) := by
  obtain ⟨vs, hvs, hp⟩ := collectVals_ok K L h
  exact ⟨.seq vs, by simp [seqOf, hvs], by rw [Val.strings_seq]; exact hp⟩

/-- the child sources offered under the serde name of the tree child `c`: the document's children called `c` -/
theorem child_sources (h : NodeCtx e n kids K) (c : Nec × Elem) (hc : c ∈ e.children) :
    n.items.elems.filter (fun d => cQ.elemKey d.name = removeNamespace c.2.name) = n.items.elems.filter (fun d => d.name = c.2.name) := by
  apply List.filter_congr
  intro d hd
  simp only [DeCfg.quickXml, decide_eq_decide]
  constructor
  · intro e'
    exact inj_of_nodup_map removeNamespace _ h.keysC d.name (h.child_known d hd) c.2.name
      (by simp only [childNames, List.mem_map]; exact ⟨c, hc, rfl⟩) e'
  · intro e'; rw [e']

theorem fieldVal_child (h : NodeCtx e n kids K) (hints names' im path trace) (c : Nec × Elem) (hc : c ∈ e.children)
    (txt : Option Str) :
    ∃ v, fieldVal cQ (childField hints names' im path trace c).plain n.attrs txt kids = .ok v ∧
      (ne v.strings).Perm (ne (srcStrings n txt (childField hints names' im path trace c).plain.bound')) := by
  have hb := bound_childField hints names' im path trace c
  have hk := h.keysK c hc
  have hA : n.attrs.filter (fun x => cQ.attrKey x.1 = removeNamespace c.2.name) = [] := by
    rw [List.filter_eq_nil_iff]
    intro x _
    simp only [decide_eq_true_eq]
    exact (childKey_ne_at hk _).symm
  have hT : (if cQ.textKey = removeNamespace c.2.name then txt.toList else []) = [] := by
    rw [if_neg]; exact (childKey_ne_text hk).symm
  have hE := h.child_sources c hc
  have hK : kids.filter (fun k => k.key = removeNamespace c.2.name) = (n.items.elems.filter (fun d => d.name = c.2.name)).map K := by
    rw [h.kids_filter, hE]
  have hg : getChild e.children c.2.name = some c := getChild_of_mem_nodup h.ndC hc
  have hnamed : (n.erase.named c.2.name).length = (n.items.elems.filter (fun d => d.name = c.2.name)).length := by
    rw [VNode.erase_named, List.length_map]
  have hopt : (childField hints names' im path trace c).plain.opt = decide (c.1 = .opt) := rfl
  have hvec : (childField hints names' im path trace c).plain.vec = !c.2.standalone := rfl
  unfold fieldVal srcStrings
  rw [hb]
  unfold fieldValAt
  simp only [hA, hT, hK, hE]
  cases hL : n.items.elems.filter (fun d => d.name = c.2.name) with
  | nil =>
    simp only [List.map_nil]
    by_cases ho : c.1 = .opt
    · exact ⟨.none, by simp [hopt, ho], by simp [Val.strings_none]⟩
    · exfalso
      have hman : c.1 = .man := by cases hh : c.1 <;> simp_all
      cases h.adm with
      | intro _ _ _ _ _ _ hreq _ _ =>
        have := hreq c.2.name c.2 (by rw [hg, ← hman])
        apply this
        apply List.eq_nil_of_length_eq_zero
        rw [hnamed, hL]; rfl
  | cons d ds =>
    have hall : ∀ x ∈ d :: ds, x ∈ n.items.elems ∧ x.name = c.2.name := by
      intro x hx
      rw [← hL] at hx
      simpa using hx
    have hvals : ∀ x ∈ d :: ds, ∃ v, (K x).val = .ok v ∧ (ne v.strings).Perm (ne (x.values cQ)) :=
      fun x hx => h.kval x (hall x hx).1
    simp only [List.map_cons]
    by_cases hs : c.2.standalone = true
    · -- single field: at most one occurrence
      have hlen : (d :: ds).length ≤ 1 := by
        cases h.adm with
        | intro _ _ _ _ _ _ _ hsingle _ =>
          have := hsingle c.2.name c.1 c.2 hg hs
          rw [hnamed, hL] at this
          exact this
      have hds : ds = [] := by
        cases ds with
        | nil => rfl
        | cons _ _ => simp at hlen
      subst hds
      obtain ⟨v, hv, hp⟩ := hvals d (by simp)
      refine ⟨if (childField hints names' im path trace c).plain.opt then .some v else v, by simp [hvec, hs, hv, Except.map], ?_⟩
      have : ([d].flatMap (VNode.values cQ)) = d.values cQ := by simp
      simp only [this]
      split
      · rw [Val.strings_some]; exact hp
      · exact hp
    · have hs' : c.2.standalone = false := by simpa using hs
      have hq : (ds.map K).all (fun k' => k'.qname = (K d).qname) = true := by
        rw [List.all_eq_true]
        intro k hk
        rw [List.mem_map] at hk
        obtain ⟨x, hx, rfl⟩ := hk
        simp only [h.kqname, decide_eq_true_eq]
        rw [(hall x (by simp [hx])).2, (hall d (by simp)).2]
      obtain ⟨v, hv, hp⟩ := seqOf_ok K (d :: ds) hvals
      simp only [List.map_cons] at hv
      refine ⟨if (childField hints names' im path trace c).plain.opt then .some v else v,
        by simp [hvec, hs', hq, hv, Except.map, DeCfg.quickXml], ?_⟩
      split
      · rw [Val.strings_some]; exact hp
      · exact hp

end NodeCtx

/-! ### all fields, unknown keys -/

theorem fieldVals_ok (cfg : DeCfg) (attrs : List (Name × Str)) (txt : Option Str) (kids : List KidRes) (S : PField → List Str) :
    ∀ (fs : List PField) (seen : List Name), (fs.map PField.bound').Nodup → (∀ f ∈ fs, f.bound' ∉ seen) →
      (∀ f ∈ fs, ∃ v, fieldVal cfg f attrs txt kids = .ok v ∧ (ne v.strings).Perm (ne (S f))) →
      ∃ fv, fieldVals cfg attrs txt kids seen fs = .ok fv ∧ (ne (stringsFields fv)).Perm (ne (fs.flatMap S))
  | [], _, _, _, _ => ⟨[], rfl, by simp [stringsFields]⟩
  | f :: fs, seen, hnd, hseen, hv => by
    simp only [List.map_cons, List.nodup_cons] at hnd
    obtain ⟨v, hfv, hp⟩ := hv f (by simp)
    have hns : f.bound' ∉ seen := hseen f (by simp)
    obtain ⟨rest, hrest, hpr⟩ := fieldVals_ok cfg attrs txt kids S fs (f.bound' :: seen) hnd.2
      (by
        intro g hg
        simp only [List.mem_cons, not_or]
        refine ⟨?_, hseen g (by simp [hg])⟩
        intro e'
        exact hnd.1 (by rw [← e']; exact List.mem_map_of_mem hg))
      (fun g hg => hv g (by simp [hg]))
    refine ⟨(f.bound', v) :: rest, by simp [fieldVals, hns, hfv, hrest], ?_⟩
    simp only [stringsFields, List.flatMap_cons, ne_append]
    exact hp.append hpr

theorem findField_isSome {fs : List PField} {key : Name} (h : ∃ f ∈ fs, f.bound' = key) : (findField fs key).isSome = true := by
  obtain ⟨f, hf, hk⟩ := h
  unfold findField
  rw [List.find?_isSome]
  exact ⟨f, hf, by simp [hk]⟩

/-- membership of the three kinds of fields -/
theorem mem_fields_attr (hints names') (en : Entry) (a : Nec × Name) (ha : a ∈ en.elem.attrs) :
    (attrField oQ (identMap en.elem) a).plain ∈ (structOf oQ hints names' en).plain.fields := by
  rw [plain_fields]
  simp only [List.mem_append, List.mem_map]
  exact Or.inl (Or.inl ⟨a, ha, rfl⟩)

theorem mem_fields_text (hints names') (en : Entry) (ht : en.elem.text = true) :
    (textField oQ (identMap en.elem)).plain ∈ (structOf oQ hints names' en).plain.fields := by
  rw [plain_fields]
  simp [ht]

theorem mem_fields_child (hints names') (en : Entry) (c : Nec × Elem) (hc : c ∈ en.elem.children) :
    (childField hints names' (identMap en.elem) en.path en.trace c).plain ∈ (structOf oQ hints names' en).plain.fields := by
  rw [plain_fields]
  simp only [List.mem_append, List.mem_map]
  exact Or.inr ⟨c, mem_sortOn.mpr hc, rfl⟩

theorem fields_cases (hints names') (en : Entry) (f : PField) (hf : f ∈ (structOf oQ hints names' en).plain.fields) :
    (∃ a ∈ en.elem.attrs, f = (attrField oQ (identMap en.elem) a).plain) ∨
    (en.elem.text = true ∧ f = (textField oQ (identMap en.elem)).plain) ∨
    (∃ c ∈ en.elem.children, f = (childField hints names' (identMap en.elem) en.path en.trace c).plain) := by
  rw [plain_fields] at hf
  simp only [List.mem_append, List.mem_map] at hf
  rcases hf with (⟨a, ha, rfl⟩ | hf) | ⟨c, hc, rfl⟩
  · exact Or.inl ⟨a, ha, rfl⟩
  · split at hf
    · rename_i ht
      simp only [List.mem_singleton] at hf
      exact Or.inr (Or.inl ⟨ht, hf⟩)
    · cases hf
  · exact Or.inr (Or.inr ⟨c, mem_sortOn.mp hc, rfl⟩)

section known
variable (hints : Name → Option Nat) (names' : List (List Name × Name)) (en : Entry) {n : VNode} {kids : List KidRes} {K : VNode → KidRes}

/-- every key the document element offers is the serde name of a field -/
theorem attr_key_known (h : NodeCtx en.elem n kids K) (x : Name × Str) (hx : x ∈ n.attrs) :
    cQ.attrKey x.1 ∈ (structOf oQ hints names' en).plain.fields.map PField.bound' := by
  have hx' := h.attr_known x hx
  simp only [names, List.mem_map] at hx'
  obtain ⟨a, ha, hax⟩ := hx'
  rw [List.mem_map]
  exact ⟨_, mem_fields_attr hints names' en a ha, by rw [bound_attrField, hax]; rfl⟩

theorem text_key_known (h : NodeCtx en.elem n kids K) (hne : cQ.texts n.items ≠ []) :
    cQ.textKey ∈ (structOf oQ hints names' en).plain.fields.map PField.bound' := by
  have ht : en.elem.text = true := by
    cases h.adm with
    | intro _ _ _ _ htext _ _ _ _ =>
      apply htext
      cases n with
      | mk nm as sc items => exact texts_quick_hasText items hne
  rw [List.mem_map]
  exact ⟨_, mem_fields_text hints names' en ht, rfl⟩

theorem elem_key_known (h : NodeCtx en.elem n kids K) (c : VNode) (hc : c ∈ n.items.elems) :
    cQ.elemKey c.name ∈ (structOf oQ hints names' en).plain.fields.map PField.bound' := by
  have := h.child_known c hc
  simp only [childNames, List.mem_map] at this
  obtain ⟨d, hd, hdn⟩ := this
  rw [List.mem_map]
  exact ⟨_, mem_fields_child hints names' en d hd, by rw [bound_childField, hdn]; rfl⟩

end known

theorem mem_map_bound {fs : List PField} {key : Name} (h : key ∈ fs.map PField.bound') : ∃ f ∈ fs, f.bound' = key := by
  rw [List.mem_map] at h; exact h

theorem filter_const {α : Type} (b : Bool) (l : List α) : l.filter (fun _ => b) = if b then l else [] := by
  cases b <;> simp

/-- the strings offered under the serde names of the fields are, together, the strings of the element -/
theorem srcStrings_partition (hints names') (en : Entry) (n : VNode) (kids : List KidRes) (K : VNode → KidRes)
    (h : NodeCtx en.elem n kids K) :
    ((structOf oQ hints names' en).plain.fields.flatMap fun f => srcStrings n (cQ.texts n.items).head? f.bound').Perm (n.values cQ) := by
  have hnd := bounds_nodup hints names' en h.keysA h.keysC h.keysK
  generalize hfs : (structOf oQ hints names' en).plain.fields = fs at hnd
  have hA := attr_key_known hints names' en h
  have hT := text_key_known hints names' en h
  have hE := elem_key_known hints names' en h
  rw [hfs] at hA hT hE
  -- by keys rather than by fields
  have e1 : (fs.flatMap fun f => srcStrings n (cQ.texts n.items).head? f.bound')
      = (fs.map PField.bound').flatMap (srcStrings n (cQ.texts n.items).head?) := by
    rw [List.flatMap_map]
  rw [e1, VNode.values_eq]
  unfold srcStrings
  refine (flatMap_append_perm _ _ _).trans ?_
  refine ((flatMap_append_perm _ _ _).append_right _).trans ?_
  refine (List.Perm.append ?_ ?_).append ?_
  · -- attribute values
    have := partition_flatMap_perm (fun x : Name × Str => cQ.attrKey x.1) (fun x => [x.2]) _ hnd n.attrs hA
    have e2 : ∀ l : List (Name × Str), l.flatMap (fun x => [x.2]) = l.map (·.2) := by
      intro l; induction l with
      | nil => rfl
      | cons a l ih => simp [List.flatMap_cons, ih]
    simpa only [e2] using this
  · -- character data
    have hlen := h.tx1
    cases htx : cQ.texts n.items with
    | nil =>
      simp only [List.head?_nil, Option.toList, ite_self]
      have : ((fs.map PField.bound').flatMap fun _ => ([] : List Str)) = [] := by
        rw [List.flatMap_eq_nil_iff]; intro _ _; rfl
      rw [this]
    | cons s r =>
      have hr : r = [] := by
        rw [htx] at hlen
        cases r with
        | nil => rfl
        | cons _ _ => simp at hlen
      subst hr
      have hk : cQ.textKey ∈ fs.map PField.bound' := hT (by rw [htx]; simp)
      have := partition_perm (fun _ : Str => cQ.textKey) _ hnd [s] (fun _ _ => hk)
      simp only [List.head?_cons, Option.toList]
      refine (List.Perm.of_eq ?_).trans this
      apply flatMap_congr'
      intro k _
      rw [filter_const]
      by_cases hkk : cQ.textKey = k <;> simp [hkk]
  · -- children
    exact partition_flatMap_perm (fun d : VNode => cQ.elemKey d.name) (VNode.values cQ) _ hnd n.items.elems hE

/-- one element: the struct is assembled, with and without `deny_unknown_fields`, and holds exactly the strings
of the element -/
theorem assemble_ok (hints names') (en : Entry) (n : VNode) (kids : List KidRes) (K : VNode → KidRes)
    (h : NodeCtx en.elem n kids K) (deny : Bool) :
    ∃ v, assemble cQ deny (structOf oQ hints names' en).plain n.attrs (cQ.texts n.items).head? kids = .ok v ∧
      (ne v.strings).Perm (ne (n.values cQ)) := by
  have hnd := bounds_nodup hints names' en h.keysA h.keysC h.keysK
  have hvals : ∀ f ∈ (structOf oQ hints names' en).plain.fields,
      ∃ v, fieldVal cQ f n.attrs (cQ.texts n.items).head? kids = .ok v ∧
        (ne v.strings).Perm (ne (srcStrings n (cQ.texts n.items).head? f.bound')) := by
    intro f hf
    rcases fields_cases hints names' en f hf with ⟨a, ha, rfl⟩ | ⟨_, rfl⟩ | ⟨c, hc, rfl⟩
    · exact h.fieldVal_attr _ a ha _
    · exact h.fieldVal_text _
    · exact h.fieldVal_child hints names' _ _ _ c hc _
  obtain ⟨fv, hfv, hp⟩ := fieldVals_ok cQ n.attrs (cQ.texts n.items).head? kids
    (fun f => srcStrings n (cQ.texts n.items).head? f.bound') _ [] hnd (by simp) hvals
  have hknown : allKnown cQ (structOf oQ hints names' en).plain.fields n.attrs (cQ.texts n.items).head? kids = true := by
    unfold allKnown
    simp only [Bool.and_eq_true, List.all_eq_true, Bool.or_eq_true]
    refine ⟨⟨?_, ?_⟩, ?_⟩
    · intro x hx
      exact findField_isSome (mem_map_bound (attr_key_known hints names' en h x hx))
    · cases htx : (cQ.texts n.items).head? with
      | none => left; rfl
      | some s =>
        right
        have hne : cQ.texts n.items ≠ [] := by
          intro e'; rw [e'] at htx; cases htx
        exact findField_isSome (mem_map_bound (text_key_known hints names' en h hne))
    · intro k hk
      rw [h.hkids, List.mem_map] at hk
      obtain ⟨c, hc, rfl⟩ := hk
      rw [h.kkey]
      exact findField_isSome (mem_map_bound (elem_key_known hints names' en h c hc))
  refine ⟨.struct (structOf oQ hints names' en).plain.name fv, ?_, ?_⟩
  · unfold assemble
    simp [hknown, hfv, Except.map]
  · rw [Val.strings_struct]
    exact hp.trans (ne_perm (srcStrings_partition hints names' en n kids K h))

/-! ### the recursion over the document -/

theorem inModel_child (cfg : DeCfg) : ∀ (items : VItems) (c : VNode), c ∈ items.elems → items.inModel cfg = true → c.inModel cfg = true
  | .nil, c, h, _ => by simp [VItems.elems] at h
  | .elem n r, c, h, hm => by
    simp only [VItems.inModel, Bool.and_eq_true] at hm
    simp only [VItems.elems, List.mem_cons] at h
    rcases h with rfl | h
    · exact hm.1
    · exact inModel_child cfg r c h hm.2
  | .text _ _ r, c, h, hm => inModel_child cfg r c (by simpa [VItems.elems] using h) (by simpa [VItems.inModel] using hm)
  | .other _ r, c, h, hm => inModel_child cfg r c (by simpa [VItems.elems] using h) (by simpa [VItems.inModel] using hm)

theorem erase_ok_child : ∀ (items : VItems) (c : VNode), c ∈ items.elems → items.erase.ok = true → c.erase.ok = true
  | .nil, c, h, _ => by simp [VItems.elems] at h
  | .elem n r, c, h, hm => by
    simp only [VItems.erase, Items.ok, Bool.and_eq_true] at hm
    simp only [VItems.elems, List.mem_cons] at h
    rcases h with rfl | h
    · exact hm.1
    · exact erase_ok_child r c h hm.2
  | .text _ _ r, c, h, hm => by
    apply erase_ok_child r c (by simpa [VItems.elems] using h)
    simp only [VItems.erase] at hm
    split at hm
    · exact hm
    · simpa [Items.ok] using hm
  | .other _ r, c, h, hm => erase_ok_child r c (by simpa [VItems.elems] using h) (by simpa [VItems.erase, Items.ok] using hm)

theorem stringTy_reserved : stringTy ∈ reservedStructNames := by decide

/-- **The quick-xml deserializer model returns a value for every admitted document element**, for the struct
rendered for the tree element, with and without `deny_unknown_fields`. -/
theorem deNode_ok (t : Elem) (htInv : t.Inv = true) (deny : Bool) (n : VNode) (en : Entry)
    (hen : en ∈ walk oQ.sort [] [] t) (hkeys : en.elem.keysOK = true) (hinv : en.elem.Inv = true)
    (hadm : Admits en.elem n.erase) (hok : n.erase.ok = true) (hmodel : n.inModel cQ = true) :
    ∃ v, deNode cQ ((renderAST oQ t).map StructDef.plain) deny
      (structNameOf (hintOf (fillNames [] t)) (structNames (hintOf (fillNames [] t)) t) en.path en.trace en.elem) n = .ok v ∧
      (ne v.strings).Perm (ne (n.values cQ)) := by
  let H0 := hintOf (fillNames [] t)
  let names' := structNames H0 t
  let prog := (renderAST oQ t).map StructDef.plain
  obtain ⟨hkA, hkC, hkK, hkRec⟩ := (keysOK_iff en.elem).mp hkeys
  have hndC := Inv_nodup hinv
  -- the struct of this entry is the one found under its name
  have hprogNd : (prog.map (·.name)).Nodup := by
    have := C04_structs_unique oQ t htInv
    simpa [prog, List.map_map, Function.comp_def, StructDef.plain] using this
  have hmem : (structOf oQ H0 names' en).plain ∈ prog := by
    simp only [prog, renderAST, renderWith, List.mem_map]
    exact ⟨structOf oQ H0 names' en, ⟨en, hen, rfl⟩, rfl⟩
  have hfind : findStruct prog (structNameOf H0 names' en.path en.trace en.elem) = some (structOf oQ H0 names' en).plain := by
    have := find?_of_nodup_map (fun d : PStruct => d.name) prog hprogNd _ hmem
    exact this
  cases n with
  | mk nm attrs sc items =>
    have hokI : items.erase.ok = true := by
      simp only [VNode.erase, Node.ok, Bool.and_eq_true] at hok
      exact hok.2
    have hndA : (attrs.map (·.1)).Nodup := by
      simp only [VNode.erase, Node.ok, Bool.and_eq_true, decide_eq_true_eq] at hok
      exact hok.1.1
    have hmI : items.inModel cQ = true := by
      simp only [VNode.inModel, Bool.and_eq_true] at hmodel
      exact hmodel.2
    have htx : (cQ.texts items).length ≤ 1 := by
      simp only [VNode.inModel, Bool.and_eq_true, decide_eq_true_eq] at hmodel
      exact hmodel.1.1.2
    -- every child element gets a value
    have hkval : ∀ c ∈ items.elems, ∃ v, (kidRes cQ prog deny (structOf oQ H0 names' en).plain.fields c).val = .ok v ∧
        (ne v.strings).Perm (ne (c.values cQ)) := by
      intro c hc
      have hlt : sizeOf c < sizeOf (VNode.mk nm attrs sc items) := by
        have := sizeOf_elems_lt items c hc
        simp; omega
      -- the tree child with that name
      have hnamed : c.erase ∈ (VNode.mk nm attrs sc items).erase.named c.name := by
        rw [VNode.erase_named]
        exact List.mem_map_of_mem (by simp [VNode.items, hc])
      obtain ⟨ce, hg⟩ : ∃ ce, getChild en.elem.children c.name = some ce := by
        cases hadm with
        | intro _ _ _ _ _ hkf _ _ _ =>
          have := hkf c.name (by intro e'; rw [e'] at hnamed; cases hnamed)
          exact Option.ne_none_iff_exists'.mp this
      have hcem : ce ∈ en.elem.children := getChild_some_mem hg
      have hcen : ce.2.name = c.name := getChild_some_name hg
      have hadmc : Admits ce.2 c.erase := by
        cases hadm with
        | intro _ _ _ _ _ _ _ _ hsub => exact hsub c.name ce.1 ce.2 hg c.erase hnamed
      -- the field found for the child's key is the child's field
      have hF := mem_fields_child H0 names' en ce hcem
      have hfindF : findField (structOf oQ H0 names' en).plain.fields (cQ.elemKey c.name)
          = some (childField H0 names' (identMap en.elem) en.path en.trace ce).plain := by
        have hb := bound_childField H0 names' (identMap en.elem) en.path en.trace ce
        have := find?_of_nodup_map PField.bound' _ (bounds_nodup H0 names' en hkA hkC hkK) _ hF
        rw [hb, hcen] at this
        exact this
      unfold kidRes
      rw [hfindF]
      simp only
      by_cases hto : ce.2.textOnly = true
      · -- a `String` field: the document child has no child elements
        have hbase : (childField H0 names' (identMap en.elem) en.path en.trace ce).plain.base = stringTy := by
          simp [childField, Field.plain, hto]
        rw [if_pos hbase]
        have hnokids : ce.2.children = [] := by
          simp only [Elem.textOnly, Bool.and_eq_true, List.isEmpty_iff] at hto
          exact hto.2
        have hel : c.items.elems = [] := by
          cases hel : c.items.elems with
          | nil => rfl
          | cons d ds =>
            exfalso
            cases hadmc with
            | intro _ _ _ _ _ hkf _ _ _ =>
              have : c.erase.named d.name ≠ [] := by
                rw [VNode.erase_named, hel]
                simp
              have := hkf d.name this
              rw [hnokids] at this
              exact this rfl
        -- … and no attributes, so its values are its character data
        have hnoattrs : c.attrs = [] := by
          cases hca : c.attrs with
          | nil => rfl
          | cons x xs =>
            exfalso
            have hea : ce.2.attrs = [] := by
              simp only [Elem.textOnly, Bool.and_eq_true, List.isEmpty_iff] at hto
              exact hto.1.2
            cases hadmc with
            | intro _ _ haf _ _ _ _ _ _ =>
              have := haf x.1 (by rw [VNode.erase_attrs, hca]; simp)
              rw [hea] at this
              simp [names] at this
        have hcm := inModel_child cQ items c hc hmI
        cases c with
        | mk cn cas csc citems =>
          simp only [VNode.items] at hel
          simp only [VNode.attrs] at hnoattrs
          have htx1 : (cQ.texts citems).length ≤ 1 := by
            simp only [VNode.inModel, Bool.and_eq_true, decide_eq_true_eq] at hcm
            exact hcm.1.1.2
          refine ⟨Val.str ((cQ.texts citems).head?.getD []), ?_, ?_⟩
          · simp [deStringElem, hel]
          · rw [VNode.values_eq]
            simp only [VNode.attrs, VNode.items, hnoattrs, hel, List.map_nil, List.flatMap_nil, List.nil_append, List.append_nil,
              Val.strings_str]
            rcases len_le_one_cases _ htx1 with h0 | ⟨x, h1⟩
            · rw [h0]; simp [ne]
            · rw [h1]; simp
      · -- a struct field: recursion with the child's entry
        have hto' : ce.2.textOnly = false := by simpa using hto
        have hsub : (⟨en.path ++ [ce.2.name], en.trace ++ [pascal ce.2.name], ce.2⟩ : Entry) ∈ walk oQ.sort [] [] t :=
          child_entry_mem oQ.sort en ce hcem hto' t [] [] hen
        have hbase : (childField H0 names' (identMap en.elem) en.path en.trace ce).plain.base
            = structNameOf H0 names' (en.path ++ [ce.2.name]) (en.trace ++ [pascal ce.2.name]) ce.2 := by
          simp [childField, Field.plain, hto']
        have hnot : structNameOf H0 names' (en.path ++ [ce.2.name]) (en.trace ++ [pascal ce.2.name]) ce.2 ≠ stringTy := by
          intro e'
          have := (struct_names_spec H0 oQ t htInv).2 (structOf oQ H0 names' ⟨en.path ++ [ce.2.name], en.trace ++ [pascal ce.2.name], ce.2⟩)
            (by simp only [renderWith, List.mem_map]; exact ⟨_, hsub, rfl⟩)
          apply this
          have hn : (structOf oQ H0 names' ⟨en.path ++ [ce.2.name], en.trace ++ [pascal ce.2.name], ce.2⟩).name = stringTy := e'
          rw [hn]
          exact stringTy_reserved
        rw [hbase, if_neg hnot]
        exact deNode_ok t htInv deny c ⟨en.path ++ [ce.2.name], en.trace ++ [pascal ce.2.name], ce.2⟩ hsub
          (hkRec ce hcem) (Inv_children hinv hcem) hadmc (erase_ok_child items c hc hokI) (inModel_child cQ items c hc hmI)
    have ctx : NodeCtx en.elem (VNode.mk nm attrs sc items)
        (items.elems.map (kidRes cQ prog deny (structOf oQ H0 names' en).plain.fields))
        (kidRes cQ prog deny (structOf oQ H0 names' en).plain.fields) :=
      { adm := hadm, keysA := hkA, keysC := hkC, keysK := hkK, ndC := hndC, ndA := hndA, tx1 := htx, hkids := rfl,
        kkey := fun c => kidRes_key _ _ _ _ c, kqname := fun c => kidRes_qname _ _ _ _ c, kval := hkval }
    obtain ⟨v, hv, hp⟩ := assemble_ok H0 names' en _ _ _ ctx deny
    refine ⟨v, ?_, hp⟩
    unfold deNode
    rw [hfind]
    simp only
    rw [deItems_eq_map]
    exact hv
termination_by sizeOf n
decreasing_by
  rename_i hn
  rw [hn]
  exact hlt

end Xsg
