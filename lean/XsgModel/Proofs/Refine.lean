import XsgModel.Model.Absorb
import XsgModel.Proofs.Faults
/-! the stack machine on the events of a document = the tree-level semantics (`refine`) -/
namespace Xsg

theorem runEvents_append (s : St) (a b : List Ev) : runEvents s (a ++ b) = runEvents (runEvents s a) b := by
  simp [runEvents, List.foldl_append]

theorem attrKeys_ok (as : List Name) : attrKeys (as.map fun a => AttrItem.key (.ok a)) = .ok as := by
  induction as with
  | nil => rfl
  | cons a as ih => simp [attrKeys, ih]

mutual
theorem run_node (n : Node) (f : Frame) (st : List Frame) :
    runEvents (.run (f :: st)) n.events = .run (absorbNode f n :: st) := by
  cases n with
  | mk k as sc items =>
    by_cases hsc : sc = true
    · subst hsc
      simp [Node.events, absorbNode, runEvents, step, attrKeys_ok]
    · have hsc' : sc = false := by cases sc <;> simp_all
      subst hsc'
      simp only [Node.events, Bool.false_eq_true, if_false, absorbNode]
      rw [runEvents_append, runEvents_append]
      have h1 : runEvents (.run (f :: st)) [Ev.start (.ok k) (as.map fun a => AttrItem.key (.ok a))]
          = .run ({ elem := (openTag f k as).2, known := [], snap := (getChild f.elem.children k).map (fun c => snapshot c.2) } :: (openTag f k as).1 :: st) := by
        simp [runEvents, step, attrKeys_ok]
      rw [h1, run_items items]
      simp [runEvents, step]
theorem run_items (is : Items) (f : Frame) (st : List Frame) :
    runEvents (.run (f :: st)) is.events = .run (absorbItems f is :: st) := by
  cases is with
  | nil => rfl
  | elem n r =>
    simp only [Items.events, absorbItems]
    rw [runEvents_append, run_node n, run_items r]
  | text cd r =>
    cases cd <;>
    · simp only [Items.events, absorbItems]
      rw [runEvents_cons]
      simp only [step]
      exact run_items r _ _
  | other r =>
    simp only [Items.events, absorbItems]
    rw [runEvents_cons]
    simp only [step]
    exact run_items r _ _
end

end Xsg
