import XsgModel.Model.Checks
/-!
# The executable predicate `admits` means what C01 says

`admits` (Model/Checks.lean) is the Boolean function the check evaluates on the schema read back from the
implementation's rendered text.  `SAdmits` states the same clauses with quantifiers; `admits_iff` proves
that the function decides exactly that relation, for every schema and every document element.
-/
namespace Xsg

/-- the child elements of a content list, in document order -/
def Items.elems : Items → List Node
  | .nil => []
  | .elem n r => n :: elems r
  | .text _ r => elems r
  | .other r => elems r

/-- the field a child element is bound to: the first one whose bound name is the child's local name -/
def Schema.fieldFor (s : Schema) (n : Node) : Option (Name × Nec × Bool × Schema) :=
  s.kids.find? (fun k => k.1 = removeNamespace n.name)

/-- number of child elements bound to the name `k` -/
def Node.boundCount (o : Node) (k : Name) : Nat :=
  (o.items.elems.filter (fun n => removeNamespace n.name = k)).length

inductive SAdmits : Schema → Node → Prop
  | intro (s : Schema) (o : Node)
      (hattr_field : ∀ a ∈ o.attrs, ∃ f ∈ s.attrs, f.2 = attrLocal a)
      (hattr_req : ∀ f ∈ s.attrs, f.1 = Nec.opt ∨ ∃ a ∈ o.attrs, attrLocal a = f.2)
      (htext : o.hasText = true → s.text = true)
      (hkid_field : ∀ n ∈ o.items.elems, s.fieldFor n ≠ none)
      (hsub : ∀ n ∈ o.items.elems, ∀ k, s.fieldFor n = some k → SAdmits k.2.2.2 n)
      (hreq : ∀ k ∈ s.kids, k.2.1 = Nec.opt ∨ 1 ≤ o.boundCount k.1)
      (hsingle : ∀ k ∈ s.kids, k.2.2.1 = true ∨ o.boundCount k.1 ≤ 1)
      : SAdmits s o

theorem countBound_eq (k : Name) : ∀ is : Items,
    admits.countBound k is = (is.elems.filter (fun n => removeNamespace n.name = k)).length
  | .nil => by simp [admits.countBound, Items.elems]
  | .elem n r => by
    have ih := countBound_eq k r
    by_cases h : removeNamespace n.name = k <;> simp [admits.countBound, Items.elems, h, ih] <;> omega
  | .text _ r => by simpa [admits.countBound, Items.elems] using countBound_eq k r
  | .other r => by simpa [admits.countBound, Items.elems] using countBound_eq k r

mutual
theorem admits_iff : ∀ (s : Schema) (o : Node), admits s o = true ↔ SAdmits s o
  | .mk text attrs kids, .mk nm as sc items => by
    have hI := admitsItems_iff kids items
    constructor
    · intro h
      simp only [admits, Bool.and_eq_true] at h
      obtain ⟨⟨⟨⟨h1, h2⟩, h3⟩, h4⟩, h5⟩ := h
      have h4' := hI.mp h4
      refine SAdmits.intro _ _ ?_ ?_ ?_ ?_ ?_ ?_ ?_
      · intro a ha
        simp only [List.all_eq_true, List.any_eq_true, decide_eq_true_eq] at h1
        exact h1 a ha
      · intro f hf
        simp only [List.all_eq_true, List.any_eq_true, Bool.or_eq_true, decide_eq_true_eq] at h2
        exact h2 f hf
      · intro ht
        simp only [Node.hasText, Node.items] at ht
        simp only [Bool.or_eq_true, Bool.not_eq_true'] at h3
        rcases h3 with h3 | h3
        · rw [h3] at ht; cases ht
        · exact h3
      · intro n hn hnone
        obtain ⟨k, hk, _⟩ := h4' n hn
        simp only [Schema.fieldFor, Schema.kids] at hnone
        rw [hk] at hnone; cases hnone
      · intro n hn k hk
        obtain ⟨k', hk', hs⟩ := h4' n hn
        simp only [Schema.fieldFor, Schema.kids] at hk
        rw [hk'] at hk; cases hk; exact hs
      · intro k hk
        simp only [List.all_eq_true] at h5
        have := h5 k hk
        simp only [Bool.and_eq_true, Bool.or_eq_true, decide_eq_true_eq, countBound_eq] at this
        exact this.1
      · intro k hk
        simp only [List.all_eq_true] at h5
        have := h5 k hk
        simp only [Bool.and_eq_true, Bool.or_eq_true, decide_eq_true_eq, countBound_eq] at this
        exact this.2
    · intro h
      cases h with
      | intro _ _ h1 h2 h3 h4 h5 h6 h7 =>
        simp only [admits, Bool.and_eq_true]
        refine ⟨⟨⟨⟨?_, ?_⟩, ?_⟩, ?_⟩, ?_⟩
        · simp only [List.all_eq_true, List.any_eq_true, decide_eq_true_eq]
          exact h1
        · simp only [List.all_eq_true, List.any_eq_true, Bool.or_eq_true, decide_eq_true_eq]
          exact h2
        · simp only [Bool.or_eq_true, Bool.not_eq_true']
          cases hT : items.hasText
          · exact Or.inl rfl
          · exact Or.inr (h3 hT)
        · apply hI.mpr
          intro n hn
          cases hf : Schema.fieldFor (.mk text attrs kids) n with
          | none => exact absurd hf (h4 n hn)
          | some k => exact ⟨k, hf, h5 n hn k hf⟩
        · simp only [List.all_eq_true]
          intro k hk
          simp only [Bool.and_eq_true, Bool.or_eq_true, decide_eq_true_eq, countBound_eq]
          exact ⟨h6 k hk, h7 k hk⟩
theorem admitsItems_iff : ∀ (kids : List (Name × Nec × Bool × Schema)) (is : Items),
    admits.admitsItems kids is = true ↔
      ∀ n ∈ is.elems, ∃ k, kids.find? (fun k => k.1 = removeNamespace n.name) = some k ∧ SAdmits k.2.2.2 n
  | kids, .nil => by simp [admits.admitsItems, Items.elems]
  | kids, .elem n r => by
    have ih := admitsItems_iff kids r
    simp only [admits.admitsItems, Bool.and_eq_true, Items.elems, List.mem_cons, forall_eq_or_imp, ih]
    apply and_congr_left'
    cases hf : kids.find? (fun k => k.1 = removeNamespace n.name) with
    | none => simp
    | some k =>
      obtain ⟨a, b, c, sub⟩ := k
      have := admits_iff sub n
      simp [this]
  | kids, .text _ r => by simpa [admits.admitsItems, Items.elems] using admitsItems_iff kids r
  | kids, .other r => by simpa [admits.admitsItems, Items.elems] using admitsItems_iff kids r
end

end Xsg
