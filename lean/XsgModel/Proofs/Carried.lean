import XsgModel.Model.Parser
import XsgModel.Proofs.FirstFree
/-!
# What an error carries determines the error

`PErr.carried` is the text the correspondence check compares for the property clause of C08
("the error carries the reader's error and byte position"). It is injective: two errors with the same
`carried` text are the same error value, so comparing the texts is comparing variant, position and inner error.
-/
namespace Xsg

theorem split_at_sep {α} [DecidableEq α] (sep : α) :
    ∀ (a a' b b' : List α), sep ∉ a → sep ∉ a' → a ++ sep :: b = a' ++ sep :: b' → a = a' ∧ b = b' := by
  intro a
  induction a with
  | nil =>
    intro a' b b' _ h' h
    cases a' with
    | nil => simp at h; exact ⟨rfl, h⟩
    | cons x xs =>
      simp only [List.nil_append, List.cons_append, List.cons.injEq] at h
      exact absurd (by simp [h.1]) h'
  | cons x xs ih =>
    intro a' b b' h1 h' h
    cases a' with
    | nil =>
      simp only [List.nil_append, List.cons_append, List.cons.injEq] at h
      exact absurd (by simp [h.1]) h1
    | cons y ys =>
      simp only [List.cons_append, List.cons.injEq] at h
      obtain ⟨hxy, ht⟩ := h
      have := ih ys b b' (fun hm => h1 (by simp [hm])) (fun hm => h' (by simp [hm])) ht
      exact ⟨by rw [hxy, this.1], this.2⟩

theorem bar_not_in_dec (n : Nat) : '|' ∉ dec n := by
  intro h
  have := List.all_eq_true.mp (dec_all_digits n) '|' h
  simp [isDigit] at this

theorem PErr.carried_injective (e e' : PErr) (h : e.carried = e'.carried) : e = e' := by
  cases e <;> cases e' <;> simp only [PErr.carried] at h <;> try (exact absurd h (by decide))
  all_goals first
    | rfl
    | (simp only [List.append_assoc, List.cons_append, List.nil_append, List.cons.injEq, true_and] at h
       first
         | (have := split_at_sep '|' _ _ _ _ (bar_not_in_dec _) (bar_not_in_dec _) h
            rw [dec_injective this.1, this.2])
         | (rw [h])
         | (exact absurd h (by simp)))

end Xsg
