import XsgModel.Proofs.IdentLegal
/-! `to_pascal_case`: alphanumeric output that starts with a letter which is not ASCII lower case -/
namespace Xsg

def pascalRun (s : PascalState) (l : Name) : PascalState := l.foldl pascalStep s

theorem pascal_eq (n : Name) : pascal n = (pascalRun ⟨[], true, false⟩ n).out := rfl

theorem toUpper_ne_nil (c : Char) : toUpper c ≠ [] := by
  unfold toUpper
  intro h
  simp only [] at h
  split at h
  · cases h
  · split at h
    · cases h
    · split at h
      · cases h
      · split at h
        · cases h
        · split at h <;> cases h

theorem pascalStep_out (s : PascalState) (c : Char) :
    ∃ t, (pascalStep s c).out = s.out ++ t ∧ t.all isAlnum = true := by
  unfold pascalStep
  by_cases ha : isAlnum c = true
  · simp only [ha, if_true]
    split
    · refine ⟨toUpper c, rfl, ?_⟩
      rw [List.all_eq_true]; intro d hd; exact (toUpper_spec ha d hd).1
    · refine ⟨toLower c, rfl, ?_⟩
      rw [List.all_eq_true]; intro d hd; exact (toLower_spec ha d hd).1
  · simp only [ha, Bool.false_eq_true, if_false]
    exact ⟨[], by simp, rfl⟩

theorem pascalRun_out (l : Name) (s : PascalState) :
    ∃ t, (pascalRun s l).out = s.out ++ t ∧ t.all isAlnum = true := by
  induction l generalizing s with
  | nil => exact ⟨[], by simp [pascalRun], rfl⟩
  | cons c cs ih =>
    obtain ⟨t1, h1, h2⟩ := pascalStep_out s c
    obtain ⟨t2, g1, g2⟩ := ih (pascalStep s c)
    refine ⟨t1 ++ t2, ?_, by simp [h2, g2]⟩
    show (pascalRun (pascalStep s c) cs).out = _
    rw [g1, h1, List.append_assoc]

theorem pascal_all_alnum (n : Name) : (pascal n).all isAlnum = true := by
  obtain ⟨t, h1, h2⟩ := pascalRun_out n ⟨[], true, false⟩
  rw [pascal_eq, h1]; simpa using h2

/-- a capitalised start: a letter that is not ASCII lower case -/
def CapStart : Name → Prop
  | [] => False
  | d :: _ => isLetter d = true ∧ asciiLower d = false

theorem CapStart_append {v : Name} (h : CapStart v) (w : Name) : CapStart (v ++ w) := by
  cases v with
  | nil => exact absurd h (by simp [CapStart])
  | cons c cs => exact h

theorem pascalRun_capStart (l : Name) (s : PascalState) (hs : s.out = [] ∧ s.capNext = true) (hl : LetterFirst l) :
    CapStart (pascalRun s l).out := by
  induction l generalizing s with
  | nil => obtain ⟨c, hf, _⟩ := hl; simp at hf
  | cons c0 rest ih =>
    obtain ⟨c, hf, hlet⟩ := hl
    show CapStart (pascalRun (pascalStep s c0) rest).out
    by_cases ha : isAlnum c0 = true
    · have hc : c = c0 := by simp [ha] at hf; exact hf.symm
      subst hc
      obtain ⟨t, ht, _⟩ := pascalRun_out rest (pascalStep s c)
      rw [ht]
      apply CapStart_append
      have hout : (pascalStep s c).out = toUpper c := by
        unfold pascalStep; simp [ha, hs.1, hs.2]
      rw [hout]
      have hne := toUpper_ne_nil c
      cases hu : toUpper c with
      | nil => exact absurd hu hne
      | cons d ds =>
        have hd := toUpper_spec ha d (by rw [hu]; simp)
        have hdig : isDigit c = false := by
          have := (isLetter_iff c).mp hlet; exact this.2
        exact ⟨(isLetter_iff d).mpr ⟨hd.1, (hd.2 hdig).1⟩, (hd.2 hdig).2⟩
    · have ha' : isAlnum c0 = false := by cases hx : isAlnum c0 <;> simp_all
      apply ih
      · unfold pascalStep; simp [ha', hs.1]
      · simp only [List.find?_cons, ha'] at hf
        exact ⟨c, hf, hlet⟩

theorem pascal_capStart {n : Name} (h : LetterFirst n) : CapStart (pascal n) :=
  pascalRun_capStart n _ ⟨rfl, rfl⟩ h

def keywordHeadOK (k : Name) : Bool := k == cl!"Self" || (match k with | c :: _ => asciiLower c | [] => false)

theorem keyword_heads_bool : ∀ k ∈ keywords, keywordHeadOK k = true := by decide

theorem keyword_heads : ∀ k ∈ keywords, k = cl!"Self" ∨ ∃ c cs, k = c :: cs ∧ asciiLower c = true := by
  intro k hk
  have := keyword_heads_bool k hk
  simp only [keywordHeadOK, Bool.or_eq_true, beq_iff_eq] at this
  rcases this with h | h
  · exact Or.inl h
  · cases k with
    | nil => simp at h
    | cons c cs => exact Or.inr ⟨c, cs, rfl, h⟩

/-- a name that starts like a PascalCase name, is alphanumeric throughout and is not `Self` is a legal identifier -/
theorem legal_of_capStart {n : Name} (h1 : CapStart n) (h2 : n.all isAlnum = true) (h3 : n ≠ cl!"Self") : legalIdent n = true := by
  rw [legalIdent_iff]
  cases n with
  | nil => exact absurd h1 (by simp [CapStart])
  | cons d ds =>
    refine ⟨Or.inl h1.1, ?_, ?_⟩
    · simp only [List.tail_cons]
      simp only [List.all_cons, Bool.and_eq_true] at h2
      rw [List.all_eq_true] at h2 ⊢
      intro c hc; exact xidContinue_of_alnum (h2.2 c hc)
    · cases hk : isKeyword (d :: ds) with
      | false => rfl
      | true =>
        have hmem : (d :: ds) ∈ keywords := by simpa [isKeyword] using hk
        rcases keyword_heads _ hmem with h | ⟨c, cs, he, hc⟩
        · exact absurd h h3
        · have : d = c := (List.cons.inj he).1
          rw [this] at h1
          rw [h1.2] at hc; cases hc

end Xsg
