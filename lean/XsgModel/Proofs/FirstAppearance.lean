import XsgModel.Proofs.History
import XsgModel.Proofs.Sort
/-! children sorted by `position` are the children in order of first appearance -/
namespace Xsg

theorem perm_sorted_unique {α : Type} (key : α → Nat) : ∀ (l l' : List α), l.Perm l' →
    l.Pairwise (fun a b => key a < key b) → l'.Pairwise (fun a b => key a < key b) → l = l' := by
  intro l
  induction l with
  | nil => intro l' hp _ _; exact (List.Perm.nil_eq hp)
  | cons a as ih =>
    intro l' hp h1 h2
    cases l' with
    | nil => exact absurd hp.symm (List.Perm.nil_eq · |> fun h => by cases h)
    | cons b bs =>
      rw [List.pairwise_cons] at h1 h2
      have hab : a = b := by
        have ha : a ∈ b :: bs := hp.mem_iff.mp (by simp)
        have hb : b ∈ a :: as := hp.mem_iff.mpr (by simp)
        simp only [List.mem_cons] at ha hb
        rcases ha with ha | ha
        · exact ha
        · rcases hb with hb | hb
          · exact hb.symm
          · have := h2.1 a ha
            have := h1.1 b hb
            omega
      subst hab
      rw [ih bs ((List.perm_cons a).mp hp) h1.2 h2.2]

/-- the position of the child with the given name (0 if there is none) -/
def posOfName (cs : List (Nec × Elem)) (k : Name) : Nat :=
  match getChild cs k with
  | some (_, c) => c.position.getD 0
  | none => 0

theorem posOfName_ord {cs : List (Nec × Elem)} {ord : List Name} (h : PosInv cs ord) (i : Nat) (k : Name) (hik : ord[i]? = some k) :
    posOfName cs k = i := by
  obtain ⟨nec, c, hc, hp⟩ := h.pos i k hik
  simp [posOfName, hc, hp]

theorem ord_sorted {cs : List (Nec × Elem)} {ord : List Name} (h : PosInv cs ord) :
    ord.Pairwise (fun a b => posOfName cs a < posOfName cs b) := by
  rw [List.pairwise_iff_getElem]
  intro i j hi hj hij
  rw [posOfName_ord h i _ (by simp [hi]), posOfName_ord h j _ (by simp [hj])]
  exact hij

/-- with the order invariant, the unsorted child order of the renderer is the order `ord` -/
theorem sorted_children_names (e : Elem) (ord : List Name) (hnd : (childNames e.children).Nodup) (h : PosInv e.children ord)
    (o : Options) (ho : o.sort = .unsorted) : (sortedChildren o e).map (·.2.name) = ord := by
  have hperm := perm_sortOn (fun c : Nec × Elem => sortKeyOf o.sort c.2) e.children
  have hsorted := sorted_sortOn (fun c : Nec × Elem => sortKeyOf o.sort c.2) e.children
  -- every stored child has a name of `ord`, hence a position `some i`
  have hpos : ∀ c ∈ e.children, ∃ i, ord[i]? = some c.2.name ∧ c.2.position = some i := by
    intro c hc
    have hg := getChild_of_mem_nodup hnd hc
    have hm : c.2.name ∈ ord := (h.mem _).mpr (by rw [hg]; simp)
    obtain ⟨i, hi⟩ := List.getElem?_of_mem hm
    obtain ⟨nec, c', hc', hp⟩ := h.pos i _ hi
    rw [hg] at hc'
    have : c.2 = c' := (Prod.mk.inj (Option.some.inj hc')).2
    exact ⟨i, hi, by rw [this]; exact hp⟩
  have hnm : ((sortedChildren o e).map (fun c : Nec × Elem => c.2.name)).Nodup :=
    ((hperm.map (fun c : Nec × Elem => c.2.name)).nodup_iff).mpr hnd
  have hkey : ∀ c ∈ e.children, posOfName e.children c.2.name = c.2.position.getD 0 := by
    intro c hc
    simp [posOfName, getChild_of_mem_nodup hnd hc]
  apply perm_sorted_unique (posOfName e.children)
  · -- same names, both duplicate-free
    rw [List.perm_ext_iff_of_nodup]
    · intro k
      rw [h.mem k]
      constructor
      · intro hk
        simp only [List.mem_map] at hk
        obtain ⟨c, hc, rfl⟩ := hk
        rw [getChild_of_mem_nodup hnd (hperm.mem_iff.mp hc)]; simp
      · intro hk
        obtain ⟨c, hc⟩ := Option.ne_none_iff_exists'.mp hk
        have := getChild_some_mem hc
        simp only [List.mem_map]
        exact ⟨c, hperm.mem_iff.mpr this, getChild_some_name hc⟩
    · exact hnm
    · exact h.nodup
  · -- the sort result is strictly increasing in the position
    rw [List.pairwise_map]
    have hnd' := hnm
    unfold List.Nodup at hnd'
    rw [List.pairwise_map] at hnd'
    have both := hsorted.and hnd'
    refine both.imp_of_mem ?_
    intro a b ha hb hab
    obtain ⟨hle, hne⟩ := hab
    have ha' := hperm.mem_iff.mp ha
    have hb' := hperm.mem_iff.mp hb
    obtain ⟨i, hi, hpi⟩ := hpos a ha'
    obtain ⟨j, hj, hpj⟩ := hpos b hb'
    rw [hkey a ha', hkey b hb', hpi, hpj]
    simp only [Option.getD_some]
    simp only [ho, sortKeyOf, hpi, hpj, SortKey.le, decide_eq_true_eq] at hle
    have hij : i ≠ j := by
      intro e'; subst e'
      rw [hi] at hj
      exact hne (Option.some.inj hj)
    omega
  · exact ord_sorted h

end Xsg
