import XsgModel.Model.Render
/-! the stable insertion sort used by the renderer model -/
namespace Xsg

variable {α : Type}

theorem perm_insertSorted (le : α → α → Bool) (a : α) (l : List α) : (insertSorted le a l).Perm (a :: l) := by
  induction l with
  | nil => exact List.Perm.refl _
  | cons b bs ih =>
    unfold insertSorted
    split
    · exact List.Perm.refl _
    · exact (List.Perm.cons b ih).trans (List.Perm.swap a b bs)

theorem perm_insertionSort (le : α → α → Bool) (l : List α) : (insertionSort le l).Perm l := by
  induction l with
  | nil => exact List.Perm.refl _
  | cons a as ih =>
    show (insertSorted le a (insertionSort le as)).Perm (a :: as)
    exact (perm_insertSorted le a _).trans (List.Perm.cons a ih)

theorem mem_insertionSort {le : α → α → Bool} {l : List α} {x : α} : x ∈ insertionSort le l ↔ x ∈ l :=
  (perm_insertionSort le l).mem_iff

theorem length_insertionSort (le : α → α → Bool) (l : List α) : (insertionSort le l).length = l.length :=
  (perm_insertionSort le l).length_eq

theorem sorted_insertSorted (le : α → α → Bool) (htot : ∀ a b, le a b = true ∨ le b a = true)
    (htr : ∀ a b c, le a b = true → le b c = true → le a c = true)
    (a : α) (l : List α) (h : l.Pairwise (fun x y => le x y = true)) :
    (insertSorted le a l).Pairwise (fun x y => le x y = true) := by
  induction l with
  | nil => simp [insertSorted]
  | cons b bs ih =>
    rw [List.pairwise_cons] at h
    unfold insertSorted
    split
    · rename_i hab
      rw [List.pairwise_cons]
      refine ⟨?_, List.pairwise_cons.mpr h⟩
      intro x hx
      simp only [List.mem_cons] at hx
      rcases hx with rfl | hx
      · exact hab
      · exact htr _ _ _ hab (h.1 x hx)
    · rename_i hab
      have hba : le b a = true := by
        rcases htot a b with h' | h'
        · exact absurd h' hab
        · exact h'
      rw [List.pairwise_cons]
      refine ⟨?_, ih h.2⟩
      intro x hx
      have := (perm_insertSorted le a bs).mem_iff.mp hx
      simp only [List.mem_cons] at this
      rcases this with rfl | hx'
      · exact hba
      · exact h.1 x hx'

theorem sorted_insertionSort (le : α → α → Bool) (htot : ∀ a b, le a b = true ∨ le b a = true)
    (htr : ∀ a b c, le a b = true → le b c = true → le a c = true) (l : List α) :
    (insertionSort le l).Pairwise (fun x y => le x y = true) := by
  induction l with
  | nil => exact List.Pairwise.nil
  | cons a as ih => exact sorted_insertSorted le htot htr a _ ih

/-! ### the key order -/
theorem nameLe_total (a b : Name) : nameLe a b = true ∨ nameLe b a = true := by
  induction a generalizing b with
  | nil => left; rfl
  | cons x xs ih =>
    cases b with
    | nil => right; rfl
    | cons y ys =>
      simp only [nameLe, Bool.or_eq_true, decide_eq_true_eq, Bool.and_eq_true, beq_iff_eq]
      rcases Nat.lt_trichotomy x.toNat y.toNat with h | h | h
      · exact Or.inl (Or.inl h)
      · rcases ih ys with h' | h'
        · exact Or.inl (Or.inr ⟨h, h'⟩)
        · exact Or.inr (Or.inr ⟨h.symm, h'⟩)
      · exact Or.inr (Or.inl h)

theorem nameLe_trans (a b c : Name) (h1 : nameLe a b = true) (h2 : nameLe b c = true) : nameLe a c = true := by
  induction a generalizing b c with
  | nil => rfl
  | cons x xs ih =>
    cases b with
    | nil => simp [nameLe] at h1
    | cons y ys =>
      cases c with
      | nil => simp [nameLe] at h2
      | cons z zs =>
        simp only [nameLe, Bool.or_eq_true, decide_eq_true_eq, Bool.and_eq_true, beq_iff_eq] at h1 h2 ⊢
        rcases h1 with h1 | ⟨h1, h1'⟩
        · rcases h2 with h2 | ⟨h2, _⟩
          · exact Or.inl (by omega)
          · exact Or.inl (by omega)
        · rcases h2 with h2 | ⟨h2, h2'⟩
          · exact Or.inl (by omega)
          · exact Or.inr ⟨by omega, ih ys zs h1' h2'⟩

theorem SortKey.le_total (a b : SortKey) : a.le b = true ∨ b.le a = true := by
  cases a with
  | pos p =>
    cases b with
    | pos q =>
      cases p <;> cases q <;> simp [SortKey.le]
      omega
    | name n => left; cases p <;> rfl
  | name m =>
    cases b with
    | pos q => right; cases q <;> rfl
    | name n => exact nameLe_total m n

theorem SortKey.le_trans (a b c : SortKey) (h1 : a.le b = true) (h2 : b.le c = true) : a.le c = true := by
  cases a with
  | pos p =>
    cases b with
    | pos q =>
      cases c with
      | pos r => cases p <;> cases q <;> cases r <;> simp [SortKey.le] at * <;> omega
      | name _ => cases p <;> rfl
    | name n =>
      cases c with
      | pos r => simp [SortKey.le] at h2
      | name _ => cases p <;> rfl
  | name m =>
    cases b with
    | pos q => simp [SortKey.le] at h1
    | name n =>
      cases c with
      | pos r => simp [SortKey.le] at h2
      | name k => exact nameLe_trans m n k h1 h2

theorem sorted_sortKeyed (l : List (SortKey × α)) : (sortKeyed l).Pairwise (fun x y => x.1.le y.1 = true) :=
  sorted_insertionSort _ (fun a b => SortKey.le_total a.1 b.1) (fun a b c => SortKey.le_trans a.1 b.1 c.1) l

theorem mem_sortKeyed {l : List (SortKey × α)} {x} : x ∈ sortKeyed l ↔ x ∈ l := mem_insertionSort

theorem perm_sortOn (key : α → SortKey) (l : List α) : (sortOn key l).Perm l := by
  unfold sortOn
  have h := (perm_insertionSort (fun (a b : SortKey × α) => a.1.le b.1) (l.map fun a => (key a, a))).map (·.2)
  simpa [sortKeyed, List.map_map, Function.comp_def] using h

theorem mem_sortOn {key : α → SortKey} {l : List α} {x : α} : x ∈ sortOn key l ↔ x ∈ l := (perm_sortOn key l).mem_iff

theorem sorted_sortOn (key : α → SortKey) (l : List α) : (sortOn key l).Pairwise (fun x y => (key x).le (key y) = true) := by
  unfold sortOn
  rw [List.pairwise_map]
  have h := sorted_sortKeyed (l.map fun a => (key a, a))
  refine h.imp_of_mem ?_
  intro a b ha hb hab
  rw [mem_sortKeyed, List.mem_map] at ha hb
  obtain ⟨x, _, rfl⟩ := ha
  obtain ⟨y, _, rfl⟩ := hb
  exact hab

end Xsg
