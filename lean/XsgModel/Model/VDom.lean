import XsgModel.Model.Checks
/-!
# Documents with their values

`Node` (Dom.lean) is what the schema inference looks at: names and shape.  The deserializers of C02 / C13 also
see attribute values and character data, so their model runs on `VNode`; `VNode.erase` forgets the values and
gives the `Node` a reader with `trim_text(true)` reports (white-space-only text nodes disappear).
All strings are *unescaped* values (what `&amp;` … stand for); the harness writes them escaped.
-/
namespace Xsg

abbrev Str := List Char

mutual
/-- an element with attribute values and character data -/
inductive VNode where
  | mk (name : Name) (attrs : List (Name × Str)) (selfClosing : Bool) (items : VItems)
/-- content: elements, text / CDATA pieces (with their characters), other nodes (comment, PI) -/
inductive VItems where
  | nil
  | elem (n : VNode) (rest : VItems)
  | text (cdata : Bool) (s : Str) (rest : VItems)
  | other (pi : Bool) (rest : VItems)   -- comment (`false`) or processing instruction (`true`)
end

namespace VNode
def name : VNode → Name | mk n _ _ _ => n
def attrs : VNode → List (Name × Str) | mk _ a _ _ => a
def items : VNode → VItems | mk _ _ _ i => i
end VNode

/-- XML white space (what quick-xml's and xml-rs' trimming remove) -/
def isXmlWs (c : Char) : Bool := c == ' ' || c == '\n' || c == '\t' || c == '\r'

def allWs (s : Str) : Bool := s.all isXmlWs

mutual
def VNode.erase : VNode → Node
  | .mk n as sc items => .mk n (as.map (·.1)) sc items.erase
def VItems.erase : VItems → Items
  | .nil => .nil
  | .elem n r => .elem n.erase r.erase
  | .text cd s r => if !cd && allWs s then r.erase else .text cd r.erase
  | .other _ r => .other r.erase
end

/-- a document with values: misc, root, misc (misc carries no elements, its values are irrelevant) -/
structure VDoc where
  pre : Items
  root : VNode
  post : Items

def VDoc.erase (d : VDoc) : Doc := ⟨d.pre, d.root.erase, d.post⟩

namespace VItems
/-- the child elements, in document order -/
def elems : VItems → List VNode
  | nil => []
  | elem n r => n :: elems r
  | text _ _ r => elems r
  | other _ r => elems r

/-- the text and CDATA pieces in document order (comments and PIs are transparent) -/
def pieces : VItems → List (Bool × Str)
  | nil => []
  | elem _ r => pieces r
  | text cd s r => (cd, s) :: pieces r
  | other _ r => pieces r

/-- the pieces grouped into runs: a child element ends a run, and so does a processing instruction if
`splitAtPI` (xml-rs reports the characters collected so far when it meets one; comments never split) -/
def runs (splitAtPI : Bool) : VItems → List (List (Bool × Str))
  | nil => [[]]
  | elem _ r => [] :: runs splitAtPI r
  | text cd s r =>
    match runs splitAtPI r with
    | [] => [[(cd, s)]]
    | run :: rest => ((cd, s) :: run) :: rest
  | other pi r => if pi && splitAtPI then [] :: runs splitAtPI r else runs splitAtPI r
end VItems

def trimStart (s : Str) : Str := s.dropWhile isXmlWs
def trimEnd (s : Str) : Str := (s.reverse.dropWhile isXmlWs).reverse

/-- drop the leading text pieces that are white space only (they are skipped while the trimmer is in its
"trim the start" state; a CDATA piece ends that state) -/
def dropLeadingWs : List (Bool × Str) → List (Bool × Str)
  | [] => []
  | (cd, s) :: r => if !cd && allWs s then dropLeadingWs r else (cd, s) :: r

/-- trim the end of the last piece if it is a text piece -/
def trimLast : List (Bool × Str) → List Str
  | [] => []
  | [(cd, s)] => [if cd then s else trimEnd s]
  | (_, s) :: r => s :: trimLast r

/-- The string a run of text / CDATA pieces is delivered as by `quick_xml::de` (`StartTrimmer`, `drain_text`):
leading white-space-only text pieces vanish; of what remains the first piece is trimmed at its start and the
last at its end, if they are text pieces (CDATA is never trimmed); `none` if nothing remains. -/
def runText (ps : List (Bool × Str)) : Option Str :=
  match dropLeadingWs ps with
  | [] => none
  | (cd, s) :: r => some (trimLast ((cd, if cd then s else trimStart s) :: r)).flatten

end Xsg
