import XsgModel.Model.Render
import XsgModel.Model.Parser
/-!
# `src/main.rs` 32-58 and `src/args.rs`: the command-line program over an abstract world
-/
namespace Xsg

inductive ParserArg | quickXmlDe | serdeXmlRs
deriving DecidableEq, Repr

/-- what `fs::read_to_string(input_path)` meets -/
inductive InputStatus where
  | missing              -- no such file
  | unreadable           -- e.g. a directory
  | notUtf8
  | content (evs : List Ev)   -- readable UTF-8; the events `Reader::from_str` reports for it
deriving Repr

structure CliArgs where
  parser : ParserArg := .quickXmlDe      -- `--parser`, default quick-xml-de
  derive : Option Name := none           -- `--derive`, default "Serialize, Deserialize"
  sort : SortBy := .unsorted             -- `--sort`, default unsorted
deriving Repr

/-- the output argument: none (stdout), or a path that `File::create` can or cannot create, with the
bytes stored there before the run (if it is an existing file) -/
inductive OutTarget where
  | stdout
  | file (creatable : Bool) (before : Option Name)
deriving Repr

structure CliOutcome where
  exit : Nat
  stdout : Name
  stderrNonEmpty : Bool
  fileAfter : Option Name
deriving Repr, DecidableEq

def defaultDerive : Name := cl!"Serialize, Deserialize"

/-- `let mut options: Options = config.parser.into(); options = options.derive(&config.derive); options.sort = config.sort.into();` -/
def optionsOf (a : CliArgs) : Options :=
  let base := match a.parser with
    | .quickXmlDe => Options.quickXmlDe
    | .serdeXmlRs => Options.serdeXmlRs
  { (base.withDerive (a.derive.getD defaultDerive)) with sort := a.sort }

def cliHeader : Name := cl!"use serde::{Deserialize, Serialize};\n\n"

def outBefore : OutTarget → Option Name
  | .stdout => none
  | .file _ b => b

/-- `run(config)` followed by the error path of `main` -/
def runCli (a : CliArgs) (input : InputStatus) (out : OutTarget) : CliOutcome :=
  let failed : CliOutcome := ⟨1, [], true, outBefore out⟩
  match input with
  | .missing => failed
  | .unreadable => failed
  | .notUtf8 => failed
  | .content evs =>
    match intoStruct evs with
    | .error _ => failed
    | .ok t =>
      let s := cliHeader ++ toSerdeStruct (optionsOf a) t
      match out with
      | .stdout => ⟨0, s ++ ['\n'], false, none⟩
      | .file true _ => ⟨0, [], false, some s⟩
      | .file false b => ⟨1, [], true, b⟩

end Xsg
