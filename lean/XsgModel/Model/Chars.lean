/-!
# Characters and names

Model of the four `char` functions `convert_string` relies on
(`is_alphanumeric`, `is_uppercase`, `to_uppercase`, `to_lowercase`), defined on the
*supported alphabet* `Σ` (`inSigma`): ASCII, the Latin-1 letters U+00C0–U+00FE (without × ÷),
Cyrillic U+0400–U+045F and the caseless CJK block U+4E00–U+4E3F.
The correspondence harness compares these functions with Rust's `std` exhaustively over `Σ`
on every run.  Outside `Σ` the functions are total but nothing is claimed about Rust.
-/
namespace Xsg

/-- XML names, identifiers, and all other text are lists of Unicode scalar values -/
abbrev Name := List Char

open Lean in
/-- `cl!"abc"` is the explicit list `['a','b','c']`, so that string constants reduce in the kernel -/
macro "cl!" s:str : term => do
  let cs : Array (TSyntax `term) := (s.getString.toList.map (fun c => (Syntax.mkCharLit c : TSyntax `term))).toArray
  `([$cs,*])

def inSigma (c : Char) : Bool :=
  let n := c.toNat
  n < 128 || (0xC0 ≤ n && n ≤ 0xFE && n != 0xD7 && n != 0xF7) || (0x400 ≤ n && n ≤ 0x45F) || (0x4E00 ≤ n && n ≤ 0x4E3F)

/-- `char::is_uppercase` on `Σ` -/
def isUpper (c : Char) : Bool :=
  let n := c.toNat
  (65 ≤ n && n ≤ 90) || (0xC0 ≤ n && n ≤ 0xDE && n != 0xD7) || (0x400 ≤ n && n ≤ 0x42F)

/-- `char::is_lowercase` on `Σ` (not used by the code, used by proofs) -/
def isLower (c : Char) : Bool :=
  let n := c.toNat
  (97 ≤ n && n ≤ 122) || (0xDF ≤ n && n ≤ 0xFE && n != 0xF7) || (0x430 ≤ n && n ≤ 0x45F)

def isDigit (c : Char) : Bool := 48 ≤ c.toNat && c.toNat ≤ 57

/-- `char::is_alphanumeric` on `Σ` -/
def isAlnum (c : Char) : Bool :=
  let n := c.toNat
  isDigit c || isUpper c || isLower c || (0x4E00 ≤ n && n ≤ 0x4E3F)

/-- a letter: alphanumeric and not a digit -/
def isLetter (c : Char) : Bool := isAlnum c && !isDigit c

/-- `char::to_lowercase` on `Σ` -/
def toLower (c : Char) : List Char :=
  let n := c.toNat
  if 65 ≤ n && n ≤ 90 then [Char.ofNat (n + 32)]
  else if 0xC0 ≤ n && n ≤ 0xDE && n != 0xD7 then [Char.ofNat (n + 32)]
  else if 0x400 ≤ n && n ≤ 0x40F then [Char.ofNat (n + 0x50)]
  else if 0x410 ≤ n && n ≤ 0x42F then [Char.ofNat (n + 0x20)]
  else [c]

/-- `char::to_uppercase` on `Σ` (`ß` becomes `SS`) -/
def toUpper (c : Char) : List Char :=
  let n := c.toNat
  if 97 ≤ n && n ≤ 122 then [Char.ofNat (n - 32)]
  else if n = 0xDF then ['S', 'S']
  else if 0xE0 ≤ n && n ≤ 0xFE && n != 0xF7 then [Char.ofNat (n - 32)]
  else if 0x430 ≤ n && n ≤ 0x44F then [Char.ofNat (n - 0x20)]
  else if 0x450 ≤ n && n ≤ 0x45F then [Char.ofNat (n - 0x50)]
  else [c]

/-- byte-wise `Ord` of Rust `String` = lexicographic order of code points -/
def nameLe : Name → Name → Bool
  | [], _ => true
  | _ :: _, [] => false
  | a :: as, b :: bs => a.toNat < b.toNat || (a.toNat == b.toNat && nameLe as bs)

/-- decimal rendering of a natural number, `format!("{}", i)` -/
def decDigits : Nat → Nat → List Char
  | 0, _ => []
  | fuel + 1, n => if n < 10 then [Char.ofNat (48 + n)] else decDigits fuel (n / 10) ++ [Char.ofNat (48 + n % 10)]

def dec (n : Nat) : List Char := decDigits (n + 1) n

end Xsg
