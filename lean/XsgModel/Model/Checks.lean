import XsgModel.Model.RustSyntax
import XsgModel.Model.Dom
/-!
# Decidable property predicates

The same definitions are used in the theorem statements (`Props/`) and are evaluated by the driver
on the *implementation's* observations.
-/
namespace Xsg

/-- structural equality of element trees (all seven fields) -/
def Elem.beq : Elem → Elem → Bool
  | .mk n1 t1 s1 c1 a1 k1 p1, .mk n2 t2 s2 c2 a2 k2 p2 =>
    n1 == n2 && t1 == t2 && s1 == s2 && c1 == c2 && a1 == a2 && p1 == p2 && beqKids k1 k2
where
  beqKids : List (Nec × Elem) → List (Nec × Elem) → Bool
    | [], [] => true
    | (n1, e1) :: r1, (n2, e2) :: r2 => n1 == n2 && e1.beq e2 && beqKids r1 r2
    | _, _ => false

/-- the serde name an attribute is bound to, without the preset's prefix -/
def attrLocal (a : Name) : Name := if startsWithXmlns a then a else removeNamespace a

/-- the schema with every name replaced by the serde name it is bound to -/
def Schema.bind : Schema → Schema
  | .mk t as ks => .mk t (as.map fun a => (a.1, attrLocal a.2)) (bindKids ks)
where
  bindKids : List (Name × Nec × Bool × Schema) → List (Name × Nec × Bool × Schema)
    | [] => []
    | (k, n, m, s) :: rest => (removeNamespace k, n, m, s.bind) :: bindKids rest

/-- number of struct items a schema is rendered as (the root always gets one) -/
def Schema.structCount : Schema → Nat
  | .mk _ _ ks => 1 + countKids ks
where
  countKids : List (Name × Nec × Bool × Schema) → Nat
    | [] => 0
    | (_, _, _, s) :: rest => (if s.isString then 0 else s.structCount) + countKids rest

def PField.bound (f : PField) : Name := f.rename.getD f.ident

/-- read a program rendered with the quick-xml preset (`@` prefix, `$text`) back into a schema of bound
names, following field types from the struct called `root`; `fuel` bounds the nesting -/
def schemaOfStruct (p : List PStruct) : Nat → Name → Option Schema
  | 0, _ => none
  | fuel + 1, root =>
    match p.find? (fun s => s.name = root) with
    | none => none
    | some s =>
      let attrs := s.fields.filterMap fun f =>
        match f.bound with
        | '@' :: rest => some ((if f.opt then Nec.opt else Nec.man), rest)
        | _ => none
      let text := s.fields.any fun f => f.bound = cl!"$text"
      let kidFields := s.fields.filter fun f =>
        match f.bound with
        | '@' :: _ => false
        | b => b ≠ cl!"$text"
      let kids := kidFields.mapM fun f =>
        if f.base = stringTy then some (f.bound, (if f.opt then Nec.opt else Nec.man), f.vec, Schema.mk true [] [])
        else (schemaOfStruct p fuel f.base).map fun sub => (f.bound, (if f.opt then Nec.opt else Nec.man), f.vec, sub)
      kids.map fun ks => Schema.mk text attrs ks

def schemaOfProgram (p : List PStruct) : Option Schema :=
  match p with
  | [] => none
  | s :: _ => schemaOfStruct p (p.length + 1) s.name

/-- struct names met by following field types from the first struct, pre-order -/
def preorderNames (p : List PStruct) : Nat → Name → List Name
  | 0, _ => []
  | fuel + 1, root =>
    match p.find? (fun s => s.name = root) with
    | none => []
    | some s => root :: (s.fields.filter (fun f => f.base ≠ stringTy)).flatMap fun f => preorderNames p fuel f.base

/-- C01: a document element is described by a schema of bound names -/
def admits : Schema → Node → Bool
  | .mk text attrs kids, .mk _ as _ items =>
    -- each attribute has a field bound to its name
    as.all (fun a => attrs.any fun f => f.2 = attrLocal a) &&
    -- each non-Option attribute field is present
    attrs.all (fun f => f.1 = .opt || as.any fun a => attrLocal a = f.2) &&
    -- character data only where there is a text field (a String-typed element has text = true)
    (!items.hasText || text) &&
    -- each child has a field bound to its name, and that field's schema admits it
    admitsItems kids items &&
    -- non-Option child fields occur, non-Vec child fields occur at most once
    kids.all (fun (k, nec, multi, _) =>
      let m := countBound k items
      (nec = .opt || 1 ≤ m) && (multi || m ≤ 1))
where
  admitsItems (kids : List (Name × Nec × Bool × Schema)) : Items → Bool
    | .nil => true
    | .elem n r =>
      (match kids.find? (fun k => k.1 = removeNamespace n.name) with
       | some (_, _, _, sub) => admits sub n
       | none => false) && admitsItems kids r
    | .text _ r => admitsItems kids r
    | .other r => admitsItems kids r
  countBound (k : Name) : Items → Nat
    | .nil => 0
    | .elem n r => (if removeNamespace n.name = k then 1 else 0) + countBound k r
    | .text _ r => countBound k r
    | .other r => countBound k r

/-- C01's side condition on the documents: no two sibling names and no two attribute names of one element
differ only by namespace prefix (the bound names are then distinct) -/
def Node.noPrefixClash : Node → Bool
  | .mk _ as _ items =>
    (as.map attrLocal).Nodup && ((items.childNames.map removeNamespace).Nodup) && clashItems items
where
  clashItems : Items → Bool
    | .nil => true
    | .elem n r => n.noPrefixClash && clashItems r
    | .text _ r => clashItems r
    | .other r => clashItems r

/-- the same condition on the merged history: per schema position -/
def Schema.noPrefixClash : Schema → Bool
  | .mk _ as ks => ((as.map fun a => attrLocal a.2).Nodup) && ((ks.map fun k => removeNamespace k.1).Nodup) && clashKids ks
where
  clashKids : List (Name × Nec × Bool × Schema) → Bool
    | [] => true
    | (_, _, _, s) :: rest => s.noPrefixClash && clashKids rest

/-- attribute names of one element are distinct (XML well-formedness) -/
def Node.attrsDistinct : Node → Bool
  | .mk _ as _ items => as.Nodup && goItems items
where
  goItems : Items → Bool
    | .nil => true
    | .elem n r => n.attrsDistinct && goItems r
    | .text _ r => goItems r
    | .other r => goItems r

/-- `<x/>` has no content -/
def Node.wellFormed : Node → Bool
  | .mk _ _ sc items => (!sc || (match items with | .nil => true | _ => false)) && goItems items
where
  goItems : Items → Bool
    | .nil => true
    | .elem n r => n.wellFormed && goItems r
    | .text _ r => goItems r
    | .other r => goItems r

/-! ## C11: normal form of event streams -/

/-- drop ignored events, expand `Empty` into `Start`+`End`, turn CDATA into text, merge adjacent text -/
def normEvents : List Ev → List Ev
  | [] => []
  | .ignored :: r => normEvents r
  | .empty n as :: r => .start n as :: .endTag :: normEvents r
  | .cdata (.ok _) :: r => pushText (normEvents r)
  | .text (.ok _) :: r => pushText (normEvents r)
  | e :: r => e :: normEvents r
where
  pushText : List Ev → List Ev
    | .text (.ok n) :: r => .text (.ok n) :: r
    | r => .text (.ok []) :: r

/-! ## C08: the independent verdict -/

/-- first fault in stream order, without building anything: depth counter only -/
def firstFault : Nat → List Ev → Option PErr
  | _, [] => none
  | d, ev :: rest =>
    match ev with
    | .start (.bad m) _ => some (.utf8 m)
    | .start (.ok _) as => match attrKeys as with
        | .error e => some e
        | .ok _ => firstFault (d + 1) rest
    | .empty (.bad m) _ => some (.utf8 m)
    | .empty (.ok _) as => match attrKeys as with
        | .error e => some e
        | .ok _ => firstFault d rest
    | .endTag => if d = 0 then none else firstFault (d - 1) rest
    | .text (.bad m) => some (.utf8 m)
    | .cdata (.bad m) => some (.utf8 m)
    | .text (.ok _) => firstFault d rest
    | .cdata (.ok _) => firstFault d rest
    | .ignored => firstFault d rest
    | .eof => none
    | .err p m => some (.quickXml p m)

/-- an element starts before the stream stops (at `Eof`, a fault, or an `End` at depth 0) -/
def hasElement : Nat → List Ev → Bool
  | _, [] => false
  | d, ev :: rest =>
    match ev with
    | .start (.ok _) as => (attrKeys as).toBool
    | .empty (.ok _) as => (attrKeys as).toBool
    | .start (.bad _) _ => false
    | .empty (.bad _) _ => false
    | .endTag => if d = 0 then false else hasElement (d - 1) rest
    | .text (.bad _) => false
    | .cdata (.bad _) => false
    | .eof => false
    | .err _ _ => false
    | _ => hasElement d rest

/-- the verdict C08 expects from `into_struct` -/
def expectedInit (evs : List Ev) : Option PErr :=
  match firstFault 0 evs with
  | some e => some e
  | none => if hasElement 0 evs then none else some .noRoot

end Xsg
