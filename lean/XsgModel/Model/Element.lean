import XsgModel.Model.Necessity
/-!
# `src/element.rs` 22-133, 439-454: the element tree and its construction operations
-/
namespace Xsg

/-- `Element<String>`; `text` keeps only `text.is_some()`, `count` is unbounded (`u32` in Rust) -/
inductive Elem where
  | mk (name : Name) (text : Bool) (standalone : Bool) (count : Nat)
       (attrs : List (Nec × Name)) (children : List (Nec × Elem)) (position : Option Nat)
deriving Repr, Inhabited

namespace Elem
def name : Elem → Name | mk n .. => n
def text : Elem → Bool | mk _ t .. => t
def standalone : Elem → Bool | mk _ _ s .. => s
def count : Elem → Nat | mk _ _ _ c .. => c
def attrs : Elem → List (Nec × Name) | mk _ _ _ _ a .. => a
def children : Elem → List (Nec × Elem) | mk _ _ _ _ _ c _ => c
def position : Elem → Option Nat | mk _ _ _ _ _ _ p => p

def setChildren : Elem → List (Nec × Elem) → Elem | mk n t s c a _ p, cs => mk n t s c a cs p
def setAttrs : Elem → List (Nec × Name) → Elem | mk n t s c _ cs p, a => mk n t s c a cs p
def setText : Elem → Bool → Elem | mk n _ s c a cs p, t => mk n t s c a cs p
def setPosition : Elem → Option Nat → Elem | mk n t s c a cs _, p => mk n t s c a cs p

/-- `Element::new` -/
def new (n : Name) (attrs : List Name) : Elem := mk n false true 1 (attrs.map fun a => (.man, a)) [] none
/-- `set_multiple` -/
def setMultiple : Elem → Elem | mk n t _ c a cs p => mk n t false c a cs p
/-- `increment` -/
def increment : Elem → Elem | mk n t s c a cs p => mk n t s (c + 1) a cs p
/-- `merge_attr` -/
def mergeAttr (e : Elem) (l : List (Nec × Name)) : Elem := e.setAttrs (mergeNec e.attrs l)
/-- `contains_only_text` -/
def textOnly (e : Elem) : Bool := e.text && e.attrs.isEmpty && e.children.isEmpty
end Elem

/-- `get_child`: first child with that name -/
def getChild (cs : List (Nec × Elem)) (n : Name) : Option (Nec × Elem) := cs.find? (fun c => c.2.name = n)

/-- the list part of `remove_child`: drop the first child with that name -/
def eraseChild : List (Nec × Elem) → Name → List (Nec × Elem)
  | [], _ => []
  | c :: cs, n => if c.2.name = n then cs else c :: eraseChild cs n

/-- `add_unique` (element.rs:448-454) on a child list: `Necessity` equality is tag equality and name equality -/
def addUnique (cs : List (Nec × Elem)) (d : Nec × Elem) : List (Nec × Elem) :=
  if cs.any (fun c => c.1 = d.1 ∧ c.2.name = d.2.name) then cs else cs ++ [d]

/-- `add_unique_child` after fix F3: nothing happens if the name is present -/
def addUniqueChild (cs : List (Nec × Elem)) (c : Elem) : List (Nec × Elem) :=
  if (getChild cs c.name).isSome then cs
  else addUnique cs (.man, if c.position.isNone then c.setPosition (some cs.length) else c)

/-- the pinned (pre-F3) `add_unique_child` -/
def addUniqueChildPinned (cs : List (Nec × Elem)) (c : Elem) : List (Nec × Elem) :=
  addUnique cs (.man, if c.position.isNone then c.setPosition (some cs.length) else c)

/-- `set_child_optional` = `remove_child` + `add_unique(Optional(..))` -/
def setChildOptional (cs : List (Nec × Elem)) (n : Name) : List (Nec × Elem) :=
  match getChild cs n with
  | some c => addUnique (eraseChild cs n) (.opt, c.2)
  | none => cs

def childNames (cs : List (Nec × Elem)) : List Name := cs.map (·.2.name)

end Xsg
