import XsgModel.Model.Dom
/-!
# Tree-level semantics of the event loop

`absorbNode f n` is what one activation `f` of `build_struct` looks like after a whole element `n` went
by: the recursion of the Rust code written as recursion over the document tree.  `Proofs/Refine.lean`
shows that the stack machine run on `n.events` does exactly this.
-/
namespace Xsg

mutual
def absorbNode (f : Frame) : Node → Frame
  | .mk n as sc items =>
    if sc then closeTag (openTag f n as).1 (openTag f n as).2 (some [])
    else
      let inner := absorbItems
        { elem := (openTag f n as).2, known := [], snap := (getChild f.elem.children n).map (fun c => snapshot c.2) } items
      closeTag (openTag f n as).1 inner.elem inner.snap
def absorbItems (f : Frame) : Items → Frame
  | .nil => f
  | .elem n r => absorbItems (absorbNode f n) r
  | .text _ r => absorbItems { f with elem := f.elem.setText true } r
  | .other r => absorbItems f r
end

/-- no element among the items (prolog / epilog of a document) -/
def Items.noElems : Items → Bool
  | .nil => true
  | .elem _ _ => false
  | .text _ r => r.noElems
  | .other r => r.noElems

/-- append a name that is not yet listed (`known_elements.push` / first insertion of a child) -/
def mark (known : List Name) (n : Name) : List Name := if known.contains n then known else known ++ [n]

/-- names of the child elements among the items, each appended at its first appearance -/
def marks (ord : List Name) : Items → List Name
  | .nil => ord
  | .elem n r => marks (mark ord n.name) r
  | .text _ r => marks ord r
  | .other r => marks ord r

/-- the child names of a position in order of first appearance over its occurrences (stream order) -/
def orderOf (occs : List Node) : List Name := occs.foldl (fun ord o => marks ord o.items) []

mutual
/-- well-formedness of a document tree as far as the parser can see it: attribute names of one element are
distinct (the reader rejects duplicates) and `<x/>` has no content -/
def Node.ok : Node → Bool
  | .mk _ as sc items => decide as.Nodup && (!sc || (match items with | .nil => true | _ => false)) && items.ok
def Items.ok : Items → Bool
  | .nil => true
  | .elem n r => n.ok && r.ok
  | .text _ r => r.ok
  | .other r => r.ok
end

end Xsg
