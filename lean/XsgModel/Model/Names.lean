import XsgModel.Model.Element
import XsgModel.Model.Convert
/-!
# Struct names: `compute_name_hints`, `expand_name` (element.rs:151-242) and `compute_struct_names` (fix F4)
-/
namespace Xsg

/-- `while used.contains(name) { i += 1; name = cand(i) }`: the base name if it is free, otherwise the
candidate with the least `i ≥ 1` that is free.  Among `used.length + 1` distinct candidates one is free,
so the search range is enough (proved in `Proofs/FirstFree.lean`); the `none` branch is unreachable. -/
def firstFree (used : List Name) (base : Name) (cand : Nat → Name) : Name :=
  if ¬ used.contains base then base
  else match (List.range (used.length + 1)).find? (fun i => ¬ used.contains (cand (i + 1))) with
    | some i => cand (i + 1)
    | none => base

/-- `fill_names`: every element of the tree (in stored child order) with its PascalCase name and its
trace, leaf first (`VecDeque::push_front`) -/
def fillNames (trace : List Name) : Elem → List (Name × List Name)
  | .mk n _ _ _ _ cs _ => (pascal n, pascal n :: trace) :: fillKids (pascal n :: trace) cs
where
  fillKids (trace : List Name) : List (Nec × Elem) → List (Name × List Name)
    | [] => []
    | (_, e) :: cs => fillNames trace e ++ fillKids trace cs

/-- buffer of `minimal_different_lengths` after iteration `i - 1`: the first `i` trace items concatenated -/
def traceBuffer (i : Nat) (t : List Name) : Name := (t.take i).flatten

/-- `minimal_different_lengths` -/
def minimalDifferentLengths (vecs : List (List Name)) : Nat :=
  let lens := vecs.map List.length
  match (List.range (lens.min?.getD 0)).find? (fun i => decide ((vecs.map (traceBuffer (i + 1))).Nodup)) with
  | some i => i + 1
  | none => lens.max?.getD 0

/-- the traces collected for one PascalCase name -/
def traceGroup (all : List (Name × List Name)) (k : Name) : List (List Name) :=
  (all.filter (fun p => p.1 = k)).map (·.2)

/-- `trace_length.get(name)` -/
def hintOf (all : List (Name × List Name)) (k : Name) : Option Nat :=
  match traceGroup all k with
  | [] => none
  | [_] => some 1
  | g => some (minimalDifferentLengths g)

/-- `compute_name_hints` as the table the Rust code builds while iterating its `HashMap` in the
(arbitrary) order `order` of keys; later insertions of a key overwrite earlier ones -/
def hintTable (all : List (Name × List Name)) (order : List Name) : List (Name × Nat) :=
  order.filterMap fun k => (hintOf all k).map fun n => (k, n)

def tableLookup (tbl : List (Name × Nat)) (k : Name) : Option Nat :=
  (tbl.reverse.find? (fun p => p.1 = k)).map (·.2)

/-- `expand_name`: the last `n` items of the root-first trace, joined -/
def expandName (hints : Name → Option Nat) (trace : List Name) (e : Elem) : Name :=
  match hints (pascal e.name) with
  | some n => (trace.drop (trace.length - n)).flatten
  | none => []

inductive SortBy | unsorted | xmlName
deriving DecidableEq, Repr

inductive SortKey | pos (p : Option Nat) | name (n : Name)
deriving Repr

/-- `Ord` of the sort keys: `Option<usize>` (`None` first) or the XML name -/
def SortKey.le : SortKey → SortKey → Bool
  | .pos none, .pos _ => true
  | .pos (some _), .pos none => false
  | .pos (some a), .pos (some b) => a ≤ b
  | .name a, .name b => nameLe a b
  | .pos _, .name _ => true
  | .name _, .pos _ => false

def sortKeyOf (s : SortBy) (e : Elem) : SortKey :=
  match s with
  | .unsorted => .pos e.position
  | .xmlName => .name e.name

/-- a struct-bearing node met by the renderer: XML path from the root, PascalCase trace (root first), the element -/
structure Entry where
  path : List Name
  trace : List Name
  elem : Elem
deriving Repr

/-- insert before the first element that is not smaller (stable) -/
def insertSorted {α} (le : α → α → Bool) (a : α) : List α → List α
  | [] => [a]
  | b :: bs => if le a b then a :: b :: bs else b :: insertSorted le a bs

/-- stable insertion sort (structural recursion, so closed instances reduce in the kernel) -/
def insertionSort {α} (le : α → α → Bool) (l : List α) : List α := l.foldr (insertSorted le) []

/-- `sort_unstable_by_key` is modelled by a stable sort (the result is unique when keys are distinct) -/
def sortKeyed {α} (l : List (SortKey × α)) : List (SortKey × α) :=
  insertionSort (fun a b => a.1.le b.1) l

/-- pre-order walk over the elements rendered as structs (text-only children are skipped),
children visited in the order given by `s` -/
def walk (s : SortBy) (path trace : List Name) : Elem → List Entry
  | .mk n t st c as cs p =>
    ⟨path ++ [n], trace ++ [pascal n], .mk n t st c as cs p⟩ ::
      ((sortKeyed (walkKids s (path ++ [n]) (trace ++ [pascal n]) cs)).flatMap (·.2))
where
  walkKids (s : SortBy) (path trace : List Name) : List (Nec × Elem) → List (SortKey × List Entry)
    | [] => []
    | (_, e) :: cs =>
      (if e.textOnly then [] else [(sortKeyOf s e, walk s path trace e)]) ++ walkKids s path trace cs

/-- names no generated struct may have (fix F4) -/
def reservedStructNames : List Name :=
  [cl!"Self", cl!"String", cl!"Option", cl!"Vec", cl!"Serialize", cl!"Deserialize"]

/-- `fill_struct_names`: names are handed out in walk order; a number is appended while the name is used -/
def assignNames (hints : Name → Option Nat) : List Entry → List Name → List (List Name × Name)
  | [], _ => []
  | en :: rest, used =>
    let base := expandName hints en.trace en.elem
    let nm := firstFree used base (fun i => base ++ dec i)
    (en.path, nm) :: assignNames hints rest (used ++ [nm])

/-- `HashMap::get` on the table filled by `insert` in list order (a later insert overwrites) -/
def pathLookup (tbl : List (List Name × Name)) (path : List Name) : Option Name :=
  (tbl.reverse.find? (fun p => p.1 = path)).map (·.2)

/-- `compute_struct_names`: always in position order, whatever `Options::sort` says -/
def structNames (hints : Name → Option Nat) (root : Elem) : List (List Name × Name) :=
  assignNames hints (walk .unsorted [] [] root) reservedStructNames

end Xsg
