import XsgModel.Model.Ident
/-!
# `to_serde_struct` (element.rs:248-437) and `Options` (options.rs)

`renderAST` produces the list of struct definitions; `printAST` is the literal `format!` strings.
-/
namespace Xsg

structure Options where
  textIdent : Name
  attrPrefix : Name
  derive : Name
  sort : SortBy
deriving Repr

def Options.quickXmlDe : Options := ⟨cl!"$text", cl!"@", cl!"Serialize, Deserialize", .unsorted⟩
def Options.serdeXmlRs : Options := ⟨cl!"$text", [], cl!"Serialize, Deserialize", .unsorted⟩
def Options.withDerive (o : Options) (d : Name) : Options := { o with derive := d }

inductive FKind | attr | text | child
deriving DecidableEq, Repr

/-- one `pub ident: type,` line with its optional `#[serde(rename = "…")]`; `kind` and `xml` are
bookkeeping (not printed): which group the field belongs to and the XML name it stands for -/
structure Field where
  kind : FKind
  xml : Name
  rename : Option Name
  ident : Name
  opt : Bool
  vec : Bool
  base : Name
deriving Repr, DecidableEq

structure StructDef where
  derive : Option Name
  name : Name
  fields : List Field
  path : List Name   -- bookkeeping: the XML path of the element
deriving Repr, DecidableEq

def stringTy : Name := cl!"String"

/-- stable sort of a list by keys -/
def sortOn {α} (key : α → SortKey) (l : List α) : List α :=
  (sortKeyed (l.map fun a => (key a, a))).map (·.2)

def attrField (o : Options) (im : IdentMap) (a : Nec × Name) : Field :=
  let ident := (identLookup im.attr a.2).getD a.2
  let loc := if startsWithXmlns a.2 then a.2 else removeNamespace a.2
  let serde := o.attrPrefix ++ loc
  { kind := .attr, xml := a.2, rename := if ident ≠ serde then some serde else none,
    ident := ident, opt := a.1 = .opt, vec := false, base := stringTy }

def textField (o : Options) (im : IdentMap) : Field :=
  { kind := .text, xml := [], rename := some o.textIdent, ident := im.text, opt := true, vec := false, base := stringTy }

/-- `struct_name`: the table of fix F4, else `expand_name` -/
def structNameOf (hints : Name → Option Nat) (names : List (List Name × Name))
    (path trace : List Name) (e : Elem) : Name :=
  match pathLookup names path with
  | some n => n
  | none => expandName hints trace e

def childField (hints : Name → Option Nat) (names : List (List Name × Name)) (im : IdentMap)
    (path trace : List Name) (c : Nec × Elem) : Field :=
  let real := c.2.name
  let plain := removeNamespace real
  let ident := (identLookup im.child real).getD real
  { kind := .child, xml := real, rename := if ident ≠ plain then some plain else none,
    ident := ident, opt := c.1 = .opt, vec := !c.2.standalone,
    base := if c.2.textOnly then stringTy
            else structNameOf hints names (path ++ [real]) (trace ++ [pascal real]) c.2 }

def sortedAttrs (o : Options) (e : Elem) : List (Nec × Name) :=
  match o.sort with
  | .xmlName => sortOn (fun a => .name a.2) e.attrs
  | .unsorted => e.attrs

def sortedChildren (o : Options) (e : Elem) : List (Nec × Elem) :=
  sortOn (fun c => sortKeyOf o.sort c.2) e.children

/-- the struct item rendered for one element -/
def structOf (o : Options) (hints : Name → Option Nat) (names : List (List Name × Name)) (en : Entry) : StructDef :=
  let e := en.elem
  let im := identMap e
  { derive := if o.derive.isEmpty then none else some o.derive,
    name := structNameOf hints names en.path en.trace e,
    path := en.path,
    fields := (sortedAttrs o e).map (attrField o im)
      ++ (if e.text then [textField o im] else [])
      ++ (sortedChildren o e).map (childField hints names im en.path en.trace) }

/-- rendering with an explicit hint lookup (see `hintTable` for the role of the `HashMap` iteration order) -/
def renderWith (hints : Name → Option Nat) (o : Options) (root : Elem) : List StructDef :=
  let names := structNames hints root
  (walk o.sort [] [] root).map (structOf o hints names)

def renderAST (o : Options) (root : Elem) : List StructDef :=
  renderWith (hintOf (fillNames [] root)) o root

def Field.tyString (f : Field) : Name :=
  match f.opt, f.vec with
  | false, false => f.base
  | true, false => cl!"Option<" ++ f.base ++ cl!">"
  | false, true => cl!"Vec<" ++ f.base ++ cl!">"
  | true, true => cl!"Option<Vec<" ++ f.base ++ cl!">>"

def printField (f : Field) : Name :=
  (match f.rename with
   | some r => cl!"    #[serde(rename = \"" ++ r ++ cl!"\")]\n"
   | none => []) ++
  cl!"    pub " ++ f.ident ++ cl!": " ++ f.tyString ++ cl!",\n"

def printStruct (s : StructDef) : Name :=
  (match s.derive with
   | some d => cl!"#[derive(" ++ d ++ cl!")]\n"
   | none => []) ++
  cl!"pub struct " ++ s.name ++ cl!" {\n" ++ (s.fields.map printField).flatten ++ cl!"}\n\n"

def printAST (p : List StructDef) : Name := (p.map printStruct).flatten

/-- `Element::to_serde_struct` -/
def toSerdeStruct (o : Options) (root : Elem) : Name := printAST (renderAST o root)

end Xsg
