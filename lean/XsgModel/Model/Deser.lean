import XsgModel.Model.VDom
/-!
# C02 / C13: an executable model of the two serde deserializers on generated programs

`deNode cfg p deny s n`: deserialize the element `n` into the struct called `s` of the program `p` (a list of
`PStruct`, i.e. what `readProgram` reads back from the rendered text), the way `quick_xml::de` (0.37.5, feature
`overlapped-lists`) or `serde_xml_rs` (0.6.0) together with `serde_derive`'s visitor do it for structs of the
generated shape (`String`, `Option<_>`, `Vec<_>`, `Option<Vec<_>>` of `String` or of another generated struct).

This is a model of third-party code: it is *assumed*, not verified, and tied to the real crates only by the
compile-and-run correspondence, which compares the value computed here with the value the compiled program
really produces (canonical dump), for every source document and for foreign documents.

Outside the model (`VNode.inModel = false`, the driver then compares nothing): mixed content (an element with
child elements and a non-vanishing text run: quick-xml feeds such text to sequence fields), prefixed `nil`
attributes (`xsi:nil` turns `Option` fields into `None`, see known finding K2).
-/
namespace Xsg

/-- deserialized values -/
inductive Val where
  | str (s : Str)
  | none
  | some (v : Val)
  | seq (vs : List Val)
  | struct (name : Name) (fields : List (Name × Val))
deriving Repr, Inhabited

inductive DeErr | missing | duplicate | unknown | unresolved | shape
deriving Repr, DecidableEq, Inhabited

/-- which deserializer -/
structure DeCfg where
  /-- key an attribute is offered under -/
  attrKey : Name → Name
  /-- key a child element is offered under -/
  elemKey : Name → Name
  /-- key character data is offered under -/
  textKey : Name
  /-- the string a run of text / CDATA pieces is delivered as (`none`: no character data is reported) -/
  textOf : List (Bool × Str) → Option Str
  /-- elements of one sequence field have to be adjacent (no `overlapped-lists`) -/
  adjacent : Bool
  /-- a processing instruction splits character data into two reports -/
  splitAtPI : Bool

/-- `quick_xml::de` 0.37.5 with `overlapped-lists` -/
def DeCfg.quickXml : DeCfg :=
  { attrKey := fun a => cl!"@" ++ attrLocal a, elemKey := removeNamespace, textKey := cl!"$text",
    textOf := runText, adjacent := false, splitAtPI := false }

/-- xml-rs as configured by serde-xml-rs (`trim_whitespace`, `cdata_to_characters`, `coalesce_characters`):
the pieces are concatenated, white space only vanishes, else both ends are trimmed -/
def sxrText (ps : List (Bool × Str)) : Option Str :=
  let s := (ps.map (·.2)).flatten
  if allWs s then none else some (trimEnd (trimStart s))

/-- `serde_xml_rs` 0.6.0 (`from_str`: elements of a sequence must be contiguous) -/
def DeCfg.serdeXmlRs : DeCfg :=
  { attrKey := removeNamespace, elemKey := removeNamespace, textKey := cl!"$value",
    textOf := sxrText, adjacent := true, splitAtPI := true }

def PField.bound' (f : PField) : Name := f.rename.getD f.ident

def findStruct (p : List PStruct) (s : Name) : Option PStruct := p.find? (fun d => d.name = s)
def findField (fs : List PField) (key : Name) : Option PField := fs.find? (fun f => f.bound' = key)

/-- the result of deserializing one child element for the field it is offered to: key, qualified name, value -/
structure KidRes where
  key : Name
  qname : Name
  val : Except DeErr Val

/-- a prefixed attribute called `nil` (candidate for `xsi:nil`) -/
def isNilAttr (a : Name) : Bool := (afterColon a) = some (cl!"nil")

/-- the character data reports of an element's content -/
def DeCfg.texts (cfg : DeCfg) (items : VItems) : List Str := (items.runs cfg.splitAtPI).filterMap cfg.textOf

mutual
/-- inside the model: no `…:nil` attribute; character data is reported at most once per element, and not at
all next to child elements -/
def VNode.inModel (cfg : DeCfg) : VNode → Bool
  | .mk _ as _ items =>
    as.all (fun a => !isNilAttr a.1) && (cfg.texts items).length ≤ 1 && (items.elems.isEmpty || (cfg.texts items).isEmpty) &&
    items.inModel cfg
def VItems.inModel (cfg : DeCfg) : VItems → Bool
  | .nil => true
  | .elem n r => n.inModel cfg && r.inModel cfg
  | .text _ _ r => r.inModel cfg
  | .other _ r => r.inModel cfg
end

/-- `String` from an element: its text run (`""` if there is none); child elements are an error -/
def deStringElem (cfg : DeCfg) : VNode → Except DeErr Val
  | .mk _ _ _ items => if items.elems.isEmpty then .ok (.str ((cfg.texts items).head?.getD [])) else .error .shape

/-- an `Option<String>` field fed from an attribute value or from character data is `Some`, also for `""` -/
def optOfStr (s : Str) : Val := .some (.str s)

/-- the entries selected by `p` form one contiguous block of the list -/
def contiguous {α} (p : α → Bool) (l : List α) : Bool :=
  !(((l.dropWhile (fun a => !p a)).dropWhile p).any p)

/-- all values, or the first error -/
def collectVals : List KidRes → Except DeErr (List Val)
  | [] => .ok []
  | k :: ks =>
    match k.val with
    | .error e => .error e
    | .ok v =>
      match collectVals ks with
      | .error e => .error e
      | .ok vs => .ok (v :: vs)

def seqOf (rs : List KidRes) : Except DeErr Val :=
  match collectVals rs with
  | .error e => .error e
  | .ok vs => .ok (.seq vs)

/-- value of one field from the sources offered under `key`: attribute values, the text run, child elements -/
def fieldValAt (cfg : DeCfg) (f : PField) (key : Name) (attrs : List (Name × Str)) (txt : Option Str) (kids : List KidRes) :
    Except DeErr Val :=
  let A := attrs.filter (fun a => cfg.attrKey a.1 = key)
  let T := if cfg.textKey = key then txt.toList else []
  let K := kids.filter (fun k => k.key = key)
  match A, T, K with
  | [], [], [] => if f.opt then .ok .none else .error .missing
  | [a], [], [] =>
    if f.vec || f.base ≠ stringTy then .error .shape
    else .ok (if f.opt then optOfStr a.2 else .str a.2)
  | [], [t], [] =>
    if f.vec || f.base ≠ stringTy then .error .shape
    else .ok (if f.opt then optOfStr t else .str t)
  | [], [], k :: ks =>
    if f.vec then
      if ks.all (fun k' => k'.qname = k.qname) && (!cfg.adjacent || contiguous (fun k' => k'.key = key) kids) then
        (seqOf (k :: ks)).map fun v => if f.opt then .some v else v
      else .error .duplicate
    else match ks with
      | [] => k.val.map fun v => if f.opt then .some v else v
      | _ => .error .duplicate
  | _, _, _ => .error .duplicate

/-- value of one field from the sources offered under its serde name -/
def fieldVal (cfg : DeCfg) (f : PField) (attrs : List (Name × Str)) (txt : Option Str) (kids : List KidRes) :
    Except DeErr Val := fieldValAt cfg f f.bound' attrs txt kids

/-- every key offered is the name of a field -/
def allKnown (cfg : DeCfg) (fs : List PField) (attrs : List (Name × Str)) (txt : Option Str) (kids : List KidRes) : Bool :=
  attrs.all (fun a => (findField fs (cfg.attrKey a.1)).isSome) &&
  (txt.isNone || (findField fs cfg.textKey).isSome) &&
  kids.all (fun k => (findField fs k.key).isSome)

/-- the fields in declaration order; a field whose serde name already belongs to an earlier field is never
fed (the derived visitor matches a key against the first field of that name) -/
def fieldVals (cfg : DeCfg) (attrs : List (Name × Str)) (txt : Option Str) (kids : List KidRes) :
    List Name → List PField → Except DeErr (List (Name × Val))
  | _, [] => .ok []
  | seen, f :: fs =>
    match (if seen.contains f.bound' then fieldVal cfg f [] none [] else fieldVal cfg f attrs txt kids) with
    | .error e => .error e
    | .ok v =>
      match fieldVals cfg attrs txt kids (f.bound' :: seen) fs with
      | .error e => .error e
      | .ok rest => .ok ((f.bound', v) :: rest)

/-- one struct from the sources of one element -/
def assemble (cfg : DeCfg) (deny : Bool) (sd : PStruct) (attrs : List (Name × Str)) (txt : Option Str)
    (kids : List KidRes) : Except DeErr Val :=
  if deny && !allKnown cfg sd.fields attrs txt kids then .error .unknown
  else (fieldVals cfg attrs txt kids [] sd.fields).map (Val.struct sd.name)

mutual
/-- deserialize the element into the struct named `sname` -/
def deNode (cfg : DeCfg) (p : List PStruct) (deny : Bool) (sname : Name) : VNode → Except DeErr Val
  | .mk _ attrs _ items =>
    match findStruct p sname with
    | none => .error .unresolved
    | some sd => assemble cfg deny sd attrs (cfg.texts items).head? (deItems cfg p deny sd.fields items)
/-- each child element, deserialized for the field its key selects (children without a field are not looked into) -/
def deItems (cfg : DeCfg) (p : List PStruct) (deny : Bool) (fs : List PField) : VItems → List KidRes
  | .nil => []
  | .elem c r =>
    (match findField fs (cfg.elemKey c.name) with
     | none => ⟨cfg.elemKey c.name, c.name, .error .unknown⟩
     | some f => ⟨cfg.elemKey c.name, c.name, if f.base = stringTy then deStringElem cfg c else deNode cfg p deny f.base c⟩)
      :: deItems cfg p deny fs r
  | .text _ _ r => deItems cfg p deny fs r
  | .other _ r => deItems cfg p deny fs r
end

/-- `from_str::<Root>`: into the first struct of the program -/
def deDoc (cfg : DeCfg) (p : List PStruct) (deny : Bool) (root : VNode) : Except DeErr Val :=
  match p with
  | [] => .error .unresolved
  | s :: _ => deNode cfg p deny s.name root

/-! ### what a value holds, what a document holds -/

mutual
def Val.strings : Val → List Str
  | .str s => [s]
  | .none => []
  | .some v => v.strings
  | .seq vs => stringsList vs
  | .struct _ fs => stringsFields fs
def stringsList : List Val → List Str
  | [] => []
  | v :: vs => v.strings ++ stringsList vs
def stringsFields : List (Name × Val) → List Str
  | [] => []
  | (_, v) :: fs => v.strings ++ stringsFields fs
end

mutual
/-- attribute values and text runs of a document, in document order -/
def VNode.values (cfg : DeCfg) : VNode → List Str
  | .mk _ as _ items => as.map (·.2) ++ cfg.texts items ++ items.values cfg
def VItems.values (cfg : DeCfg) : VItems → List Str
  | .nil => []
  | .elem n r => n.values cfg ++ r.values cfg
  | .text _ _ r => r.values cfg
  | .other _ r => r.values cfg
end

end Xsg
