import XsgModel.Model.Parser
import XsgModel.Model.Names
/-!
# Specification side: documents as trees, and the schema a history of documents determines

Nothing here mentions counters, snapshots or `known` lists.
-/
namespace Xsg

mutual
/-- an XML element: name, attribute names in document order, `<x/>` or `<x>…</x>`, content -/
inductive Node where
  | mk (name : Name) (attrs : List Name) (selfClosing : Bool) (items : Items)
/-- content of an element -/
inductive Items where
  | nil
  | elem (n : Node) (rest : Items)
  | text (cdata : Bool) (rest : Items)   -- a text or CDATA node (the reader reports it)
  | other (rest : Items)                 -- comment, PI, … (the reader reports an ignored event)
end

namespace Node
def name : Node → Name | mk n _ _ _ => n
def attrs : Node → List Name | mk _ a _ _ => a
def selfClosing : Node → Bool | mk _ _ s _ => s
def items : Node → Items | mk _ _ _ i => i
end Node

namespace Items
/-- the child elements with the given name, in document order -/
def named (k : Name) : Items → List Node
  | nil => []
  | elem n r => if n.name = k then n :: named k r else named k r
  | text _ r => named k r
  | other r => named k r

def hasText : Items → Bool
  | nil => false
  | elem _ r => hasText r
  | text _ _ => true
  | other r => hasText r

/-- names of the child elements in order of first appearance -/
def childNames : Items → List Name
  | nil => []
  | elem n r => n.name :: (childNames r).filter (· ≠ n.name)
  | text _ r => childNames r
  | other r => childNames r
end Items

def Node.named (k : Name) (n : Node) : List Node := n.items.named k
def Node.hasText (n : Node) : Bool := n.items.hasText

/-- all occurrences of the element reached by a path of child names -/
def occsAt : List Name → List Node → List Node
  | [], occs => occs
  | k :: p, occs => occsAt p (occs.flatMap (Node.named k))

mutual
/-- the events a reader reports for a well-formed element -/
def Node.events : Node → List Ev
  | .mk n as sc items =>
    if sc then [.empty (.ok n) (as.map fun a => .key (.ok a))]
    else [.start (.ok n) (as.map fun a => .key (.ok a))] ++ items.events ++ [.endTag]
def Items.events : Items → List Ev
  | .nil => []
  | .elem n r => n.events ++ r.events
  | .text false r => .text (.ok []) :: r.events
  | .text true r => .cdata (.ok []) :: r.events
  | .other r => .ignored :: r.events
end

/-- a document: misc (white space, comments, PIs, declaration, DOCTYPE), root element, misc, end of input -/
structure Doc where
  pre : Items
  root : Node
  post : Items

def Doc.events (d : Doc) : List Ev := d.pre.events ++ d.root.events ++ d.post.events ++ [.eof]

def docEvents (root : Node) : List Ev := root.events ++ [.eof]

/-- the events of an input consisting of the items `is` at top level -/
def fragEvents (is : Items) : List Ev := is.events ++ [.eof]

def Items.append : Items → Items → Items
  | .nil, b => b
  | .elem n r, b => .elem n (r.append b)
  | .text c r, b => .text c (r.append b)
  | .other r, b => .other (r.append b)

/-- the top-level items of a document: prolog, root, epilog -/
def Doc.items (d : Doc) : Items := d.pre.append (.elem d.root d.post)


/-- the schema of one position: text flag, attributes, child kinds (ordered lists) -/
inductive Schema where
  | mk (text : Bool) (attrs : List (Nec × Name)) (kids : List (Name × Nec × Bool × Schema))
deriving Repr, Inhabited

namespace Schema
def text : Schema → Bool | mk t _ _ => t
def attrs : Schema → List (Nec × Name) | mk _ a _ => a
def kids : Schema → List (Name × Nec × Bool × Schema) | mk _ _ k => k
/-- rendered as `String` rather than as a struct -/
def isString (s : Schema) : Bool := s.text && s.attrs.isEmpty && s.kids.isEmpty
end Schema

/-- dedup keeping first appearances -/
def dedupNames : List Name → List Name
  | [] => []
  | a :: as => a :: (dedupNames as).filter (· ≠ a)

/-- executable specification: the schema determined by all occurrences `occs` of one position.
`fuel` bounds the nesting depth explored (callers pass a bound ≥ the depth of the documents). -/
def specOf : Nat → List Node → Schema
  | 0, _ => .mk false [] []
  | fuel + 1, occs =>
    let attrNames := dedupNames (occs.flatMap Node.attrs)
    let kidNames := dedupNames (occs.flatMap fun o => o.items.childNames)
    .mk (occs.any Node.hasText)
      (attrNames.map fun a => (if occs.all (fun o => o.attrs.contains a) then .man else .opt, a))
      (kidNames.map fun k =>
        (k, (if occs.all (fun o => !(o.named k).isEmpty) then Nec.man else Nec.opt),
            occs.any (fun o => 2 ≤ (o.named k).length),
            specOf fuel (occs.flatMap (Node.named k))))

mutual
def Node.depth : Node → Nat
  | .mk _ _ _ items => items.depth + 1
def Items.depth : Items → Nat
  | .nil => 0
  | .elem n r => max n.depth r.depth
  | .text _ r => r.depth
  | .other r => r.depth
end

def specOfDocs (roots : List Node) : Schema := specOf ((roots.map Node.depth).foldl max 0 + 1) roots

/-- insertion sort by name (used only to canonicalise small schema lists) -/
def insertBy {α} (key : α → Name) (a : α) : List α → List α
  | [] => [a]
  | b :: bs => if nameLe (key a) (key b) then a :: b :: bs else b :: insertBy key a bs

def sortBy {α} (key : α → Name) (l : List α) : List α := l.foldr (insertBy key) []

/-- forget field order: sort attributes and kids by name, recursively -/
def Schema.canon : Schema → Schema
  | .mk t as ks => .mk t (sortBy (·.2) as) (sortBy (·.1) (canonKids ks))
where
  canonKids : List (Name × Nec × Bool × Schema) → List (Name × Nec × Bool × Schema)
    | [] => []
    | (k, n, m, s) :: rest => (k, n, m, s.canon) :: canonKids rest

def Schema.beq : Schema → Schema → Bool
  | .mk t1 a1 k1, .mk t2 a2 k2 => t1 == t2 && a1 == a2 && beqKids k1 k2
where
  beqKids : List (Name × Nec × Bool × Schema) → List (Name × Nec × Bool × Schema) → Bool
    | [], [] => true
    | (k1, n1, m1, s1) :: r1, (k2, n2, m2, s2) :: r2 => k1 == k2 && n1 == n2 && m1 == m2 && s1.beq s2 && beqKids r1 r2
    | _, _ => false

/-- the schema an element tree stands for: counters forgotten, children in `position` order -/
def Elem.abs : Elem → Schema
  | .mk _ t _ _ as cs _ => .mk t as ((sortKeyed (absKids cs)).map (·.2))
where
  absKids : List (Nec × Elem) → List (SortKey × Name × Nec × Bool × Schema)
    | [] => []
    | (nec, e) :: rest => (.pos e.position, e.name, nec, !e.standalone, e.abs) :: absKids rest

end Xsg
