import XsgModel.Model.Element
/-!
# `src/parser.rs` 47-262: the event loop as a stack machine

`build_struct` recurses per nesting level; the model keeps the activations as a list of frames and
processes one reader event per `step`, so that parsing is `List.foldl step`.
-/
namespace Xsg

/-- a byte string that is supposed to be UTF-8: the decoded text, or the `FromUtf8Error` message -/
inductive U8 where
  | ok (n : Name)
  | bad (msg : Name)
deriving Repr, DecidableEq

/-- one item of `BytesStart::attributes()` -/
inductive AttrItem where
  | key (k : U8)
  | bad (msg : Name)
deriving Repr, DecidableEq

/-- `quick_xml::events::Event` as far as `build_struct` looks at it -/
inductive Ev where
  | start (name : U8) (attrs : List AttrItem)
  | empty (name : U8) (attrs : List AttrItem)
  | endTag
  | text (content : U8)
  | cdata (content : U8)
  | ignored            -- Comment, Decl, PI, DocType
  | eof
  | err (pos : Nat) (msg : Name)
deriving Repr, DecidableEq

/-- `ParserError` -/
inductive PErr where
  | quickXml (pos : Nat) (msg : Name)
  | utf8 (msg : Name)
  | attr (msg : Name)
  | noRoot
deriving Repr, DecidableEq

/-- `Display for ParserError` -/
def PErr.display : PErr → Name
  | .quickXml p m => cl!"Error at position " ++ dec p ++ cl!" : " ++ m
  | .utf8 m => m
  | .attr m => m
  | .noRoot => cl!"invalid XML, no root element found"

/-- what the error value carries, whatever `Display` prints: the variant with the reader's error and byte position -/
def PErr.carried : PErr → Name
  | .quickXml p m => cl!"Q|" ++ dec p ++ cl!"|" ++ m
  | .utf8 m => cl!"U|" ++ m
  | .attr m => cl!"A|" ++ m
  | .noRoot => cl!"P"

/-- the attribute loops of `parse_tag` (parser.rs:211-216, 235-240) -/
def attrKeys : List AttrItem → Except PErr (List Name)
  | [] => .ok []
  | .bad m :: _ => .error (.attr m)
  | .key (.bad m) :: _ => .error (.utf8 m)
  | .key (.ok k) :: rest => match attrKeys rest with
      | .ok ks => .ok (k :: ks)
      | .error e => .error e

abbrev Snapshot := List (Name × Nat)

/-- `count_children` (parser.rs:139-152): counts of the currently mandatory children -/
def snapshot (C : Elem) : Snapshot :=
  C.children.filterMap fun d => if d.1 = .man then some (d.2.name, d.2.count) else none

def slookup (S : Snapshot) (n : Name) : Option Nat := (S.find? (fun p => p.1 = n)).map (·.2)

/-- names pushed to `to_optional` by `tag_optional_children` (after fix F2), in push order -/
def toOptional (S : Snapshot) (C : Elem) : List Name :=
  C.children.filterMap fun d =>
    if d.1 = .man then
      match slookup S d.2.name with
      | some n => if n = d.2.count then some d.2.name else none
      | none => some d.2.name
    else none

/-- `tag_optional_children` applied to the child itself: `while let Some(name) = to_optional.pop()` -/
def tagOpt (S : Snapshot) (C : Elem) : Elem :=
  C.setChildren ((toOptional S C).reverse.foldl setChildOptional C.children)

/-- one activation of `build_struct`; `name`/`snap` describe the pending `parse_tag` call that created it -/
structure Frame where
  elem : Elem
  known : List Name
  snap : Option Snapshot := none
deriving Repr

inductive St where
  | run (stack : List Frame)
  | done (wrapper : Elem)
  | fail (e : PErr)
deriving Repr

/-- the part of `parse_tag` before the recursive call: take the child out of the parent, merge or create -/
def openTag (parent : Frame) (name : Name) (keys : List Name) : Frame × Elem :=
  let child := match getChild parent.elem.children name with
    | some (_, c) =>
      let c := c.mergeAttr (keys.map fun k => (.man, k))
      let c := if parent.known.contains name then c.setMultiple else c
      c.increment
    | none =>
      let c := Elem.new name keys
      if parent.known.contains name then c.setMultiple else c
  ({ parent with elem := parent.elem.setChildren (eraseChild parent.elem.children name) }, child)

/-- replace the payload of the first child with the given name (what `get_child_mut` gives access to) -/
def replaceFirst : List (Nec × Elem) → Name → Elem → List (Nec × Elem)
  | [], _, _ => []
  | d :: ds, n, c' => if d.2.name = n then (d.1, c') :: ds else d :: replaceFirst ds n c'

/-- `tag_optional_children(root, e, children_count)` on the child list of `root` -/
def tagOptIn (cs : List (Nec × Elem)) (n : Name) (S : Snapshot) : List (Nec × Elem) :=
  match getChild cs n with
  | some (_, c) => replaceFirst cs n (tagOpt S c)
  | none => cs

/-- the part of `parse_tag` after the recursive call (`known_elements`, `add_unique_child`),
followed by `tag_optional_children` if the caller asked for it -/
def closeTag (parent : Frame) (child : Elem) (snap : Option Snapshot) : Frame :=
  let known := if parent.known.contains child.name then parent.known else parent.known ++ [child.name]
  let cs := addUniqueChild parent.elem.children child
  let cs := match snap with
    | some S => tagOptIn cs child.name S
    | none => cs
  { parent with elem := parent.elem.setChildren cs, known := known }

/-- `Eof` inside nested activations: every `build_struct` returns `Ok(root)` and its caller finishes `parse_tag` -/
def unwind : Frame → List Frame → Elem
  | top, [] => top.elem
  | top, parent :: rest => unwind (closeTag parent top.elem top.snap) rest

/-- one reader event -/
def step : St → Ev → St
  | .run [], _ => .fail .noRoot
  | .run (top :: rest), ev =>
    match ev with
    | .start (.bad m) _ => .fail (.utf8 m)
    | .start (.ok name) attrs =>
      match attrKeys attrs with
      | .error e => .fail e
      | .ok keys =>
        let snap := (getChild top.elem.children name).map (fun c => snapshot c.2)
        let (parent', child) := openTag top name keys
        .run ({ elem := child, known := [], snap := snap } :: parent' :: rest)
    | .empty (.bad m) _ => .fail (.utf8 m)
    | .empty (.ok name) attrs =>
      match attrKeys attrs with
      | .error e => .fail e
      | .ok keys =>
        let (parent', child) := openTag top name keys
        .run (closeTag parent' child (some []) :: rest)
    | .endTag =>
      match rest with
      | [] => .done top.elem
      | parent :: rest' => .run (closeTag parent top.elem top.snap :: rest')
    | .text (.ok _) => .run ({ top with elem := top.elem.setText true } :: rest)
    | .text (.bad m) => .fail (.utf8 m)
    | .cdata (.ok _) => .run ({ top with elem := top.elem.setText true } :: rest)
    | .cdata (.bad m) => .fail (.utf8 m)
    | .ignored => .run (top :: rest)
    | .eof => .done (unwind top rest)
    | .err p m => .fail (.quickXml p m)
  | s, _ => s

def runEvents (s : St) (evs : List Ev) : St := evs.foldl step s

/-- result of `build_struct` at top level; an event list that simply ends is treated like `Eof` -/
def finish : St → Except PErr Elem
  | .run [] => .error .noRoot
  | .run (top :: rest) => .ok (unwind top rest)
  | .done w => .ok w
  | .fail e => .error e

/-- parser.rs:54-66 / 81-93: the first child of the wrapper is the result -/
def extractRoot (w : Elem) : Except PErr Elem :=
  match w.children with
  | [] => .error .noRoot
  | (_, c) :: _ =>
    match getChild w.children c.name with
    | some (_, r) => .ok r
    | none => .error .noRoot

def wrapper0 : Elem := Elem.new (cl!"root") []

def buildFrom (wrapper : Elem) (evs : List Ev) : Except PErr Elem :=
  match finish (runEvents (.run [{ elem := wrapper, known := [] }]) evs) with
  | .ok w => extractRoot w
  | .error e => .error e

/-- `into_struct` on a recorded event stream -/
def intoStruct (evs : List Ev) : Except PErr Elem := buildFrom wrapper0 evs

/-- `extend_struct` on a recorded event stream -/
def extendStruct (root : Elem) (evs : List Ev) : Except PErr Elem :=
  buildFrom (wrapper0.setChildren (addUniqueChild wrapper0.children root)) evs

/-- one `extend_struct(..)?` of a caller that stops at the first error -/
def extendStep (acc : Except PErr Elem) (evs : List Ev) : Except PErr Elem :=
  match acc with
  | .ok t => extendStruct t evs
  | .error e => .error e

/-- `into_struct(D1); extend_struct(D2); …` — stops at the first error, as a caller using `?` would -/
def parseHistory : List (List Ev) → Except PErr Elem
  | [] => .error .noRoot
  | d :: ds => ds.foldl extendStep (intoStruct d)

end Xsg
