import XsgModel.Model.Chars
/-!
# `src/necessity.rs`: `Necessity<T>` and `merge_necessity`

A `Necessity<T>` is modelled as a pair `(Nec × T)`.
-/
namespace Xsg

inductive Nec | opt | man
deriving DecidableEq, Repr, Inhabited

/-- first pass of `merge_necessity` (necessity.rs:71-91): every item of the first list is kept in place;
it stays mandatory only if the first item of `ys` with the same payload exists and both are mandatory -/
def mergeFirst {α} [DecidableEq α] (xs ys : List (Nec × α)) : List (Nec × α) :=
  xs.map fun x =>
    match ys.find? (fun y => y.2 = x.2) with
    | some y => if y.1 = .man ∧ x.1 = .man then (.man, x.2) else (.opt, x.2)
    | none => (.opt, x.2)

/-- one iteration of the second pass (necessity.rs:93-105, after fix F1 without `.rev()`) -/
def mergeSecondStep {α} [DecidableEq α] (res : List (Nec × α)) (y : Nec × α) : List (Nec × α) :=
  if res.any (fun r => y.2 = r.2) then res else res ++ [(.opt, y.2)]

/-- `merge_necessity` -/
def mergeNec {α} [DecidableEq α] (xs ys : List (Nec × α)) : List (Nec × α) :=
  ys.foldl mergeSecondStep (mergeFirst xs ys)

/-- the pinned (pre-F1) behaviour: the second pass walks `ys` in reverse -/
def mergeNecPinned {α} [DecidableEq α] (xs ys : List (Nec × α)) : List (Nec × α) :=
  ys.reverse.foldl mergeSecondStep (mergeFirst xs ys)

end Xsg
