import XsgModel.Model.Chars
/-!
# `convert_string` 0.2.0 (`src/impls.rs`), modelled on `List Char`
-/
namespace Xsg

def keywords : List Name := [
  cl!"as", cl!"break", cl!"const", cl!"continue", cl!"crate", cl!"else", cl!"enum", cl!"extern", cl!"false",
  cl!"fn", cl!"for", cl!"if", cl!"impl", cl!"in", cl!"let", cl!"loop", cl!"match", cl!"mod", cl!"move", cl!"mut",
  cl!"pub", cl!"ref", cl!"return", cl!"self", cl!"Self", cl!"static", cl!"struct", cl!"super", cl!"trait",
  cl!"true", cl!"type", cl!"unsafe", cl!"use", cl!"where", cl!"while", cl!"async", cl!"await", cl!"dyn",
  cl!"abstract", cl!"become", cl!"box", cl!"do", cl!"final", cl!"macro", cl!"override", cl!"priv", cl!"typeof",
  cl!"unsized", cl!"virtual", cl!"yield", cl!"try"]

def isKeyword (n : Name) : Bool := keywords.contains n

structure PascalState where
  out : List Char
  capNext : Bool
  lastUpper : Bool

def pascalStep (s : PascalState) (c : Char) : PascalState :=
  if isAlnum c then
    if s.capNext || (isUpper c && !s.lastUpper) then ⟨s.out ++ toUpper c, false, isUpper c⟩
    else ⟨s.out ++ toLower c, s.capNext, isUpper c⟩
  else ⟨s.out, true, isUpper c⟩

/-- `to_pascal_case` -/
def pascal (n : Name) : Name := (n.foldl pascalStep ⟨[], true, false⟩).out

structure SnakeState where
  out : List Char
  lastUpper : Bool
  lastUnderscore : Bool

def snakeStep (s : SnakeState) (c : Char) : SnakeState :=
  if isUpper c then
    ⟨(if !s.out.isEmpty && !s.lastUpper && !s.lastUnderscore then s.out ++ ['_'] else s.out) ++ toLower c, true, false⟩
  else if !isAlnum c then
    ⟨if !s.lastUnderscore then s.out ++ ['_'] else s.out, false, true⟩
  else ⟨s.out ++ [c], false, false⟩

/-- `to_snake_case` -/
def snake (n : Name) : Name := (n.foldl snakeStep ⟨[], false, false⟩).out

/-- `to_valid_key(prefix)` -/
def validKey (pre : Name) (n : Name) : Name :=
  let s := snake (n.map fun c => if c = ':' then '_' else c)
  if isKeyword s then snake pre ++ ['_'] ++ s else s

def afterColon : Name → Option Name
  | [] => none
  | c :: cs => if c = ':' then some cs else afterColon cs

/-- `remove_namespace`: the part after the first `:` (the whole name if there is none) -/
def removeNamespace (n : Name) : Name := (afterColon n).getD n

/-- `starts_with_xmlns` of `element.rs` -/
def startsWithXmlns (n : Name) : Bool := (cl!"xmlns:").isPrefixOf n

end Xsg
