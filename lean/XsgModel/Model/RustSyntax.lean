import XsgModel.Model.Render
/-!
# Reading rendered source back, and what "well-formed Rust struct items" means (C04)

`readProgram` is a reader for exactly the output format of `to_serde_struct`; the correspondence
check uses it on the *implementation's* text.  `WellFormed` is the decidable predicate C04 is about.
-/
namespace Xsg

structure PField where
  rename : Option Name
  ident : Name
  opt : Bool
  vec : Bool
  base : Name
deriving Repr, DecidableEq

structure PStruct where
  derive : Option Name
  name : Name
  fields : List PField
deriving Repr, DecidableEq

def Field.plain (f : Field) : PField := ⟨f.rename, f.ident, f.opt, f.vec, f.base⟩
def StructDef.plain (s : StructDef) : PStruct := ⟨s.derive, s.name, s.fields.map Field.plain⟩

def stripPrefix? : Name → Name → Option Name
  | [], s => some s
  | _ :: _, [] => none
  | p :: ps, c :: cs => if p = c then stripPrefix? ps cs else none

def stripSuffix? (suf s : Name) : Option Name :=
  (stripPrefix? suf.reverse s.reverse).map List.reverse

def splitLines (s : Name) : List Name :=
  go s [] []
where
  go : Name → Name → List Name → List Name
    | [], cur, acc => (cur.reverse :: acc).reverse
    | c :: cs, cur, acc => if c = '\n' then go cs [] (cur.reverse :: acc) else go cs (c :: cur) acc

def parseTy (t : Name) : Bool × Bool × Name :=
  match stripPrefix? (cl!"Option<Vec<") t with
  | some r => (true, true, (stripSuffix? (cl!">>") r).getD r)
  | none =>
    match stripPrefix? (cl!"Option<") t with
    | some r => (true, false, (stripSuffix? (cl!">") r).getD r)
    | none =>
      match stripPrefix? (cl!"Vec<") t with
      | some r => (false, true, (stripSuffix? (cl!">") r).getD r)
      | none => (false, false, t)

/-- split `ident: type` at the first `": "` -/
def splitColon : Name → Name → Option (Name × Name)
  | [], _ => none
  | c :: cs, acc =>
    match stripPrefix? (cl!": ") (c :: cs) with
    | some r => some (acc.reverse, r)
    | none => splitColon cs (c :: acc)

structure ReadState where
  done : List PStruct := []
  cur : Option (Option Name × Name × List PField) := none
  pendingDerive : Option Name := none
  pendingRename : Option Name := none

def readLine (s : ReadState) (line : Name) : Option ReadState :=
  match s.cur with
  | none =>
    if line.isEmpty then some s
    else match stripPrefix? (cl!"#[derive(") line with
      | some r => (stripSuffix? (cl!")]") r).map fun d => { s with pendingDerive := some d }
      | none =>
        match stripPrefix? (cl!"pub struct ") line with
        | some r => (stripSuffix? (cl!" {") r).map fun n =>
            { s with cur := some (s.pendingDerive, n, []), pendingDerive := none }
        | none => none
  | some (d, n, fs) =>
    if line = cl!"}" then
      if s.pendingRename.isSome then none
      else some { s with done := s.done ++ [⟨d, n, fs⟩], cur := none }
    else match stripPrefix? (cl!"    #[serde(rename = \"") line with
      | some r =>
        if s.pendingRename.isSome then none
        else (stripSuffix? (cl!"\")]") r).map fun x => { s with pendingRename := some x }
      | none =>
        match stripPrefix? (cl!"    pub ") line with
        | some r =>
          match stripSuffix? (cl!",") r with
          | some body =>
            match splitColon body [] with
            | some (ident, ty) =>
              let (o, v, b) := parseTy ty
              some { s with cur := some (d, n, fs ++ [⟨s.pendingRename, ident, o, v, b⟩]), pendingRename := none }
            | none => none
          | none => none
        | none => none

/-- the struct items of a rendered source text; `none` if the text is not in the renderer's format -/
def readProgram (txt : Name) : Option (List PStruct) :=
  match (splitLines txt).foldl (fun st l => st.bind (readLine · l)) (some {}) with
  | some s => if s.cur.isNone ∧ s.pendingDerive.isNone ∧ s.pendingRename.isNone then some s.done else none
  | none => none

/-! ## legality of identifiers on the supported alphabet -/

/-- names over identifier characters and `-`, `.`, `:` whose first alphanumeric character is a letter,
all inside the supported alphabet (C04's domain) -/
def nameOK (n : Name) : Bool :=
  n.all (fun c => inSigma c && (isAlnum c || c = '_' || c = '-' || c = '.' || c = ':')) &&
  (match n.find? isAlnum with
   | some c => isLetter c
   | none => false)



def xidStart (c : Char) : Bool := isLetter c
def xidContinue (c : Char) : Bool := isAlnum c || c = '_'

/-- a legal, non-keyword Rust identifier (not `_`) -/
def legalIdent (n : Name) : Bool :=
  match n with
  | [] => false
  | c :: cs => (xidStart c || (c = '_' && !cs.isEmpty)) && cs.all xidContinue && !isKeyword n

/-- names a generated struct must not have according to C04 -/
def shadowedTypes : List Name := [cl!"String", cl!"Option", cl!"Vec"]

def legalTypeIdent (n : Name) : Bool := legalIdent n && !shadowedTypes.contains n

/-- how many fields of the program have the given base type -/
def usesOf (p : List PStruct) (n : Name) : Nat :=
  (p.flatMap fun s => s.fields.filter fun f => f.base = n).length

/-- C04: the program is a sequence of well-formed struct items with unique legal names whose types resolve -/
def WellFormed (p : List PStruct) : Prop :=
  (p.map (·.name)).Nodup ∧
  (∀ s ∈ p, legalTypeIdent s.name = true) ∧
  (∀ s ∈ p, (s.fields.map (·.ident)).Nodup ∧ ∀ f ∈ s.fields, legalIdent f.ident = true) ∧
  (∀ s ∈ p, ∀ f ∈ s.fields, f.base = stringTy ∨ f.base ∈ p.map (·.name)) ∧
  (∀ s ∈ p.tail, usesOf p s.name = 1)

instance (p : List PStruct) : Decidable (WellFormed p) := by unfold WellFormed; infer_instance

end Xsg
