import XsgModel.Model.Checks
/-!
# C02 / C13: what the third-party tools are assumed to accept (partial models)

`Compiles` and `accepts` are hand-written acceptance predicates for `rustc` + `serde_derive` and for
`quick_xml::de` / `serde_xml_rs` restricted to programs of the generated shape.  They are tied to the
real tools only by the compile-and-run correspondence.
-/
namespace Xsg

/-- names imported by `use serde::{Deserialize, Serialize};` -/
def serdeImports : List Name := [cl!"Serialize", cl!"Deserialize"]

/-- the program compiles (edition 2021, serde's derive macros in scope): well-formed items, and no struct
collides with the imported trait names -/
def Compiles (p : List PStruct) : Prop := WellFormed p ∧ ∀ s ∈ p, s.name ∉ serdeImports

instance (p : List PStruct) : Decidable (Compiles p) := by unfold Compiles; infer_instance

/-- C02's precondition on one document: no element mixes (non-whitespace) text with child elements.
The harness reports whitespace-only text as absent for this predicate (`dataDoc` is evaluated on the
document as seen with `trim_text`). -/
def Node.dataOriented : Node → Bool
  | .mk _ _ _ items => (!(items.hasText) || items.childNames.isEmpty) && goItems items
where
  goItems : Items → Bool
    | .nil => true
    | .elem n r => n.dataOriented && goItems r
    | .text _ r => goItems r
    | .other r => goItems r

/-- every element and attribute name satisfies `p` -/
def Node.allNames (p : Name → Bool) : Node → Bool
  | .mk n as _ items => p n && as.all p && goItems items
where
  goItems : Items → Bool
    | .nil => true
    | .elem n r => n.allNames p && goItems r
    | .text _ r => goItems r
    | .other r => goItems r

/-- identifier characters and `-`, `.`, `:`, a letter before any digit, inside the supported alphabet -/
def dataName (n : Name) : Bool :=
  n.all (fun c => inSigma c && (isAlnum c || c = '_' || c = '-' || c = '.' || c = ':')) &&
  (match n.find? isAlnum with
   | some c => isLetter c
   | none => false)

/-- C13: repeated children are adjacent -/
def Items.adjacentRepeats : Items → Bool
  | items => go [] none items
where
  go (closed : List Name) (cur : Option Name) : Items → Bool
    | .nil => true
    | .elem n r =>
      if cur = some n.name then go closed cur r
      else if closed.contains n.name then false
      else go (match cur with | some c => c :: closed | none => closed) (some n.name) r
    | .text _ r => go closed cur r
    | .other r => go closed cur r

/-- C13's precondition on one document -/
def Node.sxrScope : Node → Bool
  | .mk n as _ items =>
    !n.contains ':' && as.all (fun a => !a.contains ':' && a ≠ cl!"xmlns") &&
    as.all (fun a => !items.childNames.contains a) && items.adjacentRepeats && goItems items
where
  goItems : Items → Bool
    | .nil => true
    | .elem n r => n.sxrScope && goItems r
    | .text _ r => goItems r
    | .other r => goItems r

end Xsg
