import XsgModel.Model.Names
/-!
# `src/element/identifier.rs` 22-97: unique, valid field identifiers
-/
namespace Xsg

inductive IType | text | attr | child
deriving DecidableEq, Repr

/-- the name `create_unused_name` starts its suffix loop with (after at most one recursive call) -/
def identBase (reserved : List Name) (name : Name) (ty : IType) : Name :=
  if ty = .text ∧ name = cl!"text" ∧ reserved.contains name then cl!"text_content"
  else if ty = .attr ∧ reserved.contains name ∧ ¬ (cl!"_attr").isSuffixOf name then name ++ cl!"_attr"
  else name

/-- `ReservedNames::create_unused_name`; the new reserved list is `reserved ++ [result]` -/
def createUnused (reserved : List Name) (name : Name) (ty : IType) : Name :=
  let base := identBase reserved name ty
  firstFree reserved base (fun i => base ++ ['_'] ++ dec i)

structure IdentMap where
  child : List (Name × Name)
  attr : List (Name × Name)
  text : Name
deriving Repr

/-- one loop of `Map::new`: names are reserved in list order -/
def identLoop (pre : Name) (ty : IType) : List Name → List Name → List (Name × Name) → List Name × List (Name × Name)
  | [], reserved, acc => (reserved, acc)
  | real :: rest, reserved, acc =>
    let nm := createUnused reserved (validKey pre real) ty
    identLoop pre ty rest (reserved ++ [nm]) (acc ++ [(real, nm)])

/-- `Map::new(element)`: children first (stored order), then attributes, then the text identifier -/
def identMap (e : Elem) : IdentMap :=
  let (r1, ch) := identLoop e.name .child (e.children.map (·.2.name)) [] []
  let (r2, att) := identLoop e.name .attr (e.attrs.map (·.2)) r1 []
  { child := ch, attr := att, text := createUnused r2 (cl!"text") .text }

/-- `HashMap::get` after `insert`s in list order: the last binding wins -/
def identLookup (m : List (Name × Name)) (k : Name) : Option Name :=
  (m.reverse.find? (fun p => p.1 = k)).map (·.2)

end Xsg
