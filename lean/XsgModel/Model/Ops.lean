import XsgModel.Model.Element
/-!
# C16: the public construction operations, addressed by a path of child names
-/
namespace Xsg

/-- apply `f` to the payload of the first child with the given name (`get_child_mut`) -/
def modifyFirst (cs : List (Nec × Elem)) (n : Name) (f : Elem → Elem) : List (Nec × Elem) :=
  match cs with
  | [] => []
  | d :: ds => if d.2.name = n then (d.1, f d.2) :: ds else d :: modifyFirst ds n f

/-- follow `get_child_mut` along the path and apply `f` there; nothing happens if a step is missing -/
def modifyAt : List Name → (Elem → Elem) → Elem → Elem
  | [], f, e => f e
  | p :: ps, f, e => e.setChildren (modifyFirst e.children p (modifyAt ps f))

/-- follow `get_child` along the path -/
def elemAt : List Name → Elem → Option Elem
  | [], e => some e
  | p :: ps, e => match getChild e.children p with
    | some (_, c) => elemAt ps c
    | none => none

inductive Op where
  | add (path : List Name) (name : Name) (attrs : List Name)   -- add_unique_child(Element::new(name, attrs))
  | setOptional (path : List Name) (name : Name)               -- set_child_optional
  | remove (path : List Name) (name : Name)                    -- remove_child
  | mergeAttr (path : List Name) (l : List (Nec × Name))       -- merge_attr
  | setMultiple (path : List Name)                             -- set_multiple
  | setText (path : List Name)                                 -- text = Some(..)
  | get (path : List Name) (name : Name)                       -- get_child (observation only)
  | move (src : List Name) (name : Name) (dst : List Name)     -- add_unique_child(remove_child(name).into_inner_t()): a child that carries its position and subtree
deriving Repr

/-- what an operation returns: the name and tag of the child found by `remove_child` / `get_child` -/
abbrev OpResult := Option (Nec × Name)

def applyOp (t : Elem) : Op → Elem × OpResult
  | .add path name attrs => (modifyAt path (fun e => e.setChildren (addUniqueChild e.children (Elem.new name attrs))) t, none)
  | .setOptional path name => (modifyAt path (fun e => e.setChildren (setChildOptional e.children name)) t, none)
  | .remove path name =>
    (modifyAt path (fun e => e.setChildren (eraseChild e.children name)) t,
     (elemAt path t).bind fun e => (getChild e.children name).map fun c => (c.1, c.2.name))
  | .mergeAttr path l => (modifyAt path (fun e => e.mergeAttr l) t, none)
  | .setMultiple path => (modifyAt path Elem.setMultiple t, none)
  | .setText path => (modifyAt path (fun e => e.setText true) t, none)
  | .get path name => (t, (elemAt path t).bind fun e => (getChild e.children name).map fun c => (c.1, c.2.name))
  | .move src name dst =>
    match (elemAt src t).bind fun e => getChild e.children name with
    | none => (t, none)
    | some c =>
      -- taken out of its parent, then handed to `add_unique_child` of the destination (dropped if that no longer exists)
      let t1 := modifyAt src (fun e => e.setChildren (eraseChild e.children name)) t
      (modifyAt dst (fun e => e.setChildren (addUniqueChild e.children c.2)) t1, some (c.1, c.2.name))

/-- the pinned (pre-F3) semantics of `add` -/
def applyOpPinned (t : Elem) : Op → Elem × OpResult
  | .add path name attrs => (modifyAt path (fun e => e.setChildren (addUniqueChildPinned e.children (Elem.new name attrs))) t, none)
  | op => applyOp t op

/-- C16's invariant: child names are unique under every parent -/
def Elem.Inv : Elem → Bool
  | .mk _ _ _ _ _ cs _ => decide ((cs.map fun c => c.2.name).Nodup) && invKids cs
where
  invKids : List (Nec × Elem) → Bool
    | [] => true
    | (_, e) :: rest => e.Inv && invKids rest

end Xsg
