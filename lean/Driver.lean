import XsgModel.Driver.Other
import XsgModel.Driver.Deser
open Xsg Xsg.Proto Xsg.Driver

def handleLine (line : String) : String :=
  match (line.trimAscii.toString.splitOn " ").filter (· ≠ "") with
  | "H" :: id :: prop :: rest =>
    match pHBody rest with
    | some (c, []) => s!"{id} {prop} {(checkH prop c).render}"
    | some (_, extra) => s!"{id} {prop} BAD trailing-tokens {extra.length}"
    | none => s!"{id} {prop} BAD unparsable-case"
  | "L" :: id :: prop :: rest =>
    match handleL rest with
    | some v => s!"{id} {prop} {v.render}"
    | none => s!"{id} {prop} BAD unparsable-case"
  | "O" :: id :: prop :: rest =>
    match handleO rest with
    | some v => s!"{id} {prop} {v.render}"
    | none => s!"{id} {prop} BAD unparsable-case"
  | "SUB" :: id :: prop :: rest =>
    match handleSub rest with
    | some v => s!"{id} {prop} {v.render}"
    | none => s!"{id} {prop} BAD unparsable-case"
  | "PAIR" :: id :: prop :: rest =>
    match handlePair prop rest with
    | some v => s!"{id} {prop} {v.render}"
    | none => s!"{id} {prop} BAD unparsable-case"
  | "U" :: id :: prop :: rest =>
    match handleU rest with
    | some v => s!"{id} {prop} {v.render}"
    | none => s!"{id} {prop} BAD unparsable-case"
  | "V" :: id :: prop :: rest =>
    match handleV rest with
    | some v => s!"{id} {prop} {v.render}"
    | none => s!"{id} {prop} BAD unparsable-case"
  | "X" :: id :: prop :: rest =>
    match handleX rest with
    | some v => s!"{id} {prop} {v.render}"
    | none => s!"{id} {prop} BAD unparsable-case"
  | "D" :: id :: prop :: rest =>
    match handleD prop rest with
    | some v => s!"{id} {prop} {v.render}"
    | none => s!"{id} {prop} BAD unparsable-case"
  | "E" :: id :: prop :: rest =>
    match handleE rest with
    | some (v, info) => s!"{id} {prop} {v.render}\n{id}.info {prop} GEN {info.compared} {info.skipped} {info.rejected}"
    | none => s!"{id} {prop} BAD unparsable-case"
  | "P" :: id :: prop :: rest =>
    match handleP rest with
    | some v => s!"{id} {prop} {v.render}"
    | none => s!"{id} {prop} BAD unparsable-case"
  | [] => ""
  | kind :: id :: _ => s!"{id} ? BAD unknown-kind {kind}"
  | [x] => s!"{x} ? BAD short-line"

partial def loop (h : IO.FS.Stream) (out : IO.FS.Stream) : IO Unit := do
  let line ← h.getLine
  if line.isEmpty then return ()
  let r := handleLine line
  if r ≠ "" then out.putStrLn r
  loop h out

def main : IO Unit := do
  let stdin ← IO.getStdin
  let stdout ← IO.getStdout
  loop stdin stdout
