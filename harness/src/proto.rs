//! token encoding of the line protocol shared with the Lean driver
use xml_schema_generator::Options;

pub fn enc(s: &str) -> String {
    if s.is_empty() {
        return "-".to_string();
    }
    let mut out = String::new();
    for (i, c) in s.chars().enumerate() {
        if i > 0 {
            out.push('.');
        }
        out.push_str(&(c as u32).to_string());
    }
    out
}

#[derive(Clone, Debug, PartialEq)]
pub struct OptRec {
    pub text_identifier: String,
    pub attribute_prefix: String,
    pub derive: String,
    pub sort_by_name: bool,
}

impl OptRec {
    pub fn quick() -> Self {
        OptRec { text_identifier: "$text".into(), attribute_prefix: "@".into(), derive: "Serialize, Deserialize".into(), sort_by_name: false }
    }
    pub fn quick_sorted() -> Self {
        OptRec { sort_by_name: true, ..Self::quick() }
    }
    pub fn sxr() -> Self {
        OptRec { attribute_prefix: "".into(), ..Self::quick() }
    }
    pub fn to_options(&self) -> Options {
        // the derive string goes through the public builder, as a caller's would
        // start from a preset and assign the public fields, so that a field added to `Options` does not stop the harness
        let mut o = Options::quick_xml_de();
        o.text_identifier = self.text_identifier.clone();
        o.attribute_prefix = self.attribute_prefix.clone();
        o.derive = String::new();
        o.sort = if self.sort_by_name { xml_schema_generator::SortBy::XmlName } else { xml_schema_generator::SortBy::Unsorted };
        o
        .derive(&self.derive)
    }
    pub fn tokens(&self) -> String {
        format!("OP {} {} {} {}", enc(&self.text_identifier), enc(&self.attribute_prefix), enc(&self.derive), if self.sort_by_name { "N" } else { "U" })
    }
}
