//! parse the `{:?}` rendering of `Element<String>` (all seven fields, private ones included) into protocol tokens
//!
//! `Element { name: "r", text: None, standalone: true, count: 1, attributes: [Mandatory("a")], children: [Optional(Element { .. })], position: Some(0) }`

use crate::proto::enc;

pub struct DElem {
    pub name: String,
    pub text: bool,
    pub standalone: bool,
    pub count: u64,
    pub attrs: Vec<(bool, String)>, // (mandatory, name)
    pub children: Vec<(bool, DElem)>,
    pub position: Option<u64>,
}

struct Cur<'a> {
    s: &'a [char],
    i: usize,
}

impl<'a> Cur<'a> {
    fn eat(&mut self, lit: &str) -> Result<(), String> {
        for c in lit.chars() {
            if self.s.get(self.i) != Some(&c) {
                return Err(format!("expected {:?} at {}", lit, self.i));
            }
            self.i += 1;
        }
        Ok(())
    }
    fn peek_is(&self, lit: &str) -> bool {
        let l: Vec<char> = lit.chars().collect();
        self.s.len() >= self.i + l.len() && self.s[self.i..self.i + l.len()] == l[..]
    }
    fn string(&mut self) -> Result<String, String> {
        self.eat("\"")?;
        let mut out = String::new();
        loop {
            let c = *self.s.get(self.i).ok_or("eof in string")?;
            self.i += 1;
            match c {
                '"' => return Ok(out),
                '\\' => {
                    let e = *self.s.get(self.i).ok_or("eof in escape")?;
                    self.i += 1;
                    match e {
                        'n' => out.push('\n'),
                        'r' => out.push('\r'),
                        't' => out.push('\t'),
                        '0' => out.push('\0'),
                        '\\' => out.push('\\'),
                        '"' => out.push('"'),
                        '\'' => out.push('\''),
                        'u' => {
                            self.eat("{")?;
                            let mut v = 0u32;
                            while self.s.get(self.i) != Some(&'}') {
                                v = v * 16 + self.s.get(self.i).and_then(|c| c.to_digit(16)).ok_or("bad hex")?;
                                self.i += 1;
                            }
                            self.i += 1;
                            out.push(char::from_u32(v).ok_or("bad scalar")?);
                        }
                        other => return Err(format!("unknown escape {:?}", other)),
                    }
                }
                c => out.push(c),
            }
        }
    }
    fn number(&mut self) -> Result<u64, String> {
        let start = self.i;
        while self.s.get(self.i).map_or(false, |c| c.is_ascii_digit()) {
            self.i += 1;
        }
        self.s[start..self.i].iter().collect::<String>().parse::<u64>().map_err(|e| e.to_string())
    }
    fn boolean(&mut self) -> Result<bool, String> {
        if self.peek_is("true") {
            self.eat("true")?;
            Ok(true)
        } else {
            self.eat("false")?;
            Ok(false)
        }
    }
    fn nec(&mut self) -> Result<bool, String> {
        if self.peek_is("Mandatory(") {
            self.eat("Mandatory(")?;
            Ok(true)
        } else {
            self.eat("Optional(")?;
            Ok(false)
        }
    }
    fn elem(&mut self) -> Result<DElem, String> {
        self.eat("Element { name: ")?;
        let name = self.string()?;
        self.eat(", text: ")?;
        let text = if self.peek_is("None") {
            self.eat("None")?;
            false
        } else {
            self.eat("Some(")?;
            self.string()?;
            self.eat(")")?;
            true
        };
        self.eat(", standalone: ")?;
        let standalone = self.boolean()?;
        self.eat(", count: ")?;
        let count = self.number()?;
        self.eat(", attributes: [")?;
        let mut attrs = Vec::new();
        while !self.peek_is("]") {
            if !attrs.is_empty() {
                self.eat(", ")?;
            }
            let m = self.nec()?;
            let a = self.string()?;
            self.eat(")")?;
            attrs.push((m, a));
        }
        self.eat("], children: [")?;
        let mut children = Vec::new();
        while !self.peek_is("]") {
            if !children.is_empty() {
                self.eat(", ")?;
            }
            let m = self.nec()?;
            let c = self.elem()?;
            self.eat(")")?;
            children.push((m, c));
        }
        self.eat("], position: ")?;
        let position = if self.peek_is("None") {
            self.eat("None")?;
            None
        } else {
            self.eat("Some(")?;
            let n = self.number()?;
            self.eat(")")?;
            Some(n)
        };
        self.eat(" }")?;
        Ok(DElem { name, text, standalone, count, attrs, children, position })
    }
}

pub fn parse(debug: &str) -> Result<DElem, String> {
    let chars: Vec<char> = debug.chars().collect();
    let mut c = Cur { s: &chars, i: 0 };
    let e = c.elem()?;
    if c.i != chars.len() {
        return Err("trailing characters".into());
    }
    Ok(e)
}

impl DElem {
    pub fn tokens(&self, out: &mut String) {
        out.push_str(&format!(
            "E {} {} {} {} {} A{}",
            enc(&self.name),
            self.text as u8,
            self.standalone as u8,
            self.count,
            self.position.map_or("-".to_string(), |p| p.to_string()),
            self.attrs.len()
        ));
        for (m, a) in &self.attrs {
            out.push_str(&format!(" {} {}", if *m { "M" } else { "O" }, enc(a)));
        }
        out.push_str(&format!(" C{}", self.children.len()));
        for (m, c) in &self.children {
            out.push_str(if *m { " M " } else { " O " });
            c.tokens(out);
        }
    }
    pub fn node_count(&self) -> usize {
        1 + self.children.iter().map(|c| c.1.node_count()).sum::<usize>()
    }
    pub fn count_optional(&self) -> usize {
        self.attrs.iter().filter(|a| !a.0).count() + self.children.iter().map(|c| (!c.0) as usize + c.1.count_optional()).sum::<usize>()
    }
    pub fn count_multi(&self) -> usize {
        self.children.iter().map(|c| (!c.1.standalone) as usize + c.1.count_multi()).sum::<usize>()
    }
}
