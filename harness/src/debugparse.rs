//! parse the `{:?}` rendering of `Element<String>` (all seven fields, private ones included) into protocol tokens
//!
//! `Element { name: "r", text: None, standalone: true, count: 1, attributes: [Mandatory("a")], children: [Optional(Element { .. })], position: Some(0) }`

use crate::proto::enc;

pub struct DElem {
    pub name: String,
    pub text: bool,
    pub standalone: bool,
    pub count: u64,
    pub attrs: Vec<(bool, String)>, // (mandatory, name)
    pub children: Vec<(bool, DElem)>,
    pub position: Option<u64>,
}

struct Cur<'a> {
    s: &'a [char],
    i: usize,
}

impl<'a> Cur<'a> {
    fn eat(&mut self, lit: &str) -> Result<(), String> {
        for c in lit.chars() {
            if self.s.get(self.i) != Some(&c) {
                return Err(format!("expected {:?} at {}", lit, self.i));
            }
            self.i += 1;
        }
        Ok(())
    }
    fn peek_is(&self, lit: &str) -> bool {
        let l: Vec<char> = lit.chars().collect();
        self.s.len() >= self.i + l.len() && self.s[self.i..self.i + l.len()] == l[..]
    }
    fn string(&mut self) -> Result<String, String> {
        self.eat("\"")?;
        let mut out = String::new();
        loop {
            let c = *self.s.get(self.i).ok_or("eof in string")?;
            self.i += 1;
            match c {
                '"' => return Ok(out),
                '\\' => {
                    let e = *self.s.get(self.i).ok_or("eof in escape")?;
                    self.i += 1;
                    match e {
                        'n' => out.push('\n'),
                        'r' => out.push('\r'),
                        't' => out.push('\t'),
                        '0' => out.push('\0'),
                        '\\' => out.push('\\'),
                        '"' => out.push('"'),
                        '\'' => out.push('\''),
                        'u' => {
                            self.eat("{")?;
                            let mut v = 0u32;
                            while self.s.get(self.i) != Some(&'}') {
                                v = v * 16 + self.s.get(self.i).and_then(|c| c.to_digit(16)).ok_or("bad hex")?;
                                self.i += 1;
                            }
                            self.i += 1;
                            out.push(char::from_u32(v).ok_or("bad scalar")?);
                        }
                        other => return Err(format!("unknown escape {:?}", other)),
                    }
                }
                c => out.push(c),
            }
        }
    }
    fn number(&mut self) -> Result<u64, String> {
        let start = self.i;
        while self.s.get(self.i).map_or(false, |c| c.is_ascii_digit()) {
            self.i += 1;
        }
        self.s[start..self.i].iter().collect::<String>().parse::<u64>().map_err(|e| e.to_string())
    }
    fn boolean(&mut self) -> Result<bool, String> {
        if self.peek_is("true") {
            self.eat("true")?;
            Ok(true)
        } else {
            self.eat("false")?;
            Ok(false)
        }
    }
    fn nec(&mut self) -> Result<bool, String> {
        if self.peek_is("Mandatory(") {
            self.eat("Mandatory(")?;
            Ok(true)
        } else {
            self.eat("Optional(")?;
            Ok(false)
        }
    }
    fn ident(&mut self) -> String {
        let start = self.i;
        while self.s.get(self.i).map_or(false, |c| c.is_alphanumeric() || *c == '_') {
            self.i += 1;
        }
        self.s[start..self.i].iter().collect()
    }
    fn skip_ws(&mut self) {
        while self.s.get(self.i).map_or(false, |c| c.is_whitespace()) {
            self.i += 1;
        }
    }
    /// any value of a derived `Debug` rendering (`{:?}`, not the pretty form)
    fn value(&mut self) -> Result<V, String> {
        self.skip_ws();
        match self.s.get(self.i) {
            Some('"') => Ok(V::Str(self.string()?)),
            Some('[') => {
                self.i += 1;
                let mut items = Vec::new();
                loop {
                    self.skip_ws();
                    if self.peek_is("]") {
                        self.i += 1;
                        return Ok(V::List(items));
                    }
                    if !items.is_empty() {
                        self.eat(",")?;
                    }
                    items.push(self.value()?);
                }
            }
            Some(c) if c.is_ascii_digit() => Ok(V::Num(self.number()?)),
            Some(c) if c.is_alphabetic() || *c == '_' => {
                let id = self.ident();
                match id.as_str() {
                    "true" => return Ok(V::Bool(true)),
                    "false" => return Ok(V::Bool(false)),
                    _ => {}
                }
                if self.peek_is("(") {
                    self.i += 1;
                    let mut items = Vec::new();
                    loop {
                        self.skip_ws();
                        if self.peek_is(")") {
                            self.i += 1;
                            return Ok(V::Tuple(id, items));
                        }
                        if !items.is_empty() {
                            self.eat(",")?;
                        }
                        items.push(self.value()?);
                    }
                }
                if self.peek_is(" {") {
                    self.eat(" {")?;
                    let mut fields = Vec::new();
                    loop {
                        self.skip_ws();
                        if self.peek_is("}") {
                            self.i += 1;
                            return Ok(V::Struct(id, fields));
                        }
                        if !fields.is_empty() {
                            self.eat(",")?;
                            self.skip_ws();
                        }
                        let f = self.ident();
                        self.eat(":")?;
                        fields.push((f, self.value()?));
                    }
                }
                Ok(V::Tuple(id, Vec::new()))
            }
            other => Err(format!("unexpected {:?} at {}", other, self.i)),
        }
    }
}

/// a value of a derived `Debug` rendering
#[derive(Debug, Clone)]
enum V {
    Str(String),
    Num(u64),
    Bool(bool),
    List(Vec<V>),
    Tuple(String, Vec<V>),
    Struct(String, Vec<(String, V)>),
}

fn is_nec(v: &V) -> Option<(bool, &V)> {
    match v {
        V::Tuple(n, items) if items.len() == 1 && (n == "Mandatory" || n == "Optional") => Some((n == "Mandatory", &items[0])),
        _ => None,
    }
}

/// the seven parts of an element, found by field name where the names are the expected ones and otherwise by the
/// shape of the value (so that reordered or renamed private fields do not stop the harness)
fn interpret(v: &V) -> Result<DElem, String> {
    let fields = match v {
        V::Struct(_, f) => f,
        other => return Err(format!("not a struct: {:?}", other)),
    };
    let by_name = |n: &str| fields.iter().find(|(k, _)| k == n).map(|(_, v)| v);
    let name = match by_name("name") {
        Some(V::Str(s)) => s.clone(),
        _ => return Err("no field `name`".into()),
    };
    let text = match by_name("text") {
        Some(V::Tuple(n, items)) if n == "Some" && items.len() == 1 => true,
        Some(V::Tuple(n, items)) if n == "None" && items.is_empty() => false,
        _ => return Err("no field `text`".into()),
    };
    let rest: Vec<&(String, V)> = fields.iter().filter(|(k, _)| k != "name" && k != "text").collect();
    let pick = |expected: &str, shape: &dyn Fn(&V) -> bool| -> Result<&V, String> {
        if let Some((_, v)) = rest.iter().find(|(k, v)| k == expected && shape(v)) {
            return Ok(v);
        }
        let cands: Vec<&&(String, V)> = rest.iter().filter(|(_, v)| shape(v)).collect();
        match cands.len() {
            1 => Ok(&cands[0].1),
            n => Err(format!("{} candidates for the field `{}`", n, expected)),
        }
    };
    let standalone = match pick("standalone", &|v| matches!(v, V::Bool(_)))? {
        V::Bool(b) => *b,
        _ => unreachable!(),
    };
    let count = match pick("count", &|v| matches!(v, V::Num(_)))? {
        V::Num(n) => *n,
        _ => unreachable!(),
    };
    let position = match pick("position", &|v| matches!(v, V::Tuple(n, items) if (n == "None" && items.is_empty()) || (n == "Some" && matches!(items.as_slice(), [V::Num(_)]))))? {
        V::Tuple(n, items) if n == "Some" => match items.as_slice() {
            [V::Num(p)] => Some(*p),
            _ => None,
        },
        _ => None,
    };
    // the two lists: by name, otherwise by what they contain
    let lists: Vec<&&(String, V)> = rest.iter().filter(|(_, v)| matches!(v, V::List(_))).collect();
    let is_attr_list = |v: &V| matches!(v, V::List(items) if items.iter().all(|i| matches!(is_nec(i), Some((_, V::Str(_))))));
    let is_child_list = |v: &V| matches!(v, V::List(items) if items.iter().all(|i| matches!(is_nec(i), Some((_, V::Struct(_, _))))));
    let attrs_v = match lists.iter().find(|(k, v)| k == "attributes" && is_attr_list(v)) {
        Some((_, v)) => v,
        None => match lists.iter().filter(|(k, v)| k != "children" && is_attr_list(v)).collect::<Vec<_>>().as_slice() {
            [one] => &one.1,
            l if !l.is_empty() && l.iter().all(|c| matches!(&c.1, V::List(i) if i.is_empty())) => &l[0].1,
            l => return Err(format!("{} candidates for the attribute list", l.len())),
        },
    };
    let children_v = match lists.iter().find(|(k, v)| k == "children" && is_child_list(v)) {
        Some((_, v)) => v,
        None => match lists.iter().filter(|(k, v)| k != "attributes" && is_child_list(v) && !std::ptr::eq(v, attrs_v)).collect::<Vec<_>>().as_slice() {
            [one] => &one.1,
            l if !l.is_empty() && l.iter().all(|c| matches!(&c.1, V::List(i) if i.is_empty())) => &l[0].1,
            l => return Err(format!("{} candidates for the child list", l.len())),
        },
    };
    let mut attrs = Vec::new();
    if let V::List(items) = attrs_v {
        for i in items {
            if let Some((m, V::Str(a))) = is_nec(i) {
                attrs.push((m, a.clone()));
            }
        }
    }
    let mut children = Vec::new();
    if let V::List(items) = children_v {
        for i in items {
            if let Some((m, c)) = is_nec(i) {
                children.push((m, interpret(c)?));
            }
        }
    }
    Ok(DElem { name, text, standalone, count, attrs, children, position })
}

pub fn parse(debug: &str) -> Result<DElem, String> {
    let chars: Vec<char> = debug.chars().collect();
    let mut c = Cur { s: &chars, i: 0 };
    let v = c.value()?;
    c.skip_ws();
    if c.i != chars.len() {
        return Err("trailing characters".into());
    }
    interpret(&v)
}

impl DElem {
    pub fn tokens(&self, out: &mut String) {
        out.push_str(&format!(
            "E {} {} {} {} {} A{}",
            enc(&self.name),
            self.text as u8,
            self.standalone as u8,
            self.count,
            self.position.map_or("-".to_string(), |p| p.to_string()),
            self.attrs.len()
        ));
        for (m, a) in &self.attrs {
            out.push_str(&format!(" {} {}", if *m { "M" } else { "O" }, enc(a)));
        }
        out.push_str(&format!(" C{}", self.children.len()));
        for (m, c) in &self.children {
            out.push_str(if *m { " M " } else { " O " });
            c.tokens(out);
        }
    }
    pub fn node_count(&self) -> usize {
        1 + self.children.iter().map(|c| c.1.node_count()).sum::<usize>()
    }
    pub fn count_optional(&self) -> usize {
        self.attrs.iter().filter(|a| !a.0).count() + self.children.iter().map(|c| (!c.0) as usize + c.1.count_optional()).sum::<usize>()
    }
    pub fn count_multi(&self) -> usize {
        self.children.iter().map(|c| (!c.1.standalone) as usize + c.1.count_multi()).sum::<usize>()
    }
}
