//! C12: run the real binary built from /repo's working tree in a fresh directory per scenario
use crate::proto::{enc, OptRec};
use crate::record::{self, ReaderCfg};
use crate::run::{Case, LineOut, Meta};
use serde_json::{json, Value};
use std::process::Command;
use std::sync::atomic::{AtomicUsize, Ordering};

pub const REPO_TARGET: &str = "/verif/.build/repo-target";
pub const REPO_BIN: &str = "/verif/.build/repo-target/release/xml_schema_generator";

static COUNTER: AtomicUsize = AtomicUsize::new(0);

#[derive(Clone, Debug)]
pub enum InputKind {
    Bytes(Vec<u8>), // written to the input file as is (valid, malformed or not UTF-8)
    Missing,
    Directory,
}

#[derive(Clone, Debug)]
pub enum OutKind {
    Stdout,
    NewFile,
    Existing(String),
    /// the output path is the input path
    SameAsInput,
    /// an existing output file whose content is made from the expected result: `identical`, `crlf` (same lines, CRLF ends),
    /// `half` (its first half), `extra-newline`
    Derived(String),
    MissingDir,
    IsDirectory,
}

#[derive(Clone, Debug)]
pub struct CliCase {
    pub input: InputKind,
    pub label: String,
    pub parser: Option<String>, // None = option absent
    pub derive: Option<String>,
    pub sort: Option<String>,
    pub output: OutKind,
}

pub fn build_repo_binary() -> Result<(), String> {
    let out = Command::new("cargo")
        .args(["build", "--release", "--offline", "--manifest-path", "/repo/Cargo.toml", "--target-dir", REPO_TARGET, "--bin", "xml_schema_generator"])
        .env("CARGO_NET_OFFLINE", "true")
        .output()
        .map_err(|e| e.to_string())?;
    if out.status.success() {
        Ok(())
    } else {
        Err(String::from_utf8_lossy(&out.stderr).to_string())
    }
}

impl Case for CliCase {
    fn line(&self, id: &str, prop: &str) -> LineOut {
        let n = COUNTER.fetch_add(1, Ordering::SeqCst);
        let dir = format!("/verif/.build/cli/{}-{}", std::process::id(), n);
        let _ = std::fs::remove_dir_all(&dir);
        if let Err(e) = std::fs::create_dir_all(&dir) {
            return LineOut::Harness(e.to_string());
        }
        let input_path = format!("{}/input.xml", dir);
        let input_tokens = match &self.input {
            InputKind::Bytes(b) => {
                if let Err(e) = std::fs::write(&input_path, b) {
                    return LineOut::Harness(e.to_string());
                }
                if std::str::from_utf8(b).is_ok() {
                    format!("content {}", record::record(b, ReaderCfg::default_cfg()).0)
                } else {
                    "notutf8".to_string()
                }
            }
            InputKind::Missing => "missing".to_string(),
            InputKind::Directory => {
                let _ = std::fs::create_dir_all(&input_path);
                "unreadable".to_string()
            }
        };
        // the library's own rendering for these options
        let opt = OptRec {
            attribute_prefix: if self.parser.as_deref() == Some("serde-xml-rs") { "".into() } else { "@".into() },
            text_identifier: "$text".into(),
            derive: self.derive.clone().unwrap_or_else(|| "Serialize, Deserialize".into()),
            sort_by_name: self.sort.as_deref() == Some("name"),
        };
        let lib = match &self.input {
            InputKind::Bytes(b) => match std::str::from_utf8(b) {
                Ok(s) => {
                    let mut reader = quick_xml::reader::Reader::from_str(s);
                    match std::panic::catch_unwind(std::panic::AssertUnwindSafe(|| xml_schema_generator::into_struct(&mut reader).ok().map(|e| e.to_serde_struct(&opt.to_options())))) {
                        Ok(r) => r,
                        Err(_) => None,
                    }
                }
                Err(_) => None,
            },
            _ => None,
        };
        let (out_arg, out_tokens): (Option<String>, String) = match &self.output {
            OutKind::Stdout => (None, "stdout".into()),
            OutKind::NewFile => (Some(format!("{}/out.rs", dir)), "file 1 ~".into()),
            OutKind::Existing(c) => {
                let p = format!("{}/out.rs", dir);
                let _ = std::fs::write(&p, c);
                (Some(p), format!("file 1 {}", enc(c)))
            }
            OutKind::SameAsInput => match &self.input {
                InputKind::Bytes(b) => (Some(input_path.clone()), format!("file 1 {}", enc(&String::from_utf8_lossy(b)))),
                _ => (Some(format!("{}/out.rs", dir)), "file 1 ~".into()),
            },
            OutKind::Derived(how) => {
                let p = format!("{}/out.rs", dir);
                let expected = format!("use serde::{{Deserialize, Serialize}};\n\n{}", lib.clone().unwrap_or_default());
                let c = match how.as_str() {
                    "crlf" => expected.replace('\n', "\r\n"),
                    "half" => expected.chars().take(expected.chars().count() / 2).collect(),
                    "extra-newline" => format!("{}\n", expected),
                    _ => expected,
                };
                let _ = std::fs::write(&p, &c);
                (Some(p), format!("file 1 {}", enc(&c)))
            }
            OutKind::MissingDir => (Some(format!("{}/no/such/dir/out.rs", dir)), "file 0 ~".into()),
            OutKind::IsDirectory => {
                let p = format!("{}/outdir", dir);
                let _ = std::fs::create_dir_all(&p);
                (Some(p), "file 0 ~".into())
            }
        };
        let mut cmd = Command::new(REPO_BIN);
        if let Some(p) = &self.parser {
            cmd.arg("--parser").arg(p);
        }
        if let Some(d) = &self.derive {
            cmd.arg("--derive").arg(d);
        }
        if let Some(s) = &self.sort {
            cmd.arg("--sort").arg(s);
        }
        cmd.arg(&input_path);
        if let Some(o) = &out_arg {
            cmd.arg(o);
        }
        cmd.env_remove("RUST_LOG");
        let out = match cmd.output() {
            Ok(o) => o,
            Err(e) => return LineOut::Harness(format!("cannot run {}: {}", REPO_BIN, e)),
        };
        let exit = match out.status.code() {
            Some(c) => c,
            None => {
                let _ = std::fs::remove_dir_all(&dir);
                return LineOut::ImplFailure(format!("the program was killed by a signal: {}", out.status));
            }
        };
        let stdout = String::from_utf8_lossy(&out.stdout).to_string();
        let file_after = match &out_arg {
            Some(p) => match std::fs::read(p) {
                Ok(b) => Some(String::from_utf8_lossy(&b).to_string()),
                Err(_) => None,
            },
            None => None,
        };
        let _ = std::fs::remove_dir_all(&dir);
        let args_tokens = format!(
            "{} {} {}",
            if self.parser.as_deref() == Some("serde-xml-rs") { "S" } else { "Q" },
            match &self.derive {
                Some(d) => enc(d),
                None => "~".into(),
            },
            if self.sort.as_deref() == Some("name") { "N" } else { "U" }
        );
        let line = format!(
            "X {} {} {} {} {} OBS {} {} {} {} LIB {}",
            id,
            prop,
            input_tokens,
            args_tokens,
            out_tokens,
            exit,
            enc(&stdout),
            (!out.stderr.is_empty()) as u8,
            match &file_after {
                Some(f) => enc(f),
                None => "~".into(),
            },
            match &lib {
                Some(l) => enc(l),
                None => "~".into(),
            }
        );
        let default_run = self.parser.is_none() && self.derive.is_none() && self.sort.is_none() && matches!(self.output, OutKind::Stdout) && lib.is_some();
        LineOut::Line(
            line,
            Meta {
                nontrivial: !default_run,
                metrics: vec![("exit_0".into(), (exit == 0) as u64), ("exit_1".into(), (exit == 1) as u64), ("exit_other".into(), (exit != 0 && exit != 1) as u64)],
                tags: vec![
                    format!("input:{}", self.label),
                    format!("output:{}", match self.output { OutKind::Stdout => "stdout", OutKind::NewFile => "new-file", OutKind::Existing(_) => "existing-file", OutKind::SameAsInput => "same-as-input", OutKind::Derived(_) => "existing-file-derived-from-result", OutKind::MissingDir => "missing-directory", OutKind::IsDirectory => "is-a-directory" }),
                    format!("parser:{}", self.parser.clone().unwrap_or_else(|| "(default)".into())),
                    format!("sort:{}", self.sort.clone().unwrap_or_else(|| "(default)".into())),
                    format!("derive:{}", match &self.derive { None => "(default)", Some(d) if d.is_empty() => "empty", _ => "custom" }),
                ],
            },
        )
    }
    fn shrink(&self) -> Vec<Self> {
        let mut out = Vec::new();
        if self.parser.is_some() {
            out.push(CliCase { parser: None, ..self.clone() });
        }
        if self.derive.is_some() {
            out.push(CliCase { derive: None, ..self.clone() });
        }
        if self.sort.is_some() {
            out.push(CliCase { sort: None, ..self.clone() });
        }
        if let InputKind::Bytes(b) = &self.input {
            let n = b.len();
            let mut chunk = n / 2;
            while chunk >= 1 && out.len() < 200 {
                let mut start = 0;
                while start < n {
                    let mut c = b.clone();
                    c.drain(start..(start + chunk).min(n));
                    out.push(CliCase { input: InputKind::Bytes(c), ..self.clone() });
                    start += chunk;
                }
                chunk /= 2;
            }
        }
        out
    }
    fn json(&self) -> Value {
        json!({"kind": "cli",
            "input": match &self.input {
                InputKind::Bytes(b) => json!({"hex": b.iter().map(|x| format!("{:02x}", x)).collect::<String>(), "text": String::from_utf8_lossy(b)}),
                InputKind::Missing => json!("missing"),
                InputKind::Directory => json!("directory"),
            },
            "label": self.label, "parser": self.parser, "derive": self.derive, "sort": self.sort,
            "output": match &self.output { OutKind::Stdout => json!("stdout"), OutKind::NewFile => json!("new-file"), OutKind::Existing(c) => json!({"existing": c}), OutKind::SameAsInput => json!("same-as-input"), OutKind::Derived(h) => json!({"derived": h}), OutKind::MissingDir => json!("missing-directory"), OutKind::IsDirectory => json!("is-a-directory") }})
    }
}

impl CliCase {
    pub fn from_json(v: &Value) -> Option<CliCase> {
        let input = match &v["input"] {
            Value::String(s) if s == "missing" => InputKind::Missing,
            Value::String(_) => InputKind::Directory,
            o => {
                let hex = o["hex"].as_str()?;
                InputKind::Bytes((0..hex.len() / 2).map(|i| u8::from_str_radix(&hex[2 * i..2 * i + 2], 16).unwrap_or(0)).collect())
            }
        };
        let output = match &v["output"] {
            Value::String(s) => match s.as_str() {
                "stdout" => OutKind::Stdout,
                "new-file" => OutKind::NewFile,
                "same-as-input" => OutKind::SameAsInput,
                "missing-directory" => OutKind::MissingDir,
                _ => OutKind::IsDirectory,
            },
            o if o.get("derived").is_some() => OutKind::Derived(o["derived"].as_str()?.to_string()),
            o => OutKind::Existing(o["existing"].as_str()?.to_string()),
        };
        let s = |k: &str| v[k].as_str().map(|x| x.to_string());
        Some(CliCase { input, label: s("label").unwrap_or_default(), parser: s("parser"), derive: s("derive"), sort: s("sort"), output })
    }
}
