//! C02 / C13: compile the rendered source with the real rustc + serde_derive and run the real deserializers
use crate::debugparse::DElem;
use crate::dom::{Doc, Item, Node};
use crate::hcase::DocInput;
use crate::implrun::{self, Step};
use crate::proto::{enc, OptRec};
use crate::record::ReaderCfg;
use serde_json::{json, Value};
use std::collections::{HashMap, HashSet};
use std::process::Command;

pub const BATCH_TARGET: &str = "/verif/.build/batch-target";

const COLLECT_RS: &str = r#####"
//! a serde Serializer that collects every string of a value
use serde::ser::{self, Serialize};
pub struct Collector<'a>(pub &'a mut Vec<String>);
#[derive(Debug)]
pub struct Never;
impl std::fmt::Display for Never { fn fmt(&self, f: &mut std::fmt::Formatter<'_>) -> std::fmt::Result { write!(f, "never") } }
impl std::error::Error for Never {}
impl ser::Error for Never { fn custom<T: std::fmt::Display>(_: T) -> Self { Never } }
pub fn strings<T: Serialize>(v: &T) -> Vec<String> { let mut out = Vec::new(); let _ = v.serialize(Collector(&mut out)); out }
macro_rules! ignore { ($($name:ident : $ty:ty),*) => { $(fn $name(self, _v: $ty) -> Result<(), Never> { Ok(()) })* } }
impl<'a> ser::Serializer for Collector<'a> {
    type Ok = (); type Error = Never;
    type SerializeSeq = Self; type SerializeTuple = Self; type SerializeTupleStruct = Self; type SerializeTupleVariant = Self;
    type SerializeMap = Self; type SerializeStruct = Self; type SerializeStructVariant = Self;
    ignore!(serialize_bool: bool, serialize_i8: i8, serialize_i16: i16, serialize_i32: i32, serialize_i64: i64, serialize_u8: u8, serialize_u16: u16,
            serialize_u32: u32, serialize_u64: u64, serialize_f32: f32, serialize_f64: f64, serialize_char: char, serialize_bytes: &[u8]);
    fn serialize_str(self, v: &str) -> Result<(), Never> { self.0.push(v.to_string()); Ok(()) }
    fn serialize_none(self) -> Result<(), Never> { Ok(()) }
    fn serialize_some<T: ?Sized + Serialize>(self, v: &T) -> Result<(), Never> { v.serialize(self) }
    fn serialize_unit(self) -> Result<(), Never> { Ok(()) }
    fn serialize_unit_struct(self, _: &'static str) -> Result<(), Never> { Ok(()) }
    fn serialize_unit_variant(self, _: &'static str, _: u32, _: &'static str) -> Result<(), Never> { Ok(()) }
    fn serialize_newtype_struct<T: ?Sized + Serialize>(self, _: &'static str, v: &T) -> Result<(), Never> { v.serialize(self) }
    fn serialize_newtype_variant<T: ?Sized + Serialize>(self, _: &'static str, _: u32, _: &'static str, v: &T) -> Result<(), Never> { v.serialize(self) }
    fn serialize_seq(self, _: Option<usize>) -> Result<Self, Never> { Ok(self) }
    fn serialize_tuple(self, _: usize) -> Result<Self, Never> { Ok(self) }
    fn serialize_tuple_struct(self, _: &'static str, _: usize) -> Result<Self, Never> { Ok(self) }
    fn serialize_tuple_variant(self, _: &'static str, _: u32, _: &'static str, _: usize) -> Result<Self, Never> { Ok(self) }
    fn serialize_map(self, _: Option<usize>) -> Result<Self, Never> { Ok(self) }
    fn serialize_struct(self, _: &'static str, _: usize) -> Result<Self, Never> { Ok(self) }
    fn serialize_struct_variant(self, _: &'static str, _: u32, _: &'static str, _: usize) -> Result<Self, Never> { Ok(self) }
}
impl<'a> ser::SerializeSeq for Collector<'a> { type Ok = (); type Error = Never;
    fn serialize_element<T: ?Sized + Serialize>(&mut self, v: &T) -> Result<(), Never> { v.serialize(Collector(self.0)) } fn end(self) -> Result<(), Never> { Ok(()) } }
impl<'a> ser::SerializeTuple for Collector<'a> { type Ok = (); type Error = Never;
    fn serialize_element<T: ?Sized + Serialize>(&mut self, v: &T) -> Result<(), Never> { v.serialize(Collector(self.0)) } fn end(self) -> Result<(), Never> { Ok(()) } }
impl<'a> ser::SerializeTupleStruct for Collector<'a> { type Ok = (); type Error = Never;
    fn serialize_field<T: ?Sized + Serialize>(&mut self, v: &T) -> Result<(), Never> { v.serialize(Collector(self.0)) } fn end(self) -> Result<(), Never> { Ok(()) } }
impl<'a> ser::SerializeTupleVariant for Collector<'a> { type Ok = (); type Error = Never;
    fn serialize_field<T: ?Sized + Serialize>(&mut self, v: &T) -> Result<(), Never> { v.serialize(Collector(self.0)) } fn end(self) -> Result<(), Never> { Ok(()) } }
impl<'a> ser::SerializeMap for Collector<'a> { type Ok = (); type Error = Never;
    fn serialize_key<T: ?Sized + Serialize>(&mut self, _: &T) -> Result<(), Never> { Ok(()) }
    fn serialize_value<T: ?Sized + Serialize>(&mut self, v: &T) -> Result<(), Never> { v.serialize(Collector(self.0)) } fn end(self) -> Result<(), Never> { Ok(()) } }
impl<'a> ser::SerializeStruct for Collector<'a> { type Ok = (); type Error = Never;
    fn serialize_field<T: ?Sized + Serialize>(&mut self, _: &'static str, v: &T) -> Result<(), Never> { v.serialize(Collector(self.0)) } fn end(self) -> Result<(), Never> { Ok(()) } }
impl<'a> ser::SerializeStructVariant for Collector<'a> { type Ok = (); type Error = Never;
    fn serialize_field<T: ?Sized + Serialize>(&mut self, _: &'static str, v: &T) -> Result<(), Never> { v.serialize(Collector(self.0)) } fn end(self) -> Result<(), Never> { Ok(()) } }

/// canonical dump of a value: `s<chars>` | `n` | `o(<v>)` | `[<v>,…]` | `{<name>|<key>=<v>;…}` (names as dot-separated code points)
pub fn enc(s: &str) -> String { if s.is_empty() { return "-".into(); } s.chars().map(|c| (c as u32).to_string()).collect::<Vec<_>>().join(".") }
pub fn dump<T: Serialize>(v: &T) -> String { let mut out = String::new(); let _ = v.serialize(Dumper(&mut out)); out }
pub struct Dumper<'a>(pub &'a mut String);
pub struct DumpSeq<'a> { out: &'a mut String, first: bool, close: char, sep: char }
macro_rules! opaque { ($($name:ident : $ty:ty),*) => { $(fn $name(self, _v: $ty) -> Result<(), Never> { self.0.push('?'); Ok(()) })* } }
impl<'a> ser::Serializer for Dumper<'a> {
    type Ok = (); type Error = Never;
    type SerializeSeq = DumpSeq<'a>; type SerializeTuple = DumpSeq<'a>; type SerializeTupleStruct = DumpSeq<'a>; type SerializeTupleVariant = DumpSeq<'a>;
    type SerializeMap = DumpSeq<'a>; type SerializeStruct = DumpSeq<'a>; type SerializeStructVariant = DumpSeq<'a>;
    opaque!(serialize_bool: bool, serialize_i8: i8, serialize_i16: i16, serialize_i32: i32, serialize_i64: i64, serialize_u8: u8, serialize_u16: u16,
            serialize_u32: u32, serialize_u64: u64, serialize_f32: f32, serialize_f64: f64, serialize_char: char, serialize_bytes: &[u8]);
    fn serialize_str(self, v: &str) -> Result<(), Never> { self.0.push('s'); self.0.push_str(&enc(v)); Ok(()) }
    fn serialize_none(self) -> Result<(), Never> { self.0.push('n'); Ok(()) }
    fn serialize_some<T: ?Sized + Serialize>(self, v: &T) -> Result<(), Never> { self.0.push_str("o("); v.serialize(Dumper(self.0))?; self.0.push(')'); Ok(()) }
    fn serialize_unit(self) -> Result<(), Never> { self.0.push('?'); Ok(()) }
    fn serialize_unit_struct(self, _: &'static str) -> Result<(), Never> { self.0.push('?'); Ok(()) }
    fn serialize_unit_variant(self, _: &'static str, _: u32, _: &'static str) -> Result<(), Never> { self.0.push('?'); Ok(()) }
    fn serialize_newtype_struct<T: ?Sized + Serialize>(self, _: &'static str, v: &T) -> Result<(), Never> { v.serialize(self) }
    fn serialize_newtype_variant<T: ?Sized + Serialize>(self, _: &'static str, _: u32, _: &'static str, v: &T) -> Result<(), Never> { v.serialize(self) }
    fn serialize_seq(self, _: Option<usize>) -> Result<DumpSeq<'a>, Never> { self.0.push('['); Ok(DumpSeq { out: self.0, first: true, close: ']', sep: ',' }) }
    fn serialize_tuple(self, _: usize) -> Result<DumpSeq<'a>, Never> { self.0.push('['); Ok(DumpSeq { out: self.0, first: true, close: ']', sep: ',' }) }
    fn serialize_tuple_struct(self, _: &'static str, _: usize) -> Result<DumpSeq<'a>, Never> { self.0.push('['); Ok(DumpSeq { out: self.0, first: true, close: ']', sep: ',' }) }
    fn serialize_tuple_variant(self, _: &'static str, _: u32, _: &'static str, _: usize) -> Result<DumpSeq<'a>, Never> { self.0.push('['); Ok(DumpSeq { out: self.0, first: true, close: ']', sep: ',' }) }
    fn serialize_map(self, _: Option<usize>) -> Result<DumpSeq<'a>, Never> { self.0.push('?'); Ok(DumpSeq { out: self.0, first: true, close: '?', sep: ',' }) }
    fn serialize_struct(self, name: &'static str, _: usize) -> Result<DumpSeq<'a>, Never> { self.0.push('{'); self.0.push_str(&enc(name)); self.0.push('|'); Ok(DumpSeq { out: self.0, first: true, close: '}', sep: ';' }) }
    fn serialize_struct_variant(self, name: &'static str, _: u32, _: &'static str, _: usize) -> Result<DumpSeq<'a>, Never> { self.0.push('{'); self.0.push_str(&enc(name)); self.0.push('|'); Ok(DumpSeq { out: self.0, first: true, close: '}', sep: ';' }) }
}
impl<'a> DumpSeq<'a> {
    fn item<T: ?Sized + Serialize>(&mut self, key: Option<&str>, v: &T) -> Result<(), Never> {
        if !self.first { self.out.push(self.sep); }
        self.first = false;
        if let Some(k) = key { self.out.push_str(&enc(k)); self.out.push('='); }
        v.serialize(Dumper(self.out))
    }
    fn finish(self) -> Result<(), Never> { self.out.push(self.close); Ok(()) }
}
impl<'a> ser::SerializeSeq for DumpSeq<'a> { type Ok = (); type Error = Never;
    fn serialize_element<T: ?Sized + Serialize>(&mut self, v: &T) -> Result<(), Never> { self.item(None, v) } fn end(self) -> Result<(), Never> { self.finish() } }
impl<'a> ser::SerializeTuple for DumpSeq<'a> { type Ok = (); type Error = Never;
    fn serialize_element<T: ?Sized + Serialize>(&mut self, v: &T) -> Result<(), Never> { self.item(None, v) } fn end(self) -> Result<(), Never> { self.finish() } }
impl<'a> ser::SerializeTupleStruct for DumpSeq<'a> { type Ok = (); type Error = Never;
    fn serialize_field<T: ?Sized + Serialize>(&mut self, v: &T) -> Result<(), Never> { self.item(None, v) } fn end(self) -> Result<(), Never> { self.finish() } }
impl<'a> ser::SerializeTupleVariant for DumpSeq<'a> { type Ok = (); type Error = Never;
    fn serialize_field<T: ?Sized + Serialize>(&mut self, v: &T) -> Result<(), Never> { self.item(None, v) } fn end(self) -> Result<(), Never> { self.finish() } }
impl<'a> ser::SerializeMap for DumpSeq<'a> { type Ok = (); type Error = Never;
    fn serialize_key<T: ?Sized + Serialize>(&mut self, _: &T) -> Result<(), Never> { Ok(()) }
    fn serialize_value<T: ?Sized + Serialize>(&mut self, v: &T) -> Result<(), Never> { self.item(None, v) } fn end(self) -> Result<(), Never> { self.finish() } }
impl<'a> ser::SerializeStruct for DumpSeq<'a> { type Ok = (); type Error = Never;
    fn serialize_field<T: ?Sized + Serialize>(&mut self, k: &'static str, v: &T) -> Result<(), Never> { self.item(Some(k), v) } fn end(self) -> Result<(), Never> { self.finish() } }
impl<'a> ser::SerializeStructVariant for DumpSeq<'a> { type Ok = (); type Error = Never;
    fn serialize_field<T: ?Sized + Serialize>(&mut self, k: &'static str, v: &T) -> Result<(), Never> { self.item(Some(k), v) } fn end(self) -> Result<(), Never> { self.finish() } }
"#####;

#[derive(Clone, Debug)]
pub struct Expected {
    pub value: String,
    pub what: String,       // "attribute a of r/x" | "text of r/x"
    pub struct_typed_text: bool, // text of an element that is rendered as a struct (has attributes or children in the merged schema)
    pub under_nil: bool,         // inside an element that carries `<prefix>:nil="true"` (or inside a child of one)
}

#[derive(Clone)]
pub struct Program {
    pub docs: Vec<Doc>,
    pub theme: String,
    pub text: String,        // the rendering under test, unchanged
    pub quick_text: String,  // the quick-xml rendering (for the model)
    pub root_struct: String,
    pub expected: Vec<Vec<Expected>>,
    /// documents the structure was *not* inferred from (variations of the sources): run through the compiled
    /// program and the deserializer model only for the correspondence of the model
    pub extra_docs: Vec<Doc>,
}

#[derive(Clone, Debug, Default)]
pub struct DocResult {
    pub ok: bool,
    pub err: String,
    pub missing: Vec<Expected>,
    pub dump: String, // canonical dump of the deserialized value
}

#[derive(Clone, Debug, Default)]
pub struct ProgResult {
    pub compiled: bool,
    pub diagnostics: String,
    pub docs: Vec<DocResult>,      // plain variant; source documents, then the extra documents
    pub docs_deny: Vec<DocResult>, // deny_unknown_fields variant (C02 only)
}

fn find<'a>(d: &'a DElem, path: &[String]) -> Option<&'a DElem> {
    let mut cur = d;
    for p in path.iter().skip(1) {
        cur = &cur.children.iter().find(|c| &c.1.name == p)?.1;
    }
    Some(cur)
}

fn expected_of(n: &Node, path: &mut Vec<String>, tree: &DElem, nil: bool, out: &mut Vec<Expected>) {
    path.push(n.name.clone());
    let here = path.join("/");
    // quick-xml: an `Option` field whose element, or whose parent element, has xsi:nil="true" becomes `None`
    let own_nil = n.attrs.iter().any(|(k, v)| k.ends_with(":nil") && (v == "true" || v == "1"));
    let under = nil || own_nil;
    for (k, v) in &n.attrs {
        if v.contains(crate::dom::ENT_OPEN) {
            continue; // what a reference to a DTD-declared entity stands for is not known to the harness
        }
        out.push(Expected { value: v.clone(), what: format!("attribute {} of {}", k, here), struct_typed_text: false, under_nil: under });
    }
    let struct_typed = find(tree, path).map_or(false, |e| !e.attrs.is_empty() || !e.children.is_empty()) || path.len() == 1;
    let mut text = String::new();
    for it in &n.items {
        match it {
            Item::Text(t) | Item::CData(t) | Item::Ws(t) => text.push_str(t),
            Item::Elem(c) => expected_of(c, path, tree, under, out),
            _ => {}
        }
    }
    if !text.trim().is_empty() && !text.contains(crate::dom::ENT_OPEN) {
        out.push(Expected { value: text.trim().to_string(), what: format!("text of {}", here), struct_typed_text: struct_typed, under_nil: under });
    }
    path.pop();
}

/// parse + extend + render through the library; `None` if the library rejects a document
pub fn make_program(docs: Vec<Doc>, theme: &str, opt: &OptRec) -> Option<Program> {
    // the library is called here outside the batch evaluator: give up the run if it does not return (C07)
    let (d2, t2, o2) = (docs.clone(), theme.to_string(), opt.clone());
    crate::run::with_deadline(
        "a call into the library did not return (endless loop or unbounded recursion) while a program was prepared",
        move || serde_json::json!({"kind": "program", "documents": docs.iter().map(|d| d.to_xml()).collect::<Vec<_>>(), "extra_documents": []}),
        move || make_program_inner(d2, &t2, &o2),
    )
}

fn make_program_inner(docs: Vec<Doc>, theme: &str, opt: &OptRec) -> Option<Program> {
    let mut tree = None;
    for d in &docs {
        let di = DocInput::from_dom(d.clone());
        match implrun::step(&di.bytes, ReaderCfg::default_cfg(), tree.as_ref()) {
            Step::Ok(e) => tree = Some(e),
            _ => return None,
        }
    }
    let tree = tree?;
    let text = implrun::render(&tree, opt).ok()?;
    let quick_text = implrun::render(&tree, &OptRec::quick()).ok()?;
    let d = implrun::tree_tokens(&tree).ok()?.1;
    let root_struct = text.lines().find_map(|l| l.strip_prefix("pub struct ").and_then(|r| r.strip_suffix(" {")).map(|s| s.to_string()))?;
    let expected = docs
        .iter()
        .map(|doc| {
            let mut out = Vec::new();
            expected_of(&doc.root, &mut Vec::new(), &d, false, &mut out);
            out
        })
        .collect();
    Some(Program { docs, theme: theme.to_string(), text, quick_text, root_struct, expected, extra_docs: vec![] })
}

fn raw(s: &str) -> String {
    format!("r##########\"{}\"##########", s)
}

fn hexs(s: &str) -> String {
    s.bytes().map(|b| format!("{:02x}", b)).collect()
}
fn unhex(h: &str) -> String {
    let b: Vec<u8> = (0..h.len() / 2).filter_map(|i| u8::from_str_radix(&h[2 * i..2 * i + 2], 16).ok()).collect();
    String::from_utf8_lossy(&b).to_string()
}

fn deny_variant(text: &str) -> String {
    let mut out = String::new();
    for l in text.lines() {
        if l.starts_with("pub struct ") {
            out.push_str("#[serde(deny_unknown_fields)]\n");
        }
        out.push_str(l);
        out.push('\n');
    }
    out
}

/// compile all programs (in `nbins` binaries built in parallel by cargo) and run them
pub fn run_batch(name: &str, programs: &[Program], sxr: bool, nbins: usize) -> Result<Vec<ProgResult>, String> {
    let dir = format!("/verif/.build/batch-{}", name);
    let _ = std::fs::remove_dir_all(&dir);
    std::fs::create_dir_all(format!("{}/src/bin", dir)).map_err(|e| e.to_string())?;
    std::fs::create_dir_all(format!("{}/.cargo", dir)).map_err(|e| e.to_string())?;
    std::fs::write(
        format!("{}/Cargo.toml", dir),
        "[package]\nname = \"xsg-batch\"\nversion = \"0.1.0\"\nedition = \"2021\"\n\n[workspace]\n\n[dependencies]\nserde = { version = \"1\", features = [\"derive\"] }\nquick-xml = { version = \"=0.37.5\", features = [\"serialize\", \"overlapped-lists\"] }\nserde-xml-rs = \"=0.6.0\"\n\n[profile.dev]\nopt-level = 0\ndebug = 0\nincremental = false\n",
    )
    .map_err(|e| e.to_string())?;
    std::fs::write(format!("{}/.cargo/config.toml", dir), format!("[net]\noffline = true\n[build]\ntarget-dir = \"{}\"\n", BATCH_TARGET)).map_err(|e| e.to_string())?;
    std::fs::copy("/repo/Cargo.lock", format!("{}/Cargo.lock", dir)).map_err(|e| e.to_string())?;
    let nbins = nbins.max(1).min(programs.len().max(1));
    let mut results: Vec<ProgResult> = vec![ProgResult { compiled: true, ..Default::default() }; programs.len()];
    let mut excluded: HashSet<(usize, bool)> = HashSet::new(); // (program, deny variant) that do not compile
    let variants: Vec<bool> = if sxr { vec![false] } else { vec![false, true] };
    for attempt in 0..4 {
        // write the sources
        for b in 0..nbins {
            let bdir = format!("{}/src/bin/b{}", dir, b);
            let _ = std::fs::remove_dir_all(&bdir);
            std::fs::create_dir_all(&bdir).map_err(|e| e.to_string())?;
            std::fs::write(format!("{}/collect.rs", bdir), COLLECT_RS).map_err(|e| e.to_string())?;
            let mut main = String::from("#![allow(warnings)]\nmod collect;\n");
            let mut body = String::new();
            for (i, p) in programs.iter().enumerate() {
                if i % nbins != b {
                    continue;
                }
                for &deny in &variants {
                    if excluded.contains(&(i, deny)) {
                        continue;
                    }
                    let m = format!("{}{}", if deny { "d" } else { "p" }, i);
                    let src = format!(
                        "#![allow(warnings)]\nuse serde::{{Deserialize, Serialize}};\n\n{}",
                        if deny { deny_variant(&p.text) } else { p.text.clone() }
                    );
                    std::fs::write(format!("{}/{}.rs", bdir, m), src).map_err(|e| e.to_string())?;
                    main.push_str(&format!("mod {};\n", m));
                    body.push_str(&format!("    run::<{}::{}>(\"{}\", &[{}]);\n", m, p.root_struct, m, p.docs.iter().chain(p.extra_docs.iter()).map(|d| raw(&d.to_xml())).collect::<Vec<_>>().join(", ")));
                }
            }
            main.push_str("fn hexs(s: &str) -> String { s.bytes().map(|b| format!(\"{:02x}\", b)).collect() }\n");
            main.push_str("fn run<T: serde::de::DeserializeOwned + serde::Serialize>(id: &str, docs: &[&str]) {\n    for (j, d) in docs.iter().enumerate() {\n");
            main.push_str(&format!(
                "        let r = std::panic::catch_unwind(|| {}::<T>(d).map(|v| (collect::strings(&v), collect::dump(&v))).map_err(|e| e.to_string()));\n",
                if sxr { "serde_xml_rs::from_str" } else { "quick_xml::de::from_str" }
            ));
            main.push_str("        match r {\n            Ok(Ok((s, dmp))) => println!(\"{} {} ok {} {}\", id, j, if s.is_empty() { \"-\".to_string() } else { s.iter().map(|x| if x.is_empty() { \"_\".to_string() } else { hexs(x) }).collect::<Vec<_>>().join(\",\") }, dmp),\n            Ok(Err(e)) => println!(\"{} {} err {}\", id, j, hexs(&e)),\n            Err(_) => println!(\"{} {} err {}\", id, j, hexs(\"panic in the deserializer\")),\n        }\n    }\n}\n");
            main.push_str("fn main() {\n    std::panic::set_hook(Box::new(|_| {}));\n");
            main.push_str(&body);
            main.push_str("}\n");
            std::fs::write(format!("{}/src/bin/b{}/main.rs", dir, b), main).map_err(|e| e.to_string())?;
        }
        // build
        let out = Command::new("cargo")
            .args(["build", "--offline", "--message-format=json", "--bins"])
            .current_dir(&dir)
            .env("CARGO_NET_OFFLINE", "true")
            .output()
            .map_err(|e| e.to_string())?;
        if out.status.success() {
            break;
        }
        // map diagnostics to modules
        let mut newly = 0;
        let mut other = String::new();
        for l in String::from_utf8_lossy(&out.stdout).lines() {
            if let Ok(v) = serde_json::from_str::<Value>(l) {
                if v["reason"] == "compiler-message" && v["message"]["level"] == "error" {
                    let rendered = v["message"]["rendered"].as_str().unwrap_or("").to_string();
                    let mut hit = false;
                    for sp in v["message"]["spans"].as_array().cloned().unwrap_or_default() {
                        let f = sp["file_name"].as_str().unwrap_or("");
                        let stem = std::path::Path::new(f).file_stem().and_then(|s| s.to_str()).unwrap_or("");
                        if let Some(num) = stem.strip_prefix('p').or_else(|| stem.strip_prefix('d')) {
                            if let Ok(i) = num.parse::<usize>() {
                                let deny = stem.starts_with('d');
                                if excluded.insert((i, deny)) {
                                    newly += 1;
                                }
                                results[i].compiled = false;
                                if results[i].diagnostics.len() < 4000 {
                                    results[i].diagnostics.push_str(&rendered);
                                }
                                hit = true;
                            }
                        }
                    }
                    if !hit && other.len() < 4000 {
                        other.push_str(&rendered);
                    }
                }
            }
        }
        if newly == 0 || attempt == 3 {
            return Err(format!("the batch does not build and no program module could be blamed:\n{}\n{}", other, String::from_utf8_lossy(&out.stderr).chars().rev().take(3000).collect::<String>().chars().rev().collect::<String>()));
        }
    }
    // run
    let mut outputs: HashMap<String, Vec<(usize, bool, String, String)>> = HashMap::new();
    for b in 0..nbins {
        let bin = format!("{}/debug/b{}", BATCH_TARGET, b);
        let out = Command::new(&bin).output().map_err(|e| format!("{}: {}", bin, e))?;
        for l in String::from_utf8_lossy(&out.stdout).lines() {
            let parts: Vec<&str> = l.split(' ').collect();
            if parts.len() >= 3 {
                let j: usize = parts[1].parse().unwrap_or(0);
                outputs.entry(parts[0].to_string()).or_default().push((j, parts[2] == "ok", parts.get(3).unwrap_or(&"").to_string(), parts.get(4).unwrap_or(&"").to_string()));
            }
        }
    }
    for (i, p) in programs.iter().enumerate() {
        for &deny in &variants {
            let m = format!("{}{}", if deny { "d" } else { "p" }, i);
            let mut docs = vec![DocResult::default(); p.docs.len() + p.extra_docs.len()];
            if let Some(rows) = outputs.get(&m) {
                for (j, ok, payload, dump) in rows {
                    if *j >= docs.len() {
                        continue;
                    }
                    if *ok {
                        let mut got: Vec<String> = payload.split(',').filter(|s| !s.is_empty() && *s != "-" && *s != "_").map(|h| unhex(h).trim().to_string()).collect();
                        let mut missing = Vec::new();
                        for e in p.expected.get(*j).map(|v| v.as_slice()).unwrap_or(&[]) {
                            let want = e.value.trim().to_string();
                            if want.is_empty() {
                                continue;
                            }
                            match got.iter().position(|g| *g == want) {
                                Some(pos) => {
                                    got.swap_remove(pos);
                                }
                                None => missing.push(e.clone()),
                            }
                        }
                        docs[*j] = DocResult { ok: true, err: String::new(), missing, dump: dump.clone() };
                    } else {
                        docs[*j] = DocResult { ok: false, err: unhex(payload), missing: vec![], dump: String::new() };
                    }
                }
            } else if !excluded.contains(&(i, deny)) {
                for d in docs.iter_mut() {
                    d.err = "no output from the compiled program".into();
                }
            }
            if deny {
                results[i].docs_deny = docs;
            } else {
                results[i].docs = docs;
            }
        }
    }
    let _ = std::fs::remove_dir_all(&dir);
    Ok(results)
}

pub fn program_json(p: &Program, r: &ProgResult) -> Value {
    json!({
        "kind": "program",
        "theme": p.theme,
        "documents": p.docs.iter().map(|d| d.to_xml()).collect::<Vec<_>>(),
        "extra_documents": p.extra_docs.iter().map(|d| d.to_xml()).collect::<Vec<_>>(),
        "values": r.docs.iter().map(|d| d.dump.clone()).collect::<Vec<_>>(),
        "rendered": p.text,
        "compiled": r.compiled,
        "diagnostics": r.diagnostics,
        "from_str": r.docs.iter().map(|d| json!({"ok": d.ok, "error": d.err, "missing": d.missing.iter().map(|m| format!("{} = {:?}", m.what, m.value)).collect::<Vec<_>>()})).collect::<Vec<_>>(),
        "from_str_deny_unknown_fields": r.docs_deny.iter().map(|d| json!({"ok": d.ok, "error": d.err, "missing": d.missing.iter().map(|m| format!("{} = {:?}", m.what, m.value)).collect::<Vec<_>>()})).collect::<Vec<_>>(),
    })
}

/// the `D` line for the model driver
pub fn d_line(id: &str, prop: &str, p: &Program, compiled: bool, per_doc: &[(bool, bool)]) -> String {
    let mut s = format!("D {} {} PROG {} K{}", id, prop, enc(&p.quick_text), p.docs.len());
    for d in &p.docs {
        s.push(' ');
        s.push_str(&d.tokens(true));
    }
    s.push_str(&format!(" RES {}", compiled as u8));
    for (ok, cap) in per_doc {
        s.push_str(&format!(" {} {}", *ok as u8, *cap as u8));
    }
    s
}

fn vnode_tokens(n: &Node, out: &mut String) {
    let sc = n.items.is_empty() && n.self_closing;
    out.push_str(&format!("VN {} {} A{}", enc(&n.name), sc as u8, n.attrs.len()));
    for (k, v) in &n.attrs {
        out.push_str(&format!(" {} {}", enc(k), enc(v)));
    }
    out.push_str(&format!(" I{}", n.items.len()));
    for it in &n.items {
        match it {
            Item::Elem(c) => {
                out.push_str(" n ");
                vnode_tokens(c, out);
            }
            Item::Text(t) | Item::Ws(t) => out.push_str(&format!(" t {}", enc(t))),
            Item::CData(t) => out.push_str(&format!(" c {}", enc(t))),
            Item::PI(_) => out.push_str(" p"),
            _ => out.push_str(" o"),
        }
    }
}

/// the `E` line: program text, every document (sources, then extras) with its values, and what the compiled
/// program made of it per variant
pub fn e_line(id: &str, prop: &str, p: &Program, r: &ProgResult, sxr: bool) -> String {
    // documents that refer to entities of their own DTD are outside the deserializer model (the values are unknown)
    // … and so are, for serde-xml-rs, documents whose declaration names an encoding xml-rs does not know (K7): the
    // model sees the root element only
    let odd_label = |d: &Doc| -> bool {
        sxr && d.prolog.iter().any(|i| match i {
            Item::Decl(t) => {
                let l = t.to_ascii_lowercase();
                l.contains("encoding") && !["utf-8", "utf8", "utf-16", "utf16", "iso-8859-1", "latin1", "us-ascii", "ascii"].iter().any(|e| l.contains(&format!("'{}'", e)) || l.contains(&format!("\"{}\"", e)))
            }
            _ => false,
        })
    };
    let all: Vec<(usize, &Doc)> = p.docs.iter().chain(p.extra_docs.iter()).enumerate().filter(|(_, d)| !crate::dom::has_entity_markers(&d.root) && !odd_label(d)).collect();
    let mut s = format!("E {} {} {} PROG {} K{}", id, prop, sxr as u8, enc(&p.text), all.len());
    for (j, d) in all.iter().map(|(j, d)| (*j, *d)) {
        s.push(' ');
        vnode_tokens(&d.root, &mut s);
        let variants: Vec<&Vec<DocResult>> = if sxr { vec![&r.docs] } else { vec![&r.docs, &r.docs_deny] };
        s.push_str(&format!(" V{}", variants.len()));
        for v in variants {
            match v.get(j) {
                Some(dr) if dr.ok => s.push_str(&format!(" 1 {}", if dr.dump.is_empty() { "?" } else { &dr.dump })),
                _ => s.push_str(" 0 -"),
            }
        }
    }
    s
}
