//! independent pass over the reader events: a second `Reader` over the same bytes with the same configuration
use crate::proto::enc;
use quick_xml::events::{BytesStart, Event};
use quick_xml::reader::Reader;
use std::io::BufReader;

#[derive(Clone, Copy, Debug, PartialEq)]
pub struct ReaderCfg {
    pub trim_text: bool,
    pub expand_empty: bool,
    pub check_end_names: bool,
    pub capacity: usize, // 0 = Reader::from_str / from_reader(&[u8]) directly
}

impl ReaderCfg {
    pub fn default_cfg() -> Self {
        ReaderCfg { trim_text: false, expand_empty: false, check_end_names: true, capacity: 0 }
    }
    pub fn describe(&self) -> String {
        format!("trim_text={} expand_empty_elements={} check_end_names={} capacity={}", self.trim_text, self.expand_empty, self.check_end_names, self.capacity)
    }
}

fn u8tok(bytes: &[u8]) -> String {
    match String::from_utf8(bytes.to_vec()) {
        Ok(s) => format!("+{}", enc(&s)),
        Err(e) => format!("!{}", enc(&e.to_string())),
    }
}

fn start_tokens(kind: &str, e: &BytesStart, out: &mut String, stats: &mut EvStats) {
    let mut items = Vec::new();
    for attr in e.attributes() {
        match attr {
            Ok(a) => items.push(format!("k{}", u8tok(a.key.as_ref()))),
            Err(err) => {
                items.push(format!("b{}", enc(&err.to_string())));
                stats.attr_errors += 1;
                break;
            }
        }
    }
    out.push_str(&format!(" {} {} {}", kind, u8tok(e.name().as_ref()), items.len()));
    for i in items {
        out.push(' ');
        out.push_str(&i);
    }
}

#[derive(Default, Clone, Debug)]
pub struct EvStats {
    pub start: usize,
    pub empty: usize,
    pub end: usize,
    pub text: usize,
    pub cdata: usize,
    pub ignored: usize,
    pub eof: usize,
    pub err: usize,
    pub attr_errors: usize,
    pub error_kind: Option<String>,
}

macro_rules! record_loop {
    ($reader:expr, $out:expr, $n:expr, $stats:expr) => {{
        let mut buf = Vec::new();
        loop {
            match $reader.read_event_into(&mut buf) {
                Ok(Event::Start(e)) => {
                    start_tokens("S", &e, &mut $out, &mut $stats);
                    $stats.start += 1;
                }
                Ok(Event::Empty(e)) => {
                    start_tokens("Z", &e, &mut $out, &mut $stats);
                    $stats.empty += 1;
                }
                Ok(Event::End(_)) => {
                    $out.push_str(" /");
                    $stats.end += 1;
                }
                Ok(Event::Text(e)) => {
                    $out.push_str(&format!(" T {}", u8tok(&e.into_inner())));
                    $stats.text += 1;
                }
                Ok(Event::CData(e)) => {
                    $out.push_str(&format!(" D {}", u8tok(&e.into_inner())));
                    $stats.cdata += 1;
                }
                Ok(Event::Comment(_)) | Ok(Event::Decl(_)) | Ok(Event::PI(_)) | Ok(Event::DocType(_)) => {
                    $out.push_str(" I");
                    $stats.ignored += 1;
                }
                Ok(Event::Eof) => {
                    $out.push_str(" F");
                    $stats.eof += 1;
                    $n += 1;
                    break;
                }
                Err(e) => {
                    $out.push_str(&format!(" X {} {}", $reader.buffer_position(), enc(&format!("{:?}", e))));
                    $stats.err += 1;
                    let d = format!("{:?}", e);
                    $stats.error_kind = Some(d.split(|c: char| !c.is_alphanumeric()).filter(|s| !s.is_empty()).take(2).collect::<Vec<_>>().join(":"));
                    $n += 1;
                    break;
                }
            }
            $n += 1;
            buf.clear();
        }
    }};
}

/// `EV <k> ev*` for the given bytes
pub fn record(bytes: &[u8], cfg: ReaderCfg) -> (String, EvStats) {
    let mut out = String::new();
    let mut n = 0usize;
    let mut stats = EvStats::default();
    if cfg.capacity == 0 {
        let mut reader = Reader::from_reader(bytes);
        apply(reader.config_mut(), cfg);
        record_loop!(reader, out, n, stats);
    } else {
        let mut reader = Reader::from_reader(BufReader::with_capacity(cfg.capacity, bytes));
        apply(reader.config_mut(), cfg);
        record_loop!(reader, out, n, stats);
    }
    (format!("EV {}{}", n, out), stats)
}

pub fn apply(c: &mut quick_xml::reader::Config, cfg: ReaderCfg) {
    c.trim_text(cfg.trim_text);
    c.expand_empty_elements = cfg.expand_empty;
    c.check_end_names = cfg.check_end_names;
}
