//! running the compiled Lean model driver on a batch of case lines
use std::collections::HashMap;
use std::io::Write;
use std::process::{Command, Stdio};

pub const DRIVER: &str = "/verif/lean/.lake/build/bin/xsgdriver";

#[derive(Clone, Debug, PartialEq)]
pub enum Verdict {
    Ok,
    Corr(String),
    Prop(String),
    Gen(String),
    Bad(String),
}

impl Verdict {
    pub fn kind(&self) -> &'static str {
        match self {
            Verdict::Ok => "OK",
            Verdict::Corr(_) => "CORR",
            Verdict::Prop(_) => "PROP",
            Verdict::Gen(_) => "GEN",
            Verdict::Bad(_) => "BAD",
        }
    }
    pub fn text(&self) -> String {
        match self {
            Verdict::Ok => String::new(),
            Verdict::Corr(s) | Verdict::Prop(s) | Verdict::Gen(s) | Verdict::Bad(s) => s.clone(),
        }
    }
    pub fn is_failure(&self) -> bool {
        matches!(self, Verdict::Corr(_) | Verdict::Prop(_) | Verdict::Bad(_))
    }
}

/// feed the lines to the driver; returns verdict per case id
pub fn run(lines: &[String]) -> Result<HashMap<String, Verdict>, String> {
    // bin/check hands over a private copy of the driver so that a concurrent re-link cannot pull it away
    let driver = std::env::var("XSG_DRIVER").unwrap_or_else(|_| DRIVER.to_string());
    let mut child = Command::new(&driver)
        .stdin(Stdio::piped())
        .stdout(Stdio::piped())
        .stderr(Stdio::piped())
        .spawn()
        .map_err(|e| format!("cannot start the model driver {}: {}", driver, e))?;
    let mut stdin = child.stdin.take().unwrap();
    let payload: String = lines.iter().map(|l| format!("{}\n", l)).collect();
    let writer = std::thread::spawn(move || {
        let _ = stdin.write_all(payload.as_bytes());
    });
    let out = child.wait_with_output().map_err(|e| e.to_string())?;
    let _ = writer.join();
    if !out.status.success() {
        return Err(format!("model driver failed: {} {}", out.status, String::from_utf8_lossy(&out.stderr)));
    }
    let mut map = HashMap::new();
    for l in String::from_utf8_lossy(&out.stdout).lines() {
        let mut parts = l.splitn(4, ' ');
        let id = parts.next().unwrap_or("").to_string();
        let _prop = parts.next().unwrap_or("");
        let kind = parts.next().unwrap_or("");
        let rest = parts.next().unwrap_or("").to_string();
        let v = match kind {
            "OK" => Verdict::Ok,
            "CORR" => Verdict::Corr(rest),
            "PROP" => Verdict::Prop(rest),
            "GEN" => Verdict::Gen(rest),
            _ => Verdict::Bad(format!("{} {}", kind, rest)),
        };
        map.insert(id, v);
    }
    Ok(map)
}
