//! orchestration: generate cases, run the implementation, ask the model driver, shrink failures, write the summary
use crate::compile::{self, Program};
use crate::cli::{self, CliCase, InputKind, OutKind};
use crate::cases2::{self, ListCase, Op, OpsCase, PairCase, SubCase, TableCase};
use crate::dom::{Doc, Item, Node};
use crate::driver::{self, Verdict};
use crate::gen::{self, GenCfg, Theme};
use crate::hcase::{Built, DocInput, HistoryCase, Info};
use crate::proto::OptRec;
use crate::record::ReaderCfg;
use crate::rng::Rng;
use serde_json::{json, Map, Value};
use std::collections::{BTreeMap, HashSet};
use std::hash::{Hash, Hasher};
use std::time::Instant;

pub struct Meta {
    pub nontrivial: bool,
    pub metrics: Vec<(String, u64)>,
    pub tags: Vec<String>,
}

pub enum LineOut {
    Line(String, Meta),
    /// the implementation itself failed the property (panic, ...) — no model involved
    ImplFailure(String),
    Harness(String),
}

pub trait Case: Clone + Send + Sync {
    fn line(&self, id: &str, prop: &str) -> LineOut;
    fn shrink(&self) -> Vec<Self>;
    fn json(&self) -> Value;
}

#[derive(Clone, Debug)]
pub struct Failure {
    pub kind: String, // PROP | CORR | BAD
    pub what: String,
    pub case: Value,
}

pub struct Summary {
    pub property: String,
    pub tier: String,
    pub seed: u64,
    pub evaluations: u64,
    pub distinct: u64,
    pub distinct_nontrivial: u64,
    pub rule: String,
    pub samples: Vec<Value>,
    pub verdicts: BTreeMap<String, u64>,
    pub gen_reasons: BTreeMap<String, u64>,
    pub metrics_sum: BTreeMap<String, u64>,
    pub metrics_max: BTreeMap<String, u64>,
    pub metrics_cases: BTreeMap<String, u64>,
    pub tags: BTreeMap<String, u64>,
    pub failures: Vec<Failure>,
    pub exhaustive: bool,
    pub extra: Map<String, Value>,
    pub deadline: Option<Instant>,
    pub prop_only: bool,
    seen: HashSet<u64>,
}

impl Summary {
    pub fn new(property: &str, tier: &str, seed: u64, rule: &str) -> Summary {
        Summary {
            property: property.into(),
            tier: tier.into(),
            seed,
            evaluations: 0,
            distinct: 0,
            distinct_nontrivial: 0,
            rule: rule.into(),
            samples: vec![],
            verdicts: BTreeMap::new(),
            gen_reasons: BTreeMap::new(),
            metrics_sum: BTreeMap::new(),
            metrics_max: BTreeMap::new(),
            metrics_cases: BTreeMap::new(),
            tags: BTreeMap::new(),
            failures: vec![],
            exhaustive: false,
            extra: Map::new(),
            deadline: None,
            prop_only: false,
            seen: HashSet::new(),
        }
    }
    pub fn seen_insert(&mut self, h: u64) -> bool {
        self.seen.insert(h)
    }
    pub fn to_json(&self, wall_s: f64) -> Value {
        json!({
            "property": self.property, "tier": self.tier, "seed": self.seed,
            "evaluations": self.evaluations, "distinct": self.distinct, "distinct_nontrivial": self.distinct_nontrivial,
            "rule": self.rule, "samples": self.samples, "verdicts": self.verdicts, "gen_reasons": self.gen_reasons,
            "metrics_sum": self.metrics_sum, "metrics_max": self.metrics_max, "cases_with": self.metrics_cases, "tags": self.tags,
            "failures": self.failures.iter().map(|f| json!({"kind": f.kind, "what": f.what, "case": f.case})).collect::<Vec<_>>(),
            "exhaustive": self.exhaustive, "extra": self.extra, "wall_s": wall_s,
        })
    }
}

fn hash_str(s: &str) -> u64 {
    let mut h = std::collections::hash_map::DefaultHasher::new();
    s.hash(&mut h);
    h.finish()
}

pub fn threads() -> usize {
    std::thread::available_parallelism().map(|n| n.get()).unwrap_or(4).min(16)
}

enum Outcome {
    V(Verdict, Meta, u64),
    Impl(String),
    Harness(String),
}

/// evaluate a batch of cases in parallel: each worker builds its lines (running the implementation) and runs one driver
/// where `check` writes its summary; a hang report goes to `<that>.hang`
pub static SUMMARY_PATH: std::sync::OnceLock<String> = std::sync::OnceLock::new();
/// how long one case may keep the implementation busy before the run is given up as "does not terminate" (C07)
pub const HANG_LIMIT_MS: u64 = 20_000;

/// a call into the implementation has not returned: a stuck thread cannot be stopped, so the failing case is written
/// to the hang report and the process ends (exit status 3; `bin/check` turns the report into the violation)
pub fn report_hang(what: &str, case: Value) -> ! {
    let path = SUMMARY_PATH.get().cloned().unwrap_or_else(|| "/verif/.build/hang".to_string()) + ".hang";
    let _ = std::fs::write(&path, serde_json::to_string_pretty(&json!({"kind": "PROP", "what": what, "case": case})).unwrap_or_default());
    eprintln!("HANG {}", what);
    std::process::exit(3);
}

/// run `f` on a helper thread; give up the whole run if it does not return in time
pub fn with_deadline<T: Send + 'static>(what: &str, case: impl Fn() -> Value, f: impl FnOnce() -> T + Send + 'static) -> T {
    let (tx, rx) = std::sync::mpsc::channel();
    std::thread::spawn(move || {
        let _ = tx.send(f());
    });
    match rx.recv_timeout(std::time::Duration::from_millis(HANG_LIMIT_MS)) {
        Ok(v) => v,
        Err(std::sync::mpsc::RecvTimeoutError::Timeout) => report_hang(what, case()),
        Err(_) => panic!("worker died"),
    }
}

fn eval_batch<C: Case>(prop: &str, cases: &[C], id_base: usize) -> Vec<Outcome> {
    use std::sync::atomic::{AtomicBool, AtomicU64, AtomicUsize, Ordering};
    let nthreads = threads().min(cases.len().max(1));
    let chunk = (cases.len() + nthreads - 1) / nthreads.max(1);
    let mut results: Vec<Vec<Outcome>> = Vec::new();
    // watchdog: per worker, since when (ms since `t0`, 0 = idle) it has been inside which case
    let t0 = Instant::now();
    let nworkers = (cases.len() + chunk.max(1) - 1) / chunk.max(1);
    let busy_since: Vec<AtomicU64> = (0..nworkers.max(1)).map(|_| AtomicU64::new(0)).collect();
    let busy_case: Vec<AtomicUsize> = (0..nworkers.max(1)).map(|_| AtomicUsize::new(0)).collect();
    let done = AtomicBool::new(false);
    std::thread::scope(|s| {
        let (busy_since, busy_case, done) = (&busy_since, &busy_case, &done);
        s.spawn(move || {
            while !done.load(Ordering::SeqCst) {
                std::thread::sleep(std::time::Duration::from_millis(200));
                let now = t0.elapsed().as_millis() as u64;
                for w in 0..busy_since.len() {
                    let since = busy_since[w].load(Ordering::SeqCst);
                    if since != 0 && now.saturating_sub(since) > HANG_LIMIT_MS {
                        let idx = busy_case[w].load(Ordering::SeqCst);
                        let case = cases.get(idx).map(|c| c.json()).unwrap_or(json!({}));
                        report_hang(&format!("a call into the library did not return within {} s (endless loop or unbounded recursion)", HANG_LIMIT_MS / 1000), case);
                    }
                }
            }
        });
        let mut handles = Vec::new();
        for (ci, part) in cases.chunks(chunk.max(1)).enumerate() {
            let prop = prop.to_string();
            handles.push(s.spawn(move || {
                let mut lines = Vec::new();
                let mut pre: Vec<Option<Outcome>> = Vec::new();
                let mut metas: Vec<Option<(Meta, u64)>> = Vec::new();
                for (i, c) in part.iter().enumerate() {
                    let id = format!("c{}", id_base + ci * chunk + i);
                    busy_case[ci].store(ci * chunk + i, Ordering::SeqCst);
                    busy_since[ci].store((t0.elapsed().as_millis() as u64).max(1), Ordering::SeqCst);
                    let line = c.line(&id, &prop);
                    busy_since[ci].store(0, Ordering::SeqCst);
                    match line {
                        LineOut::Line(l, m) => {
                            // the hash of the case ignores its id
                            let h = hash_str(l.splitn(3, ' ').nth(2).unwrap_or(""));
                            lines.push(l);
                            pre.push(None);
                            metas.push(Some((m, h)));
                        }
                        LineOut::ImplFailure(m) => {
                            pre.push(Some(Outcome::Impl(m)));
                            metas.push(None);
                        }
                        LineOut::Harness(m) => {
                            pre.push(Some(Outcome::Harness(m)));
                            metas.push(None);
                        }
                    }
                }
                let verdicts = if lines.is_empty() { Ok(Default::default()) } else { driver::run(&lines) };
                let mut out = Vec::new();
                for (i, p) in pre.into_iter().enumerate() {
                    match p {
                        Some(o) => out.push(o),
                        None => {
                            let id = format!("c{}", id_base + ci * chunk + i);
                            let (m, h) = metas[i].take().unwrap();
                            match &verdicts {
                                Ok(map) => match map.get(&id) {
                                    Some(v) => out.push(Outcome::V(v.clone(), m, h)),
                                    None => out.push(Outcome::Harness(format!("no verdict for {}", id))),
                                },
                                Err(e) => out.push(Outcome::Harness(e.clone())),
                            }
                        }
                    }
                }
                out
            }));
        }
        for h in handles {
            results.push(h.join().unwrap_or_default());
        }
        done.store(true, Ordering::SeqCst);
    });
    results.into_iter().flatten().collect()
}

fn failure_of(o: &Outcome) -> Option<(String, String)> {
    match o {
        Outcome::V(v, _, _) if v.is_failure() => Some((v.kind().to_string(), v.text())),
        Outcome::Impl(m) => Some(("PROP".to_string(), m.clone())),
        Outcome::Harness(m) => Some(("BAD".to_string(), m.clone())),
        _ => None,
    }
}

/// greedy shrinking: keep the first smaller variant that fails in the same way
pub fn shrink_case<C: Case>(prop: &str, case: &C, kind: &str) -> (C, String) {
    let mut cur = case.clone();
    let mut what = String::new();
    for _round in 0..60 {
        let mut cands = cur.shrink();
        cands.truncate(600);
        if cands.is_empty() {
            break;
        }
        let outs = eval_batch(prop, &cands, 0);
        let mut found = None;
        for (i, o) in outs.iter().enumerate() {
            if let Some((k, w)) = failure_of(o) {
                if k == kind {
                    found = Some((i, w));
                    break;
                }
            }
        }
        match found {
            Some((i, w)) => {
                cur = cands[i].clone();
                what = w;
            }
            None => break,
        }
    }
    (cur, what)
}

/// run all cases, fold the outcomes into the summary; failures are shrunk (at most `max_fail` of them)
pub fn run_cases<C: Case>(sum: &mut Summary, cases: Vec<C>, max_fail: usize) {
    let prop = sum.property.clone();
    let batch = 4000;
    let mut base = 0;
    for part in cases.chunks(batch) {
        if let Some(d) = sum.deadline {
            if Instant::now() > d {
                sum.extra.insert("stopped_at_time_limit".into(), json!(true));
                break;
            }
        }
        let outs = eval_batch(&prop, part, base);
        for (c, o) in part.iter().zip(outs.iter()) {
            sum.evaluations += 1;
            match o {
                Outcome::V(v, m, h) => {
                    *sum.verdicts.entry(v.kind().to_string()).or_insert(0) += 1;
                    if let Verdict::Gen(r) = v {
                        *sum.gen_reasons.entry(r.clone()).or_insert(0) += 1;
                    }
                    if sum.seen.insert(*h) {
                        sum.distinct += 1;
                        if m.nontrivial && !matches!(v, Verdict::Gen(_)) {
                            sum.distinct_nontrivial += 1;
                            if sum.samples.len() < 3 {
                                sum.samples.push(c.json());
                            }
                        }
                    }
                    for (k, val) in &m.metrics {
                        *sum.metrics_sum.entry(k.clone()).or_insert(0) += val;
                        let e = sum.metrics_max.entry(k.clone()).or_insert(0);
                        *e = (*e).max(*val);
                        if *val > 0 {
                            *sum.metrics_cases.entry(k.clone()).or_insert(0) += 1;
                        }
                    }
                    for t in &m.tags {
                        *sum.tags.entry(t.clone()).or_insert(0) += 1;
                    }
                }
                Outcome::Impl(_) => *sum.verdicts.entry("PROP".into()).or_insert(0) += 1,
                Outcome::Harness(_) => *sum.verdicts.entry("BAD".into()).or_insert(0) += 1,
            }
            if let Some((kind, what)) = failure_of(o) {
                if sum.prop_only && kind != "PROP" {
                    continue;
                }
                if sum.failures.iter().filter(|f| f.kind == kind).count() < max_fail {
                    let (small, w2) = shrink_case(&prop, c, &kind);
                    let what = if w2.is_empty() { what } else { w2 };
                    sum.failures.push(Failure { kind, what, case: small.json() });
                }
            }
        }
        base += part.len();
    }
    if sum.samples.is_empty() {
        if let Some(c) = cases.first() {
            sum.samples.push(c.json());
        }
    }
}

// ------------------------------------------------------------------------------------------------
// history cases

fn info_meta(prop: &str, c: &HistoryCase, info: &Info) -> Meta {
    let repeated = info.max_count >= 2;
    let nontrivial = match prop {
        "C01" => repeated && info.optional >= 1,
        "C03" => repeated && info.optional >= 1 && info.multi >= 1,
        "C04" => info.collisions || info.duplicate_element_names,
        "C05" => info.collisions && info.optional >= 2,
        "C07" => info.ev.start + info.ev.empty >= 1,
        "C08" => info.steps_err >= 1 || info.ev.ignored >= 1,
        "C09" => repeated && (info.optional >= 2),
        "C10" => info.nodes >= 2,
        "C14" => info.duplicate_element_names,
        _ => true,
    };
    let mut metrics = vec![
        ("documents".to_string(), info.docs as u64),
        ("bytes".to_string(), info.bytes as u64),
        ("schema_nodes".to_string(), info.nodes as u64),
        ("depth".to_string(), info.depth as u64),
        ("optional_fields".to_string(), info.optional as u64),
        ("vec_fields".to_string(), info.multi as u64),
        ("max_occurrences_of_a_position".to_string(), info.max_count),
        ("steps_ok".to_string(), info.steps_ok as u64),
        ("steps_err".to_string(), info.steps_err as u64),
        ("ev_start".to_string(), info.ev.start as u64),
        ("ev_empty".to_string(), info.ev.empty as u64),
        ("ev_end".to_string(), info.ev.end as u64),
        ("ev_text".to_string(), info.ev.text as u64),
        ("ev_cdata".to_string(), info.ev.cdata as u64),
        ("ev_ignored".to_string(), info.ev.ignored as u64),
        ("ev_reader_error".to_string(), info.ev.err as u64),
        ("ev_attr_error".to_string(), info.ev.attr_errors as u64),
        ("identifier_collisions".to_string(), info.collisions as u64),
        ("same_name_at_several_positions".to_string(), info.duplicate_element_names as u64),
    ];
    metrics.push((format!("depth_{}", info.depth.min(9)), 1));
    let mut tags = vec![format!("theme:{}", c.theme), format!("reader:{}", c.cfg.describe())];
    for k in &info.error_kinds {
        tags.push(format!("error:{}", k));
    }
    Meta { nontrivial, metrics, tags }
}

/// independent syntax oracle for C04: the implementation's text must parse as a Rust file consisting of struct items
fn syn_oracle(c: &HistoryCase) -> Option<String> {
    // names outside C04's domain (not identifier characters plus - . :) are not in scope
    for d in &c.docs {
        if let Some(doc) = &d.dom {
            let mut names = Vec::new();
            doc.root.all_names(&mut names);
            if !names.iter().all(|n| n.chars().all(|ch| cases2::in_sigma(ch) && (ch.is_alphanumeric() || "_-.:".contains(ch))) && n.chars().find(|ch| ch.is_alphanumeric()).map_or(false, |ch| !ch.is_numeric())) {
                return None;
            }
        } else {
            return None;
        }
    }
    let mut tree = None;
    for d in &c.docs {
        if let crate::implrun::Step::Ok(e) = crate::implrun::step(&d.bytes, c.cfg, tree.as_ref()) {
            tree = Some(e);
        }
    }
    let tree = tree?;
    for o in &c.opts {
        if o.derive.contains('\n') {
            continue;
        }
        let txt = crate::implrun::render(&tree, o).ok()?;
        match syn::parse_file(&txt) {
            Ok(f) => {
                if !f.items.iter().all(|i| matches!(i, syn::Item::Struct(_))) {
                    return Some("syn: the rendered source contains an item that is not a struct".into());
                }
            }
            Err(e) => return Some(format!("syn::parse_file rejects the rendered source: {}", e)),
        }
    }
    None
}

impl Case for HistoryCase {
    fn line(&self, id: &str, prop: &str) -> LineOut {
        if prop == "C04" {
            if let Some(msg) = syn_oracle(self) {
                return LineOut::ImplFailure(msg);
            }
        }
        match self.build() {
            Built::Line { body, info } => LineOut::Line(format!("H {} {} {}", id, prop, body), info_meta(prop, self, &info)),
            Built::Panic(m) => LineOut::ImplFailure(m),
            Built::Harness(m) => LineOut::Harness(m),
        }
    }
    fn shrink(&self) -> Vec<Self> {
        self.shrink_candidates()
    }
    fn json(&self) -> Value {
        self.to_json()
    }
}

fn random_cfg(rng: &mut Rng) -> ReaderCfg {
    ReaderCfg {
        trim_text: rng.chance(1, 3),
        expand_empty: rng.chance(1, 4),
        check_end_names: !rng.chance(1, 8),
        capacity: if rng.chance(1, 2) { 0 } else { rng.range(1, 64) },
    }
}

pub fn corpus_dir(prop: &str) -> String {
    format!("/verif/corpus/{}", prop)
}

pub fn load_corpus_history(prop: &str) -> Vec<HistoryCase> {
    let mut out = Vec::new();
    let mut paths: Vec<_> = match std::fs::read_dir(corpus_dir(prop)) {
        Ok(d) => d.filter_map(|e| e.ok()).map(|e| e.path()).collect(),
        Err(_) => return out,
    };
    paths.sort();
    for p in paths {
        if p.extension().map_or(false, |e| e == "json") {
            if let Ok(s) = std::fs::read_to_string(&p) {
                if let Ok(v) = serde_json::from_str::<Value>(&s) {
                    let cv = if v.get("case").is_some() { &v["case"] } else { &v };
                    if cv["kind"] == "history" {
                        if let Ok(c) = HistoryCase::from_json(cv) {
                            out.push(c);
                        }
                    }
                }
            }
        }
    }
    out
}

fn n_cases(prop: &str, tier: &str) -> usize {
    let quick = match prop {
        "C01" | "C03" | "C09" | "C14" => 3000,
        "C04" => 4000,
        "C05" => 400,
        "C07" => 60000,
        "C08" => 40000,
        "C10" => 600,
        _ => 1000,
    };
    let thorough = match prop {
        "C01" | "C03" | "C09" | "C14" => 150_000,
        "C04" => 200_000,
        "C05" => 20_000,
        "C07" => 3_000_000,
        "C08" => 2_000_000,
        "C10" => 30_000,
        _ => 50_000,
    };
    if tier == "thorough" {
        thorough
    } else {
        quick
    }
}

fn option_grid(rng: &mut Rng, n: usize) -> Vec<OptRec> {
    let derives = ["", "Serialize, Deserialize", "Debug", "Debug, Clone , serde::Deserialize", "Отладка(x)", " Debug", "Debug ", "  ", "DEBUG"];
    let prefixes = ["@", "", "attr_", "$"];
    let texts = ["$text", "$value", "text", "#text"];
    let mut out = vec![OptRec::quick(), OptRec::sxr(), OptRec::quick_sorted()];
    while out.len() < n {
        out.push(OptRec {
            text_identifier: rng.pick(&texts).to_string(),
            attribute_prefix: rng.pick(&prefixes).to_string(),
            derive: rng.pick(&derives).to_string(),
            sort_by_name: rng.chance(1, 2),
        });
    }
    out
}

pub fn gen_history_cases(prop: &str, tier: &str, rng: &mut Rng, start: usize, n: usize) -> Vec<HistoryCase> {
    let thorough = tier == "thorough";
    let mut out = Vec::with_capacity(n);
    for i in start..start + n {
        let mut r = rng.fork();
        match prop {
            "C07" | "C08" => {
                // byte-level: mutate a generated document, or a structured fault, or raw bytes
                let mut cfg = GenCfg::quick();
                cfg.max_depth = 3;
                cfg.max_fanout = 3;
                let h = gen::gen_history(&mut r, &gen::THEMES, &cfg);
                let ndocs = r.range(1, 2);
                let mut docs = Vec::new();
                for d in 0..ndocs {
                    let base = h.docs[d.min(h.docs.len() - 1)].to_xml();
                    let bytes = match r.below(10) {
                        0 => gen::random_bytes(&mut r),
                        1 | 2 | 3 => gen::structured_fault(&mut r, &base),
                        4 => base.into_bytes(),
                        _ => gen::mutate(&mut r, base.as_bytes()),
                    };
                    docs.push(DocInput::from_bytes(bytes));
                }
                let rcfg = if prop == "C08" {
                    ReaderCfg { capacity: if r.chance(1, 2) { 0 } else { r.range(1, 64) }, ..ReaderCfg::default_cfg() }
                } else {
                    random_cfg(&mut r)
                };
                let opts = if prop == "C07" { option_grid(&mut r, 4) } else { vec![] };
                out.push(HistoryCase { docs, cfg: rcfg, opts, repeats: 1, theme: format!("{:?}", h.theme) });
            }
            _ => {
                let mut cfg = GenCfg::quick();
                if thorough {
                    cfg.max_depth = 6;
                    cfg.max_fanout = 6;
                    cfg.max_positions = 60;
                    cfg.max_nodes = 250;
                }
                let themes: Vec<Theme> = match prop {
                    "C05" => vec![Theme::CaseVariants, Theme::Separators, Theme::SuffixTraps, Theme::Concat, Theme::Keywords, Theme::Mixed, Theme::NumberedNames],
                    "C14" => vec![Theme::Recurring, Theme::Concat, Theme::CaseVariants, Theme::Plain, Theme::Prelude, Theme::Mixed, Theme::NumberedNames, Theme::Separators, Theme::SuffixTraps, Theme::RandomNames],
                    _ => gen::THEMES.to_vec(),
                };
                if prop == "C09" {
                    cfg.late_bias = true;
                }
                if prop == "C05" {
                    cfg.max_fanout = 6;
                    cfg.max_docs = 3;
                }
                if i % 50 == 49 {
                    // a deep chain now and then
                    cfg.max_depth = if thorough { 40 } else { 12 };
                    cfg.max_fanout = 1;
                }
                let h = gen::gen_history(&mut r, &themes, &cfg);
                let docs: Vec<DocInput> = h.docs.into_iter().map(DocInput::from_dom).collect();
                let opts = match prop {
                    "C10" => {
                        let mut g = option_grid(&mut r, if thorough { 48 } else { 24 });
                        // derive strings that name structs of this very output: an option must not interact with the names it meets
                        let mut tree = None;
                        for d in &docs {
                            let d: &DocInput = d;
                            if let crate::implrun::Step::Ok(e) = crate::implrun::step(&d.bytes, ReaderCfg::default_cfg(), tree.as_ref()) {
                                tree = Some(e);
                            }
                        }
                        // attribute prefixes and text identifiers taken from the names the case itself uses
                        let mut names: Vec<String> = Vec::new();
                        for d in &docs {
                            let d: &DocInput = d;
                            if let Some(dom) = &d.dom {
                                dom.root.all_names(&mut names);
                            }
                        }
                        if !names.is_empty() {
                            for k in 0..3 {
                                let nm = names[r.below(names.len())].clone();
                                let local = nm.split(':').last().unwrap_or("").to_string();
                                let cut = local.char_indices().nth(1 + r.below(3)).map(|(i, _)| i).unwrap_or(local.len());
                                let n = g.len();
                                let mut o = g[(k + 5) % n].clone();
                                match k {
                                    0 => o.attribute_prefix = local[..cut].to_string(),
                                    1 => o.attribute_prefix = local.clone(),
                                    _ => o.text_identifier = local.clone(),
                                }
                                g.push(o);
                            }
                        }
                        if let Some(t) = &tree {
                            if let Ok(txt) = crate::implrun::render(t, &OptRec::quick()) {
                                let names: Vec<&str> = txt.lines().filter_map(|l| l.strip_prefix("pub struct ").and_then(|x| x.strip_suffix(" {"))).collect();
                                if !names.is_empty() {
                                    let a = names[r.below(names.len())];
                                    let b = names[r.below(names.len())];
                                    for (k, derive) in [a.to_string(), format!("Debug, {}", a), format!("{} , {}", a, b)].into_iter().enumerate() {
                                        let n = g.len();
                                        let mut o = g[(k + 3) % n].clone();
                                        o.derive = derive;
                                        g.push(o);
                                    }
                                }
                            }
                        }
                        g
                    }
                    "C04" => vec![OptRec::quick(), OptRec::quick_sorted(), OptRec::sxr()],
                    _ => vec![OptRec::quick(), OptRec::quick_sorted()],
                };
                let repeats = if prop == "C05" { if thorough { 32 } else { 16 } } else { 1 };
                out.push(HistoryCase { docs, cfg: random_cfg(&mut r), opts, repeats, theme: format!("{:?}", h.theme) });
            }
        }
    }
    out
}

pub fn rule_for(prop: &str) -> String {
    match prop {
        "C01" => "histories of 1-4 generated documents (shape-driven: per-position attribute and child pools, random subsets per occurrence, themes of adversarial names, random reader configuration); distinct = hash of the canonical case line; non-trivial = some position has >= 2 occurrences and the schema has >= 1 Option field",
        "C03" => "as C01; non-trivial = some position has >= 2 occurrences and the schema has >= 1 Option and >= 1 Vec field",
        "C04" => "generated histories over adversarial name themes, three option records; non-trivial = the rendering contains an identifier collision suffix or the same element name occurs at several positions (qualified struct names)",
        "C05" => "generated histories biased to colliding identifiers, each parsed and rendered repeatedly (fresh HashMap seeds); non-trivial = identifier collision and >= 2 Option fields",
        "C07" => "byte strings: mutated generated documents, structured faults, raw random bytes; random reader configuration and buffer capacity; non-trivial = at least one Start/Empty event reaches parse_tag",
        "C08" => "byte strings as C07 with a default-configured reader; non-trivial = the case contains a fault or ignored events around elements",
        "C09" => "generated histories where later occurrences introduce several new attributes/children; non-trivial = a position has >= 2 occurrences and >= 2 Option fields",
        "C10" => "generated histories rendered under a grid of option records; non-trivial = tree with >= 2 positions",
        "C14" => "generated histories over themes with recurring names; non-trivial = the same element name occurs at several positions",
        "C15" => "all pairs of duplicate-free tagged lists over a small alphabet (exhaustive), random pairs up to length 40 beyond; distinct = hash of the case line; non-trivial = the second list has >= 2 items absent from the first",
        "C16" => "all operation sequences up to a length bound over a fixed single-operation alphabet (exhaustive), random sequences up to length 60 at depth <= 3 beyond; non-trivial = the sequence adds a present name, or removes then adds, or operates on a name after set_child_optional",
        "C06" => "generated histories of 2-5 documents, each paired with 3 permutations, a duplication, an interleaving with element-less inputs, an insertion of a faulty document, a variant whose first input repeats its root element, and a sub-structure (the element at a path of the parsed structure) extended with occurrences of that element; non-trivial = the schema has >= 2 positions",
        "C02" => "generated data-oriented histories; each rendering (quick-xml preset, unchanged, and a copy with deny_unknown_fields on every struct) is compiled by the real rustc with serde_derive and run: quick_xml::de::from_str on every source document, the value is fed to a string-collecting Serializer (every attribute value and text must be in it) and to a dumping Serializer whose output is compared with the value the Lean deserializer model (Model/Deser.lean) computes from the rendered text, for the source documents and for 1-3 foreign variants per program (extra.deser_model_*); non-trivial = program with >= 2 structs, >= 1 Option and >= 1 Vec field",
        "C13" => "as C02 with the serde-xml-rs preset and serde_xml_rs::from_str (namespace-free, repeated children adjacent, attribute names distinct from child names); non-trivial = program with >= 2 structs, >= 1 Option and >= 1 Vec field",
        "C12" => "scenarios = input (generated valid document, structured fault, byte mutation, not UTF-8, missing, directory) x --parser x --derive x --sort x output (stdout, new file, existing file, missing directory, a directory), run with the real binary in a fresh directory; non-trivial = not (valid input, all defaults, stdout)",
        "C11" => "generated histories paired with a rewritten variant (new values, text<->CDATA, inserted/removed comments, PIs, declaration, DOCTYPE, <x/> <-> <x></x>, expand_empty_elements, buffer capacity); non-trivial = the rewrite touched something",
        _ => "generated cases",
    }
    .to_string()
}

pub fn check_history(sum: &mut Summary) {
    let (prop, tier, seed) = (sum.property.clone(), sum.tier.clone(), sum.seed);
    if matches!(prop.as_str(), "C04" | "C05" | "C09" | "C10" | "C14" | "C01" | "C03") {
        run_tables(sum);
    }
    if prop == "C05" {
        // the model has one iteration-order parameter per HashMap/HashSet iteration site of the source
        let (sites, problems) = crate::inventory::scan("/repo");
        let modelled: std::collections::BTreeSet<String> = crate::inventory::MODELLED_SITES.iter().map(|s| s.to_string()).collect();
        sum.extra.insert("hash_iteration_sites_in_source".into(), json!(sites.iter().collect::<Vec<_>>()));
        // a site is `file:function:expression`; a private function may be renamed or moved to another file without
        // changing what is iterated, so the comparison is on the iterated map (with multiplicity)
        let shape = |set: &std::collections::BTreeSet<String>| -> Vec<String> {
            let mut v: Vec<String> = set
                .iter()
                .map(|s| {
                    let parts: Vec<&str> = s.splitn(3, ':').collect();
                    // `for x in m`, `m.iter()`, `m.into_iter()`, `m.keys()` … all walk `m` in hash order: one site `m`
                    let what = if parts.len() == 3 { parts[2] } else { s.as_str() };
                    match what.strip_prefix("for-in ") {
                        Some(m) => m.to_string(),
                        None => what.rsplit_once('.').map(|(m, _)| m.to_string()).unwrap_or_else(|| what.to_string()),
                    }
                })
                .collect();
            v.sort();
            v
        };
        if sites != modelled && shape(&sites) == shape(&modelled) {
            sum.extra.insert("hash_iteration_sites_in_other_functions_than_recorded".into(), json!(sites.difference(&modelled).collect::<Vec<_>>()));
        }
        if shape(&sites) != shape(&modelled) || !problems.is_empty() {
            let extra: Vec<&String> = sites.difference(&modelled).collect();
            let missing: Vec<&String> = modelled.difference(&sites).collect();
            sum.failures.push(Failure {
                kind: "CORR".into(),
                what: format!("the source iterates a HashMap/HashSet where the model has no iteration-order parameter: new sites {:?}, vanished sites {:?}, unparsable {:?}", extra, missing, problems),
                case: json!({"kind": "inventory", "sites": sites.iter().collect::<Vec<_>>(), "modelled": modelled.iter().collect::<Vec<_>>()}),
            });
        }
    }
    let cases = load_corpus_history(&prop);
    sum.extra.insert("corpus_cases".into(), json!(cases.len()));
    run_cases(sum, cases, 3);
    // generated cases, in chunks (memory stays bounded for the thorough tier)
    let mut rng = Rng::new(seed ^ hash_str(&prop));
    let n = n_cases(&prop, &tier);
    let chunk = 8_000;
    let mut done = 0;
    while done < n {
        if let Some(d) = sum.deadline {
            if Instant::now() > d {
                break;
            }
        }
        let m = chunk.min(n - done);
        let cases = gen_history_cases(&prop, &tier, &mut rng, done, m);
        run_cases(sum, cases, 3);
        done += m;
    }
    if prop == "C05" {
        c05_processes(sum, &mut rng);
    }
    if prop == "C04" {
        c04_wide_unicode(sum, &mut rng);
    }
}

/// what C04 asks of one rendering, checked without the Lean model: parses as a Rust file of struct items (syn's lexer
/// applies Rust's real identifier tables), struct names unique and not String/Option/Vec, field names unique per struct,
/// every field type String or a struct of the file
fn c04_text_ok(txt: &str) -> Result<(), String> {
    let f = syn::parse_file(txt).map_err(|e| format!("syn: {}", e))?;
    let mut names: Vec<String> = Vec::new();
    for it in &f.items {
        match it {
            syn::Item::Struct(s) => names.push(s.ident.to_string()),
            _ => return Err("an item that is not a struct".into()),
        }
    }
    let set: HashSet<&String> = names.iter().collect();
    if set.len() != names.len() {
        return Err("a struct name is defined twice".into());
    }
    // rustc compares identifiers after NFC normalisation; the three letter-like symbols with a singleton canonical
    // decomposition are the only way two *distinct* PascalCase names of this generator can be NFC-equal
    let folded: HashSet<String> = names.iter().map(|n| nfc_fold(n)).collect();
    if folded.len() != names.len() {
        return Err(format!("{}: two struct names are the same identifier after NFC normalisation", K6_SIG));
    }
    if let Some(n) = names.iter().find(|n| matches!(n.as_str(), "String" | "Option" | "Vec")) {
        return Err(format!("struct {} shadows a type the fields use", n));
    }
    for it in &f.items {
        if let syn::Item::Struct(s) = it {
            let mut seen = HashSet::new();
            for fld in s.fields.iter() {
                let id = fld.ident.as_ref().map(|i| i.to_string()).unwrap_or_default();
                if !seen.insert(id.clone()) {
                    return Err(format!("field {} declared twice in {}", id, s.ident));
                }
                let ty = &fld.ty;
                let ty = quote::quote!(#ty).to_string();
                let base = ty.replace("Option <", "").replace("Vec <", "").replace('>', "").replace(' ', "");
                if base != "String" && !names.contains(&base) {
                    return Err(format!("field {} of {} has the unresolved type {}", id, s.ident, base));
                }
            }
        }
    }
    Ok(())
}

pub const K6_SIG: &str = "nfc-equivalent-names-one-rust-identifier";

/// the singleton canonical decompositions among letters: ANGSTROM SIGN, OHM SIGN, KELVIN SIGN
pub fn nfc_fold(s: &str) -> String {
    s.chars().map(|c| match c { '\u{212B}' => '\u{C5}', '\u{2126}' => '\u{3A9}', '\u{212A}' => 'K', c => c }).collect()
}

/// C04 beyond the alphabet the Lean model supports: names made of letters from many scripts (special case mappings,
/// letters without case, combining vowel signs, full-width and mathematical letters, ligatures), rendered by the real
/// library and judged by `syn` and the structural conditions above; property-level check on the implementation alone
fn c04_wide_unicode(sum: &mut Summary, rng: &mut Rng) {
    let letters: Vec<&str> = vec![
        "σ", "ς", "Σ", "α", "İ", "ı", "ǅ", "ǆ", "ŉ", "ǰ", "ΐ", "ﬁ", "ß", "ẞ", "ա", "Ա", "ა", "Ა", "א", "ب", "क", "का", "कि", "한", "あ", "ア", "ｱ", "Ａ", "ａ",
        "𝐀", "𝐚", "ǈ", "\u{3A9}", "\u{2126}", "µ", "ſ", "K", "\u{212A}", "\u{C5}", "\u{212B}", "ⅷ", "Ⅷ", "ᾳ", "ᾼ", "e\u{301}", "a", "B", "x", "1", "２", "٣", "_", "-", ".",
    ];
    let n = if sum.tier == "thorough" { 4000 } else { 400 };
    let mut checked = 0u64;
    let mut k6 = 0u64;
    // committed witnesses first
    let mut fixed: Vec<String> = load_corpus_values("C04").iter().filter(|v| v["kind"] == "unicode-doc").filter_map(|v| v["document"].as_str().map(|s| s.to_string())).collect();
    for step in 0..n + fixed.len() {
        let mut r = rng.fork();
        let from_corpus = if step < fixed.len() { Some(std::mem::take(&mut fixed[step])) } else { None };
        let mut pool: Vec<String> = Vec::new();
        while pool.len() < 6 {
            let len = r.range(1, 5);
            let mut s = String::new();
            for _ in 0..len {
                let l: &str = *r.pick(&letters[..]);
                s.push_str(l);
            }
            // C04's domain: first character a letter (XML name start), a letter before any digit
            if s.chars().next().map_or(false, |c| c.is_alphabetic()) && s.chars().find(|c| c.is_alphanumeric()).map_or(false, |c| !c.is_numeric()) {
                pool.push(s);
            }
        }
        fn node(r: &mut Rng, pool: &[String], depth: usize) -> Node {
            let nm: &String = r.pick(pool);
            let mut nd = Node::new(nm);
            let mut used = HashSet::new();
            for _ in 0..r.below(3) {
                let a = r.pick(pool).clone();
                if used.insert(a.clone()) {
                    nd.attrs.push((a, "v".into()));
                }
            }
            if depth < 3 {
                for _ in 0..r.below(4) {
                    nd.items.push(Item::Elem(node(r, pool, depth + 1)));
                }
            }
            if nd.items.is_empty() && r.chance(1, 2) {
                nd.items.push(Item::Text("t".into()));
            }
            nd
        }
        let xml = match from_corpus {
            Some(x) => x,
            None => Doc::plain(node(&mut r, &pool, 0)).to_xml(),
        };
        let tree = match crate::implrun::step(xml.as_bytes(), ReaderCfg::default_cfg(), None) {
            crate::implrun::Step::Ok(t) => t,
            crate::implrun::Step::Panic(m) => {
                sum.failures.push(Failure { kind: "PROP".into(), what: format!("panic while parsing: {}", m), case: json!({"kind": "unicode-doc", "document": xml}) });
                continue;
            }
            _ => continue,
        };
        for o in [OptRec::quick(), OptRec::quick_sorted(), OptRec::sxr()] {
            match crate::implrun::render(&tree, &o) {
                Ok(txt) => {
                    checked += 1;
                    if let Err(why) = c04_text_ok(&txt) {
                        if why.starts_with(K6_SIG) && known_listed("C04", K6_SIG) {
                            k6 += 1;
                        } else if sum.failures.iter().filter(|f| f.kind == "PROP").count() < 3 {
                            sum.failures.push(Failure { kind: "PROP".into(), what: format!("names outside the model's alphabet: {}", why), case: json!({"kind": "unicode-doc", "document": xml, "rendered": txt}) });
                        }
                    }
                }
                Err(m) => sum.failures.push(Failure { kind: "PROP".into(), what: format!("panic while rendering: {}", m), case: json!({"kind": "unicode-doc", "document": xml}) }),
            }
        }
    }
    sum.extra.insert("renderings_with_names_outside_the_model_alphabet_checked_by_syn".into(), json!(checked));
    if k6 > 0 {
        sum.extra.insert("known_hits_K6".into(), json!(k6));
        let mut hits: Vec<Value> = sum.extra.get("known_hits").and_then(|v| v.as_array().cloned()).unwrap_or_default();
        hits.push(json!(K6_SIG));
        sum.extra.insert("known_hits".into(), json!(hits));
    }
}

/// C05 across processes: the real binary, started several times on the same file (each process draws its own hash
/// keys), must print the same bytes; property-level check on the implementation alone
fn c05_processes(sum: &mut Summary, rng: &mut Rng) {
    if let Err(e) = cli::build_repo_binary() {
        sum.failures.push(Failure { kind: "BAD".into(), what: format!("cannot build the binary: {}", e), case: json!({"kind": "build"}) });
        return;
    }
    let n = if sum.tier == "thorough" { 200 } else { 24 };
    let runs = if sum.tier == "thorough" { 6 } else { 4 };
    let dir = format!("/verif/.build/c05proc-{}", std::process::id());
    let _ = std::fs::remove_dir_all(&dir);
    if std::fs::create_dir_all(&dir).is_err() {
        return;
    }
    // the known shapes first (D2/D4 of the pinned tree), then generated documents biased to colliding identifiers
    let mut docs: Vec<String> = vec![
        "<r><p><Foo/><foo/></p><p></p></r>".into(),
        "<r><p><Foo a=\"1\"/><foo a=\"2\"/><FOO/></p><p/><q><p><foo b=\"1\"/></p></q></r>".into(),
        "<r><b><c a=\"1\"/></b><d><c a=\"1\"/></d><d_c a=\"1\"/><e><d><c/></d></e></r>".into(),
    ];
    let themes = [Theme::CaseVariants, Theme::Separators, Theme::SuffixTraps, Theme::Concat, Theme::Keywords, Theme::Mixed, Theme::Recurring];
    let mut cfg = GenCfg::quick();
    cfg.max_docs = 1;
    while docs.len() < n {
        let mut r = rng.fork();
        let h = gen::gen_history(&mut r, &themes, &cfg);
        if let Some(d) = h.docs.first() {
            docs.push(d.to_xml());
        }
    }
    let mut compared = 0u64;
    for (i, xml) in docs.iter().enumerate() {
        let path = format!("{}/in{}.xml", dir, i);
        if std::fs::write(&path, xml).is_err() {
            continue;
        }
        let mut outs: Vec<(Option<i32>, Vec<u8>)> = Vec::new();
        for _ in 0..runs {
            match std::process::Command::new(cli::REPO_BIN).arg(&path).output() {
                Ok(o) => outs.push((o.status.code(), o.stdout)),
                Err(e) => {
                    sum.failures.push(Failure { kind: "BAD".into(), what: format!("cannot run the binary: {}", e), case: json!({"kind": "run"}) });
                    let _ = std::fs::remove_dir_all(&dir);
                    return;
                }
            }
        }
        compared += 1;
        if outs.iter().any(|o| *o != outs[0]) && sum.failures.iter().filter(|f| f.kind == "PROP").count() < 3 {
            let distinct: std::collections::BTreeSet<String> = outs.iter().map(|o| String::from_utf8_lossy(&o.1).to_string()).collect();
            sum.failures.push(Failure {
                kind: "PROP".into(),
                what: format!("{} runs of the binary on the same file printed {} different outputs", runs, distinct.len()),
                case: json!({"kind": "cli-repeat", "document": xml, "outputs": distinct.into_iter().collect::<Vec<_>>()}),
            });
        }
    }
    sum.extra.insert("documents_rendered_by_separate_processes".into(), json!(compared));
    sum.extra.insert("processes_per_document".into(), json!(runs));
    let _ = std::fs::remove_dir_all(&dir);
}

/// the character functions over the whole supported alphabet and convert_string on small strings / pool names:
/// validates the part of the model that stands for `std` and `convert_string`
pub fn run_tables(sum: &mut Summary) {
    let mut rng = Rng::new(sum.seed);
    let mut cases: Vec<TableCase> = cases2::char_table_cases();
    let nchars = cases.len();
    cases.extend(cases2::convert_table_cases(&mut rng));
    cases.extend(cases2::preset_cases());
    sum.extra.insert("alphabet_scalars_compared_with_std".into(), json!(nchars));
    sum.extra.insert("convert_string_inputs_compared".into(), json!(cases.len() - nchars));
    let before = (sum.evaluations, sum.distinct, sum.distinct_nontrivial);
    let samples = sum.samples.len();
    run_cases(sum, cases, 2);
    // table rows are validation of the model, not cases of the property: keep them out of the counts
    sum.evaluations = before.0;
    sum.distinct = before.1;
    sum.distinct_nontrivial = before.2;
    sum.samples.truncate(samples);
}

fn load_corpus_values(prop: &str) -> Vec<Value> {
    let mut out = Vec::new();
    let mut paths: Vec<_> = match std::fs::read_dir(corpus_dir(prop)) {
        Ok(d) => d.filter_map(|e| e.ok()).map(|e| e.path()).collect(),
        Err(_) => return out,
    };
    paths.sort();
    for p in paths {
        if p.extension().map_or(false, |e| e == "json") {
            if let Ok(s) = std::fs::read_to_string(&p) {
                if let Ok(v) = serde_json::from_str::<Value>(&s) {
                    out.push(if v.get("case").is_some() { v["case"].clone() } else { v });
                }
            }
        }
    }
    out
}

pub fn check_c15(sum: &mut Summary) {
    let thorough = sum.tier == "thorough";
    let mut cases: Vec<ListCase> = load_corpus_values("C15").iter().filter_map(ListCase::from_json).collect();
    sum.extra.insert("corpus_cases".into(), json!(cases.len()));
    let alphabet: Vec<&str> = if thorough { vec!["1", "2", "3", "4"] } else { vec!["1", "2", "3"] };
    let lists = cases2::all_tagged_lists(&alphabet);
    sum.extra.insert("enumerated_lists".into(), json!(lists.len()));
    for xs in &lists {
        for ys in &lists {
            cases.push(ListCase { xs: xs.clone(), ys: ys.clone(), as_u8: true });
            if !thorough || (xs.len() + ys.len()) <= 5 {
                cases.push(ListCase { xs: xs.clone(), ys: ys.clone(), as_u8: false });
            }
        }
    }
    sum.exhaustive = true;
    sum.extra.insert("exhaustive_scope".into(), json!(format!("all pairs of duplicate-free tagged lists over {} items (u8 payloads; String payloads too{})", alphabet.len(), if thorough { " up to total length 5" } else { "" })));
    let mut rng = Rng::new(sum.seed ^ 0xC15);
    let n = if thorough { 200_000 } else { 5_000 };
    for _ in 0..n {
        let xs = cases2::random_list(&mut rng, 40, 60);
        let ys = cases2::random_list(&mut rng, 40, 60);
        cases.push(ListCase { xs, ys, as_u8: rng.chance(1, 2) });
    }
    run_cases(sum, cases, 3);
}

pub fn check_c16(sum: &mut Summary) {
    let thorough = sum.tier == "thorough";
    let mut cases: Vec<OpsCase> = load_corpus_values("C16").iter().filter_map(OpsCase::from_json).collect();
    sum.extra.insert("corpus_cases".into(), json!(cases.len()));
    let alpha = cases2::op_alphabet();
    let max_len = if thorough { 5 } else { 3 };
    let opts = vec![OptRec::quick(), OptRec::quick_sorted()];
    // exhaustive: every sequence over the alphabet up to max_len
    let mut frontier: Vec<Vec<Op>> = vec![vec![]];
    let mut count = 0usize;
    for _ in 0..max_len {
        let mut next = Vec::new();
        for seq in &frontier {
            for op in &alpha {
                let mut s = seq.clone();
                s.push(op.clone());
                next.push(s);
            }
        }
        for s in &next {
            cases.push(OpsCase { root: ("r".into(), vec![]), ops: s.clone(), opts: opts.clone() });
            count += 1;
        }
        frontier = next;
    }
    sum.exhaustive = true;
    sum.extra.insert("exhaustive_scope".into(), json!(format!("all {} operation sequences of length <= {} over {} single operations (names x, y, X; one nesting level)", count, max_len, alpha.len())));
    let mut rng = Rng::new(sum.seed ^ 0xC16);
    let n = if thorough { 200_000 } else { 4_000 };
    for _ in 0..n {
        let len = rng.range(1, 60);
        let ops = cases2::random_ops(&mut rng, len);
        let root_attrs = if rng.chance(1, 2) { vec!["a".to_string()] } else { vec![] };
        cases.push(OpsCase { root: (rng.pick(&["r", "type", "Root-El"]).to_string(), root_attrs), ops, opts: opts.clone() });
    }
    run_cases(sum, cases, 3);
}

fn elementless_doc(rng: &mut Rng) -> DocInput {
    let b: &[u8] = *rng.pick(&[&b""[..], b"<!-- nothing -->", b"  \n ", b"just text", b"<?xml version=\"1.0\"?>", b"<?xml version=\"1.0\"?><!DOCTYPE r><!-- c -->\n"]);
    DocInput::from_bytes(b.to_vec())
}

pub fn check_c06(sum: &mut Summary) {
    let thorough = sum.tier == "thorough";
    let mut cases: Vec<PairCase> = load_corpus_values("C06").iter().filter_map(PairCase::from_json).collect();
    let mut subs: Vec<SubCase> = load_corpus_values("C06").iter().filter(|v| v["kind"] == "sub-structure").filter_map(SubCase::from_json).collect();
    sum.extra.insert("corpus_cases".into(), json!(cases.len() + subs.len()));
    let mut rng = Rng::new(sum.seed ^ 0xC06);
    let n = if thorough { 60_000 } else { 1_500 };
    for i in 0..n {
        if i % 2000 == 1999 {
            let batch = std::mem::take(&mut cases);
            run_cases(sum, batch, 3);
            let batch = std::mem::take(&mut subs);
            run_cases(sum, batch, 3);
            if let Some(d) = sum.deadline {
                if Instant::now() > d {
                    break;
                }
            }
        }
        let mut r = rng.fork();
        let mut cfg = GenCfg::quick();
        cfg.max_docs = 5;
        if thorough {
            cfg.max_depth = 5;
        }
        let mut h = gen::gen_history(&mut r, &gen::THEMES, &cfg);
        if h.docs.len() < 2 {
            let shape_doc = h.docs[0].clone();
            h.docs.push(shape_doc);
        }
        let rcfg = random_cfg(&mut r);
        let theme = format!("{:?}", h.theme);
        let base = HistoryCase { docs: cases2::docs_of(&h.docs), cfg: rcfg, opts: vec![OptRec::quick()], repeats: 1, theme: theme.clone() };
        for _ in 0..3 {
            let mut p = base.clone();
            r.shuffle(&mut p.docs);
            cases.push(PairCase { rel: "permuted".into(), a: base.clone(), b: p, nontrivial: true });
        }
        {
            let mut d = base.clone();
            let i = r.below(d.docs.len());
            let j = r.below(d.docs.len() + 1);
            let dup = d.docs[i].clone();
            d.docs.insert(j, dup);
            cases.push(PairCase { rel: "duplicated".into(), a: base.clone(), b: d, nontrivial: true });
        }
        {
            let mut e = base.clone();
            let k = r.range(1, 3);
            for _ in 0..k {
                let j = r.range(1, e.docs.len());
                e.docs.insert(j, elementless_doc(&mut r));
            }
            cases.push(PairCase { rel: "empties".into(), a: base.clone(), b: e, nontrivial: true });
        }
        {
            let mut f = base.clone();
            let j = r.range(1, f.docs.len());
            let src = base.docs[r.below(base.docs.len())].bytes.clone();
            let bad = gen::structured_fault(&mut r, &String::from_utf8_lossy(&src));
            f.docs.insert(j, DocInput::from_bytes(bad));
            cases.push(PairCase { rel: "faulty".into(), a: base.clone(), b: f, nontrivial: true });
        }
        {
            // the first two documents supplied as one input that repeats its root element (the structure's root is
            // then marked as repeated), followed by the other documents, an element-less input and one document again
            let mut g = base.clone();
            let mut items: Vec<crate::dom::Item> = Vec::new();
            for (i, d) in h.docs.iter().take(2).enumerate() {
                if i > 0 {
                    items.push(crate::dom::Item::Ws("\n".into()));
                }
                items.extend(d.prolog.iter().cloned());
                items.push(crate::dom::Item::Elem(d.root.clone()));
                items.extend(d.epilog.iter().cloned());
            }
            g.docs.splice(0..2, [DocInput::from_items(items)]);
            g.docs.push(elementless_doc(&mut r));
            let again = base.docs[r.below(base.docs.len())].clone();
            g.docs.push(again);
            cases.push(PairCase { rel: "fragment".into(), a: base.clone(), b: g, nontrivial: true });
        }
        {
            // a sub-structure: the element at a path of child names is taken out of the parsed structure and extended
            // with occurrences of that element (some of them reduced) and element-less inputs
            let src = &h.docs[r.below(h.docs.len())];
            let path = random_path(&mut r, &src.root);
            if !path.is_empty() {
                let mut occ: Vec<&crate::dom::Node> = Vec::new();
                for d in &h.docs {
                    nodes_at(&d.root, &path, &mut occ);
                }
                let mut ext: Vec<DocInput> = Vec::new();
                for _ in 0..r.range(1, 3) {
                    let mut n = (*r.pick(&occ)).clone();
                    if r.chance(1, 2) {
                        let smaller = crate::hcase::shrink_node(&n);
                        if !smaller.is_empty() {
                            n = smaller[r.below(smaller.len())].clone();
                        }
                    }
                    ext.push(DocInput::from_dom(crate::dom::Doc::plain(n)));
                }
                if r.chance(1, 2) {
                    let j = r.below(ext.len() + 1);
                    ext.insert(j, elementless_doc(&mut r));
                }
                subs.push(SubCase { base: base.clone(), path, ext: HistoryCase { docs: ext, cfg: rcfg, opts: vec![OptRec::quick()], repeats: 1, theme: theme.clone() } });
            }
        }
    }
    run_cases(sum, cases, 3);
    run_cases(sum, subs, 3);
}

fn nodes_at<'a>(n: &'a crate::dom::Node, path: &[String], out: &mut Vec<&'a crate::dom::Node>) {
    if path.is_empty() {
        out.push(n);
        return;
    }
    for c in n.children() {
        if c.name == path[0] {
            nodes_at(c, &path[1..], out);
        }
    }
}

/// a path of child names that exists below `root` (empty if the root has no child elements)
fn random_path(r: &mut Rng, root: &crate::dom::Node) -> Vec<String> {
    let mut path = Vec::new();
    let mut cur = root;
    loop {
        let kids: Vec<&crate::dom::Node> = cur.children().collect();
        if kids.is_empty() {
            break;
        }
        let k = *r.pick(&kids);
        path.push(k.name.clone());
        cur = k;
        if r.chance(1, 2) {
            break;
        }
    }
    path
}

pub fn check_c12(sum: &mut Summary) {
    let thorough = sum.tier == "thorough";
    if let Err(e) = cli::build_repo_binary() {
        sum.failures.push(Failure { kind: "BAD".into(), what: format!("the binary does not build from /repo: {}", e), case: json!({"kind": "build"}) });
        return;
    }
    let mut cases: Vec<CliCase> = load_corpus_values("C12").iter().filter_map(CliCase::from_json).collect();
    sum.extra.insert("corpus_cases".into(), json!(cases.len()));
    let mut rng = Rng::new(sum.seed ^ 0xC12);
    let n = if thorough { 20_000 } else { 400 };
    for i in 0..n {
        let mut r = rng.fork();
        let mut cfg = GenCfg::quick();
        cfg.max_depth = 3;
        let h = gen::gen_history(&mut r, &gen::THEMES, &cfg);
        let xml = h.docs[0].to_xml();
        let (input, label) = match r.below(10) {
            0 => (InputKind::Missing, "missing"),
            1 => (InputKind::Directory, "directory"),
            2 => (InputKind::Bytes({
                let mut b = xml.clone().into_bytes();
                let pos = r.below(b.len() + 1);
                b.insert(pos, 0xff);
                b
            }), "not-utf8"),
            3 => (InputKind::Bytes(gen::structured_fault(&mut r, &xml)), "structured-fault"),
            4 => (InputKind::Bytes(gen::mutate(&mut r, xml.as_bytes())), "mutated"),
            _ => (InputKind::Bytes(xml.clone().into_bytes()), "valid"),
        };
        let parser = match r.below(3) { 0 => None, 1 => Some("quick-xml-de".to_string()), _ => Some("serde-xml-rs".to_string()) };
        let derive = match r.below(8) {
            0 | 1 => None,
            2 => Some(String::new()),
            3 => Some("Debug, Clone".to_string()),
            4 => Some("Serialize, Deserialize, Отладка(x)".to_string()),
            // values a caller may pass that a careless normalisation would change
            5 => Some(r.pick(&[" Debug", "Debug ", "  ", "Debug,  Clone", "\tDebug", "debug", "DEBUG"]).to_string()),
            6 => Some(r.pick(&["Debug)]\n#[allow(x", "\"quoted\"", "a'b", "Serialize", ","]).to_string()),
            _ => Some("serde::Serialize, serde::Deserialize".to_string()),
        };
        let sort = match r.below(3) { 0 => None, 1 => Some("unsorted".to_string()), _ => Some("name".to_string()) };
        let output = match r.below(8) { 0 | 1 => OutKind::Stdout, 2 => OutKind::NewFile, 3 => OutKind::Existing(if r.chance(1, 2) { "previous content\n".into() } else { "// previous content, longer than anything this run will write\n".repeat(400) }), 4 => OutKind::MissingDir, 5 => OutKind::IsDirectory, 6 => OutKind::SameAsInput, _ => OutKind::Derived((*r.pick(&["identical", "crlf", "half", "extra-newline"])).to_string()) };
        if i == 0 {
            cases.push(CliCase { input: InputKind::Bytes(xml.clone().into_bytes()), label: "valid".into(), parser: None, derive: None, sort: None, output: OutKind::Stdout });
        }
        cases.push(CliCase { input, label: label.into(), parser, derive, sort, output });
    }
    run_cases(sum, cases, 3);
    let _ = std::fs::remove_dir_all("/verif/.build/cli");
}

pub fn gen_programs(rng: &mut Rng, n: usize, sxr: bool, thorough: bool) -> Vec<Program> {
    let opt = if sxr { OptRec::sxr() } else { OptRec::quick() };
    let mut out = Vec::new();
    let mut tries = 0;
    while out.len() < n && tries < n * 4 {
        tries += 1;
        let mut r = rng.fork();
        let mut cfg = GenCfg::quick();
        cfg.data_oriented = true;
        cfg.max_depth = if thorough { 4 } else { 3 };
        cfg.max_fanout = 4;
        cfg.max_docs = 3;
        if sxr {
            cfg.adjacent_repeats = true;
            cfg.disjoint_attrs_kids = true;
        }
        let themes: Vec<Theme> = if sxr {
            vec![Theme::Plain, Theme::Keywords, Theme::CaseVariants, Theme::Separators, Theme::Concat, Theme::Prelude, Theme::SuffixTraps, Theme::NonAscii, Theme::Recurring]
        } else {
            gen::THEMES.to_vec()
        };
        cfg.split_text = false;
        let mut h = gen::gen_history(&mut r, &themes, &cfg);
        for d in h.docs.iter_mut() {
            let mut counter = 0;
            crate::dom::strip_entity_markers(&mut d.root); // a deserializer rejects references to entities it does not know
            gen::uniquify(&mut d.root, &mut counter);
        }
        if let Some(mut p) = compile::make_program(h.docs, &format!("{:?}", h.theme), &opt) {
            let k = 1 + r.below(3);
            for _ in 0..k {
                let base = p.docs[r.below(p.docs.len())].clone();
                p.extra_docs.push(foreign_doc(&mut r, base));
            }
            out.push(p);
        }
    }
    out
}

/// a variation of a source document, for the correspondence of the deserializer model only: dropped / added /
/// repeated / reordered attributes and children, padded text, CDATA, comments inside text
pub fn foreign_doc(rng: &mut Rng, mut d: Doc) -> Doc {
    fn nth_mut<'a>(n: &'a mut Node, idx: &mut usize) -> Option<&'a mut Node> {
        if *idx == 0 {
            return Some(n);
        }
        *idx -= 1;
        for it in n.items.iter_mut() {
            if let Item::Elem(c) = it {
                if let Some(r) = nth_mut(c, idx) {
                    return Some(r);
                }
            }
        }
        None
    }
    let edits = 1 + rng.below(3);
    for _ in 0..edits {
        let mut idx = rng.below(d.root.size());
        let n: &mut Node = match nth_mut(&mut d.root, &mut idx) {
            Some(n) => n,
            None => continue,
        };
        let kids: Vec<usize> = n.items.iter().enumerate().filter(|(_, i)| matches!(i, Item::Elem(_))).map(|(i, _)| i).collect();
        let texts: Vec<usize> = n.items.iter().enumerate().filter(|(_, i)| matches!(i, Item::Text(_) | Item::CData(_))).map(|(i, _)| i).collect();
        match rng.below(11) {
            0 if !n.attrs.is_empty() => {
                let i = rng.below(n.attrs.len());
                n.attrs.remove(i);
            }
            1 => {
                if !n.attrs.iter().any(|a| a.0 == "zzextra") {
                    n.attrs.push(("zzextra".into(), "x".into()));
                }
            }
            2 if !n.attrs.is_empty() => {
                let i = rng.below(n.attrs.len());
                n.attrs[i].1 = rng.pick(&["", " padded ", "v"]).to_string();
            }
            3 if !kids.is_empty() => {
                let i = kids[rng.below(kids.len())];
                n.items.remove(i);
            }
            4 if !kids.is_empty() => {
                let i = kids[rng.below(kids.len())];
                let c = n.items[i].clone();
                let at = if rng.chance(1, 2) { i + 1 } else { n.items.len() };
                n.items.insert(at, c);
            }
            5 if kids.len() >= 2 => {
                let i = kids[rng.below(kids.len())];
                let j = kids[rng.below(kids.len())];
                n.items.swap(i, j);
            }
            6 if texts.is_empty() => {
                let mut c = Node::new("zzunknown");
                if rng.chance(1, 2) {
                    c.items.push(Item::Text("u".into()));
                }
                n.items.push(Item::Elem(c));
            }
            7 if !texts.is_empty() => {
                let i = texts[rng.below(texts.len())];
                let t = match &n.items[i] {
                    Item::Text(t) | Item::CData(t) => t.clone(),
                    _ => String::new(),
                };
                let core = t.trim().to_string();
                let repl: Vec<Item> = match rng.below(7) {
                    0 => vec![Item::Text(format!("  {}\n ", core))],
                    1 => vec![Item::CData(format!(" {} ", core.replace("]]>", "")))],
                    2 => vec![Item::Text(format!(" {}", core)), Item::CData(" mid ".into()), Item::Text("end ".into())],
                    3 => vec![Item::Ws("  ".into()), Item::CData("".into())],
                    4 => vec![Item::Text(format!("{} ", core)), Item::Comment("c".into()), Item::Text(" tail ".into())],
                    5 => vec![Item::Ws(" ".into()), Item::Comment("c".into()), Item::Ws("\n".into()), Item::CData(core.replace("]]>", "")), Item::Ws("  ".into())],
                    _ => vec![Item::Ws("   ".into())],
                };
                n.items.splice(i..i + 1, repl);
            }
            8 if kids.is_empty() && texts.is_empty() => {
                n.items.push(Item::Text(" added text ".into()));
                n.self_closing = false;
            }
            9 if !kids.is_empty() => {
                // text next to child elements: mixed content (outside the deserializer model, skipped there)
                n.items.insert(0, Item::Text("mixed".into()));
            }
            _ => {
                if let Some(i) = kids.first() {
                    if let Item::Elem(c) = &mut n.items[*i] {
                        c.items.clear();
                        c.self_closing = rng.chance(1, 2);
                    }
                }
            }
        }
    }
    d
}

/// K1: serde-xml-rs 0.6.0 binds text to `$value`; the preset emits `$text`, so the text of a struct-typed element is dropped
fn is_k1(sxr: bool, r: &compile::DocResult) -> bool {
    sxr && k1_listed() && r.ok && !r.missing.is_empty() && r.missing.iter().all(|m| m.struct_typed_text)
}

/// K2: quick-xml maps an `Option` field to `None` when the element (or its parent) carries xsi:nil="true"; the
/// attributes and content of that element are then not in the value
fn is_k2(sxr: bool, p: &Program, j: usize, r: &compile::DocResult) -> bool {
    !sxr && k2_listed()
        && r.ok
        && !r.missing.is_empty()
        && r.missing.iter().all(|m| m.under_nil)
        && p.docs.get(j).map_or(false, |d| d.to_xml().contains("http://www.w3.org/2001/XMLSchema-instance"))
}

/// K3: a white-space-only (or empty) CDATA section beside child elements is reported by quick-xml as character data;
/// met while a `Vec` field collects its elements it is offered as a sequence element and `from_str` fails
fn is_k3(sxr: bool, p: &Program, j: usize, r: &compile::DocResult) -> bool {
    fn has_ws_cdata_beside_children(n: &Node) -> bool {
        let kids = n.items.iter().any(|i| matches!(i, Item::Elem(_)));
        let ws_cdata = n.items.iter().any(|i| matches!(i, Item::CData(t) if t.trim().is_empty()));
        let other_text = n.items.iter().any(|i| matches!(i, Item::Text(_)) || matches!(i, Item::CData(t) if !t.trim().is_empty()));
        (kids && ws_cdata && !other_text) || n.children().any(has_ws_cdata_beside_children)
    }
    !sxr && known_listed("C02", "quick-xml-whitespace-cdata-beside-repeated-children")
        && !r.ok
        && r.err.contains("invalid type: string")
        && p.docs.get(j).map_or(false, |d| has_ws_cdata_beside_children(&d.root))
}

/// K4: xml-rs reports the characters collected so far when it meets a processing instruction, so character data with
/// a PI inside arrives as two `Characters` events; serde-xml-rs reads one and then expects the end tag
fn is_k4(sxr: bool, p: &Program, j: usize, r: &compile::DocResult) -> bool {
    fn pi_inside_text(n: &Node) -> bool {
        let mut seen_text = false;
        let mut pi_after_text = false;
        let mut hit = false;
        for it in &n.items {
            match it {
                Item::Text(_) | Item::CData(_) => {
                    if pi_after_text {
                        hit = true;
                    }
                    seen_text = true;
                }
                Item::PI(_) => {
                    if seen_text {
                        pi_after_text = true;
                    }
                }
                Item::Elem(_) => {
                    seen_text = false;
                    pi_after_text = false;
                }
                _ => {}
            }
        }
        hit || n.children().any(pi_inside_text)
    }
    sxr && known_listed("C13", "sxr-processing-instruction-inside-text")
        && !r.ok
        && r.err.contains("found Characters(")
        && p.docs.get(j).map_or(false, |d| pi_inside_text(&d.root))
}

/// K5: quick_xml::de resolves only the predefined entities; a reference to an entity declared in the document's own
/// DTD makes `from_str` fail
fn is_k5(sxr: bool, p: &Program, j: usize, r: &compile::DocResult) -> bool {
    !sxr && known_listed("C02", "quick-xml-dtd-declared-entity")
        && !r.ok
        && r.err.contains("unrecognized entity")
        && p.docs.get(j).map_or(false, |d| d.to_xml().contains("<!ENTITY") && crate::dom::has_entity_markers(&d.root))
}

/// K7: xml-rs knows UTF-8, UTF-16, ISO-8859-1 and ASCII only; a declaration naming another encoding is rejected
fn is_k7(sxr: bool, p: &Program, j: usize, r: &compile::DocResult) -> bool {
    sxr && known_listed("C13", "sxr-unsupported-encoding-label")
        && !r.ok
        && r.err.contains("Unsupported encoding")
        && p.docs.get(j).map_or(false, |d| d.prolog.iter().any(|i| matches!(i, Item::Decl(t) if t.contains("encoding"))))
}

fn known_listed(prop: &str, sig: &str) -> bool {
    std::fs::read_to_string("/verif/known_findings.json")
        .ok()
        .and_then(|s| serde_json::from_str::<Value>(&s).ok())
        .and_then(|v| v.as_array().cloned())
        .map_or(false, |a| a.iter().any(|k| k["property"] == prop && k["status"] == "known" && k["signature"] == sig))
}

fn k2_listed() -> bool {
    static LISTED: std::sync::OnceLock<bool> = std::sync::OnceLock::new();
    *LISTED.get_or_init(|| {
        std::fs::read_to_string("/verif/known_findings.json")
            .ok()
            .and_then(|s| serde_json::from_str::<Value>(&s).ok())
            .and_then(|v| v.as_array().cloned())
            .map_or(false, |a| a.iter().any(|k| k["property"] == "C02" && k["status"] == "known" && k["signature"] == "quick-xml-xsi-nil-optional-element-dropped"))
    })
}

/// a known finding only suppresses what /verif/known_findings.json lists (committed; never written at run time)
fn k1_listed() -> bool {
    static LISTED: std::sync::OnceLock<bool> = std::sync::OnceLock::new();
    *LISTED.get_or_init(|| {
        std::fs::read_to_string("/verif/known_findings.json")
            .ok()
            .and_then(|s| serde_json::from_str::<Value>(&s).ok())
            .and_then(|v| v.as_array().cloned())
            .map_or(false, |a| a.iter().any(|k| k["property"] == "C13" && k["status"] == "known" && k["signature"] == "sxr-text-of-struct-typed-element-dropped"))
    })
}

pub fn eval_programs(sum: &mut Summary, programs: &[Program], sxr: bool, nbins: usize, tag: &str) {
    let mut sink = Vec::new();
    eval_programs_v(sum, programs, sxr, nbins, tag, &mut sink);
}

/// as `eval_programs`; additionally returns the verdict of the property-level line of every program
pub fn eval_programs_v(sum: &mut Summary, programs: &[Program], sxr: bool, nbins: usize, tag: &str, per_program: &mut Vec<Verdict>) {
    per_program.clear();
    per_program.resize(programs.len(), Verdict::Ok);
    let prop = sum.property.clone();
    let results = match compile::run_batch(&format!("{}-{}", prop, tag), programs, sxr, nbins) {
        Ok(r) => r,
        Err(e) => {
            sum.failures.push(Failure { kind: "BAD".into(), what: format!("compile batch failed: {}", e), case: json!({"kind": "batch"}) });
            return;
        }
    };
    let mut lines = Vec::new();
    let mut k1_hits = 0u64;
    let mut k2_hits = 0u64;
    let mut k3_hits = 0u64;
    let mut k4_hits = 0u64;
    let mut k5_hits = 0u64;
    let mut k6_hits = 0u64;
    let mut k7_hits = 0u64;
    let mut skipped: HashSet<usize> = HashSet::new();
    for (i, (p, r)) in programs.iter().zip(results.iter()).enumerate() {
        let mut per_doc = Vec::new();
        for j in 0..p.docs.len() {
            let plain = r.docs.get(j).cloned().unwrap_or_default();
            let deny = if sxr { plain.clone() } else { r.docs_deny.get(j).cloned().unwrap_or_default() };
            let mut ok = plain.ok && deny.ok;
            if !ok && is_k3(sxr, p, j, &plain) && is_k3(sxr, p, j, &deny) {
                ok = true;
                k3_hits += 1;
            }
            if !ok && is_k4(sxr, p, j, &plain) {
                ok = true;
                k4_hits += 1;
            }
            if !ok && is_k7(sxr, p, j, &plain) {
                ok = true;
                k7_hits += 1;
            }
            if !ok && is_k5(sxr, p, j, &plain) && is_k5(sxr, p, j, &deny) {
                ok = true;
                k5_hits += 1;
            }
            let mut cap = plain.missing.is_empty() && deny.missing.is_empty();
            if !cap && is_k1(sxr, &plain) {
                cap = true;
                k1_hits += 1;
            }
            if !cap && is_k2(sxr, p, j, &plain) && is_k2(sxr, p, j, &deny) {
                cap = true;
                k2_hits += 1;
            }
            per_doc.push((ok, cap));
        }
        // K6: rustc compares identifiers after NFC normalisation
        let k6 = !r.compiled
            && r.diagnostics.contains("defined multiple times")
            && known_listed("C02", K6_SIG)
            && p.docs.iter().any(|d| d.to_xml().chars().any(|c| matches!(c, '\u{212B}' | '\u{2126}' | '\u{212A}')));
        if k6 {
            k6_hits += 1;
            skipped.insert(i);
            continue;
        }
        lines.push(compile::d_line(&format!("c{}", i), &prop, p, r.compiled, &per_doc));
        if r.compiled {
            lines.push(compile::e_line(&format!("e{}", i), &prop, p, r, sxr));
        }
    }
    if k1_hits > 0 {
        let e = sum.extra.entry("known_hits_K1".to_string()).or_insert(json!(0));
        *e = json!(e.as_u64().unwrap_or(0) + k1_hits);
    }
    if k2_hits > 0 {
        let e = sum.extra.entry("known_hits_K2".to_string()).or_insert(json!(0));
        *e = json!(e.as_u64().unwrap_or(0) + k2_hits);
    }
    if k3_hits > 0 {
        let e = sum.extra.entry("known_hits_K3".to_string()).or_insert(json!(0));
        *e = json!(e.as_u64().unwrap_or(0) + k3_hits);
    }
    if k4_hits > 0 {
        let e = sum.extra.entry("known_hits_K4".to_string()).or_insert(json!(0));
        *e = json!(e.as_u64().unwrap_or(0) + k4_hits);
    }
    if k5_hits > 0 {
        let e = sum.extra.entry("known_hits_K5".to_string()).or_insert(json!(0));
        *e = json!(e.as_u64().unwrap_or(0) + k5_hits);
    }
    if k6_hits > 0 {
        let e = sum.extra.entry("known_hits_K6".to_string()).or_insert(json!(0));
        *e = json!(e.as_u64().unwrap_or(0) + k6_hits);
    }
    if k7_hits > 0 {
        let e = sum.extra.entry("known_hits_K7".to_string()).or_insert(json!(0));
        *e = json!(e.as_u64().unwrap_or(0) + k7_hits);
    }
    let verdicts = match driver::run(&lines) {
        Ok(v) => v,
        Err(e) => {
            sum.failures.push(Failure { kind: "BAD".into(), what: e, case: json!({"kind": "driver"}) });
            return;
        }
    };
    // the deserializer model against the compiled programs
    for (i, (p, r)) in programs.iter().zip(results.iter()).enumerate() {
        if !r.compiled {
            continue;
        }
        let v = verdicts.get(&format!("e{}", i)).cloned().unwrap_or(Verdict::Bad("no verdict".into()));
        let ndocs = (p.docs.len() + p.extra_docs.len()) as u64;
        let info: Vec<u64> = match verdicts.get(&format!("e{}.info", i)) {
            Some(Verdict::Gen(t)) => t.split(' ').filter_map(|x| x.parse().ok()).collect(),
            _ => vec![],
        };
        for (k, val) in [
            ("deser_model_programs", 1u64),
            ("deser_model_documents", ndocs),
            ("deser_model_documents_rejected_by_the_program", r.docs.iter().filter(|d| !d.ok).count() as u64),
            ("deser_model_compared_runs", info.first().copied().unwrap_or(0)),
            ("deser_model_documents_outside_the_model", info.get(1).copied().unwrap_or(0)),
            ("deser_model_runs_rejected_by_the_model", info.get(2).copied().unwrap_or(0)),
        ] {
            let e = sum.extra.entry(k.to_string()).or_insert(json!(0));
            *e = json!(e.as_u64().unwrap_or(0) + val);
        }
        if v.is_failure() && !sum.prop_only && sum.failures.iter().filter(|f| f.kind == v.kind()).count() < 3 {
            sum.failures.push(Failure { kind: v.kind().to_string(), what: format!("deserializer model: {}", v.text()), case: compile::program_json(p, r) });
        }
    }
    for (i, (p, r)) in programs.iter().zip(results.iter()).enumerate() {
        if skipped.contains(&i) {
            continue; // classified as a known finding before the model was asked
        }
        let v = verdicts.get(&format!("c{}", i)).cloned().unwrap_or(Verdict::Bad("no verdict".into()));
        per_program[i] = v.clone();
        sum.evaluations += 1;
        *sum.verdicts.entry(v.kind().to_string()).or_insert(0) += 1;
        if let Verdict::Gen(g) = &v {
            *sum.gen_reasons.entry(g.clone()).or_insert(0) += 1;
        }
        let h = hash_str(&format!("{}{:?}", p.text, p.docs.iter().map(|d| d.to_xml()).collect::<Vec<_>>()));
        let structs = p.text.matches("pub struct ").count();
        let nontrivial = structs >= 2 && p.text.contains("Option<") && p.text.contains("Vec<");
        if sum.seen_insert(h) {
            sum.distinct += 1;
            if nontrivial && !matches!(v, Verdict::Gen(_)) {
                sum.distinct_nontrivial += 1;
                if sum.samples.len() < 2 {
                    sum.samples.push(compile::program_json(p, r));
                }
            }
        }
        *sum.tags.entry(format!("theme:{}", p.theme)).or_insert(0) += 1;
        for (k, val) in [("structs", structs as u64), ("documents", p.docs.len() as u64), ("source_bytes", p.text.len() as u64)] {
            *sum.metrics_sum.entry(k.to_string()).or_insert(0) += val;
            let e = sum.metrics_max.entry(k.to_string()).or_insert(0);
            *e = (*e).max(val);
        }
        if v.is_failure() && !(sum.prop_only && v.kind() != "PROP") && sum.failures.iter().filter(|f| f.kind == v.kind()).count() < 3 {
            sum.failures.push(Failure { kind: v.kind().to_string(), what: v.text(), case: compile::program_json(p, r) });
        }
    }
}

fn strip_digits(s: &str) -> String {
    s.chars().filter(|c| !c.is_ascii_digit()).collect()
}

/// all documents obtained by removing one piece (a document, a child subtree, an attribute, a text) from the history
fn program_reductions(docs: &[Doc]) -> Vec<Vec<Doc>> {
    fn node_reductions(n: &Node) -> Vec<Node> {
        let mut out = Vec::new();
        for i in 0..n.items.len() {
            if matches!(n.items[i], Item::Elem(_) | Item::Text(_) | Item::CData(_) | Item::Comment(_) | Item::PI(_)) {
                let mut m = n.clone();
                m.items.remove(i);
                out.push(m);
            }
        }
        for i in 0..n.attrs.len() {
            let mut m = n.clone();
            m.attrs.remove(i);
            out.push(m);
        }
        for i in 0..n.items.len() {
            if let Item::Elem(c) = &n.items[i] {
                for r in node_reductions(c) {
                    let mut m = n.clone();
                    m.items[i] = Item::Elem(r);
                    out.push(m);
                }
            }
        }
        out
    }
    let mut out = Vec::new();
    if docs.len() > 1 {
        for i in 0..docs.len() {
            let mut d = docs.to_vec();
            d.remove(i);
            out.push(d);
        }
    }
    for i in 0..docs.len() {
        for r in node_reductions(&docs[i].root) {
            let mut d = docs.to_vec();
            d[i] = Doc { prolog: vec![], root: r, epilog: vec![] };
            out.push(d);
        }
    }
    // big removals first
    out.sort_by_key(|d| d.iter().map(|x| x.root.size()).sum::<usize>());
    out
}

/// greedy reduction of a failing program (C02 / C13): keep removing one piece as long as the property-level verdict
/// stays a violation of the same kind; every round compiles its candidates in one batch
fn shrink_program(prop: &str, sxr: bool, docs: Vec<Doc>, what: &str, budget: std::time::Duration) -> Vec<Doc> {
    let t0 = Instant::now();
    let want = strip_digits(what);
    let opt = if sxr { OptRec::sxr() } else { OptRec::quick() };
    let mut cur = docs;
    for round in 0..12 {
        if t0.elapsed() > budget {
            break;
        }
        let cands: Vec<Vec<Doc>> = program_reductions(&cur).into_iter().take(48).collect();
        let programs: Vec<(usize, Program)> = cands.iter().enumerate().filter_map(|(i, d)| compile::make_program(d.clone(), "shrink", &opt).map(|p| (i, p))).collect();
        if programs.is_empty() {
            break;
        }
        let ps: Vec<Program> = programs.iter().map(|(_, p)| p.clone()).collect();
        let mut tmp = Summary::new(prop, "quick", 0, "shrink");
        let mut verdicts = Vec::new();
        eval_programs_v(&mut tmp, &ps, sxr, threads(), &format!("shrink{}", round), &mut verdicts);
        let hit = verdicts.iter().position(|v| matches!(v, Verdict::Prop(w) if strip_digits(w) == want));
        match hit {
            Some(k) => cur = cands[programs[k].0].clone(),
            None => break,
        }
    }
    cur
}

pub fn check_compile(sum: &mut Summary, sxr: bool) {
    let thorough = sum.tier == "thorough";
    let prop = sum.property.clone();
    let mut rng = Rng::new(sum.seed ^ if sxr { 0xC13 } else { 0xC02 });
    // corpus: documents as XML text
    let mut corpus: Vec<Program> = Vec::new();
    for v in load_corpus_values(&prop) {
        if v["kind"] == "program" {
            let docs: Option<Vec<Doc>> = v["documents"].as_array().map(|a| a.iter().filter_map(|d| crate::xmlread::read_doc(d.as_str().unwrap_or("").as_bytes())).collect());
            if let Some(docs) = docs {
                if let Some(mut p) = compile::make_program(docs, "corpus", &if sxr { OptRec::sxr() } else { OptRec::quick() }) {
                    p.extra_docs = v["extra_documents"].as_array().map(|a| a.iter().filter_map(|d| crate::xmlread::read_doc(d.as_str().unwrap_or("").as_bytes())).collect()).unwrap_or_default();
                    corpus.push(p);
                }
            }
        }
    }
    sum.extra.insert("corpus_cases".into(), json!(corpus.len()));
    let total = if thorough { 3000 } else { 150 };
    let chunk = if thorough { 400 } else { 150 };
    let mut done = 0;
    let mut first = true;
    while done < total {
        if let Some(d) = sum.deadline {
            if Instant::now() > d {
                break;
            }
        }
        let n = chunk.min(total - done);
        let mut programs = if first { corpus.clone() } else { vec![] };
        first = false;
        programs.extend(gen_programs(&mut rng, n, sxr, thorough));
        eval_programs(sum, &programs, sxr, threads(), &format!("{}", done));
        done += n;
    }
    // reduce the failing programs (at most two, time-capped)
    let todo: Vec<usize> = sum.failures.iter().enumerate().filter(|(_, f)| f.kind == "PROP" && f.case["kind"] == "program").map(|(i, _)| i).take(2).collect();
    for i in todo {
        let docs: Vec<Doc> = sum.failures[i].case["documents"].as_array().map(|a| a.iter().filter_map(|d| crate::xmlread::read_doc(d.as_str().unwrap_or("").as_bytes())).collect()).unwrap_or_default();
        if docs.is_empty() {
            continue;
        }
        let what = sum.failures[i].what.clone();
        let small = shrink_program(&prop, sxr, docs.clone(), &what, std::time::Duration::from_secs(if thorough { 240 } else { 90 }));
        if small.iter().map(|d| d.root.size()).sum::<usize>() < docs.iter().map(|d| d.root.size()).sum::<usize>() {
            let opt = if sxr { OptRec::sxr() } else { OptRec::quick() };
            if let Some(p) = compile::make_program(small, "shrunk", &opt) {
                let mut tmp = Summary::new(&prop, "quick", 0, "shrunk");
                let mut v = Vec::new();
                eval_programs_v(&mut tmp, &[p], sxr, 1, "shrunk", &mut v);
                if let Some(f) = tmp.failures.into_iter().find(|f| f.kind == "PROP") {
                    let mut case = f.case.clone();
                    case["shrunk_from_bytes"] = json!(docs.iter().map(|d| d.to_xml().len()).sum::<usize>());
                    sum.failures[i] = Failure { kind: "PROP".into(), what: f.what, case };
                }
            }
        }
    }
    let mut hits = Vec::new();
    if sum.extra.get("known_hits_K1").and_then(|v| v.as_u64()).unwrap_or(0) > 0 {
        hits.push("sxr-text-of-struct-typed-element-dropped");
    }
    if sum.extra.get("known_hits_K2").and_then(|v| v.as_u64()).unwrap_or(0) > 0 {
        hits.push("quick-xml-xsi-nil-optional-element-dropped");
    }
    if sum.extra.get("known_hits_K3").and_then(|v| v.as_u64()).unwrap_or(0) > 0 {
        hits.push("quick-xml-whitespace-cdata-beside-repeated-children");
    }
    if sum.extra.get("known_hits_K4").and_then(|v| v.as_u64()).unwrap_or(0) > 0 {
        hits.push("sxr-processing-instruction-inside-text");
    }
    if sum.extra.get("known_hits_K5").and_then(|v| v.as_u64()).unwrap_or(0) > 0 {
        hits.push("quick-xml-dtd-declared-entity");
    }
    if sum.extra.get("known_hits_K6").and_then(|v| v.as_u64()).unwrap_or(0) > 0 {
        hits.push(K6_SIG);
    }
    if sum.extra.get("known_hits_K7").and_then(|v| v.as_u64()).unwrap_or(0) > 0 {
        hits.push("sxr-unsupported-encoding-label");
    }
    if !hits.is_empty() {
        sum.extra.insert("known_hits".into(), json!(hits));
    }
}

// ---- C11 rewrites -----------------------------------------------------------------------------

fn rewrite_items(rng: &mut Rng, items: &mut Vec<Item>, kind: usize, touched: &mut usize, in_root: bool, ws_is_text: bool) {
    let mut i = 0;
    while i < items.len() {
        match kind {
            // new values / new text
            0 => {
                match &items[i] {
                    Item::Text(_) => {
                        // non-empty text replaced by other non-empty content (white space is content too unless the reader trims)
                        let choices: &[&str] = if ws_is_text { &["other", "42", "z z", "&", " ", "\n  ", "\u{E000}nbsp\u{E001}"] } else { &["other", "42", "z z", "&", "\u{E000}nbsp\u{E001}"] };
                        let t = rng.pick(choices).to_string();
                        items[i] = if t.trim().is_empty() { Item::Ws(t) } else { Item::Text(t) };
                        *touched += 1;
                    }
                    Item::Ws(_) if ws_is_text && rng.chance(1, 2) => {
                        items[i] = Item::Text(rng.pick(&["x", "was blank"]).to_string());
                        *touched += 1;
                    }
                    _ => {}
                }
            }
            // text <-> CDATA
            1 => {
                if rng.chance(1, 2) {
                    match &items[i] {
                        Item::Text(t) => {
                            items[i] = Item::CData(t.replace("]]>", "]]"));
                            *touched += 1;
                        }
                        Item::CData(_) => {
                            items[i] = Item::Text("was cdata".into());
                            *touched += 1;
                        }
                        Item::Ws(t) if ws_is_text => {
                            items[i] = Item::CData(t.clone());
                            *touched += 1;
                        }
                        _ => {}
                    }
                }
            }
            // insert comments / PIs
            2 => {
                if rng.chance(1, 3) {
                    let it = if rng.chance(1, 2) { Item::Comment(" inserted ".into()) } else { Item::PI("inserted pi".into()) };
                    items.insert(i, it);
                    i += 1;
                    *touched += 1;
                }
            }
            // remove comments / PIs
            3 => {
                if matches!(items[i], Item::Comment(_) | Item::PI(_)) {
                    items.remove(i);
                    *touched += 1;
                    continue;
                }
            }
            _ => {}
        }
        if let Item::Elem(n) = &mut items[i] {
            rewrite_node(rng, n, kind, touched, ws_is_text);
        }
        i += 1;
    }
    if kind == 2 && in_root && rng.chance(1, 3) {
        items.push(Item::Comment("tail".into()));
        *touched += 1;
    }
}

fn rewrite_node(rng: &mut Rng, n: &mut Node, kind: usize, touched: &mut usize, ws_is_text: bool) {
    match kind {
        0 => {
            for a in n.attrs.iter_mut() {
                a.1 = rng.pick(&["changed", "", "9", "<&>"]).to_string();
                *touched += 1;
            }
        }
        4 => {
            if n.items.is_empty() {
                n.self_closing = !n.self_closing;
                *touched += 1;
            }
        }
        _ => {}
    }
    let mut items = std::mem::take(&mut n.items);
    rewrite_items(rng, &mut items, kind, touched, true, ws_is_text);
    n.items = items;
}

fn rewrite_doc(rng: &mut Rng, d: &Doc, kind: usize, touched: &mut usize, ws_is_text: bool) -> Doc {
    let mut out = d.clone();
    rewrite_node(rng, &mut out.root, kind, touched, ws_is_text);
    match kind {
        2 => {
            if !out.prolog.iter().any(|i| matches!(i, Item::Decl(_))) && rng.chance(1, 2) {
                let decls = ["xml version=\"1.0\"", "xml version=\"1.0\" encoding=\"UTF-8\"", "xml version=\"1.0\" encoding=\"ISO-8859-1\"", "xml version=\"1.0\" encoding=\"US-ASCII\" standalone=\"yes\"", "xml version=\"1.1\" encoding=\"utf-16\""];
                let ascii = out.to_xml().is_ascii();
                let d = rng.pick(&decls).to_string();
                out.prolog.insert(0, Item::Decl(if ascii || d.contains("UTF-8") || !d.contains("encoding") { d } else { "xml version=\"1.0\"".into() }));
                *touched += 1;
            }
            if !out.prolog.iter().any(|i| matches!(i, Item::DocType(_))) && rng.chance(1, 2) {
                out.prolog.push(Item::DocType("root SYSTEM \"x.dtd\"".into()));
                *touched += 1;
            }
            if rng.chance(1, 2) {
                out.epilog.push(Item::Comment("end".into()));
                *touched += 1;
            }
        }
        3 => {
            let n = out.prolog.len() + out.epilog.len();
            out.prolog.retain(|i| matches!(i, Item::Ws(_)));
            out.epilog.retain(|i| matches!(i, Item::Ws(_)));
            *touched += n - out.prolog.len() - out.epilog.len();
        }
        _ => {}
    }
    out
}

pub fn check_c11(sum: &mut Summary) {
    let thorough = sum.tier == "thorough";
    let mut cases: Vec<PairCase> = load_corpus_values("C11").iter().filter_map(PairCase::from_json).collect();
    sum.extra.insert("corpus_cases".into(), json!(cases.len()));
    run_tables(sum);
    let mut rng = Rng::new(sum.seed ^ 0xC11);
    let n = if thorough { 100_000 } else { 2_500 };
    let names = ["new-values", "text<->cdata", "insert-misc", "remove-misc", "empty-element-spelling", "expand_empty_elements", "buffer-capacity"];
    for i in 0..n {
        if i % 2000 == 1999 {
            let batch = std::mem::take(&mut cases);
            run_cases(sum, batch, 3);
            if let Some(d) = sum.deadline {
                if Instant::now() > d {
                    break;
                }
            }
        }
        let mut r = rng.fork();
        let mut cfg = GenCfg::quick();
        cfg.max_docs = 3;
        if thorough {
            cfg.max_depth = 5;
        }
        let h = gen::gen_history(&mut r, &gen::THEMES, &cfg);
        let mut rcfg = random_cfg(&mut r);
        rcfg.check_end_names = true;
        let theme = format!("{:?}", h.theme);
        let opts = vec![OptRec::quick(), OptRec::quick_sorted()];
        let base = HistoryCase { docs: cases2::docs_of(&h.docs), cfg: rcfg, opts: opts.clone(), repeats: 1, theme: theme.clone() };
        let kinds: Vec<usize> = if thorough { (0..7).collect() } else { vec![r.below(5), 4, 5, 6] };
        for k in kinds {
            let mut touched = 0usize;
            let mut b = base.clone();
            match k {
                5 => {
                    b.cfg.expand_empty = !b.cfg.expand_empty;
                    touched = 1;
                }
                6 => {
                    b.cfg.capacity = if b.cfg.capacity == 0 { r.range(1, 64) } else { r.range(1, 64) };
                    touched = 1;
                }
                _ => {
                    let docs: Vec<Doc> = h.docs.iter().map(|d| rewrite_doc(&mut r, d, k, &mut touched, !rcfg.trim_text)).collect();
                    b.docs = cases2::docs_of(&docs);
                }
            }
            cases.push(PairCase { rel: names[k].to_string(), a: base.clone(), b, nontrivial: touched > 0 });
        }
    }
    run_cases(sum, cases, 3);
}

// ------------------------------------------------------------------------------------------------

fn arg_value(args: &[String], name: &str) -> Option<String> {
    args.iter().position(|a| a == name).and_then(|i| args.get(i + 1).cloned())
}

pub fn main(args: &[String]) -> i32 {
    if args.is_empty() {
        eprintln!("usage: xsg-harness check <PROP> [--tier quick|thorough] [--seed N] [--summary FILE] | replay <PROP> <FILE>");
        return 2;
    }
    match args[0].as_str() {
        "check" => {
            let prop = args.get(1).cloned().unwrap_or_default();
            let tier = arg_value(args, "--tier").unwrap_or_else(|| "quick".into());
            let seed: u64 = arg_value(args, "--seed").and_then(|s| s.parse().ok()).unwrap_or(1);
            let t0 = Instant::now();
            if let Some(p) = arg_value(args, "--summary") {
                let _ = SUMMARY_PATH.set(p.clone());
                let _ = std::fs::remove_file(p + ".hang");
            }
            let mut sum = Summary::new(&prop, &tier, seed, &rule_for(&prop));
            if let Some(m) = arg_value(args, "--max-seconds").and_then(|s| s.parse::<u64>().ok()) {
                sum.deadline = Some(Instant::now() + std::time::Duration::from_secs(m));
            }
            sum.prop_only = args.iter().any(|a| a == "--prop-only");
            match prop.as_str() {
                "C01" | "C03" | "C04" | "C05" | "C07" | "C08" | "C09" | "C10" | "C14" => check_history(&mut sum),
                "C15" => check_c15(&mut sum),
                "C16" => check_c16(&mut sum),
                "C06" => check_c06(&mut sum),
                "C11" => check_c11(&mut sum),
                "C12" => check_c12(&mut sum),
                "C02" => check_compile(&mut sum, false),
                "C13" => check_compile(&mut sum, true),
                _ => {
                    eprintln!("unknown property {}", prop);
                    return 2;
                }
            }
            let v = sum.to_json(t0.elapsed().as_secs_f64());
            let text = serde_json::to_string_pretty(&v).unwrap();
            match arg_value(args, "--summary") {
                Some(p) => std::fs::write(p, text).unwrap(),
                None => println!("{}", text),
            }
            if sum.failures.is_empty() {
                0
            } else {
                1
            }
        }
        "inventory" => {
            let (sites, problems) = crate::inventory::scan(args.get(1).map(|s| s.as_str()).unwrap_or("/repo"));
            println!("{:?} {:?}", sites, problems);
            0
        }
        "replay" => {
            let prop = args.get(1).cloned().unwrap_or_default();
            let file = args.get(2).cloned().unwrap_or_default();
            let s = match std::fs::read_to_string(&file) {
                Ok(s) => s,
                Err(e) => {
                    eprintln!("{}: {}", file, e);
                    return 2;
                }
            };
            let v: Value = match serde_json::from_str(&s) {
                Ok(v) => v,
                Err(e) => {
                    eprintln!("{}: {}", file, e);
                    return 2;
                }
            };
            let cv = if v.get("case").is_some() { v["case"].clone() } else { v.clone() };
            replay(&prop, &cv)
        }
        _ => 2,
    }
}

pub fn replay(prop: &str, cv: &Value) -> i32 {
    match cv["kind"].as_str().unwrap_or("") {
        "history" => match HistoryCase::from_json(cv) {
            Ok(c) => replay_case(prop, &c),
            Err(e) => {
                eprintln!("bad case: {}", e);
                2
            }
        },
        "lists" => match ListCase::from_json(cv) {
            Some(c) => replay_case(prop, &c),
            None => 2,
        },
        "operations" => match OpsCase::from_json(cv) {
            Some(c) => replay_case(prop, &c),
            None => 2,
        },
        "cli" => match CliCase::from_json(cv) {
            Some(c) => {
                if let Err(e) = cli::build_repo_binary() {
                    println!("BAD cannot build the binary: {}", e);
                    return 1;
                }
                replay_case(prop, &c)
            }
            None => 2,
        },
        "unicode-doc" => {
            let xml = cv["document"].as_str().unwrap_or("");
            match crate::implrun::step(xml.as_bytes(), ReaderCfg::default_cfg(), None) {
                crate::implrun::Step::Ok(t) => {
                    for o in [OptRec::quick(), OptRec::quick_sorted(), OptRec::sxr()] {
                        match crate::implrun::render(&t, &o) {
                            Ok(txt) => {
                                if let Err(why) = c04_text_ok(&txt) {
                                    if why.starts_with(K6_SIG) && known_listed("C04", K6_SIG) {
                                        println!("KNOWN {}", why);
                                        continue;
                                    }
                                    println!("PROP {}", why);
                                    return 1;
                                }
                            }
                            Err(m) => {
                                println!("PROP panic while rendering: {}", m);
                                return 1;
                            }
                        }
                    }
                    println!("OK");
                    0
                }
                crate::implrun::Step::Panic(m) => {
                    println!("PROP panic while parsing: {}", m);
                    1
                }
                _ => {
                    println!("OK");
                    0
                }
            }
        }
        "cli-repeat" => {
            if let Err(e) = cli::build_repo_binary() {
                println!("BAD cannot build the binary: {}", e);
                return 1;
            }
            let dir = format!("/verif/.build/c05replay-{}", std::process::id());
            let _ = std::fs::create_dir_all(&dir);
            let path = format!("{}/in.xml", dir);
            let _ = std::fs::write(&path, cv["document"].as_str().unwrap_or(""));
            let mut outs = std::collections::BTreeSet::new();
            for _ in 0..12 {
                if let Ok(o) = std::process::Command::new(cli::REPO_BIN).arg(&path).output() {
                    outs.insert((o.status.code(), o.stdout));
                }
            }
            let _ = std::fs::remove_dir_all(&dir);
            if outs.len() > 1 {
                println!("PROP 12 runs of the binary on the same file printed {} different outputs", outs.len());
                1
            } else {
                println!("OK");
                0
            }
        }
        "program" => {
            let sxr = prop == "C13";
            let docs: Vec<Doc> = cv["documents"].as_array().map(|a| a.iter().filter_map(|d| crate::xmlread::read_doc(d.as_str().unwrap_or("").as_bytes())).collect()).unwrap_or_default();
            match compile::make_program(docs, "replay", &if sxr { OptRec::sxr() } else { OptRec::quick() }) {
                Some(mut p) => {
                    p.extra_docs = cv["extra_documents"].as_array().map(|a| a.iter().filter_map(|d| crate::xmlread::read_doc(d.as_str().unwrap_or("").as_bytes())).collect()).unwrap_or_default();
                    let mut sum = Summary::new(prop, "quick", 0, "replay");
                    eval_programs(&mut sum, &[p], sxr, 1, "replay");
                    if std::env::var("XSG_VERBOSE").is_ok() {
                        println!("{}", serde_json::to_string_pretty(&json!({"verdicts": sum.verdicts, "gen": sum.gen_reasons, "extra": sum.extra, "samples": sum.samples, "failures": sum.failures.iter().map(|f| f.case.clone()).collect::<Vec<_>>()})).unwrap_or_default());
                    }
                    for f in &sum.failures {
                        println!("{} {}", f.kind, f.what);
                    }
                    if sum.failures.is_empty() {
                        println!("OK");
                        0
                    } else {
                        1
                    }
                }
                None => {
                    println!("PROP the library rejects one of the documents");
                    1
                }
            }
        }
        "sub-structure" => match SubCase::from_json(cv) {
            Some(c) => replay_case(prop, &c),
            None => 2,
        },
        "pair" => match PairCase::from_json(cv) {
            Some(c) => replay_case(prop, &c),
            None => 2,
        },
        k => {
            eprintln!("unknown case kind {}", k);
            2
        }
    }
}

pub fn replay_case<C: Case + 'static>(prop: &str, c: &C) -> i32 {
    // a replayed case may be one on which the library does not return
    let (tx, rx) = std::sync::mpsc::channel();
    let (c2, p2) = (c.clone(), prop.to_string());
    std::thread::spawn(move || {
        let _ = tx.send(c2.line("replay", &p2));
    });
    let line = match rx.recv_timeout(std::time::Duration::from_millis(HANG_LIMIT_MS)) {
        Ok(l) => l,
        Err(_) => {
            println!("PROP a call into the library did not return within {} s (endless loop or unbounded recursion)", HANG_LIMIT_MS / 1000);
            std::process::exit(1);
        }
    };
    match line {
        LineOut::Line(l, _) => match driver::run(&[l]) {
            Ok(map) => {
                let v = map.get("replay").cloned().unwrap_or(Verdict::Bad("no verdict".into()));
                println!("{} {}", v.kind(), v.text());
                if v.is_failure() {
                    1
                } else {
                    0
                }
            }
            Err(e) => {
                println!("BAD {}", e);
                1
            }
        },
        LineOut::ImplFailure(m) => {
            println!("PROP {}", m);
            1
        }
        LineOut::Harness(m) => {
            println!("BAD {}", m);
            1
        }
    }
}
