//! calling the real library in-process
use crate::debugparse;
use crate::proto::{enc, OptRec};
use crate::record::{apply, ReaderCfg};
use quick_xml::reader::Reader;
use std::io::BufReader;
use std::panic::{catch_unwind, AssertUnwindSafe};
use xml_schema_generator::{extend_struct, into_struct, Element, ParserError};

pub enum Step {
    Ok(Element<String>),
    /// the error's `Display` text, and what the error value carries (read off the public enum, whatever `Display` prints)
    Err(String, String),
    Panic(String),
}

/// what a `ParserError` carries: `Q|<position>|<Debug of the reader's error>`, `U|<the UTF-8 error>`, `A|<the attribute error>`, `P`
pub fn carried(e: &ParserError) -> String {
    match e {
        ParserError::QuickXmlError(pos, inner) => format!("Q|{}|{:?}", pos, inner),
        ParserError::FromUtf8Error(inner) => format!("U|{}", inner),
        ParserError::AttrError(inner) => format!("A|{}", inner),
        ParserError::ParsingError(_) => "P".to_string(),
    }
}

fn panic_msg(p: Box<dyn std::any::Any + Send>) -> String {
    if let Some(s) = p.downcast_ref::<&str>() {
        s.to_string()
    } else if let Some(s) = p.downcast_ref::<String>() {
        s.clone()
    } else {
        "panic".to_string()
    }
}

fn call(bytes: &[u8], cfg: ReaderCfg, prev: Option<Element<String>>) -> Result<Element<String>, ParserError> {
    if cfg.capacity == 0 {
        let mut reader = Reader::from_reader(bytes);
        apply(reader.config_mut(), cfg);
        match prev {
            None => into_struct(&mut reader),
            Some(root) => extend_struct(&mut reader, root),
        }
    } else {
        let mut reader = Reader::from_reader(BufReader::with_capacity(cfg.capacity, bytes));
        apply(reader.config_mut(), cfg);
        match prev {
            None => into_struct(&mut reader),
            Some(root) => extend_struct(&mut reader, root),
        }
    }
}

/// `into_struct` (no previous tree) or `extend_struct` (a clone of the previous tree is passed)
pub fn step(bytes: &[u8], cfg: ReaderCfg, prev: Option<&Element<String>>) -> Step {
    let prev = prev.cloned();
    match catch_unwind(AssertUnwindSafe(|| call(bytes, cfg, prev))) {
        Ok(Ok(e)) => Step::Ok(e),
        Ok(Err(e)) => Step::Err(e.to_string(), carried(&e)),
        Err(p) => Step::Panic(panic_msg(p)),
    }
}

pub fn render(e: &Element<String>, o: &OptRec) -> Result<String, String> {
    catch_unwind(AssertUnwindSafe(|| e.to_serde_struct(&o.to_options()))).map_err(panic_msg)
}

pub fn tree_tokens(e: &Element<String>) -> Result<(String, debugparse::DElem), String> {
    let d = debugparse::parse(&format!("{:?}", e))?;
    let mut s = String::new();
    d.tokens(&mut s);
    Ok((s, d))
}

pub fn result_tokens(s: &Step) -> Result<String, String> {
    match s {
        Step::Ok(e) => Ok(format!("OK {}", tree_tokens(e)?.0)),
        Step::Err(m, c) => Ok(format!("ER {} {}", enc(m), enc(c))),
        Step::Panic(m) => Err(format!("panic: {}", m)),
    }
}
