//! C05: static inventory of the places where the source iterates a HashMap / HashSet
//! (the model has one explicit iteration-order parameter per such site)
use quote::ToTokens;
use std::collections::{BTreeMap, BTreeSet};
use syn::visit::{self, Visit};

/// the sites the Lean model accounts for (`hintTable`'s `order` parameter)
pub const MODELLED_SITES: [&str; 1] = ["src/element.rs:compute_name_hints:names.iter"];

const ITER_METHODS: [&str; 11] = ["iter", "iter_mut", "into_iter", "keys", "values", "values_mut", "drain", "into_keys", "into_values", "retain", "extract_if"];

fn mentions_hash(ts: &str) -> bool {
    ts.contains("HashMap") || ts.contains("HashSet")
}

struct V<'a> {
    file: &'a str,
    fn_stack: Vec<String>,
    hashed: Vec<BTreeSet<String>>, // per function: identifiers bound to a HashMap / HashSet
    /// every struct of the crate with the names of its fields whose type mentions HashMap / HashSet
    structs: &'a BTreeMap<String, BTreeSet<String>>,
    /// the type the surrounding `impl` block is for
    impl_stack: Vec<String>,
    /// per function: declared types of parameters and annotated locals
    var_types: Vec<BTreeMap<String, String>>,
    sites: BTreeSet<String>,
}

fn idents_of(ty: &str) -> Vec<String> {
    ty.split(|c: char| !(c.is_alphanumeric() || c == '_')).filter(|s| !s.is_empty()).map(|s| s.to_string()).collect()
}

impl<'a> V<'a> {
    fn is_hashed_expr(&self, e: &syn::Expr) -> Option<String> {
        match e {
            syn::Expr::Path(p) => {
                let id = p.path.segments.last()?.ident.to_string();
                if self.hashed.iter().any(|s| s.contains(&id)) {
                    Some(id)
                } else {
                    None
                }
            }
            syn::Expr::Reference(r) => self.is_hashed_expr(&r.expr),
            syn::Expr::Paren(p) => self.is_hashed_expr(&p.expr),
            syn::Expr::Field(f) => {
                if let syn::Member::Named(n) = &f.member {
                    let n = n.to_string();
                    // the struct the receiver belongs to, where that can be read off the source
                    let mut base = &*f.base;
                    while let syn::Expr::Reference(r) = base {
                        base = &r.expr;
                    }
                    let known: Option<Vec<String>> = match base {
                        syn::Expr::Path(p) => {
                            let id = p.path.segments.last().map(|s| s.ident.to_string()).unwrap_or_default();
                            if id == "self" {
                                self.impl_stack.last().map(|t| vec![t.clone()])
                            } else {
                                self.var_types.iter().rev().find_map(|m| m.get(&id)).map(|ty| idents_of(ty).into_iter().filter(|i| self.structs.contains_key(i)).collect::<Vec<_>>()).filter(|v| !v.is_empty())
                            }
                        }
                        _ => None,
                    };
                    let hashed = match known {
                        Some(types) => types.iter().any(|t| self.structs.get(t).map_or(false, |fs| fs.contains(&n))),
                        // receiver of unknown type: any struct with a hashed field of that name counts
                        None => self.structs.values().any(|fs| fs.contains(&n)),
                    };
                    if hashed {
                        return Some(format!("self.{}", n));
                    }
                }
                None
            }
            syn::Expr::MethodCall(m) => {
                // `.. .collect::<HashSet<_>>()` or `.clone()` of a hashed value
                if let Some(tf) = &m.turbofish {
                    if mentions_hash(&tf.to_token_stream().to_string()) {
                        return Some(format!("<{}>", m.method));
                    }
                }
                if m.method == "clone" || m.method == "unwrap" || m.method == "as_ref" || m.method == "as_mut" || m.method == "borrow" {
                    return self.is_hashed_expr(&m.receiver);
                }
                None
            }
            _ => None,
        }
    }
    fn site(&mut self, what: String) {
        let f = self.fn_stack.first().cloned().unwrap_or_else(|| "-".into());
        self.sites.insert(format!("{}:{}:{}", self.file, f, what));
    }
}

impl<'a, 'ast> Visit<'ast> for V<'a> {
    fn visit_item_mod(&mut self, m: &'ast syn::ItemMod) {
        // skip test modules
        if m.attrs.iter().any(|a| a.to_token_stream().to_string().replace(' ', "").contains("cfg(test)")) {
            return;
        }
        visit::visit_item_mod(self, m);
    }
    fn visit_item_impl(&mut self, i: &'ast syn::ItemImpl) {
        let ty = idents_of(&i.self_ty.to_token_stream().to_string()).into_iter().find(|t| self.structs.contains_key(t)).unwrap_or_default();
        self.impl_stack.push(ty);
        visit::visit_item_impl(self, i);
        self.impl_stack.pop();
    }
    fn visit_item_fn(&mut self, f: &'ast syn::ItemFn) {
        self.fn_stack.push(f.sig.ident.to_string());
        let mut set = BTreeSet::new();
        for a in f.sig.inputs.iter() {
            if let syn::FnArg::Typed(t) = a {
                if mentions_hash(&t.ty.to_token_stream().to_string()) {
                    if let syn::Pat::Ident(i) = &*t.pat {
                        set.insert(i.ident.to_string());
                    }
                }
            }
        }
        self.hashed.push(set);
        self.var_types.push(param_types(&f.sig));
        visit::visit_item_fn(self, f);
        self.var_types.pop();
        self.hashed.pop();
        self.fn_stack.pop();
    }
    fn visit_impl_item_fn(&mut self, f: &'ast syn::ImplItemFn) {
        self.fn_stack.push(f.sig.ident.to_string());
        let mut set = BTreeSet::new();
        for a in f.sig.inputs.iter() {
            if let syn::FnArg::Typed(t) = a {
                if mentions_hash(&t.ty.to_token_stream().to_string()) {
                    if let syn::Pat::Ident(i) = &*t.pat {
                        set.insert(i.ident.to_string());
                    }
                }
            }
        }
        self.hashed.push(set);
        self.var_types.push(param_types(&f.sig));
        visit::visit_impl_item_fn(self, f);
        self.var_types.pop();
        self.hashed.pop();
        self.fn_stack.pop();
    }
    fn visit_local(&mut self, l: &'ast syn::Local) {
        let (name, ty_hash) = match &l.pat {
            syn::Pat::Ident(i) => (Some(i.ident.to_string()), false),
            syn::Pat::Type(t) => (
                if let syn::Pat::Ident(i) = &*t.pat { Some(i.ident.to_string()) } else { None },
                mentions_hash(&t.ty.to_token_stream().to_string()),
            ),
            _ => (None, false),
        };
        let init_hash = l.init.as_ref().map_or(false, |i| {
            let s = i.expr.to_token_stream().to_string();
            (s.contains("HashMap ::") || s.contains("HashSet ::") || s.contains(":: < HashMap") || s.contains(":: < HashSet") || s.contains("HashMap::") || s.contains("HashSet::"))
                && !s.contains(". len ()")
        });
        if let (syn::Pat::Type(t), Some(m)) = (&l.pat, self.var_types.last_mut()) {
            if let syn::Pat::Ident(i) = &*t.pat {
                m.insert(i.ident.to_string(), t.ty.to_token_stream().to_string());
            }
        }
        if let Some(n) = name {
            if ty_hash || init_hash {
                if let Some(s) = self.hashed.last_mut() {
                    s.insert(n);
                }
            }
        }
        visit::visit_local(self, l);
    }
    fn visit_expr_method_call(&mut self, m: &'ast syn::ExprMethodCall) {
        let name = m.method.to_string();
        if ITER_METHODS.contains(&name.as_str()) {
            if let Some(id) = self.is_hashed_expr(&m.receiver) {
                self.site(format!("{}.{}", id, name));
            }
        }
        visit::visit_expr_method_call(self, m);
    }
    fn visit_expr_for_loop(&mut self, f: &'ast syn::ExprForLoop) {
        if let Some(id) = self.is_hashed_expr(&f.expr) {
            self.site(format!("for-in {}", id));
        }
        visit::visit_expr_for_loop(self, f);
    }
}

fn param_types(sig: &syn::Signature) -> BTreeMap<String, String> {
    let mut m = BTreeMap::new();
    for a in sig.inputs.iter() {
        if let syn::FnArg::Typed(t) = a {
            if let syn::Pat::Ident(i) = &*t.pat {
                m.insert(i.ident.to_string(), t.ty.to_token_stream().to_string());
            }
        }
    }
    m
}

/// struct name → fields whose type mentions HashMap / HashSet (every struct is listed, possibly with no such field)
struct Structs(BTreeMap<String, BTreeSet<String>>);

impl<'ast> Visit<'ast> for Structs {
    fn visit_item_struct(&mut self, s: &'ast syn::ItemStruct) {
        let e = self.0.entry(s.ident.to_string()).or_default();
        for f in s.fields.iter() {
            if let Some(id) = &f.ident {
                if mentions_hash(&f.ty.to_token_stream().to_string()) {
                    e.insert(id.to_string());
                }
            }
        }
        visit::visit_item_struct(self, s);
    }
}

fn rs_files(dir: &std::path::Path, out: &mut Vec<std::path::PathBuf>) {
    if let Ok(rd) = std::fs::read_dir(dir) {
        for e in rd.filter_map(|e| e.ok()) {
            let p = e.path();
            if p.is_dir() {
                rs_files(&p, out);
            } else if p.extension().map_or(false, |x| x == "rs") {
                out.push(p);
            }
        }
    }
}

/// (sites found, parse problems)
pub fn scan(repo: &str) -> (BTreeSet<String>, Vec<String>) {
    let mut files = Vec::new();
    rs_files(&std::path::Path::new(repo).join("src"), &mut files);
    files.sort();
    let mut sites = BTreeSet::new();
    let mut problems = Vec::new();
    // first pass: the structs of the whole crate
    let mut structs = Structs(BTreeMap::new());
    for f in &files {
        if let Ok(ast) = std::fs::read_to_string(f).map_err(|e| e.to_string()).and_then(|s| syn::parse_file(&s).map_err(|e| e.to_string())) {
            structs.visit_file(&ast);
        }
    }
    let structs = structs.0;
    for f in files {
        let rel = f.strip_prefix(repo).map(|p| p.to_string_lossy().trim_start_matches('/').to_string()).unwrap_or_default();
        if rel.ends_with("macro_rule.rs") || rel == "src/main.rs" || rel == "src/args.rs" {
            continue;
        }
        match std::fs::read_to_string(&f).map_err(|e| e.to_string()).and_then(|s| syn::parse_file(&s).map_err(|e| e.to_string())) {
            Ok(ast) => {
                let mut v = V { file: &rel, fn_stack: vec![], hashed: vec![], structs: &structs, impl_stack: vec![], var_types: vec![], sites: BTreeSet::new() };
                v.visit_file(&ast);
                sites.extend(v.sites);
            }
            Err(e) => problems.push(format!("{}: {}", rel, e)),
        }
    }
    (sites, problems)
}
