//! list cases (C15), operation sequences (C16), pairs of histories (C06, C11), character / convert_string tables
use crate::hcase::{Built, DocInput, HistoryCase};
use crate::implrun;
use crate::proto::{enc, OptRec};
use crate::rng::Rng;
use crate::run::{Case, LineOut, Meta};
use serde_json::{json, Value};
use std::panic::{catch_unwind, AssertUnwindSafe};
use xml_schema_generator::{merge_necessity, Element, Necessity};

// ---------------------------------------------------------------- C15

#[derive(Clone, Debug)]
pub struct ListCase {
    pub xs: Vec<(bool, String)>,
    pub ys: Vec<(bool, String)>,
    pub as_u8: bool,
}

fn tagged_tokens(tag: &str, l: &[(bool, String)]) -> String {
    let mut s = format!("{} {}", tag, l.len());
    for (m, a) in l {
        s.push_str(&format!(" {} {}", if *m { "M" } else { "O" }, enc(a)));
    }
    s
}

fn to_nec<T: Clone>(l: &[(bool, T)]) -> Vec<Necessity<T>> {
    l.iter().map(|(m, a)| if *m { Necessity::Mandatory(a.clone()) } else { Necessity::Optional(a.clone()) }).collect()
}
fn from_nec<T: Clone>(l: &[Necessity<T>]) -> Vec<(bool, T)> {
    l.iter().map(|n| (matches!(n, Necessity::Mandatory(_)), n.inner_t().clone())).collect()
}

impl Case for ListCase {
    fn line(&self, id: &str, prop: &str) -> LineOut {
        let xs = self.xs.clone();
        let ys = self.ys.clone();
        let as_u8 = self.as_u8;
        let out = catch_unwind(AssertUnwindSafe(|| {
            if as_u8 {
                let x8: Vec<(bool, u8)> = xs.iter().map(|(m, a)| (*m, a.parse::<u8>().unwrap_or(0))).collect();
                let y8: Vec<(bool, u8)> = ys.iter().map(|(m, a)| (*m, a.parse::<u8>().unwrap_or(0))).collect();
                from_nec(&merge_necessity(to_nec(&x8), to_nec(&y8))).into_iter().map(|(m, a)| (m, a.to_string())).collect::<Vec<_>>()
            } else {
                from_nec(&merge_necessity(to_nec(&xs), to_nec(&ys)))
            }
        }));
        match out {
            Ok(o) => {
                let new_in_second = self.ys.iter().filter(|y| !self.xs.iter().any(|x| x.1 == y.1)).count();
                LineOut::Line(
                    format!("L {} {} {} {} {}", id, prop, tagged_tokens("XS", &self.xs), tagged_tokens("YS", &self.ys), tagged_tokens("OUT", &o)),
                    Meta {
                        nontrivial: new_in_second >= 2,
                        metrics: vec![("len_first".into(), self.xs.len() as u64), ("len_second".into(), self.ys.len() as u64), ("second_only_items".into(), new_in_second as u64)],
                        tags: vec![format!("payload:{}", if self.as_u8 { "u8" } else { "String" })],
                    },
                )
            }
            Err(_) => LineOut::ImplFailure("merge_necessity panicked".into()),
        }
    }
    fn shrink(&self) -> Vec<Self> {
        let mut out = Vec::new();
        for i in 0..self.xs.len() {
            let mut c = self.clone();
            c.xs.remove(i);
            out.push(c);
        }
        for i in 0..self.ys.len() {
            let mut c = self.clone();
            c.ys.remove(i);
            out.push(c);
        }
        out
    }
    fn json(&self) -> Value {
        json!({"kind": "lists", "as_u8": self.as_u8,
               "first": self.xs.iter().map(|(m, a)| json!([if *m {"Mandatory"} else {"Optional"}, a])).collect::<Vec<_>>(),
               "second": self.ys.iter().map(|(m, a)| json!([if *m {"Mandatory"} else {"Optional"}, a])).collect::<Vec<_>>()})
    }
}

impl ListCase {
    pub fn from_json(v: &Value) -> Option<ListCase> {
        let rd = |k: &str| -> Option<Vec<(bool, String)>> {
            Some(v[k].as_array()?.iter().map(|p| (p[0] == "Mandatory", p[1].as_str().unwrap_or("").to_string())).collect())
        };
        Some(ListCase { xs: rd("first")?, ys: rd("second")?, as_u8: v["as_u8"].as_bool().unwrap_or(false) })
    }
}

/// all duplicate-free tagged lists over the alphabet (every subset, every order, every tagging)
pub fn all_tagged_lists(alphabet: &[&str]) -> Vec<Vec<(bool, String)>> {
    fn rec(alphabet: &[&str], used: &mut Vec<bool>, cur: &mut Vec<(bool, String)>, out: &mut Vec<Vec<(bool, String)>>) {
        out.push(cur.clone());
        for i in 0..alphabet.len() {
            if !used[i] {
                used[i] = true;
                for m in [false, true] {
                    cur.push((m, alphabet[i].to_string()));
                    rec(alphabet, used, cur, out);
                    cur.pop();
                }
                used[i] = false;
            }
        }
    }
    let mut out = Vec::new();
    rec(alphabet, &mut vec![false; alphabet.len()], &mut Vec::new(), &mut out);
    out
}

pub fn random_list(rng: &mut Rng, max_len: usize, universe: usize) -> Vec<(bool, String)> {
    let mut items: Vec<usize> = (0..universe).collect();
    rng.shuffle(&mut items);
    items.truncate(rng.below(max_len + 1));
    items.into_iter().map(|i| (rng.chance(1, 2), i.to_string())).collect()
}

// ---------------------------------------------------------------- C16

#[derive(Clone, Debug, PartialEq)]
pub enum Op {
    Add(Vec<String>, String, Vec<String>),
    Opt(Vec<String>, String),
    Rm(Vec<String>, String),
    MAttr(Vec<String>, Vec<(bool, String)>),
    Multi(Vec<String>),
    Text(Vec<String>),
    Get(Vec<String>, String),
    /// remove_child(name) at the first path, then add_unique_child of that very element (position and subtree included) at the second
    Move(Vec<String>, String, Vec<String>),
}

#[derive(Clone, Debug)]
pub struct OpsCase {
    pub root: (String, Vec<String>),
    pub ops: Vec<Op>,
    pub opts: Vec<OptRec>,
}

fn path_tokens(p: &[String]) -> String {
    let mut s = format!("P{}", p.len());
    for n in p {
        s.push(' ');
        s.push_str(&enc(n));
    }
    s
}

fn at_path<'a>(e: &'a mut Element<String>, path: &[String]) -> Option<&'a mut Element<String>> {
    let mut cur = e;
    for p in path {
        cur = cur.get_child_mut(p)?.inner_t_mut();
    }
    Some(cur)
}

fn nec_name(n: &Necessity<Element<String>>) -> (bool, String) {
    (matches!(n, Necessity::Mandatory(_)), n.inner_t().name.clone())
}

impl Op {
    fn tokens(&self) -> String {
        match self {
            Op::Add(p, n, a) => {
                let mut s = format!("add {} {} A{}", path_tokens(p), enc(n), a.len());
                for x in a {
                    s.push(' ');
                    s.push_str(&enc(x));
                }
                s
            }
            Op::Opt(p, n) => format!("opt {} {}", path_tokens(p), enc(n)),
            Op::Rm(p, n) => format!("rm {} {}", path_tokens(p), enc(n)),
            Op::MAttr(p, l) => {
                let mut s = format!("mattr {} A{}", path_tokens(p), l.len());
                for (m, a) in l {
                    s.push_str(&format!(" {} {}", if *m { "M" } else { "O" }, enc(a)));
                }
                s
            }
            Op::Multi(p) => format!("multi {}", path_tokens(p)),
            Op::Text(p) => format!("text {}", path_tokens(p)),
            Op::Get(p, n) => format!("get {} {}", path_tokens(p), enc(n)),
            Op::Move(p, n, q) => format!("move {} {} {}", path_tokens(p), enc(n), path_tokens(q)),
        }
    }
    fn apply(&self, root: &mut Element<String>) -> Option<(bool, String)> {
        match self {
            Op::Add(p, n, a) => {
                if let Some(e) = at_path(root, p) {
                    e.add_unique_child(Element::new(n.clone(), a.clone()));
                }
                None
            }
            Op::Opt(p, n) => {
                if let Some(e) = at_path(root, p) {
                    e.set_child_optional(n);
                }
                None
            }
            Op::Rm(p, n) => at_path(root, p).and_then(|e| e.remove_child(n)).map(|c| nec_name(&c)),
            Op::MAttr(p, l) => {
                if let Some(e) = at_path(root, p) {
                    let taken = std::mem::replace(e, Element::new(String::new(), vec![]));
                    *e = taken.merge_attr(to_nec(l));
                }
                None
            }
            Op::Multi(p) => {
                if let Some(e) = at_path(root, p) {
                    e.set_multiple();
                }
                None
            }
            Op::Text(p) => {
                if let Some(e) = at_path(root, p) {
                    e.text = Some("t".to_string());
                }
                None
            }
            Op::Get(p, n) => at_path(root, p).and_then(|e| e.get_child(n).map(nec_name)),
            Op::Move(p, n, q) => {
                let taken = at_path(root, p).and_then(|e| e.remove_child(n));
                match taken {
                    Some(c) => {
                        let r = nec_name(&c);
                        if let Some(e) = at_path(root, q) {
                            e.add_unique_child(c.into_inner_t());
                        }
                        Some(r)
                    }
                    None => None,
                }
            }
        }
    }
    fn json(&self) -> Value {
        match self {
            Op::Add(p, n, a) => json!({"op": "add_unique_child", "path": p, "name": n, "attributes": a}),
            Op::Opt(p, n) => json!({"op": "set_child_optional", "path": p, "name": n}),
            Op::Rm(p, n) => json!({"op": "remove_child", "path": p, "name": n}),
            Op::MAttr(p, l) => json!({"op": "merge_attr", "path": p, "list": l.iter().map(|(m, a)| json!([if *m {"Mandatory"} else {"Optional"}, a])).collect::<Vec<_>>()}),
            Op::Multi(p) => json!({"op": "set_multiple", "path": p}),
            Op::Text(p) => json!({"op": "set_text", "path": p}),
            Op::Get(p, n) => json!({"op": "get_child", "path": p, "name": n}),
            Op::Move(p, n, q) => json!({"op": "move_child", "path": p, "name": n, "to": q}),
        }
    }
    fn from_json(v: &Value) -> Option<Op> {
        let strs = |x: &Value| -> Vec<String> { x.as_array().map(|a| a.iter().map(|s| s.as_str().unwrap_or("").to_string()).collect()).unwrap_or_default() };
        let p = strs(&v["path"]);
        let n = v["name"].as_str().unwrap_or("").to_string();
        Some(match v["op"].as_str()? {
            "add_unique_child" => Op::Add(p, n, strs(&v["attributes"])),
            "set_child_optional" => Op::Opt(p, n),
            "remove_child" => Op::Rm(p, n),
            "merge_attr" => Op::MAttr(p, v["list"].as_array()?.iter().map(|x| (x[0] == "Mandatory", x[1].as_str().unwrap_or("").to_string())).collect()),
            "set_multiple" => Op::Multi(p),
            "set_text" => Op::Text(p),
            "get_child" => Op::Get(p, n),
            "move_child" => Op::Move(p, n, strs(&v["to"])),
            _ => return None,
        })
    }
}

impl Case for OpsCase {
    fn line(&self, id: &str, prop: &str) -> LineOut {
        let built = catch_unwind(AssertUnwindSafe(|| -> Result<(String, Meta), String> {
            let mut root = Element::new(self.root.0.clone(), self.root.1.clone());
            let mut s = format!("O {} {} {}", id, prop, implrun::tree_tokens(&root)?.0);
            s.push_str(&format!(" S{}", self.ops.len()));
            let mut add_present = 0u64;
            let mut after_optional = 0u64;
            let mut rm_then_add = 0u64;
            let mut optional_names: Vec<String> = Vec::new();
            let mut removed: Vec<String> = Vec::new();
            for op in &self.ops {
                match op {
                    Op::Add(p, n, _) => {
                        if at_path(&mut root, p).map_or(false, |e| e.get_child(n).is_some()) {
                            add_present += 1;
                        }
                        if optional_names.contains(n) {
                            after_optional += 1;
                        }
                        if removed.contains(n) {
                            rm_then_add += 1;
                        }
                    }
                    Op::Opt(_, n) => optional_names.push(n.clone()),
                    Op::Rm(_, n) => {
                        if optional_names.contains(n) {
                            after_optional += 1;
                        }
                        removed.push(n.clone());
                    }
                    _ => {}
                }
                let r = op.apply(&mut root);
                s.push(' ');
                s.push_str(&op.tokens());
                match r {
                    None => s.push_str(" none"),
                    Some((m, n)) => s.push_str(&format!(" some {} {}", if m { "M" } else { "O" }, enc(&n))),
                }
                s.push(' ');
                s.push_str(&implrun::tree_tokens(&root)?.0);
            }
            s.push_str(&format!(" R{}", self.opts.len()));
            for o in &self.opts {
                let txt = root.to_serde_struct(&o.to_options());
                s.push_str(&format!(" {} TX {}", o.tokens(), enc(&txt)));
            }
            Ok((
                s,
                Meta {
                    nontrivial: add_present + after_optional + rm_then_add > 0,
                    metrics: vec![
                        ("operations".into(), self.ops.len() as u64),
                        ("add_of_present_name".into(), add_present),
                        ("operation_after_set_child_optional_on_same_name".into(), after_optional),
                        ("remove_then_add".into(), rm_then_add),
                    ],
                    tags: vec![],
                },
            ))
        }));
        match built {
            Ok(Ok((l, m))) => LineOut::Line(l, m),
            Ok(Err(e)) => LineOut::Harness(e),
            Err(_) => LineOut::ImplFailure("a construction operation or to_serde_struct panicked".into()),
        }
    }
    fn shrink(&self) -> Vec<Self> {
        let mut out = Vec::new();
        for i in 0..self.ops.len() {
            let mut c = self.clone();
            c.ops.remove(i);
            out.push(c);
        }
        if !self.root.1.is_empty() {
            let mut c = self.clone();
            c.root.1.clear();
            out.push(c);
        }
        out
    }
    fn json(&self) -> Value {
        json!({"kind": "operations", "root": {"name": self.root.0, "attributes": self.root.1},
               "operations": self.ops.iter().map(|o| o.json()).collect::<Vec<_>>(),
               "options": self.opts.iter().map(|o| json!({"text_identifier": o.text_identifier, "attribute_prefix": o.attribute_prefix, "derive": o.derive, "sort_by_name": o.sort_by_name})).collect::<Vec<_>>()})
    }
}

impl OpsCase {
    pub fn from_json(v: &Value) -> Option<OpsCase> {
        let strs = |x: &Value| -> Vec<String> { x.as_array().map(|a| a.iter().map(|s| s.as_str().unwrap_or("").to_string()).collect()).unwrap_or_default() };
        Some(OpsCase {
            root: (v["root"]["name"].as_str()?.to_string(), strs(&v["root"]["attributes"])),
            ops: v["operations"].as_array()?.iter().filter_map(Op::from_json).collect(),
            opts: vec![OptRec::quick(), OptRec::quick_sorted()],
        })
    }
}

/// the single-step alphabet used for exhaustive enumeration: names {x, y, X}, one nesting level below `x`
pub fn op_alphabet() -> Vec<Op> {
    let names = ["x", "y", "X"];
    let mut v = Vec::new();
    for n in names {
        v.push(Op::Add(vec![], n.to_string(), vec![]));
        v.push(Op::Opt(vec![], n.to_string()));
        v.push(Op::Rm(vec![], n.to_string()));
    }
    v.push(Op::Add(vec!["x".into()], "y".into(), vec!["a".into()]));
    v.push(Op::Opt(vec!["x".into()], "y".into()));
    v.push(Op::Multi(vec!["x".into()]));
    v.push(Op::Text(vec!["x".into()]));
    v.push(Op::MAttr(vec!["x".into()], vec![(true, "a".into()), (false, "b".into())]));
    v.push(Op::Get(vec![], "x".into()));
    // a child moved with its position and subtree: up from below `x`, down into `x`
    v.push(Op::Move(vec!["x".into()], "y".into(), vec![]));
    v.push(Op::Move(vec![], "y".into(), vec!["x".into()]));
    v
}

pub fn random_ops(rng: &mut Rng, len: usize) -> Vec<Op> {
    // half of the sequences live in a small world (two or three names), where the same name meets itself in every role
    let all_names = ["x", "y", "X", "z", "x-y", "type", "text", "Foo", "foo"];
    let small = rng.chance(1, 2);
    let names: Vec<&str> = if small { all_names[..2 + rng.below(2)].to_vec() } else { all_names.to_vec() };
    let attrs = ["a", "b", "x", "text", "type"];
    let mut paths: Vec<Vec<String>> = vec![vec![]];
    let mut ops = Vec::new();
    for _ in 0..len {
        let p = rng.pick(&paths).clone();
        let n = rng.pick(&names).to_string();
        let op = match rng.below(14) {
            0 | 1 | 2 | 3 => {
                if p.len() < 3 {
                    let mut np = p.clone();
                    np.push(n.clone());
                    paths.push(np);
                }
                let na = rng.below(3);
                let mut a: Vec<String> = attrs.iter().map(|s| s.to_string()).collect();
                rng.shuffle(&mut a);
                a.truncate(na);
                Op::Add(p, n, a)
            }
            4 | 5 => Op::Opt(p, n),
            6 | 7 => Op::Rm(p, n),
            8 => {
                let mut a: Vec<String> = attrs.iter().map(|s| s.to_string()).collect();
                rng.shuffle(&mut a);
                a.truncate(rng.below(4));
                Op::MAttr(p, a.into_iter().map(|x| (rng.chance(1, 2), x)).collect())
            }
            9 => Op::Multi(p),
            10 => Op::Text(p),
            11 => Op::Get(p, n),
            _ => {
                let q = rng.pick(&paths).clone();
                Op::Move(p, n, q)
            }
        };
        ops.push(op);
    }
    ops
}

// ---------------------------------------------------------------- pairs of histories (C06, C11)

#[derive(Clone, Debug)]
pub struct PairCase {
    pub rel: String,
    pub a: HistoryCase,
    pub b: HistoryCase,
    pub nontrivial: bool,
}

impl Case for PairCase {
    fn line(&self, id: &str, prop: &str) -> LineOut {
        let (ba, ia) = match self.a.build() {
            Built::Line { body, info } => (body, info),
            Built::Panic(m) => return LineOut::ImplFailure(m),
            Built::Harness(m) => return LineOut::Harness(m),
        };
        let (bb, ib) = match self.b.build() {
            Built::Line { body, info } => (body, info),
            Built::Panic(m) => return LineOut::ImplFailure(m),
            Built::Harness(m) => return LineOut::Harness(m),
        };
        LineOut::Line(
            format!("PAIR {} {} {} {} {}", id, prop, self.rel, ba, bb),
            Meta {
                nontrivial: self.nontrivial && ia.nodes >= 2,
                metrics: vec![
                    ("documents".into(), (ia.docs + ib.docs) as u64),
                    ("schema_nodes".into(), ia.nodes as u64),
                    ("optional_fields".into(), ia.optional as u64),
                    ("vec_fields".into(), ia.multi as u64),
                    ("steps_err".into(), (ia.steps_err + ib.steps_err) as u64),
                    ("identifier_collisions".into(), ia.collisions as u64),
                ],
                tags: vec![format!("relation:{}", self.rel), format!("theme:{}", self.a.theme)],
            },
        )
    }
    fn shrink(&self) -> Vec<Self> {
        // shrink both sides in lockstep only by dropping documents present in both (by equal bytes)
        let mut out = Vec::new();
        for i in 0..self.a.docs.len() {
            if self.a.docs.len() <= 1 {
                break;
            }
            let bytes = &self.a.docs[i].bytes;
            let mut c = self.clone();
            c.a.docs.remove(i);
            if let Some(j) = c.b.docs.iter().position(|d| &d.bytes == bytes) {
                c.b.docs.remove(j);
                if !c.b.docs.is_empty() {
                    out.push(c);
                }
            }
        }
        out
    }
    fn json(&self) -> Value {
        json!({"kind": "pair", "relation": self.rel, "first": self.a.to_json(), "second": self.b.to_json()})
    }
}

/// C06 on a sub-structure: the element at `path` inside the structure parsed from `base` is taken out
/// (`get_child(..).inner_t().clone()` along the path) and extended with the documents of `ext`
#[derive(Clone, Debug)]
pub struct SubCase {
    pub base: HistoryCase,
    pub path: Vec<String>,
    pub ext: HistoryCase,
}

impl SubCase {
    fn sub_tree(&self) -> Option<xml_schema_generator::Element<String>> {
        let t = self.base.final_tree()?;
        let mut cur = &t;
        for k in &self.path {
            cur = cur.get_child(k)?.inner_t();
        }
        Some(cur.clone())
    }
    pub fn from_json(v: &Value) -> Option<SubCase> {
        Some(SubCase {
            base: HistoryCase::from_json(&v["base"]).ok()?,
            path: v["path"].as_array()?.iter().filter_map(|x| x.as_str().map(|s| s.to_string())).collect(),
            ext: HistoryCase::from_json(&v["extension"]).ok()?,
        })
    }
}

impl Case for SubCase {
    fn line(&self, id: &str, prop: &str) -> LineOut {
        let (bb, ib) = match self.base.build() {
            Built::Line { body, info } => (body, info),
            Built::Panic(m) => return LineOut::ImplFailure(m),
            Built::Harness(m) => return LineOut::Harness(m),
        };
        let sub = match std::panic::catch_unwind(std::panic::AssertUnwindSafe(|| self.sub_tree())) {
            Ok(Some(s)) => s,
            Ok(None) => return LineOut::Harness("no element at the path".into()),
            Err(_) => return LineOut::ImplFailure("panic in get_child".into()),
        };
        let sub_tokens = match crate::implrun::tree_tokens(&sub) {
            Ok((t, _)) => t,
            Err(e) => return LineOut::Harness(e),
        };
        let (be, ie) = match self.ext.build_from(Some(sub)) {
            Built::Line { body, info } => (body, info),
            Built::Panic(m) => return LineOut::ImplFailure(m),
            Built::Harness(m) => return LineOut::Harness(m),
        };
        let path: String = self.path.iter().map(|k| format!(" {}", enc(k))).collect();
        LineOut::Line(
            format!("SUB {} {} {} P{}{} {} {}", id, prop, bb, self.path.len(), path, sub_tokens, be),
            Meta {
                nontrivial: ib.nodes >= 2 && ie.steps_ok >= 1,
                metrics: vec![
                    ("documents".into(), (ib.docs + ie.docs) as u64),
                    ("schema_nodes".into(), ib.nodes as u64),
                    ("sub_path_length".into(), self.path.len() as u64),
                    ("steps_err".into(), (ib.steps_err + ie.steps_err) as u64),
                ],
                tags: vec!["relation:sub-structure".into(), format!("theme:{}", self.base.theme)],
            },
        )
    }
    fn shrink(&self) -> Vec<Self> {
        let mut out = Vec::new();
        for e in self.ext.shrink_candidates() {
            if !e.docs.is_empty() {
                out.push(SubCase { base: self.base.clone(), path: self.path.clone(), ext: e });
            }
        }
        for b in self.base.shrink_candidates() {
            out.push(SubCase { base: b, path: self.path.clone(), ext: self.ext.clone() });
        }
        out
    }
    fn json(&self) -> Value {
        json!({"kind": "sub-structure", "base": self.base.to_json(), "path": self.path, "extension": self.ext.to_json()})
    }
}

impl PairCase {
    pub fn from_json(v: &Value) -> Option<PairCase> {
        Some(PairCase { rel: v["relation"].as_str()?.to_string(), a: HistoryCase::from_json(&v["first"]).ok()?, b: HistoryCase::from_json(&v["second"]).ok()?, nontrivial: true })
    }
}

pub fn docs_of(h: &[crate::dom::Doc]) -> Vec<DocInput> {
    h.iter().cloned().map(DocInput::from_dom).collect()
}

// ---------------------------------------------------------------- character tables / convert_string

#[derive(Clone, Debug)]
pub struct TableCase {
    pub line: String,
    pub desc: String,
}

impl Case for TableCase {
    fn line(&self, id: &str, prop: &str) -> LineOut {
        let mut parts = self.line.splitn(2, ' ');
        let kind = parts.next().unwrap_or("");
        let rest = parts.next().unwrap_or("");
        LineOut::Line(format!("{} {} {} {}", kind, id, prop, rest), Meta { nontrivial: true, metrics: vec![], tags: vec![format!("table:{}", kind)] })
    }
    fn shrink(&self) -> Vec<Self> {
        vec![]
    }
    fn json(&self) -> Value {
        json!({"kind": "table", "what": self.desc})
    }
}

/// the presets and the derive builder of `options.rs`, as the library returns them
pub fn preset_cases() -> Vec<TableCase> {
    use xml_schema_generator::{Options, SortBy};
    let tok = |which: &str, o: Options| TableCase {
        line: format!(
            "P {} OP {} {} {} {}",
            which,
            enc(&o.text_identifier),
            enc(&o.attribute_prefix),
            enc(&o.derive),
            if let SortBy::XmlName = o.sort { "N" } else { "U" }
        ),
        desc: format!("Options::{}", which),
    };
    vec![
        tok("quick_xml_de", Options::quick_xml_de()),
        tok("serde_xml_rs", Options::serde_xml_rs()),
        tok("quick_xml_de.derive", Options::quick_xml_de().derive("Debug, X")),
        tok("serde_xml_rs.derive_empty", Options::serde_xml_rs().derive("")),
    ]
}

pub fn in_sigma(c: char) -> bool {
    let n = c as u32;
    n < 128 || (0xC0..=0xFE).contains(&n) && n != 0xD7 && n != 0xF7 || (0x400..=0x45F).contains(&n) || (0x4E00..=0x4E3F).contains(&n)
}

pub fn char_table_cases() -> Vec<TableCase> {
    let mut out = Vec::new();
    for n in 0u32..0x5000 {
        if let Some(c) = char::from_u32(n) {
            if in_sigma(c) {
                let lo: String = c.to_lowercase().collect();
                let up: String = c.to_uppercase().collect();
                out.push(TableCase {
                    line: format!("U {} {} {} {} {}", n, c.is_alphanumeric() as u8, c.is_uppercase() as u8, enc(&lo), enc(&up)),
                    desc: format!("char U+{:04X}", n),
                });
            }
        }
    }
    out
}

pub fn convert_case(name: &str, prefix: &str) -> TableCase {
    use convert_string::ConvertString;
    let n = name.to_string();
    TableCase {
        line: format!(
            "V {} {} {} {} {} {} {}",
            enc(name),
            enc(prefix),
            enc(&n.to_pascal_case()),
            enc(&n.to_snake_case()),
            enc(&n.to_valid_key(prefix)),
            enc(&n.remove_namespace()),
            n.is_keyword() as u8
        ),
        desc: format!("convert_string on {:?} with prefix {:?}", name, prefix),
    }
}

/// all strings of length <= 3 over a 12-character alphabet, plus every pool name and keyword
pub fn convert_table_cases(rng: &mut Rng) -> Vec<TableCase> {
    let alphabet = ['a', 'B', '1', '_', '-', ':', '.', 'é', 'Й', 'ß', 'z', 'Z'];
    let mut out = Vec::new();
    let mut strs: Vec<String> = vec![String::new()];
    let mut frontier = vec![String::new()];
    for _ in 0..3 {
        let mut next = Vec::new();
        for s in &frontier {
            for c in alphabet {
                let mut t = s.clone();
                t.push(c);
                next.push(t);
            }
        }
        strs.extend(next.iter().cloned());
        frontier = next;
    }
    for s in &strs {
        out.push(convert_case(s, "r"));
    }
    for t in crate::gen::THEMES {
        for n in crate::gen::pool(t, rng) {
            out.push(convert_case(&n, "Root-El"));
            out.push(convert_case(&n, &n));
        }
    }
    for k in crate::gen::KEYWORDS {
        out.push(convert_case(k, "pre"));
        out.push(convert_case(&k.to_uppercase(), "type"));
        out.push(convert_case(&format!("x:{}", k), "a:b"));
    }
    out
}
