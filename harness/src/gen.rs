//! generators: name pools ("themes"), shape-driven histories of documents
use crate::dom::{Doc, Item, Node};
use crate::rng::Rng;

pub const KEYWORDS: [&str; 51] = [
    "as", "break", "const", "continue", "crate", "else", "enum", "extern", "false", "fn", "for", "if", "impl", "in", "let", "loop", "match", "mod",
    "move", "mut", "pub", "ref", "return", "self", "Self", "static", "struct", "super", "trait", "true", "type", "unsafe", "use", "where", "while",
    "async", "await", "dyn", "abstract", "become", "box", "do", "final", "macro", "override", "priv", "typeof", "unsized", "virtual", "yield", "try",
];

#[derive(Clone, Copy, Debug, PartialEq)]
pub enum Theme {
    Plain,
    Keywords,
    CaseVariants,
    Separators,
    Prefixed,
    Concat,
    Prelude,
    SuffixTraps,
    NonAscii,
    Recurring,
    PrefixedNonAscii,
    RandomNames,
    Mixed,
    /// a root, names that collide under it, and names that literally are "root + name + number" (what a numbered struct name looks like)
    NumberedNames,
}

pub const THEMES: [Theme; 14] = [
    Theme::Plain, Theme::Keywords, Theme::CaseVariants, Theme::Separators, Theme::Prefixed, Theme::Concat, Theme::Prelude, Theme::SuffixTraps,
    Theme::NonAscii, Theme::Recurring, Theme::PrefixedNonAscii, Theme::RandomNames, Theme::Mixed, Theme::NumberedNames,
];

/// themes whose names never differ only by namespace prefix and never carry a prefix (C01/C09/C13 scope by construction)
#[allow(dead_code)]
pub const NS_FREE_THEMES: [Theme; 9] = [
    Theme::Plain, Theme::Keywords, Theme::CaseVariants, Theme::Separators, Theme::Concat, Theme::Prelude, Theme::SuffixTraps, Theme::NonAscii, Theme::Recurring,
];

pub fn pool(theme: Theme, rng: &mut Rng) -> Vec<String> {
    let v: Vec<&str> = match theme {
        Theme::Plain => vec!["a", "b", "c", "d", "e", "f", "item", "name", "value", "root"],
        Theme::Keywords => {
            let mut v = Vec::new();
            for _ in 0..6 {
                let k = *rng.pick(&KEYWORDS);
                v.push(k.to_string());
                let mut c = k.chars();
                let up: String = c.next().map(|f| f.to_uppercase().collect::<String>() + c.as_str()).unwrap_or_default();
                v.push(up);
                v.push(k.to_uppercase());
            }
            v.push("type".into());
            v.push("self".into());
            v.push("Self".into());
            v.push("x".into());
            return v;
        }
        Theme::NumberedNames => {
            let root = *rng.pick(&["r", "a", "Root"]);
            let base = *rng.pick(&["foo", "x", "item"]);
            let mut cap = base.to_string();
            if let Some(f) = cap.get_mut(0..1) {
                f.make_ascii_uppercase();
            }
            let mut v = vec![root.to_string(), base.to_string(), cap.clone(), base.to_uppercase()];
            for k in 1..4 {
                v.push(format!("{}_{}{}", root, base, k));
                v.push(format!("{}{}", base, k));
            }
            v.push(format!("{}_{}", root, base));
            v.push(format!("{}{}", cap, 1));
            return v;
        }
        Theme::CaseVariants => vec!["Foo", "foo", "FOO", "fOO", "foO", "Bar", "bar", "fooBar", "FooBar", "foobar"],
        Theme::Separators => vec!["a-b", "a.b", "a_b", "AB", "aB", "Ab", "ab", "a--b", "a-b-c", "a_b.c", "x", "a-1b", "item_2nd", "a__1b", "mp.3x", "h1", "l2_t", "a-1B"],
        Theme::Prefixed => vec!["p:x", "q:x", "x", "p:y", "xmlns:p", "xmlns:q", "xml:lang", "p:a-b", "q:type", "y", "xmlns"],
        Theme::Concat => vec!["Total", "Price", "TotalPrice", "total_price", "b", "c", "d", "d_c", "b_c", "bc", "B", "C", "Bc"],
        Theme::Prelude => vec!["String", "string", "Option", "option", "Vec", "vec", "Serialize", "Deserialize", "serialize", "Box", "Self", "self", "x"],
        Theme::SuffixTraps => vec!["foo", "foo_1", "foo_2", "Foo", "foo_attr", "foo_attr_1", "text", "Text", "text_content", "text_1", "text_content_1", "x1", "X1", "x"],
        Theme::NonAscii => vec!["Ид", "ид", "ИД", "Классификатор", "é", "É", "straße", "Ünï", "中", "中丁", "a中", "naïve", "x"],
        Theme::Recurring => vec!["a", "A", "b", "a_a", "aa", "Aa"],
        // multi-byte characters around ':' and at small byte offsets (string slicing by byte index)
        Theme::PrefixedNonAscii => vec!["é:é", "a:bcdé", "ab:cdé", "abc:dé", "abcd:é", "abcde:é", "xmlns:é", "xmln:é", "é:xmlns", "中:丁x", "a:中", "ab:中丁", "É:a", "ß:ß", "ns:Ид", "Ид:ns", "x"],
        Theme::RandomNames => {
            let alphabet = ['a', 'b', 'B', 'Z', 'é', 'É', 'ß', '中', 'Й', 'й', '1', '9', '-', '_', '.', ':'];
            let mut v: Vec<String> = Vec::new();
            while v.len() < 9 {
                let len = rng.range(1, 7);
                let mut s = String::new();
                let mut colon = false;
                for i in 0..len {
                    let c = *rng.pick(&alphabet);
                    if i == 0 && !c.is_alphabetic() {
                        s.push('a');
                        continue;
                    }
                    if c == ':' {
                        if colon || i + 1 == len {
                            continue;
                        }
                        colon = true;
                    }
                    s.push(c);
                }
                if !s.ends_with(':') {
                    v.push(s);
                }
            }
            v.push("x".into());
            return v;
        }
        Theme::Mixed => {
            let mut v: Vec<String> = Vec::new();
            for _ in 0..10 {
                let t = *rng.pick(&THEMES[..12]);
                let p = pool(t, rng);
                v.push(rng.pick(&p).clone());
            }
            v.push("x".into());
            return v;
        }
    };
    v.into_iter().map(|s| s.to_string()).collect()
}

/// the generative shape of one schema position
#[derive(Clone, Debug)]
pub struct Shape {
    pub name: String,
    pub attrs: Vec<String>,
    pub kids: Vec<Shape>,
    pub text_weight: usize, // 0..=3: how often occurrences carry character data
}

pub struct GenCfg {
    pub max_depth: usize,
    pub max_fanout: usize,
    pub max_attrs: usize,
    pub max_docs: usize,
    pub data_oriented: bool, // never mix non-whitespace text with child elements
    pub adjacent_repeats: bool, // repeated children adjacent (serde-xml-rs)
    pub misc: bool,          // comments / PIs / prolog
    pub late_bias: bool,     // later occurrences introduce several new attributes/children at once
    pub disjoint_attrs_kids: bool, // attribute names of an element differ from its child names (serde-xml-rs)
    pub split_text: bool,    // a comment may split the character data of an element in two text nodes
    pub max_positions: usize, // upper bound for the number of schema positions of a generated shape
    pub max_nodes: usize,     // upper bound for the number of elements of one generated document
}

impl GenCfg {
    pub fn quick() -> Self {
        GenCfg { max_depth: 4, max_fanout: 5, max_attrs: 4, max_docs: 4, data_oriented: false, adjacent_repeats: false, misc: true, late_bias: false, disjoint_attrs_kids: false, split_text: true, max_positions: 40, max_nodes: 120 }
    }
}

fn distinct_sample(rng: &mut Rng, pool: &[String], n: usize) -> Vec<String> {
    let mut p: Vec<String> = pool.to_vec();
    p.sort();
    p.dedup();
    rng.shuffle(&mut p);
    p.truncate(n);
    p
}

pub fn gen_shape(rng: &mut Rng, pool: &[String], name: &str, depth: usize, cfg: &GenCfg) -> Shape {
    let mut budget = cfg.max_positions;
    gen_shape_b(rng, pool, name, depth, cfg, &mut budget)
}

fn gen_shape_b(rng: &mut Rng, pool: &[String], name: &str, depth: usize, cfg: &GenCfg, budget: &mut usize) -> Shape {
    let nattrs = rng.below(cfg.max_attrs + 1);
    let attrs = distinct_sample(rng, pool, nattrs);
    *budget = budget.saturating_sub(1);
    let nkids = if depth >= cfg.max_depth || *budget == 0 { 0 } else { rng.below(cfg.max_fanout + 1).min(*budget) };
    let kid_pool: Vec<String> = if cfg.disjoint_attrs_kids { pool.iter().filter(|n| !attrs.contains(n)).cloned().collect() } else { pool.to_vec() };
    let kid_names = distinct_sample(rng, &kid_pool, nkids);
    let kids = kid_names.iter().map(|k| gen_shape_b(rng, pool, k, depth + 1, cfg, budget)).collect();
    Shape { name: name.to_string(), attrs, kids, text_weight: rng.below(4) }
}

const TEXTS: [&str; 8] = ["hello", "1", "x y", " padded ", "a&b", "Привет", "\u{E000}nbsp\u{E001}", "\u{E000}copy\u{E001} 2024"];

fn misc_item(rng: &mut Rng) -> Item {
    if rng.chance(1, 2) {
        Item::Comment(rng.pick(&[" note ", "", "x", "<a/>"]).to_string())
    } else {
        Item::PI(rng.pick(&["pi data", "xml-stylesheet href=\"a\""]).to_string())
    }
}

/// one occurrence of a position. `stage` grows with the occurrence index (used by `late_bias`).
pub fn gen_node(rng: &mut Rng, shape: &Shape, cfg: &GenCfg, stage: usize) -> Node {
    let mut budget = cfg.max_nodes;
    gen_node_b(rng, shape, cfg, stage, &mut budget)
}

fn gen_node_b(rng: &mut Rng, shape: &Shape, cfg: &GenCfg, stage: usize, budget: &mut usize) -> Node {
    *budget = budget.saturating_sub(1);
    let mut node = Node::new(&shape.name);
    // attributes: random subset, mostly in pool order, sometimes shuffled
    let keep_num = if cfg.late_bias && stage == 0 { 1 } else { 2 };
    let mut attrs: Vec<String> = shape.attrs.iter().filter(|_| rng.chance(keep_num, 3)).cloned().collect();
    if rng.chance(1, 4) {
        rng.shuffle(&mut attrs);
    }
    for a in attrs {
        let v = rng.pick(&["1", "v", "", "a b", "x<y", "\"q\""]).to_string();
        node.attrs.push((a, v));
    }
    // children
    let mut groups: Vec<Vec<Node>> = Vec::new();
    for k in &shape.kids {
        let present = if cfg.late_bias && stage == 0 { rng.chance(1, 3) } else { rng.chance(3, 4) };
        if !present || *budget == 0 {
            continue;
        }
        let count = *rng.pick(&[1usize, 1, 1, 1, 2, 2, 3]);
        let mut g = Vec::new();
        for i in 0..count {
            g.push(gen_node_b(rng, k, cfg, stage + i, budget));
        }
        groups.push(g);
    }
    let mut kids: Vec<Node> = Vec::new();
    if cfg.adjacent_repeats {
        if rng.chance(1, 3) {
            rng.shuffle(&mut groups);
        }
        for g in groups {
            kids.extend(g);
        }
    } else {
        for g in groups {
            kids.extend(g);
        }
        if rng.chance(1, 3) {
            rng.shuffle(&mut kids);
        }
    }
    let has_kids = !kids.is_empty();
    let want_text = rng.below(4) < shape.text_weight;
    let mut items: Vec<Item> = Vec::new();
    let pretty = rng.chance(1, 3);
    if has_kids {
        for k in kids {
            if pretty {
                items.push(Item::Ws("\n  ".into()));
            }
            if cfg.misc && rng.chance(1, 8) {
                items.push(misc_item(rng));
            }
            if want_text && !cfg.data_oriented && rng.chance(1, 3) {
                items.push(Item::Text(rng.pick(&TEXTS).to_string()));
            }
            items.push(Item::Elem(k));
        }
        if pretty {
            items.push(Item::Ws("\n".into()));
        }
        if want_text && !cfg.data_oriented && rng.chance(1, 2) {
            items.push(Item::Text(rng.pick(&TEXTS).to_string()));
        }
    } else if want_text {
        match rng.below(6) {
            0 => items.push(Item::CData(rng.pick(&["cdata", "", "<x>", " "]).to_string())),
            1 => {
                items.push(Item::Text(rng.pick(&TEXTS).to_string()));
                if cfg.misc && cfg.split_text {
                    items.push(Item::Comment("c".into()));
                    items.push(Item::Text("more".into()));
                }
            }
            2 if !cfg.data_oriented => items.push(Item::Ws(" ".into())),
            _ => items.push(Item::Text(rng.pick(&TEXTS).to_string())),
        }
    } else if cfg.misc && rng.chance(1, 10) {
        items.push(misc_item(rng));
    }
    node.items = items;
    node.self_closing = rng.chance(1, 2);
    node
}

pub fn gen_doc(rng: &mut Rng, shape: &Shape, cfg: &GenCfg, stage: usize) -> Doc {
    let root = gen_node(rng, shape, cfg, stage);
    let mut prolog = Vec::new();
    let mut epilog = Vec::new();
    if cfg.misc {
        if rng.chance(1, 4) {
            // the label is incidental: the bytes handed to the reader are UTF-8 whatever the declaration says
            let decls = ["xml version=\"1.0\" encoding=\"UTF-8\"", "xml version=\"1.0\"", "xml version=\"1.0\" encoding=\"utf-8\" standalone=\"yes\"",
                "xml version=\"1.0\" encoding=\"ISO-8859-1\"", "xml version=\"1.1\" encoding=\"US-ASCII\" standalone=\"no\"", "xml version='1.0' encoding='iso-8859-1'"];
            prolog.push(Item::Decl(rng.pick(&decls).to_string()));
        }
        if rng.chance(1, 8) {
            prolog.push(Item::DocType("r".into()));
        }
        if rng.chance(1, 8) {
            prolog.push(Item::Comment(" before ".into()));
        }
        if rng.chance(1, 6) {
            prolog.push(Item::Ws("\n".into()));
        }
        if rng.chance(1, 8) {
            epilog.push(Item::Comment(" after ".into()));
        }
        if rng.chance(1, 6) {
            epilog.push(Item::Ws("\n".into()));
        }
    }
    let mut doc = Doc { prolog, root, epilog };
    // a label other than UTF-8 is only honest (and the document only well-formed) if the content is plain ASCII
    if !doc.to_xml().is_ascii() {
        for it in doc.prolog.iter_mut() {
            if let Item::Decl(d) = it {
                if !d.to_ascii_lowercase().contains("utf-8") && d.contains("encoding") {
                    *d = "xml version=\"1.0\" encoding=\"UTF-8\"".into();
                }
            }
        }
    }
    doc
}

pub struct History {
    pub theme: Theme,
    pub docs: Vec<Doc>,
}

pub fn gen_history(rng: &mut Rng, themes: &[Theme], cfg: &GenCfg) -> History {
    let theme = *rng.pick(themes);
    let p = pool(theme, rng);
    let root_name = if theme == Theme::NumberedNames { p[0].clone() } else { rng.pick(&p).clone() };
    let shape = gen_shape(rng, &p, &root_name, 1, cfg);
    let ndocs = rng.range(1, cfg.max_docs);
    let docs = (0..ndocs).map(|i| gen_doc(rng, &shape, cfg, i)).collect();
    History { theme, docs }
}

/// fragments for byte-level mutation: XML punctuation, broken constructs, invalid UTF-8
pub const FRAGMENTS: [&[u8]; 40] = [
    b"<", b">", b"/>", b"</", b"<a>", b"</a>", b"<a/>", b"<a", b" a=\"1\"", b" a='1'", b" a=1", b" a", b" a=\"1\" a=\"2\"", b"=", b"\"", b"'",
    b"<!--", b"-->", b"<![CDATA[", b"]]>", b"<?", b"?>", b"<?xml version=\"1.0\"?>", b"<!DOCTYPE x>", b"<!DOCTYPE x [<!ENTITY e \"v\">]>", b"&amp;", b"&", b"&#x41;",
    b"\xff", b"\xc3\x28", b"\xe2\x82", b"\xf0\x9f", b"\x00", b" ", b"\n", b"\t", b"</b>", b"<b>", b"text", b"<:>",
];

pub fn mutate(rng: &mut Rng, input: &[u8]) -> Vec<u8> {
    let mut b = input.to_vec();
    let n = rng.range(1, 4);
    for _ in 0..n {
        let len = b.len();
        match rng.below(6) {
            0 if len > 0 => {
                // delete a range
                let s = rng.below(len);
                let e = (s + rng.range(1, 8)).min(len);
                b.drain(s..e);
            }
            1 => {
                let pos = rng.below(len + 1);
                let f = *rng.pick(&FRAGMENTS);
                b.splice(pos..pos, f.iter().cloned());
            }
            2 if len > 0 => {
                let pos = rng.below(len);
                b[pos] = *rng.pick(&[b'<', b'>', b'/', b'"', b'=', b' ', 0xff, 0xc3, b'&', b'a', b'!', b'?', b'[', b']', b'-']);
            }
            3 if len > 0 => {
                b.truncate(rng.below(len));
            }
            4 if len > 1 => {
                // duplicate a range
                let s = rng.below(len);
                let e = (s + rng.range(1, 12)).min(len);
                let chunk: Vec<u8> = b[s..e].to_vec();
                let pos = rng.below(len + 1);
                b.splice(pos..pos, chunk);
            }
            _ => {
                let pos = rng.below(len + 1);
                b.insert(pos, (rng.next() & 0xff) as u8);
            }
        }
    }
    b
}

pub fn random_bytes(rng: &mut Rng) -> Vec<u8> {
    let n = rng.below(40);
    (0..n)
        .map(|_| {
            if rng.chance(2, 3) {
                *rng.pick(b"<>/=\"' a!-[]?&;:x")
            } else {
                (rng.next() & 0xff) as u8
            }
        })
        .collect()
}

/// structured faults applied to a valid document (C08)
pub fn structured_fault(rng: &mut Rng, valid: &str) -> Vec<u8> {
    let mut b = valid.as_bytes().to_vec();
    let len = b.len();
    let pos_of = |rng: &mut Rng, needle: u8, b: &[u8]| -> usize {
        let idx: Vec<usize> = b.iter().enumerate().filter(|(_, c)| **c == needle).map(|(i, _)| i).collect();
        if idx.is_empty() {
            0
        } else {
            *rng.pick(&idx)
        }
    };
    match rng.below(24) {
        0 => {
            // mismatched end tag
            let p = pos_of(rng, b'/', &b);
            if p + 1 < len && b[p + 1].is_ascii_alphabetic() {
                b[p + 1] = b'Q';
            }
        }
        1 => b.extend_from_slice(b"</zz>"),
        2 => {
            let p = pos_of(rng, b'>', &b);
            b.truncate(p);
        }
        3 => {
            let p = pos_of(rng, b'>', &b);
            b.splice(p + 1..p + 1, b"<!-- unclosed".iter().cloned());
        }
        4 => {
            let p = pos_of(rng, b'>', &b);
            b.splice(p + 1..p + 1, b"<![CDATA[ unclosed".iter().cloned());
        }
        5 => {
            let p = pos_of(rng, b'>', &b);
            b.splice(p + 1..p + 1, b"<?pi unclosed".iter().cloned());
        }
        6 => {
            let p = pos_of(rng, b'>', &b);
            if p > 0 && b[p - 1] != b'/' && b[p - 1] != b'?' && b[p - 1] != b'-' && b[p - 1] != b']' {
                b.splice(p..p, b" k=v".iter().cloned());
            }
        }
        7 => {
            let p = pos_of(rng, b'>', &b);
            if p > 0 && b[p - 1] != b'/' && b[p - 1] != b'?' && b[p - 1] != b'-' && b[p - 1] != b']' {
                b.splice(p..p, b" novalue".iter().cloned());
            }
        }
        8 => {
            let p = pos_of(rng, b'>', &b);
            if p > 0 && b[p - 1] != b'/' && b[p - 1] != b'?' && b[p - 1] != b'-' && b[p - 1] != b']' {
                b.splice(p..p, b" d=\"1\" d=\"2\"".iter().cloned());
            }
        }
        9 => {
            // invalid UTF-8 in a name
            let p = pos_of(rng, b'<', &b);
            if p + 1 < len {
                b.insert(p + 1, 0xff);
            }
        }
        10 => {
            // invalid UTF-8 in text
            let p = pos_of(rng, b'>', &b);
            b.splice(p + 1..p + 1, [b't', 0xc3, 0x28].iter().cloned());
        }
        11 => {
            // invalid UTF-8 in an attribute key or value
            let p = pos_of(rng, b'=', &b);
            if p > 0 {
                b.insert(if rng.chance(1, 2) { p } else { p + 2 }.min(b.len()), 0xfe);
            }
        }
        12 => {
            // invalid UTF-8 in a comment (ignored by the parser)
            let p = pos_of(rng, b'>', &b);
            b.splice(p + 1..p + 1, [b'<', b'!', b'-', b'-', 0xff, b'-', b'-', b'>'].iter().cloned());
        }
        13 => b.clear(),
        14 => b = b"just text".to_vec(),
        15 => b = b"<?xml version=\"1.0\"?><!DOCTYPE x><!-- only misc -->".to_vec(),
        16 => {
            // a second root element of the same name (the reader does not object)
            let root: Vec<u8> = b.iter().skip_while(|c| **c != b'<').skip(1).take_while(|c| c.is_ascii_alphanumeric()).cloned().collect();
            if !root.is_empty() {
                b.push(b'<');
                b.extend_from_slice(&root);
                b.extend_from_slice(b" second=\"1\"><extra/></");
                b.extend_from_slice(&root);
                b.push(b'>');
            }
        }
        17 => b.extend_from_slice(b"<other-root k=\"v\"><c/></other-root>"),
        18 => b.extend_from_slice(b" trailing text"),
        19 => {
            // invalid UTF-8 inside a CDATA section
            let p = pos_of(rng, b'>', &b);
            b.splice(p + 1..p + 1, [b'<', b'!', b'[', b'C', b'D', b'A', b'T', b'A', b'[', 0xff, b']', b']', b'>'].iter().cloned());
        }
        20 => {
            // attribute with an empty key / without quotes
            let p = pos_of(rng, b'>', &b);
            if p > 0 && b[p - 1] != b'/' && b[p - 1] != b'?' && b[p - 1] != b'-' && b[p - 1] != b']' {
                let ins: &[u8] = if rng.chance(1, 2) { b" =\"1\"" } else { b" k=unquoted" };
                b.splice(p..p, ins.iter().cloned());
            }
        }
        21 | 22 => {
            // the input ends inside an element that has just been opened (the reader reports no error for that):
            // after some tag, open an element - called like the parser's own wrapper, or like something else - and stop
            let p = pos_of(rng, b'>', &b);
            b.truncate((p + 1).min(len));
            let name: &[u8] = *rng.pick(&[&b"root"[..], b"root", b"Root", b"r", b"x"]);
            b.push(b'<');
            b.extend_from_slice(name);
            if rng.chance(1, 3) {
                b.extend_from_slice(b" k=\"v\"");
            }
            b.push(b'>');
            if rng.chance(1, 2) {
                b.extend_from_slice(b"some text");
            }
        }
        _ => {
            // an end tag before any start tag
            b.splice(0..0, b"</early>".iter().cloned());
        }
    }
    b
}

/// make every attribute value and every character-data string of the document unique (C02/C13: exact attribution of lost values)
pub fn uniquify(n: &mut Node, counter: &mut usize) {
    for a in n.attrs.iter_mut() {
        *counter += 1;
        a.1 = format!("{}#{}", a.1, counter);
    }
    for it in n.items.iter_mut() {
        match it {
            Item::Elem(c) => uniquify(c, counter),
            Item::Text(t) => {
                *counter += 1;
                *t = format!("{}#{}", t.trim_end(), counter) + if t.ends_with(' ') { " " } else { "" };
            }
            Item::CData(t) => {
                *counter += 1;
                *t = format!("{}#{}", t, counter);
            }
            _ => {}
        }
    }
}
