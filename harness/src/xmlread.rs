//! read a well-formed XML text into the harness DOM (used for corpus documents and replays)
use crate::dom::{Doc, Item, Node};
use quick_xml::events::Event;
use quick_xml::reader::Reader;

fn is_ws(b: &[u8]) -> bool {
    b.iter().all(|c| matches!(c, b' ' | b'\t' | b'\r' | b'\n'))
}

pub fn read_doc(bytes: &[u8]) -> Option<Doc> {
    let text = std::str::from_utf8(bytes).ok()?;
    let mut reader = Reader::from_str(text);
    let mut stack: Vec<Node> = Vec::new();
    let mut root: Option<Node> = None;
    let mut prolog: Vec<Item> = Vec::new();
    let mut epilog: Vec<Item> = Vec::new();
    loop {
        let ev = reader.read_event().ok()?;
        let mk = |e: &quick_xml::events::BytesStart, sc: bool| -> Option<Node> {
            let mut n = Node::new(std::str::from_utf8(e.name().as_ref()).ok()?);
            n.self_closing = sc;
            for a in e.attributes() {
                let a = a.ok()?;
                let v = String::from_utf8(a.value.to_vec()).ok()?;
                let v = crate::dom::mark_entities(&v).replace("&lt;", "<").replace("&quot;", "\"").replace("&amp;", "&");
                n.attrs.push((std::str::from_utf8(a.key.as_ref()).ok()?.to_string(), v));
            }
            Some(n)
        };
        match ev {
            Event::Start(e) => {
                if stack.is_empty() && root.is_some() {
                    return None;
                }
                stack.push(mk(&e, false)?);
            }
            Event::Empty(e) => {
                let n = mk(&e, true)?;
                match stack.last_mut() {
                    Some(p) => p.items.push(Item::Elem(n)),
                    None => {
                        if root.is_some() {
                            return None;
                        }
                        root = Some(n);
                    }
                }
            }
            Event::End(_) => {
                let n = stack.pop()?;
                match stack.last_mut() {
                    Some(p) => p.items.push(Item::Elem(n)),
                    None => root = Some(n),
                }
            }
            Event::Text(t) => {
                let raw = t.into_inner();
                let s = crate::dom::mark_entities(&String::from_utf8(raw.to_vec()).ok()?).replace("&lt;", "<").replace("&gt;", ">").replace("&amp;", "&");
                let it = if is_ws(&raw) { Item::Ws(s) } else { Item::Text(s) };
                match stack.last_mut() {
                    Some(p) => p.items.push(it),
                    None => {
                        if let Item::Text(_) = it {
                            return None;
                        }
                        if root.is_some() { epilog.push(it) } else { prolog.push(it) }
                    }
                }
            }
            Event::CData(t) => {
                if let Some(p) = stack.last_mut() {
                    p.items.push(Item::CData(String::from_utf8(t.into_inner().to_vec()).ok()?));
                }
            }
            Event::Comment(t) => {
                let it = Item::Comment(String::from_utf8(t.into_inner().to_vec()).ok()?);
                match stack.last_mut() {
                    Some(p) => p.items.push(it),
                    None => if root.is_some() { epilog.push(it) } else { prolog.push(it) },
                }
            }
            Event::PI(t) => {
                let it = Item::PI(String::from_utf8(t.to_vec()).ok()?);
                match stack.last_mut() {
                    Some(p) => p.items.push(it),
                    None => if root.is_some() { epilog.push(it) } else { prolog.push(it) },
                }
            }
            Event::Decl(d) => {
                if !stack.is_empty() || root.is_some() {
                    return None;
                }
                prolog.push(Item::Decl(String::from_utf8(d.to_vec()).ok()?));
            }
            Event::DocType(d) => {
                if !stack.is_empty() || root.is_some() {
                    return None;
                }
                prolog.push(Item::DocType(String::from_utf8(d.into_inner().to_vec()).ok()?));
            }
            Event::Eof => break,
        }
    }
    if !stack.is_empty() {
        return None;
    }
    let root = root?;
    Some(Doc { prolog, root, epilog })
}

/// the top-level items of an input with any number of top-level elements
pub fn read_items(bytes: &[u8]) -> Option<Vec<Item>> {
    let text = std::str::from_utf8(bytes).ok()?;
    let mut reader = Reader::from_str(text);
    let mut stack: Vec<Node> = Vec::new();
    let mut top: Vec<Item> = Vec::new();
    loop {
        let ev = reader.read_event().ok()?;
        let mk = |e: &quick_xml::events::BytesStart, sc: bool| -> Option<Node> {
            let mut n = Node::new(std::str::from_utf8(e.name().as_ref()).ok()?);
            n.self_closing = sc;
            for a in e.attributes() {
                let a = a.ok()?;
                let v = String::from_utf8(a.value.to_vec()).ok()?;
                let v = crate::dom::mark_entities(&v).replace("&lt;", "<").replace("&quot;", "\"").replace("&amp;", "&");
                n.attrs.push((std::str::from_utf8(a.key.as_ref()).ok()?.to_string(), v));
            }
            Some(n)
        };
        let mut put = |stack: &mut Vec<Node>, it: Item| match stack.last_mut() {
            Some(p) => p.items.push(it),
            None => top.push(it),
        };
        match ev {
            Event::Start(e) => stack.push(mk(&e, false)?),
            Event::Empty(e) => {
                let n = mk(&e, true)?;
                put(&mut stack, Item::Elem(n));
            }
            Event::End(_) => {
                let n = stack.pop()?;
                put(&mut stack, Item::Elem(n));
            }
            Event::Text(t) => {
                let raw = t.into_inner();
                let s = crate::dom::mark_entities(&String::from_utf8(raw.to_vec()).ok()?).replace("&lt;", "<").replace("&gt;", ">").replace("&amp;", "&");
                let it = if is_ws(&raw) { Item::Ws(s) } else { Item::Text(s) };
                put(&mut stack, it);
            }
            Event::CData(t) => put(&mut stack, Item::CData(String::from_utf8(t.into_inner().to_vec()).ok()?)),
            Event::Comment(t) => put(&mut stack, Item::Comment(String::from_utf8(t.into_inner().to_vec()).ok()?)),
            Event::PI(t) => put(&mut stack, Item::PI(String::from_utf8(t.to_vec()).ok()?)),
            Event::Decl(d) => put(&mut stack, Item::Decl(String::from_utf8(d.to_vec()).ok()?)),
            Event::DocType(d) => put(&mut stack, Item::DocType(String::from_utf8(d.into_inner().to_vec()).ok()?)),
            Event::Eof => break,
        }
    }
    if !stack.is_empty() {
        return None;
    }
    Some(top)
}
