//! history cases: a sequence of documents fed to into_struct / extend_struct, then rendered
use crate::debugparse::DElem;
use crate::dom::{Doc, Item, Node};
use crate::implrun::{self, Step};
use crate::proto::{enc, OptRec};
use crate::record::{self, EvStats, ReaderCfg};
use serde_json::{json, Value};

#[derive(Clone, Debug)]
pub struct DocInput {
    pub dom: Option<Doc>,
    /// a generated input with several top-level elements (an XML fragment that repeats its root)
    pub frag: Option<Vec<Item>>,
    pub bytes: Vec<u8>,
}

impl DocInput {
    pub fn from_dom(d: Doc) -> Self {
        let bytes = d.to_xml().into_bytes();
        DocInput { dom: Some(d), frag: None, bytes }
    }
    pub fn from_bytes(b: Vec<u8>) -> Self {
        DocInput { dom: None, frag: None, bytes: b }
    }
    pub fn from_items(items: Vec<Item>) -> Self {
        let mut s = String::new();
        for it in &items {
            crate::dom::write_item(it, &mut s);
        }
        DocInput { dom: None, frag: Some(items), bytes: s.into_bytes() }
    }
}

#[derive(Clone, Debug)]
pub struct HistoryCase {
    pub docs: Vec<DocInput>,
    pub cfg: ReaderCfg,
    pub opts: Vec<OptRec>,
    /// how often each rendering is repeated (fresh parse each time) in this process; C05
    pub repeats: usize,
    pub theme: String,
}

#[derive(Default, Clone, Debug)]
pub struct Info {
    pub docs: usize,
    pub bytes: usize,
    pub nodes: usize,
    pub depth: usize,
    pub optional: usize,
    pub multi: usize,
    pub max_count: u64,
    pub steps_ok: usize,
    pub steps_err: usize,
    pub ev: EvStats,
    pub collisions: bool,
    pub duplicate_element_names: bool,
    pub error_kinds: Vec<String>,
    pub render_len: usize,
}

pub enum Built {
    Line { body: String, info: Info },
    Panic(String),
    Harness(String),
}

fn max_count(d: &DElem) -> u64 {
    d.children.iter().map(|c| max_count(&c.1)).max().unwrap_or(0).max(d.count)
}
fn depth(d: &DElem) -> usize {
    1 + d.children.iter().map(|c| depth(&c.1)).max().unwrap_or(0)
}
fn struct_names(d: &DElem, out: &mut Vec<String>) {
    out.push(d.name.to_lowercase().replace(['-', '_', '.', ':'], ""));
    for c in &d.children {
        struct_names(&c.1, out);
    }
}

impl HistoryCase {
    /// `D<k> {dom events result}* R<m> {options TX text}*` — runs the implementation
    pub fn build(&self) -> Built {
        self.build_from(None)
    }

    /// the tree the implementation holds after all documents (rejected documents leave it as it was)
    pub fn final_tree(&self) -> Option<xml_schema_generator::Element<String>> {
        let mut tree: Option<xml_schema_generator::Element<String>> = None;
        for d in &self.docs {
            if let Step::Ok(e) = implrun::step(&d.bytes, self.cfg, tree.as_ref()) {
                tree = Some(e);
            }
        }
        tree
    }

    /// as `build`, but the first document extends `init` if one is given
    pub fn build_from(&self, init: Option<xml_schema_generator::Element<String>>) -> Built {
        let mut body = format!("D{}", self.docs.len());
        let mut info = Info { docs: self.docs.len(), ..Default::default() };
        let mut tree: Option<xml_schema_generator::Element<String>> = init;
        for d in &self.docs {
            info.bytes += d.bytes.len();
            let (evs, st) = record::record(&d.bytes, self.cfg);
            info.ev.start += st.start;
            info.ev.empty += st.empty;
            info.ev.end += st.end;
            info.ev.text += st.text;
            info.ev.cdata += st.cdata;
            info.ev.ignored += st.ignored;
            info.ev.err += st.err;
            info.ev.attr_errors += st.attr_errors;
            if let Some(k) = st.error_kind {
                info.error_kinds.push(k);
            }
            // no tree yet (first document, or every earlier one was rejected): into_struct; otherwise extend_struct
            let step = implrun::step(&d.bytes, self.cfg, tree.as_ref());
            let res = match implrun::result_tokens(&step) {
                Ok(t) => t,
                Err(p) => return if p.starts_with("panic") { Built::Panic(p) } else { Built::Harness(p) },
            };
            match step {
                Step::Ok(e) => {
                    tree = Some(e);
                    info.steps_ok += 1;
                }
                Step::Err(m, _) => {
                    info.steps_err += 1;
                    if st.err == 0 {
                        info.error_kinds.push(m.split_whitespace().take(3).collect::<Vec<_>>().join("_"));
                    }
                }
                Step::Panic(_) => unreachable!(),
            }
            body.push_str(&format!(
                " {} {} {}",
                match (&d.dom, &d.frag) {
                    (Some(doc), _) => doc.tokens(self.cfg.trim_text),
                    (None, Some(items)) => {
                        let mut s = String::from("FRG ");
                        crate::dom::item_tokens(items, self.cfg.trim_text, &mut s);
                        s
                    }
                    (None, None) => "-".to_string(),
                },
                evs,
                res
            ));
        }
        let mut renders: Vec<(usize, String)> = Vec::new();
        if let Some(t) = &tree {
            match implrun::tree_tokens(t) {
                Ok((_, d)) => {
                    info.nodes = d.node_count();
                    info.depth = depth(&d);
                    info.optional = d.count_optional();
                    info.multi = d.count_multi();
                    info.max_count = max_count(&d);
                    let mut names = Vec::new();
                    struct_names(&d, &mut names);
                    let n = names.len();
                    names.sort();
                    names.dedup();
                    info.duplicate_element_names = names.len() < n;
                }
                Err(e) => return Built::Harness(e),
            }
            for (i, o) in self.opts.iter().enumerate() {
                match implrun::render(t, o) {
                    Ok(txt) => {
                        if i == 0 {
                            info.collisions = txt.contains("_1") || txt.contains("_attr") || txt.contains("text_content");
                            info.render_len = txt.len();
                        }
                        renders.push((i, txt));
                    }
                    Err(p) => return Built::Panic(format!("panic in to_serde_struct: {}", p)),
                }
            }
            // C05: re-parse and re-render in this process; every HashMap gets fresh keys
            // every fourth repetition runs in a thread of its own: std's RandomState draws fresh random keys per thread
            for rep in 1..self.repeats {
                let run = |docs: &[DocInput], cfg: crate::record::ReaderCfg, opts: &[crate::proto::OptRec]| -> Vec<(usize, String)> {
                    let mut out = Vec::new();
                    let mut t2: Option<xml_schema_generator::Element<String>> = None;
                    for d in docs {
                        if let Step::Ok(e) = implrun::step(&d.bytes, cfg, t2.as_ref()) {
                            t2 = Some(e);
                        }
                    }
                    if let Some(t2) = &t2 {
                        for (i, o) in opts.iter().enumerate() {
                            if let Ok(txt) = implrun::render(t2, o) {
                                out.push((i, txt));
                            }
                        }
                    }
                    out
                };
                let got = if rep % 4 == 0 {
                    std::thread::scope(|sc| sc.spawn(|| run(&self.docs, self.cfg, &self.opts)).join().unwrap_or_default())
                } else {
                    run(&self.docs, self.cfg, &self.opts)
                };
                for (i, txt) in got {
                    if !renders.iter().any(|(j, t)| *j == i && *t == txt) {
                        renders.push((i, txt));
                    }
                }
            }
        }
        body.push_str(&format!(" R{}", renders.len()));
        for (i, txt) in &renders {
            body.push_str(&format!(" {} TX {}", self.opts[*i].tokens(), enc(txt)));
        }
        Built::Line { body, info }
    }

    pub fn to_json(&self) -> Value {
        json!({
            "kind": "history",
            "reader": {"trim_text": self.cfg.trim_text, "expand_empty_elements": self.cfg.expand_empty, "check_end_names": self.cfg.check_end_names, "capacity": self.cfg.capacity},
            "theme": self.theme,
            "repeats": self.repeats,
            "options": self.opts.iter().map(|o| json!({"text_identifier": o.text_identifier, "attribute_prefix": o.attribute_prefix, "derive": o.derive, "sort_by_name": o.sort_by_name})).collect::<Vec<_>>(),
            "documents": self.docs.iter().map(|d| json!({
                "generated": d.dom.is_some(),
                "fragment": d.frag.is_some(),
                "text": String::from_utf8_lossy(&d.bytes),
                "hex": d.bytes.iter().map(|b| format!("{:02x}", b)).collect::<String>(),
            })).collect::<Vec<_>>(),
        })
    }

    pub fn from_json(v: &Value) -> Result<HistoryCase, String> {
        let r = &v["reader"];
        let cfg = ReaderCfg {
            trim_text: r["trim_text"].as_bool().unwrap_or(false),
            expand_empty: r["expand_empty_elements"].as_bool().unwrap_or(false),
            check_end_names: r["check_end_names"].as_bool().unwrap_or(true),
            capacity: r["capacity"].as_u64().unwrap_or(0) as usize,
        };
        let default_opts = vec![json!({"text_identifier": "$text", "attribute_prefix": "@", "derive": "Serialize, Deserialize", "sort_by_name": false}),
            json!({"text_identifier": "$text", "attribute_prefix": "@", "derive": "Serialize, Deserialize", "sort_by_name": true})];
        let opts = v["options"]
            .as_array()
            .unwrap_or(&default_opts)
            .iter()
            .map(|o| OptRec {
                text_identifier: o["text_identifier"].as_str().unwrap_or("").to_string(),
                attribute_prefix: o["attribute_prefix"].as_str().unwrap_or("").to_string(),
                derive: o["derive"].as_str().unwrap_or("").to_string(),
                sort_by_name: o["sort_by_name"].as_bool().unwrap_or(false),
            })
            .collect();
        let mut docs = Vec::new();
        for d in v["documents"].as_array().ok_or("documents")? {
            let bytes: Vec<u8> = match d["hex"].as_str() {
                Some(hex) => (0..hex.len() / 2).map(|i| u8::from_str_radix(&hex[2 * i..2 * i + 2], 16).unwrap_or(0)).collect(),
                None => d["text"].as_str().ok_or("document without hex or text")?.as_bytes().to_vec(),
            };
            let generated = d["generated"].as_bool().unwrap_or(true);
            let dom = if generated { crate::xmlread::read_doc(&bytes) } else { None };
            let frag = if d["fragment"].as_bool().unwrap_or(false) { crate::xmlread::read_items(&bytes) } else { None };
            docs.push(DocInput { dom, frag, bytes });
        }
        Ok(HistoryCase { docs, cfg, opts, repeats: v["repeats"].as_u64().unwrap_or(1) as usize, theme: v["theme"].as_str().unwrap_or("").to_string() })
    }

    /// smaller variants of this case (DOM-level for generated documents, byte-level otherwise)
    pub fn shrink_candidates(&self) -> Vec<HistoryCase> {
        let mut out = Vec::new();
        // drop a document (never the only one)
        if self.docs.len() > 1 {
            for i in 0..self.docs.len() {
                let mut c = self.clone();
                c.docs.remove(i);
                out.push(c);
            }
        }
        for (i, d) in self.docs.iter().enumerate() {
            match &d.dom {
                Some(doc) => {
                    for smaller in shrink_doc(doc) {
                        let mut c = self.clone();
                        c.docs[i] = DocInput::from_dom(smaller);
                        out.push(c);
                    }
                }
                None => {
                    let n = d.bytes.len();
                    let mut chunk = n / 2;
                    while chunk >= 1 {
                        let mut start = 0;
                        while start < n {
                            let mut b = d.bytes.clone();
                            let end = (start + chunk).min(n);
                            b.drain(start..end);
                            let mut c = self.clone();
                            c.docs[i] = DocInput::from_bytes(b);
                            out.push(c);
                            start += chunk;
                        }
                        if out.len() > 400 {
                            break;
                        }
                        chunk /= 2;
                    }
                }
            }
        }
        if self.opts.len() > 1 {
            for i in 0..self.opts.len() {
                let mut c = self.clone();
                c.opts.remove(i);
                out.push(c);
            }
        }
        out
    }
}

pub fn shrink_node(n: &Node) -> Vec<Node> {
    let mut out = Vec::new();
    // drop an item
    for i in 0..n.items.len() {
        let mut c = n.clone();
        c.items.remove(i);
        out.push(c);
    }
    // drop an attribute
    for i in 0..n.attrs.len() {
        let mut c = n.clone();
        c.attrs.remove(i);
        out.push(c);
    }
    // hoist: replace a child by its own children
    for i in 0..n.items.len() {
        if let Item::Elem(ch) = &n.items[i] {
            if !ch.items.is_empty() {
                let mut c = n.clone();
                let inner: Vec<Item> = ch.items.clone();
                c.items.splice(i..i + 1, inner);
                out.push(c);
            }
        }
    }
    // recurse
    for i in 0..n.items.len() {
        if let Item::Elem(ch) = &n.items[i] {
            for s in shrink_node(ch) {
                let mut c = n.clone();
                c.items[i] = Item::Elem(s);
                out.push(c);
            }
        }
    }
    out
}

fn shrink_doc(d: &Doc) -> Vec<Doc> {
    let mut out = Vec::new();
    if !d.prolog.is_empty() || !d.epilog.is_empty() {
        out.push(Doc { prolog: vec![], root: d.root.clone(), epilog: vec![] });
    }
    for r in shrink_node(&d.root) {
        out.push(Doc { prolog: d.prolog.clone(), root: r, epilog: d.epilog.clone() });
    }
    out
}
