//! generated documents: a small DOM, its XML text and its protocol tokens
use crate::proto::enc;

#[derive(Clone, Debug, PartialEq)]
pub enum Item {
    Elem(Node),
    Text(String),    // contains a non-whitespace character
    Ws(String),      // whitespace only
    CData(String),
    Comment(String),
    PI(String),
    Decl(String),    // `<?xml …?>` (only before the root)
    DocType(String), // `<!DOCTYPE …>` (only before the root)
}

#[derive(Clone, Debug, PartialEq)]
pub struct Node {
    pub name: String,
    pub attrs: Vec<(String, String)>,
    pub self_closing: bool, // only honoured if there are no items
    pub items: Vec<Item>,
}

#[derive(Clone, Debug, PartialEq)]
pub struct Doc {
    pub prolog: Vec<Item>, // declaration / doctype / comments / white space before the root
    pub root: Node,
    pub epilog: Vec<Item>,
}

pub fn esc_attr(v: &str) -> String {
    v.replace('&', "&amp;").replace('<', "&lt;").replace('"', "&quot;").replace(ENT_OPEN, "&").replace(ENT_CLOSE, ";")
}

/// does the element (or a descendant) refer to an entity the reader does not know?
pub fn has_entity_markers(n: &Node) -> bool {
    n.attrs.iter().any(|(_, v)| v.contains(ENT_OPEN))
        || n.items.iter().any(|it| match it {
            Item::Text(t) => t.contains(ENT_OPEN),
            Item::Elem(c) => has_entity_markers(c),
            _ => false,
        })
}
/// `\u{E000}name\u{E001}` inside a text stands for the entity reference `&name;` (written unescaped): references to
/// entities the reader does not know are well-formed XML and still character data
pub const ENT_OPEN: char = '\u{E000}';
pub const ENT_CLOSE: char = '\u{E001}';

pub fn esc_text(v: &str) -> String {
    v.replace('&', "&amp;").replace('<', "&lt;").replace('>', "&gt;").replace(ENT_OPEN, "&").replace(ENT_CLOSE, ";")
}

/// the inverse for documents read back from text: `&name;` other than the predefined five becomes the marker form
pub fn mark_entities(s: &str) -> String {
    let mut out = String::new();
    let cs: Vec<char> = s.chars().collect();
    let mut i = 0;
    while i < cs.len() {
        if cs[i] == '&' {
            if let Some(len) = cs[i + 1..].iter().position(|c| *c == ';') {
                let name: String = cs[i + 1..i + 1 + len].iter().collect();
                let plain = !name.is_empty() && name.chars().all(|c| c.is_ascii_alphanumeric());
                if plain && !matches!(name.as_str(), "lt" | "gt" | "amp" | "quot" | "apos") {
                    out.push(ENT_OPEN);
                    out.push_str(&name);
                    out.push(ENT_CLOSE);
                    i += len + 2;
                    continue;
                }
            }
        }
        out.push(cs[i]);
        i += 1;
    }
    out
}

/// replace entity markers by plain characters (documents that are also fed to a deserializer)
pub fn strip_entity_markers(n: &mut Node) {
    for it in n.items.iter_mut() {
        match it {
            Item::Text(t) => {
                if t.contains(ENT_OPEN) {
                    *t = t.replace(ENT_OPEN, "e").replace(ENT_CLOSE, "e");
                }
            }
            Item::Elem(c) => strip_entity_markers(c),
            _ => {}
        }
    }
}

pub fn write_item(it: &Item, out: &mut String) {
    match it {
        Item::Elem(n) => n.write(out),
        Item::Text(t) | Item::Ws(t) => out.push_str(&esc_text(t)),
        Item::CData(t) => {
            out.push_str("<![CDATA[");
            out.push_str(t);
            out.push_str("]]>");
        }
        Item::Comment(t) => {
            out.push_str("<!--");
            out.push_str(t);
            out.push_str("-->");
        }
        Item::PI(t) => {
            out.push_str("<?");
            out.push_str(t);
            out.push_str("?>");
        }
        Item::Decl(t) => {
            out.push_str("<?");
            out.push_str(t);
            out.push_str("?>");
        }
        Item::DocType(t) => {
            out.push_str("<!DOCTYPE ");
            out.push_str(t);
            out.push('>');
        }
    }
}

pub fn item_tokens(items: &[Item], trim_text: bool, out: &mut String) {
    let mut body = String::new();
    let mut n = 0;
    for it in items {
        match it {
            Item::Elem(c) => {
                body.push_str(" n ");
                c.tokens(trim_text, &mut body);
                n += 1;
            }
            Item::Text(_) => {
                body.push_str(" t");
                n += 1;
            }
            Item::Ws(_) => {
                if !trim_text {
                    body.push_str(" t");
                    n += 1;
                }
            }
            Item::CData(_) => {
                body.push_str(" c");
                n += 1;
            }
            Item::Comment(_) | Item::PI(_) | Item::Decl(_) | Item::DocType(_) => {
                body.push_str(" o");
                n += 1;
            }
        }
    }
    out.push_str(&format!("I{}", n));
    out.push_str(&body);
}

impl Node {
    pub fn new(name: &str) -> Node {
        Node { name: name.to_string(), attrs: vec![], self_closing: false, items: vec![] }
    }
    pub fn write(&self, out: &mut String) {
        out.push('<');
        out.push_str(&self.name);
        for (k, v) in &self.attrs {
            out.push(' ');
            out.push_str(k);
            out.push_str("=\"");
            out.push_str(&esc_attr(v));
            out.push('"');
        }
        if self.items.is_empty() && self.self_closing {
            out.push_str("/>");
            return;
        }
        out.push('>');
        for it in &self.items {
            write_item(it, out);
        }
        out.push_str("</");
        out.push_str(&self.name);
        out.push('>');
    }
    /// the document as a reader with the given `trim_text` setting sees it
    pub fn tokens(&self, trim_text: bool, out: &mut String) {
        let sc = self.items.is_empty() && self.self_closing;
        out.push_str(&format!("N {} {} A{}", enc(&self.name), sc as u8, self.attrs.len()));
        for (k, _) in &self.attrs {
            out.push(' ');
            out.push_str(&enc(k));
        }
        out.push(' ');
        item_tokens(&self.items, trim_text, out);
    }
    pub fn depth(&self) -> usize {
        1 + self.items.iter().map(|i| if let Item::Elem(n) = i { n.depth() } else { 0 }).max().unwrap_or(0)
    }
    pub fn size(&self) -> usize {
        1 + self.items.iter().map(|i| if let Item::Elem(n) = i { n.size() } else { 1 }).sum::<usize>()
    }
    pub fn children(&self) -> impl Iterator<Item = &Node> {
        self.items.iter().filter_map(|i| if let Item::Elem(n) = i { Some(n) } else { None })
    }
    /// every element name and attribute name in the subtree
    pub fn all_names(&self, out: &mut Vec<String>) {
        out.push(self.name.clone());
        for (k, _) in &self.attrs {
            out.push(k.clone());
        }
        for c in self.children() {
            c.all_names(out);
        }
    }
}

impl Doc {
    pub fn plain(root: Node) -> Doc {
        Doc { prolog: vec![], root, epilog: vec![] }
    }
    pub fn to_xml(&self) -> String {
        let mut s = String::new();
        for it in &self.prolog {
            write_item(it, &mut s);
        }
        self.root.write(&mut s);
        for it in &self.epilog {
            write_item(it, &mut s);
        }
        s
    }
    /// `DOC <misc> <node> <misc>`
    pub fn tokens(&self, trim_text: bool) -> String {
        let mut s = String::from("DOC ");
        item_tokens(&self.prolog, trim_text, &mut s);
        s.push(' ');
        self.root.tokens(trim_text, &mut s);
        s.push(' ');
        item_tokens(&self.epilog, trim_text, &mut s);
        s
    }
}
