mod cases2;
mod cli;
mod compile;
mod debugparse;
mod dom;
mod driver;
mod gen;
mod hcase;
mod implrun;
mod inventory;
mod proto;
mod record;
mod rng;
mod run;
mod xmlread;

fn main() {
    std::panic::set_hook(Box::new(|_| {}));
    let args: Vec<String> = std::env::args().collect();
    let code = run::main(&args[1..]);
    std::process::exit(code);
}
